#!/usr/bin/env python3
"""Adds to the triage tables, for every entry that is found by its name key on the current tree, a second key: the
shape of the enclosing function (see analyzer/fingerprint.go). Run after editing a table or after the tree changed under
an entry: `python3 gen_shape_keys.py` (idempotent; stale shape keys of an entry are replaced)."""
import json, os, re, subprocess
out = ""
for i in range(1, 21):
    p = subprocess.run(["./bin/dawgsvet", "-property", "C%02d" % i, "-verif", "/tmp/verif_dev"], cwd="/verif", env=dict(os.environ, DAWGSVET_FP="1"), stdout=subprocess.PIPE, stderr=subprocess.STDOUT, text=True)
    out += p.stdout
pairs = set(re.findall(r'^FP (\S+) "((?:[^"\\]|\\.)*)" => "((?:[^"\\]|\\.)*)"$', out, re.M))
bytable = {}
for t, k, fp in pairs:
    bytable.setdefault(t, []).append((k, fp))
for t, items in sorted(bytable.items()):
    path = "/verif/tables/%s.json" % t
    doc = json.load(open(path))
    ent = doc["entries"] if "entries" in doc else doc
    for k in [k for k, v in ent.items() if k.startswith(("shape:", "position:", "via:", "assert-field|"))]:
        del ent[k]
    for k, fp in sorted(items):
        ent[fp] = "the construct listed as %r, recognised by shape or by exported vocabulary when private names have changed: %s" % (k, ent[k][:200])
    json.dump(doc, open(path, "w"), indent=1, ensure_ascii=False)
    print(t, len(items), "shape keys")
