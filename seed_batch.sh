#!/bin/bash
# usage: seed_batch.sh <round-prefix> <Cxx> [...]   evaluates /tmp/seedout<round-number>_<Cxx>/{A,B,C}
# (serial: every evaluation applies its patch to /repo and restores it afterwards)
pre=$1; shift
n=${pre#r}
mkdir -p /tmp/seedlog_$pre
for id in "$@"; do
  for s in A B C; do
    d=/tmp/seedout${n}_$id/$s
    [ -f $d/patch.diff ] || continue
    python3 /verif/seed_eval.py $d --keep-as $pre-$id-$s > /tmp/seedlog_$pre/$id-$s.json 2>&1
    python3 - <<P
import json
try:
    o=json.load(open('/tmp/seedlog_$pre/$id-$s.json'))
    print('$pre-$id-$s', 'applies',o.get('patch_applies'),'suite',o.get('suite_passes_with_patch'),'demoF',o.get('demo_fails_with_patch'),'demoP',o.get('demo_passes_without_patch'),'det',o.get('detected_by'),'und',o.get('undecided_in'), o.get('error','')[:100])
except Exception as e:
    print('$pre-$id-$s', 'ERR', e)
P
  done
done
