#!/usr/bin/env python3
"""Confirm a seeded property-breaking change and run every check against it.

usage: seed_eval.py <dir-with patch.diff, demo/, meta.json> [--keep-as <id>]

1. In a scratch worktree of /repo (under /tmp, removed afterwards): the patch applies, the tree builds, the whole
   pinned test suite still passes, the demonstration FAILS with the patch and PASSES without it.
2. The patch is applied to /repo itself, every check's quick command is run, and /repo is restored
   (git checkout -- . ; untracked files created by the patch are removed).
Prints a JSON summary; with --keep-as the change is copied to /verif/seeded/<id>/ with the summary merged into meta.json.
"""
import json, os, shutil, subprocess, sys, tempfile

ENV = dict(os.environ, PATH="/opt/veriftools/go1.26.8/bin:" + os.environ["PATH"], GOFLAGS="-mod=mod", GOPROXY="off",
           GOSUMDB="off", GOTOOLCHAIN="local")
ENV.pop("GOWORK", None)


def sh(cmd, cwd, timeout=1800):
    p = subprocess.run(cmd, cwd=cwd, shell=True, env=ENV, stdout=subprocess.PIPE, stderr=subprocess.STDOUT, timeout=timeout, text=True)
    return p.returncode, p.stdout


def main():
    src = os.path.abspath(sys.argv[1])
    keep = sys.argv[3] if len(sys.argv) > 3 and sys.argv[2] == "--keep-as" else None
    patch = os.path.join(src, "patch.diff")
    meta = json.load(open(os.path.join(src, "meta.json")))
    demo_root = os.path.join(src, "demo")
    out = {"source": src, "property": meta.get("property")}
    wt = tempfile.mkdtemp(prefix="sv_", dir="/tmp")
    os.rmdir(wt)
    rc, o = sh(f"git -C /repo worktree add -q {wt} HEAD", "/")
    try:
        rc, o = sh(f"git apply --whitespace=nowarn {patch}", wt)
        out["patch_applies"] = rc == 0
        if rc != 0:
            out["error"] = o[-400:]
            return out
        rc, o = sh("go build ./...", wt)
        out["builds"] = rc == 0
        rc, o = sh("go test -vet=off -count=1 ./... 2>&1 | grep -v '^ok\\|no test files' | tail -20", wt)
        out["suite_passes_with_patch"] = "FAIL" not in o and "panic" not in o
        if not out["suite_passes_with_patch"]:
            out["suite_output"] = o[-800:]
        # demo
        demo_files = []
        for root, _, files in os.walk(demo_root):
            for f in files:
                rel = os.path.relpath(os.path.join(root, f), demo_root)
                os.makedirs(os.path.dirname(os.path.join(wt, rel)) or wt, exist_ok=True)
                shutil.copy(os.path.join(root, f), os.path.join(wt, rel))
                demo_files.append(rel)
        out["demo_files"] = demo_files
        cmd = meta.get("demo_cmd", "")
        rc, o = sh(cmd, wt, timeout=1200)
        out["demo_fails_with_patch"] = rc != 0
        out["demo_output_with_patch"] = o[-600:]
        sh(f"git apply -R --whitespace=nowarn {patch}", wt)
        rc, o = sh(cmd, wt, timeout=1200)
        out["demo_passes_without_patch"] = rc == 0
        if rc != 0:
            out["demo_output_without_patch"] = o[-600:]
    finally:
        sh(f"git -C /repo worktree remove --force {wt}", "/")
        shutil.rmtree(wt, ignore_errors=True)
    # run the checks against /repo with the patch applied
    rc, o = sh("git status --porcelain", "/repo")
    if o.strip():
        out["error"] = "/repo is not clean: " + o[:200]
        return out
    rc, o = sh(f"git apply --whitespace=nowarn {patch}", "/repo")
    try:
        manifest = json.load(open("/verif/MANIFEST.json"))
        verdicts = {}
        for c in manifest["checks"]:
            rc, o = sh(c["quick_cmd"], "/verif", timeout=600)
            lines = [l for l in o.splitlines() if "VIOLATION" in l or "UNDECIDED" in l or ": [" in l and "KNOWN-FINDING" not in l]
            verdicts[c["property_id"]] = {"exit": rc, "report": [l[:300] for l in lines[:6]]}
        out["checks"] = {k: v for k, v in verdicts.items() if v["exit"] != 0}
        out["detected_by"] = sorted(k for k, v in verdicts.items() if v["exit"] == 1)
        out["undecided_in"] = sorted(k for k, v in verdicts.items() if v["exit"] == 2)
    finally:
        sh("git checkout -- . && git clean -fdq", "/repo")
        # restore evidence written during the mutated runs
        sh("git checkout -- evidence 2>/dev/null; true", "/verif")
    if keep:
        dst = os.path.join("/verif/seeded", keep)
        if os.path.exists(dst):
            shutil.rmtree(dst)
        shutil.copytree(src, dst)
        meta["confirmed"] = {k: out.get(k) for k in ("patch_applies", "builds", "suite_passes_with_patch", "demo_fails_with_patch", "demo_passes_without_patch")}
        meta["checks_run"] = "every quick_cmd of MANIFEST.json with the patch applied to /repo, then git checkout -- ."
        meta["detected_by"] = out.get("detected_by")
        meta["undecided_in"] = out.get("undecided_in")
        meta["reports"] = out.get("checks")
        json.dump(meta, open(os.path.join(dst, "meta.json"), "w"), indent=1)
    return out


if __name__ == "__main__":
    print(json.dumps(main(), indent=1))
