#!/bin/bash
# usage: patch_eval.sh <patch.diff> [...]   — judge each patch, applied in memory, with all twenty checks (nothing is written)
cd /verif
for p in "$@"; do
  out=$(for i in $(seq -w 1 20); do echo C$i; done | xargs -P 10 -I{} sh -c "./bin/dawgsvet -property {} -patch $p 2>&1 | grep '^PATCH-' | cut -c1-400")
  if [ -z "$out" ]; then echo "$p: silent"; else echo "$p:"; echo "$out" | sed 's/^/    /'; fi
done
