#!/bin/bash
# Runs /repo's pinned test suite (guard off: there are no hooks) and compares with BASELINE.json's stable_pass list.
export PATH=/opt/veriftools/go1.26.8/bin:$PATH GOFLAGS=-mod=mod GOPROXY=off GOSUMDB=off GOTOOLCHAIN=local
unset GOWORK
cd /repo && go test -mod=mod -json -vet=off -count=1 -timeout 25m ./... > /tmp/baseline_run.json 2>/tmp/baseline_run.err
python3 - <<'P'
import json
base=set(json.load(open('/root/.vp/BASELINE.json'))['stable_pass'])
res={}
for l in open('/tmp/baseline_run.json'):
    try: d=json.loads(l)
    except Exception: continue
    if d.get('Test') and d.get('Action') in ('pass','fail','skip'):
        res[d['Package']+'::'+d['Test']]=d['Action']
passed={k for k,v in res.items() if v=='pass'}
missing=sorted(base-passed)
print('baseline stable_pass:',len(base),'passed now:',len(passed),'missing:',len(missing))
for m in missing[:40]: print('  NOT PASSING:',m,res.get(m))
import sys
sys.exit(1 if missing else 0)
P
rc=$?
rm -f /tmp/baseline_run.json /tmp/baseline_run.err
exit $rc
