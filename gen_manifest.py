#!/usr/bin/env python3
# Generates MANIFEST.json from checks.json (per-property claims) — keeps the manifest valid and in one place.
import json, sys
claims = json.load(open('/verif/checks.json'))
props = [json.loads(l) for l in open('/verif/properties.jsonl')]
env = "PATH=/opt/veriftools/go1.26.8/bin:$PATH GOFLAGS=-mod=mod GOPROXY=off GOSUMDB=off GOTOOLCHAIN=local GOWORK=off"
m = {
 "version": 1,
 "setup_cmd": f"cd analyzer && {env} go build -o ../bin/dawgsvet . && cd .. && ./bin/dawgsvet -list",
 "hooks": {"guard": "verif", "enable": "none needed: the analyser reads /repo's source; no hooks or instrumentation exist", 
           "baseline_off_cmd": "cd /repo && PATH=/opt/veriftools/go1.26.8/bin:$PATH GOFLAGS=-mod=mod GOPROXY=off GOSUMDB=off GOTOOLCHAIN=local go test -mod=mod -json -vet=off -count=1 -timeout 25m ./...",
           "source_commits": claims.get("_fix_commits", []), "add_only": True},
 "engines": [{"name": "dawgsvet", "path": "analyzer/", "serves_properties": sorted(k for k in claims if not k.startswith('_')),
              "kind_free_text": "custom static analyser (go/packages + go/types + go/cfg over type-checked syntax, an AST+CHA call graph, ANTLR grammar model); decides each property from /repo's current source without executing it"}],
 "checks": [], "not_applicable": [],
 "notes": "All checks are static analyses of /repo's working tree (see DESIGN.md). Exit 0 held / 1 violation / 2 undecided (analysis could not be completed; never reported as pass or violation). known_findings.json lists genuine defects recorded rather than repaired."
}
for p in props:
    pid = p['id']
    c = claims.get(pid)
    if c is None or c.get('not_applicable'):
        m['not_applicable'].append({"property_id": pid, "reason": (c or {}).get('not_applicable', 'check not built yet')})
        continue
    m['checks'].append({
        "property_id": pid,
        "quick_cmd": f"./bin/dawgsvet -property {pid} -tier quick",
        "thorough_cmd": f"./bin/dawgsvet -property {pid} -tier thorough",
        "evidence_file": f"evidence/{pid}.json",
        "replay_cmd_template": f"./bin/dawgsvet -property {pid} -tier quick  # deterministic re-analysis; {{path}} lists the violating constructs",
        "engine": "dawgsvet",
        "level_claimed": {"category": c['level'], "text": c['text'], "design_ref": c.get('design_ref', '')},
        "level_note": c['note'],
        "technique": c['technique'],
    })
json.dump(m, open('/verif/MANIFEST.json', 'w'), indent=1)
print("checks:", [c['property_id'] for c in m['checks']], "n/a:", len(m['not_applicable']))
