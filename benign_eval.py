#!/usr/bin/env python3
"""Run every check's quick command against behaviour-preserving refactorings and report any check that does not exit 0.

usage: benign_eval.py <dir-with patch.diff, meta.json> [...]
For each: apply patch.diff to /repo, build, run the 20 quick commands in parallel, restore /repo and the evidence.
Prints one line per refactoring: id, build ok, checks that exited 1 (alarm) or 2 (undecided) with their first lines.
"""
import json, os, subprocess, sys, concurrent.futures as cf

ENV = dict(os.environ, PATH="/opt/veriftools/go1.26.8/bin:" + os.environ["PATH"], GOFLAGS="-mod=mod", GOPROXY="off", GOSUMDB="off", GOTOOLCHAIN="local")
ENV.pop("GOWORK", None)


def sh(cmd, cwd):
    p = subprocess.run(cmd, cwd=cwd, shell=True, env=ENV, stdout=subprocess.PIPE, stderr=subprocess.STDOUT, text=True)
    return p.returncode, p.stdout


def main():
    manifest = json.load(open("/verif/MANIFEST.json"))
    out = {}
    for d in sys.argv[1:]:
        d = os.path.abspath(d)
        name = "/".join(d.split("/")[-2:])
        rc, o = sh("git status --porcelain", "/repo")
        if o.strip():
            print("repo not clean", o[:200])
            return
        rc, o = sh(f"git apply --whitespace=nowarn {d}/patch.diff", "/repo")
        if rc != 0:
            print(name, "PATCH DOES NOT APPLY", o[:200])
            continue
        try:
            rc, o = sh("go build ./... && go vet ./cypher/... ./graph/... ./retriever/... ./container/... ./algo/... ./cache/... ./cardinality/... ./traversal/... ./util/... ./query/... ./drivers/... 2>&1 | tail -3", "/repo")
            builds = rc == 0

            def run(c):
                rc, o = sh(c["quick_cmd"], "/verif")
                lines = [l for l in o.splitlines() if "VIOLATION" in l or "UNDECIDED" in l or ": [" in l and "KNOWN-FINDING" not in l]
                return c["property_id"], rc, [l[:400] for l in lines[:5]]
            with cf.ThreadPoolExecutor(max_workers=10) as ex:
                res = list(ex.map(run, manifest["checks"]))
        finally:
            sh("git checkout -- . && git clean -fdq", "/repo")
            sh("git checkout -- evidence 2>/dev/null; true", "/verif")
        bad = {p: {"exit": rc, "report": rep} for p, rc, rep in res if rc != 0}
        out[name] = {"builds": builds, "bad": bad}
        print(name, "builds", builds, "alarms", sorted(p for p, v in bad.items() if v["exit"] == 1), "undecided", sorted(p for p, v in bad.items() if v["exit"] == 2))
        for p, v in bad.items():
            for l in v["report"][:3]:
                print("    ", p, l[:300])
    json.dump(out, open("/tmp/benign_eval_last.json", "w"), indent=1)


if __name__ == "__main__":
    main()
