#!/usr/bin/env python3
"""Prints the markdown tables of DESIGN.md section 11 from /verif/seeded/*/meta.json and seeded/FIRST_RUN.json."""
import json, os, re, sys

root = '/verif/seeded'
_fr = json.load(open(os.path.join(root, 'FIRST_RUN.json')))
first = dict(_fr['first_run'])
first.update(_fr.get('first_run_round3', {}))
first.update(_fr.get('first_run_round4', {}))
twin4 = _fr.get('first_run_round4_corrected_twin_tripped', {})


def rules_of(meta):
    out = []
    for prop, rep in (meta.get('reports') or {}).items():
        for line in rep.get('report', []):
            for m in re.findall(r'\[(C\d\d-[A-Za-z0-9\-]+)\]', line):
                if m not in out:
                    out.append(m)
    return out


def short(s, n):
    s = ' '.join(str(s).split())
    s = s.replace('|', '/')
    return s if len(s) <= n else s[:n - 1] + '…'


def table(ids, with_first):
    hdr = '| id | file(s) | what the change does | needs to manifest | ' + ('first run | ' if with_first else '') + 'reported by (rules) |'
    sep = '|' + '---|' * (6 if with_first else 5)
    print(hdr)
    print(sep)
    for sid in ids:
        mp = os.path.join(root, sid, 'meta.json')
        if not os.path.exists(mp):
            continue
        m = json.load(open(mp))
        files = ', '.join(os.path.basename(f) for f in m.get('files_changed', []))
        det = m.get('detected_by') or []
        und = m.get('undecided_in') or []
        conf = m.get('confirmed', {})
        rules = rules_of(m)
        if m.get('superseded'):
            now = 'superseded: ' + m['superseded']
        elif conf and not conf.get('patch_applies', True):
            now = 'patch no longer applies'
        elif det:
            now = ', '.join(det) + ' — ' + ', '.join('`%s`' % r for r in rules[:4])
        elif und:
            now = 'undecided in ' + ', '.join(und)
        else:
            now = '**not reported** (' + m.get('not_reported_reason', 'value-level, see text') + ')'
        row = [sid, short(files, 60), short(m.get("summary", ""), 170), short(m.get("needs_to_manifest", ""), 120)]
        if with_first:
            f = first.get(sid, [])
            cell = ', '.join(f) if f else '—'
            if f and sid in twin4:
                cell = '[' + cell + ']'
            row.append(cell)
        row.append(now)
        print('| ' + ' | '.join(row) + ' |')


all_ids = sorted(d for d in os.listdir(root) if os.path.isdir(os.path.join(root, d)))
r1 = [d for d in all_ids if not d.startswith('r2-') and not d.startswith('r3-') and not d.startswith('r4-')]
r4 = [d for d in all_ids if d.startswith('r4-')]
r3 = [d for d in all_ids if d.startswith('r3-')]
r2 = [d for d in all_ids if d.startswith('r2-')]
which = sys.argv[1] if len(sys.argv) > 1 else 'both'
if which in ('r1', 'both'):
    print('#### Round 1\n')
    table(r1, True)
if which in ('r2', 'both'):
    print('\n#### Round 2\n')
    table(r2, False)
if which in ('r3', 'both'):
    print('\n#### Round 3\n')
    table(r3, True)
if which in ('r4', 'both'):
    print('\n#### Round 4 (refactorings with one slip; "first run" in brackets when the corrected twin tripped the same check)\n')
    table(r4, True)
