package main

// C12 rules about the slice and pointer representation under the tracking table:
//
//	R7 kinds-no-in-place-edit   a Kinds method never rewrites elements of the slice it was handed (append to a bounded
//	                            reslice, element assignment, copy into it): the slice's backing array is shared with the
//	                            caller's argument list and with every entity built from the same slice
//	R8 kinds-equality           the Kinds methods that look a kind up all use the same equality
//	R9 entity-nil-properties    an entity type that allows for a nil Properties pointer somewhere does not call a
//	                            Properties method that dereferences its receiver without a guard elsewhere

import (
	"go/ast"
	"go/token"
	"go/types"
	"sort"
	"strings"

	"golang.org/x/tools/go/packages"
)

func kindsMethods(gp *packages.Package) []*ast.FuncDecl {
	var out []*ast.FuncDecl
	for _, f := range gp.Syntax {
		for _, d := range f.Decls {
			if fd, ok := d.(*ast.FuncDecl); ok && fd.Body != nil && fd.Recv != nil && recvTypeName(fd.Recv.List[0].Type) == "Kinds" {
				out = append(out, fd)
			}
		}
	}
	sort.Slice(out, func(i, j int) bool { return out[i].Name.Name < out[j].Name.Name })
	return out
}

func checkKindsInPlace(r *Run, gp *packages.Package) {
	info := gp.TypesInfo
	n := 0
	for _, fd := range kindsMethods(gp) {
		// slices the method does not own: the receiver and slice-typed parameters
		foreign := map[types.Object]bool{}
		for _, fl := range []*ast.FieldList{fd.Recv, fd.Type.Params} {
			if fl == nil {
				continue
			}
			for _, f := range fl.List {
				for _, nm := range f.Names {
					if obj := info.Defs[nm]; obj != nil {
						if _, isSlice := obj.Type().Underlying().(*types.Slice); isSlice {
							foreign[obj] = true
						}
					}
				}
			}
		}
		if len(foreign) == 0 {
			continue
		}
		n++
		// local aliases: x := s, x := s[a:b]
		changed := true
		for changed {
			changed = false
			ast.Inspect(fd.Body, func(x ast.Node) bool {
				as, ok := x.(*ast.AssignStmt)
				if !ok || len(as.Lhs) != len(as.Rhs) {
					return true
				}
				for i, lhs := range as.Lhs {
					id, ok := lhs.(*ast.Ident)
					if !ok {
						continue
					}
					obj := info.ObjectOf(id)
					if obj == nil || foreign[obj] {
						continue
					}
					if base := sliceBase(info, as.Rhs[i]); base != nil && foreign[base] {
						foreign[obj] = true
						changed = true
					}
				}
				return true
			})
		}
		bad, what := token.NoPos, ""
		ast.Inspect(fd.Body, func(x ast.Node) bool {
			if bad != token.NoPos {
				return false
			}
			switch t := x.(type) {
			case *ast.CallExpr:
				if id, ok := t.Fun.(*ast.Ident); ok && len(t.Args) >= 1 {
					if _, isBuiltin := info.Uses[id].(*types.Builtin); isBuiltin {
						switch id.Name {
						case "append":
							// append(x[:i], ...) with a high bound writes at x[i]; append(x, ...) only beyond len(x)
							if se, ok := ast.Unparen(t.Args[0]).(*ast.SliceExpr); ok && se.High != nil && len(t.Args) > 1 {
								if base := sliceBase(info, se.X); base != nil && foreign[base] {
									bad, what = t.Pos(), "appends to a bounded reslice of "+base.Name()+", which overwrites the elements behind the bound"
								}
							}
						case "copy":
							if base := sliceBase(info, t.Args[0]); base != nil && foreign[base] {
								bad, what = t.Pos(), "copies into "+base.Name()
							}
						}
					}
				}
			case *ast.AssignStmt:
				for _, lhs := range t.Lhs {
					if ix, ok := ast.Unparen(lhs).(*ast.IndexExpr); ok {
						if base := sliceBase(info, ix.X); base != nil && foreign[base] {
							bad, what = t.Pos(), "assigns an element of "+base.Name()
						}
					}
				}
			}
			return true
		})
		construct := "Kinds." + fd.Name.Name
		if bad != token.NoPos {
			r.Fail("C12-R7-kinds-no-in-place-edit", construct, bad, "Kinds.%s %s: the backing array belongs to the caller too — node.DeleteKinds(node.Kinds...) then iterates a list that is being shifted under it, and two entities built from one slice rewrite each other's kinds without any delta being recorded", fd.Name.Name, what)
		} else {
			r.Pass("C12-R7-kinds-no-in-place-edit", construct, fd.Pos(), "never rewrites an element of the receiver or of a slice argument")
		}
	}
	if n == 0 {
		r.Undecide("C12-R7: no method of graph.Kinds found")
	}
}

// sliceBase: the variable a (re)slice expression is based on, through s[a:b], (s) and conversions.
func sliceBase(info *types.Info, e ast.Expr) *types.Var {
	for {
		e = ast.Unparen(e)
		switch t := e.(type) {
		case *ast.SliceExpr:
			e = t.X
			continue
		case *ast.CallExpr:
			if tv, ok := info.Types[t.Fun]; ok && tv.IsType() && len(t.Args) == 1 {
				e = t.Args[0]
				continue
			}
		case *ast.Ident:
			if v, ok := info.ObjectOf(t).(*types.Var); ok {
				return v
			}
		}
		return nil
	}
}

func checkKindsEquality(r *Run, gp *packages.Package) {
	info := gp.TypesInfo
	kindIface := gp.Types.Scope().Lookup("Kind")
	if kindIface == nil {
		r.Undecide("C12-R8: graph.Kind not found")
		return
	}
	isKind := func(e ast.Expr) bool {
		t := info.TypeOf(e)
		return t != nil && types.Identical(t, kindIface.Type())
	}
	type use struct {
		method string
		pos    token.Pos
		is, eq bool
	}
	var uses []use
	// a method that looks kinds up through a sibling (ContainsOneOf, a private indexOf) uses that sibling's equality
	methods := kindsMethods(gp)
	byObj := map[types.Object]*ast.FuncDecl{}
	for _, fd := range methods {
		byObj[info.Defs[fd.Name]] = fd
	}
	own := map[*ast.FuncDecl][2]bool{}
	for _, fd := range methods {
		var is, eq bool
		ast.Inspect(fd.Body, func(x ast.Node) bool {
			switch t := x.(type) {
			case *ast.BinaryExpr:
				if (t.Op == token.EQL || t.Op == token.NEQ) && isKind(t.X) && isKind(t.Y) && !isNilIdent(info, ast.Unparen(t.X)) && !isNilIdent(info, ast.Unparen(t.Y)) {
					eq = true
				}
			case *ast.CallExpr:
				if sel, ok := t.Fun.(*ast.SelectorExpr); ok && sel.Sel.Name == "Is" && isKind(sel.X) {
					is = true
				}
			}
			return true
		})
		own[fd] = [2]bool{is, eq}
	}
	viaSibling := map[*ast.FuncDecl]bool{}
	for round := 0; round < 4; round++ {
		for _, fd := range methods {
			ast.Inspect(fd.Body, func(x ast.Node) bool {
				if call, ok := x.(*ast.CallExpr); ok {
					if sib := byObj[calleeOf(info, call)]; sib != nil && sib != fd && (own[sib][0] || viaSibling[sib]) {
						viaSibling[fd] = true
					}
				}
				return true
			})
		}
	}
	for _, fd := range methods {
		u := use{method: fd.Name.Name}
		if viaSibling[fd] {
			u.is = true
		}
		ast.Inspect(fd.Body, func(x ast.Node) bool {
			switch t := x.(type) {
			case *ast.BinaryExpr:
				if (t.Op == token.EQL || t.Op == token.NEQ) && isKind(t.X) && isKind(t.Y) && !isNilIdent(info, ast.Unparen(t.X)) && !isNilIdent(info, ast.Unparen(t.Y)) {
					u.eq = true
					if u.pos == token.NoPos {
						u.pos = t.Pos()
					}
				}
			case *ast.CallExpr:
				if sel, ok := t.Fun.(*ast.SelectorExpr); ok && sel.Sel.Name == "Is" && isKind(sel.X) {
					u.is = true
				}
				// delegation to a sibling that looks kinds up (ContainsOneOf) counts as that sibling's equality
				if sel, ok := t.Fun.(*ast.SelectorExpr); ok && sel.Sel.Name == "ContainsOneOf" {
					u.is = true
				}
			}
			return true
		})
		if u.is || u.eq {
			if u.pos == token.NoPos {
				u.pos = fd.Pos()
			}
			uses = append(uses, u)
		}
	}
	if len(uses) < 3 {
		r.Undecide("C12-R8: fewer than three Kinds methods that compare kinds (%d)", len(uses))
		return
	}
	anyIs := false
	for _, u := range uses {
		if u.is {
			anyIs = true
		}
	}
	for _, u := range uses {
		construct := "Kinds." + u.method
		if anyIs && u.eq && !u.is {
			r.Fail("C12-R8-kinds-equality", construct, u.pos, "Kinds.%s finds a kind by identity (==) only, while its siblings find it with Kind.Is: a kind that Add treats as already present cannot be found by this method, so the tracked lists disagree about it (present and deleted, or added and deleted)", u.method)
		} else {
			r.Pass("C12-R8-kinds-equality", construct, u.pos, "looks kinds up with the same equality as its siblings")
		}
	}
}

func checkEntityNilProperties(r *Run, gp *packages.Package) {
	info := gp.TypesInfo
	// Properties methods that guard a nil receiver themselves
	nilSafe := map[string]bool{}
	for _, f := range gp.Syntax {
		for _, d := range f.Decls {
			fd, ok := d.(*ast.FuncDecl)
			if !ok || fd.Body == nil || fd.Recv == nil || recvTypeName(fd.Recv.List[0].Type) != "Properties" || len(fd.Recv.List[0].Names) == 0 {
				continue
			}
			recv := info.Defs[fd.Recv.List[0].Names[0]]
			derefs, guarded := false, false
			ast.Inspect(fd.Body, func(x ast.Node) bool {
				switch t := x.(type) {
				case *ast.BinaryExpr:
					if t.Op == token.EQL || t.Op == token.NEQ {
						if id, ok := ast.Unparen(t.X).(*ast.Ident); ok && info.Uses[id] == recv && isNilIdent(info, ast.Unparen(t.Y)) {
							guarded = true
						}
					}
				case *ast.SelectorExpr:
					if id, ok := ast.Unparen(t.X).(*ast.Ident); ok && info.Uses[id] == recv {
						if _, isField := info.Uses[t.Sel].(*types.Var); isField {
							derefs = true
						}
					}
				case *ast.StarExpr:
					if id, ok := ast.Unparen(t.X).(*ast.Ident); ok && info.Uses[id] == recv {
						derefs = true
					}
				}
				return true
			})
			if guarded || !derefs {
				nilSafe[fd.Name.Name] = true
			}
		}
	}
	for _, owner := range []string{"Node", "Relationship"} {
		type site struct {
			fd   *ast.FuncDecl
			call *ast.CallExpr
			recv types.Object
		}
		var sites []site
		allowsNil := token.NoPos
		for _, f := range gp.Syntax {
			for _, d := range f.Decls {
				fd, ok := d.(*ast.FuncDecl)
				if !ok || fd.Body == nil || fd.Recv == nil || recvTypeName(fd.Recv.List[0].Type) != owner || len(fd.Recv.List[0].Names) == 0 {
					continue
				}
				recv := info.Defs[fd.Recv.List[0].Names[0]]
				isRecvProps := func(e ast.Expr) bool {
					sel, ok := ast.Unparen(e).(*ast.SelectorExpr)
					if !ok || sel.Sel.Name != "Properties" {
						return false
					}
					id, ok := ast.Unparen(sel.X).(*ast.Ident)
					return ok && info.Uses[id] == recv
				}
				ast.Inspect(fd.Body, func(x ast.Node) bool {
					switch t := x.(type) {
					case *ast.BinaryExpr:
						if (t.Op == token.EQL || t.Op == token.NEQ) && isRecvProps(t.X) && isNilIdent(info, ast.Unparen(t.Y)) && allowsNil == token.NoPos {
							allowsNil = t.Pos()
						}
					case *ast.CallExpr:
						if sel, ok := t.Fun.(*ast.SelectorExpr); ok && isRecvProps(sel.X) {
							sites = append(sites, site{fd, t, recv})
						}
					}
					return true
				})
			}
		}
		if allowsNil == token.NoPos {
			r.Pass("C12-R9-entity-nil-properties", owner, token.NoPos, "no method of %s allows for a nil Properties pointer: nothing to contradict", owner)
			continue
		}
		for _, s := range sites {
			sel := s.call.Fun.(*ast.SelectorExpr)
			construct := owner + "." + s.fd.Name.Name + "→Properties." + sel.Sel.Name
			if nilSafe[sel.Sel.Name] {
				r.Pass("C12-R9-entity-nil-properties", construct, s.call.Pos(), "the callee guards a nil receiver itself")
				continue
			}
			if propsGuarded(r, info, s.fd, s.call, s.recv) {
				r.Pass("C12-R9-entity-nil-properties", construct, s.call.Pos(), "reached only where the Properties pointer is known to be set")
			} else {
				r.Fail("C12-R9-entity-nil-properties", construct, s.call.Pos(), "%s.%s calls Properties.%s, which dereferences its receiver, without allowing for a nil Properties pointer, while %s does allow for one: an entity created without properties panics here instead of recording the edit", owner, s.fd.Name.Name, sel.Sel.Name, r.Fset.Position(allowsNil))
			}
		}
	}
}

// propsGuarded: the call is control dependent on `recv.Properties != nil`, or an earlier statement of the function
// either assigns recv.Properties or leaves when it is nil.
func propsGuarded(r *Run, info *types.Info, fd *ast.FuncDecl, call *ast.CallExpr, recv types.Object) bool {
	isProps := func(e ast.Expr) bool {
		sel, ok := ast.Unparen(e).(*ast.SelectorExpr)
		if !ok || sel.Sel.Name != "Properties" {
			return false
		}
		id, ok := ast.Unparen(sel.X).(*ast.Ident)
		return ok && info.Uses[id] == recv
	}
	nilTest := func(e ast.Expr, op token.Token) bool {
		be, ok := ast.Unparen(e).(*ast.BinaryExpr)
		return ok && be.Op == op && isProps(be.X) && isNilIdent(info, ast.Unparen(be.Y))
	}
	var conjuncts func(e ast.Expr) []ast.Expr
	conjuncts = func(e ast.Expr) []ast.Expr {
		if be, ok := ast.Unparen(e).(*ast.BinaryExpr); ok && be.Op == token.LAND {
			return append(conjuncts(be.X), conjuncts(be.Y)...)
		}
		return []ast.Expr{e}
	}
	for _, l := range controlConds(fd.Body, call) {
		if l.Neg {
			if nilTest(l.Expr, token.EQL) {
				return true
			}
			continue
		}
		for _, c := range conjuncts(l.Expr) {
			if nilTest(c, token.NEQ) {
				return true
			}
		}
	}
	guarded := false
	ast.Inspect(fd.Body, func(x ast.Node) bool {
		if x == nil || x.Pos() >= call.Pos() {
			return x == nil || x.Pos() < call.Pos()
		}
		switch t := x.(type) {
		case *ast.AssignStmt:
			for _, lhs := range t.Lhs {
				if isProps(lhs) && t.End() < call.Pos() {
					// an assignment that is not itself inside a branch the call is not in
					guarded = guarded || assignDominates(fd, t, call)
				}
			}
		case *ast.IfStmt:
			if nilTest(t.Cond, token.EQL) && t.End() < call.Pos() && len(t.Body.List) > 0 {
				if _, leaves := t.Body.List[len(t.Body.List)-1].(*ast.ReturnStmt); leaves {
					guarded = true
				}
				for _, st := range t.Body.List {
					if as, ok := st.(*ast.AssignStmt); ok {
						for _, lhs := range as.Lhs {
							if isProps(lhs) {
								guarded = true
							}
						}
					}
				}
			}
		}
		return true
	})
	_ = strings.TrimSpace
	return guarded
}

// assignDominates: the assignment is a statement of a block that also (transitively) contains the call.
func assignDominates(fd *ast.FuncDecl, as *ast.AssignStmt, call *ast.CallExpr) bool {
	found := false
	ast.Inspect(fd.Body, func(x ast.Node) bool {
		bl, ok := x.(*ast.BlockStmt)
		if !ok || found {
			return !found
		}
		for _, st := range bl.List {
			if st == ast.Stmt(as) && bl.Pos() <= call.Pos() && call.End() <= bl.End() {
				found = true
			}
		}
		return true
	})
	return found
}

// checkDedupeAgainstResult (R9): a method that grows a copy of its receiver element by element and skips the elements
// that are "already there" must look for them in the copy it is growing. Looked up in the receiver, an element that
// occurs twice in the argument list is appended twice: the tracked kind list then holds a kind twice, a later removal
// takes out one of them, and the kind ends up both present and deleted.
func checkDedupeAgainstResult(r *Run, gp *packages.Package) {
	const rule = "C12-R10-dedupe-against-result"
	info := gp.TypesInfo
	n := 0
	for _, fd := range kindsMethods(gp) {
		recv := recvObj(gp, fd)
		if recv == nil {
			continue
		}
		// locals that start as the receiver
		copies := map[types.Object]bool{}
		ast.Inspect(fd.Body, func(x ast.Node) bool {
			if as, ok := x.(*ast.AssignStmt); ok && len(as.Lhs) == len(as.Rhs) {
				for i, rhs := range as.Rhs {
					if id, ok := ast.Unparen(rhs).(*ast.Ident); ok && info.Uses[id] == recv {
						if lid, ok := as.Lhs[i].(*ast.Ident); ok {
							copies[info.ObjectOf(lid)] = true
						}
					}
				}
			}
			return true
		})
		ast.Inspect(fd.Body, func(x ast.Node) bool {
			var body *ast.BlockStmt
			switch l := x.(type) {
			case *ast.RangeStmt:
				body = l.Body
			case *ast.ForStmt:
				body = l.Body
			default:
				return true
			}
			ast.Inspect(body, func(y ast.Node) bool {
				as, ok := y.(*ast.AssignStmt)
				if !ok || len(as.Lhs) != 1 || len(as.Rhs) != 1 {
					return true
				}
				call, ok := ast.Unparen(as.Rhs[0]).(*ast.CallExpr)
				if !ok || len(call.Args) < 2 {
					return true
				}
				if f, ok := ast.Unparen(call.Fun).(*ast.Ident); !ok || f.Name != "append" {
					return true
				}
				lid, ok := as.Lhs[0].(*ast.Ident)
				if !ok || !copies[info.ObjectOf(lid)] {
					return true
				}
				grown := info.ObjectOf(lid)
				// the membership tests that control the append: calls of a method of the receiver's type
				for _, l := range controlConds(body, as) {
					ast.Inspect(l.Expr, func(z ast.Node) bool {
						c, ok := z.(*ast.CallExpr)
						if !ok {
							return true
						}
						sel, ok := c.Fun.(*ast.SelectorExpr)
						if !ok {
							return true
						}
						on, ok := ast.Unparen(sel.X).(*ast.Ident)
						if !ok {
							return true
						}
						obj := info.Uses[on]
						if obj != recv && obj != grown {
							return true
						}
						n++
						construct := "Kinds." + fd.Name.Name + ":" + sel.Sel.Name
						if obj == grown {
							r.Pass(rule, construct, c.Pos(), "the element is looked for in %s, the list being grown", on.Name)
						} else {
							r.Fail(rule, construct, c.Pos(), "Kinds.%s appends to %s the elements that %s.%s does not find, but looks for them in the receiver %s, which does not grow: an element named twice in one call is appended twice, the list holds the kind twice, a later removal takes out one and the kind is both present and deleted", fd.Name.Name, lid.Name, on.Name, sel.Sel.Name, on.Name)
						}
						return true
					})
				}
				return true
			})
			return true
		})
	}
	if n == 0 {
		r.Note("C12-R10: no Kinds method grows a copy of its receiver under a membership test")
	}
}

// checkEntityMergeDelegates (R11): merging an entity replays the other entity's property delta — its written keys and
// its deleted keys — through Properties.Merge. The only reason not to is that the other entity has no Properties value
// at all. A guard that also looks at how many properties the other entity currently holds skips the replay for an
// entity whose properties were all deleted: its deletions are lost and the receiver keeps the stale keys.
func checkEntityMergeDelegates(r *Run, gp *packages.Package) {
	const rule = "C12-R11-entity-merge-delegates"
	info := gp.TypesInfo
	ptn, _ := gp.Types.Scope().Lookup("Properties").(*types.TypeName)
	if ptn == nil {
		return
	}
	n := 0
	for _, f := range gp.Syntax {
		for _, d := range f.Decls {
			fd, ok := d.(*ast.FuncDecl)
			if !ok || fd.Body == nil || fd.Recv == nil || fd.Name.Name != "Merge" {
				continue
			}
			owner := recvTypeName(fd.Recv.List[0].Type)
			if owner == "Properties" {
				continue
			}
			// an entity: its struct has a field of type *Properties
			otn, _ := gp.Types.Scope().Lookup(owner).(*types.TypeName)
			if otn == nil {
				continue
			}
			st, ok := otn.Type().Underlying().(*types.Struct)
			if !ok {
				continue
			}
			hasProps := false
			for i := 0; i < st.NumFields(); i++ {
				if namedOf(st.Field(i).Type()) != nil && namedOf(st.Field(i).Type()).Obj() == ptn {
					hasProps = true
				}
			}
			if !hasProps {
				continue
			}
			n++
			construct := owner + ".Merge"
			inl := inlineFunc(gp, fd, 2)
			var call *ast.CallExpr
			ast.Inspect(inl.Body, func(x ast.Node) bool {
				c, ok := x.(*ast.CallExpr)
				if !ok {
					return true
				}
				if fn := calleeOf(info, c); fn != nil && fn.Name() == "Merge" {
					if sig, _ := fn.Type().(*types.Signature); sig != nil && sig.Recv() != nil && namedOf(sig.Recv().Type()) != nil && namedOf(sig.Recv().Type()).Obj() == ptn {
						call = c
					}
				}
				return true
			})
			if call == nil {
				r.Fail(rule, construct, fd.Pos(), "%s.Merge does not hand the other entity's properties to Properties.Merge: the merged entity's written and deleted keys are not replayed on the receiver", owner)
				continue
			}
			// every condition on the way to the call is a nil test
			bad := ""
			for _, l := range controlConds(inl.Body, call) {
				var onlyNil func(e ast.Expr) bool
				onlyNil = func(e ast.Expr) bool {
					e = ast.Unparen(e)
					switch t := e.(type) {
					case *ast.UnaryExpr:
						if t.Op == token.NOT {
							return onlyNil(t.X)
						}
					case *ast.BinaryExpr:
						switch t.Op {
						case token.LAND, token.LOR:
							return onlyNil(t.X) && onlyNil(t.Y)
						case token.EQL, token.NEQ:
							return isNilIdent(info, ast.Unparen(t.X)) || isNilIdent(info, ast.Unparen(t.Y))
						}
					}
					return false
				}
				if !onlyNil(l.Expr) && bad == "" {
					bad = exprString(r.Fset, l.Expr)
				}
			}
			if bad == "" {
				r.Pass(rule, construct, call.Pos(), "the other entity's properties are merged whenever it has a Properties value")
			} else {
				r.Fail(rule, construct, call.Pos(), "%s.Merge hands the other entity's properties to Properties.Merge only under `%s`, which is more than a nil test: an entity that deleted its properties (none left in its map, the keys recorded as deleted) is treated as having nothing to merge, its deletions are not replayed and the receiver keeps keys that the merged entity removed", owner, bad)
			}
		}
	}
	if n == 0 {
		r.Note("C12-R11: no entity type with a Merge method found")
	}
}
