package main

// Two rules about statements that are written as siblings and are meant to differ in exactly one place.
//
// arms-use-parameter: a switch that books a quantity on one of several counters — `case A: s.a += n; case B: s.b += n; …`
// — uses the quantity in every arm. An arm that was left at `s.d++` when the others were changed to `+= n` books one
// where n was meant.
//
// twin-bindings: `startID, e1 := f(item.StartID)` next to `endID, e2 := f(item.StartID)`: two results of the very same
// call, bound to two names that are afterwards used as two different arguments, are one value under two names — the
// second call was meant to read another field.

import (
	"go/ast"
	"go/token"
	"go/types"

	"golang.org/x/tools/go/packages"
)

func checkArmsUseParameter(r *Run, rule string, p *packages.Package) {
	info := p.TypesInfo
	n := 0
	for _, name := range sortedKeys(FuncDecls(p)) {
		fd := FuncDecls(p)[name]
		if fd.Body == nil || fd.Type.Params == nil {
			continue
		}
		var params []types.Object
		for _, pl := range fd.Type.Params.List {
			for _, nm := range pl.Names {
				if o := info.Defs[nm]; o != nil {
					if b, ok := o.Type().Underlying().(*types.Basic); ok && b.Info()&types.IsNumeric != 0 {
						params = append(params, o)
					}
				}
			}
		}
		if len(params) == 0 {
			continue
		}
		ast.Inspect(fd.Body, func(x ast.Node) bool {
			sw, ok := x.(*ast.SwitchStmt)
			if !ok {
				return true
			}
			// arms: one statement each, an update of a field
			type arm struct {
				cc    *ast.CaseClause
				stmt  ast.Stmt
				field string
			}
			var arms []arm
			for _, c := range sw.Body.List {
				cc := c.(*ast.CaseClause)
				if cc.List == nil || len(cc.Body) != 1 {
					continue
				}
				var target ast.Expr
				switch t := cc.Body[0].(type) {
				case *ast.IncDecStmt:
					target = t.X
				case *ast.AssignStmt:
					if len(t.Lhs) == 1 && (t.Tok == token.ADD_ASSIGN || t.Tok == token.SUB_ASSIGN || t.Tok == token.ASSIGN) {
						target = t.Lhs[0]
					}
				}
				sel, ok := ast.Unparen(target).(*ast.SelectorExpr)
				if target == nil || !ok {
					continue
				}
				arms = append(arms, arm{cc, cc.Body[0], sel.Sel.Name})
			}
			if len(arms) < 3 {
				return true
			}
			for _, po := range params {
				var uses, lacks []arm
				for _, a := range arms {
					mentions := false
					ast.Inspect(a.stmt, func(m ast.Node) bool {
						if id, ok := m.(*ast.Ident); ok && info.Uses[id] == po {
							mentions = true
						}
						return !mentions
					})
					if mentions {
						uses = append(uses, a)
					} else {
						lacks = append(lacks, a)
					}
				}
				if len(uses) == 0 {
					continue
				}
				n++
				construct := funcDeclName(fd) + ":switch arms use " + po.Name()
				if len(lacks) == 0 {
					r.Pass(rule, construct, sw.Pos(), "every one of the %d arms books %s", len(arms), po.Name())
				} else if len(uses) >= 2 && len(lacks) == 1 {
					r.Fail(rule, construct, lacks[0].stmt.Pos(), "%d arms of the switch book %s on their counter, the arm for %s does not (`%s`): it books a fixed amount where %s was meant", len(uses), po.Name(), lacks[0].field, exprString(r.Fset, lacks[0].stmt), po.Name())
				}
			}
			return true
		})
	}
	r.Counts[rule+":switches"] = n
}

func checkTwinBindings(r *Run, rule string, p *packages.Package) {
	info := p.TypesInfo
	n := 0
	for _, name := range sortedKeys(FuncDecls(p)) {
		fd := FuncDecls(p)[name]
		if fd.Body == nil {
			continue
		}
		ast.Inspect(fd.Body, func(x ast.Node) bool {
			var list []ast.Stmt
			switch t := x.(type) {
			case *ast.BlockStmt:
				list = t.List
			case *ast.CaseClause:
				list = t.Body
			default:
				return true
			}
			for i := 0; i+1 < len(list); i++ {
				a, ok1 := list[i].(*ast.AssignStmt)
				b, ok2 := list[i+1].(*ast.AssignStmt)
				if !ok1 || !ok2 || a.Tok != token.DEFINE || b.Tok != token.DEFINE || len(a.Rhs) != 1 || len(b.Rhs) != 1 || len(a.Lhs) != len(b.Lhs) {
					continue
				}
				ca, okA := ast.Unparen(a.Rhs[0]).(*ast.CallExpr)
				cb, okB := ast.Unparen(b.Rhs[0]).(*ast.CallExpr)
				if !okA || !okB || len(ca.Args) == 0 || exprString(r.Fset, ca) != exprString(r.Fset, cb) {
					continue
				}
				// the argument reads a field: a call without any selection is not "meant to read another field"
				readsField := false
				for _, arg := range ca.Args {
					if sel, ok := ast.Unparen(arg).(*ast.SelectorExpr); ok {
						if s := info.Selections[sel]; s != nil && s.Kind() == types.FieldVal {
							readsField = true
						}
					}
				}
				la, okLa := a.Lhs[0].(*ast.Ident)
				lb, okLb := b.Lhs[0].(*ast.Ident)
				if !readsField || !okLa || !okLb || la.Name == "_" || lb.Name == "_" {
					continue
				}
				oa, ob := info.Defs[la], info.Defs[lb]
				if oa == nil || ob == nil {
					continue
				}
				// both names handed to one later call as different arguments
				together := false
				ast.Inspect(fd.Body, func(m ast.Node) bool {
					call, ok := m.(*ast.CallExpr)
					if !ok {
						return true
					}
					ia, ib := -1, -1
					for k, arg := range call.Args {
						if id, ok := ast.Unparen(arg).(*ast.Ident); ok {
							if info.Uses[id] == oa {
								ia = k
							}
							if info.Uses[id] == ob {
								ib = k
							}
						}
					}
					if ia >= 0 && ib >= 0 && ia != ib {
						together = true
					}
					return true
				})
				if !together {
					continue
				}
				n++
				r.Fail(rule, funcDeclName(fd)+":"+la.Name+"/"+lb.Name, b.Pos(), "%s and %s are both bound to `%s` and then handed to one call as two different arguments: the second binding was meant to read another field, as it stands both arguments are the same value", la.Name, lb.Name, exprString(r.Fset, ca))
			}
			return true
		})
	}
	r.Counts[rule+":found"] = n
	r.Pass(rule, "scan", token.NoPos, "no two adjacent bindings of the very same field-reading call are used as two different arguments of one call (each such pair fails on its own)")
}
