package main

// C07-R12 token-order: which of two tokens comes first in the query is a question about the token stream (token index,
// or start offset). The column is the position within the line: across a line break the later token can have the smaller
// column, so an order decided by GetColumn() puts a bound on the wrong side of `..` when the range literal is written
// over two lines. Comparing columns for order is right only together with the lines.

import (
	"go/ast"
	"go/token"

	"golang.org/x/tools/go/packages"
)

func checkTokenOrderByColumn(r *Run, p *packages.Package) {
	const rule = "C07-R12-token-order"
	n := 0
	isColumn := func(e ast.Expr) bool {
		call, ok := ast.Unparen(e).(*ast.CallExpr)
		if !ok || len(call.Args) != 0 {
			return false
		}
		sel, ok := call.Fun.(*ast.SelectorExpr)
		return ok && sel.Sel.Name == "GetColumn"
	}
	for _, name := range sortedKeys(FuncDecls(p)) {
		fd := FuncDecls(p)[name]
		if fd.Body == nil {
			continue
		}
		mentionsLine := false
		ast.Inspect(fd.Body, func(x ast.Node) bool {
			if call, ok := x.(*ast.CallExpr); ok {
				if sel, ok := call.Fun.(*ast.SelectorExpr); ok && sel.Sel.Name == "GetLine" {
					mentionsLine = true
				}
			}
			return true
		})
		ast.Inspect(fd.Body, func(x ast.Node) bool {
			be, ok := x.(*ast.BinaryExpr)
			if !ok {
				return true
			}
			switch be.Op {
			case token.LSS, token.LEQ, token.GTR, token.GEQ:
			default:
				return true
			}
			if !isColumn(be.X) || !isColumn(be.Y) {
				return true
			}
			n++
			construct := funcDeclName(fd) + ":" + exprString(r.Fset, be)
			if mentionsLine {
				r.Pass(rule, construct, be.Pos(), "columns are compared in a function that also compares lines")
			} else {
				r.Fail(rule, construct, be.Pos(), "the order of two tokens is decided by their columns alone: when a line break falls between them the later token can have the smaller column, so text the grammar accepts is modelled with the parts swapped (token index or start offset give the order)")
			}
			return true
		})
	}
	r.Counts[rule+":comparisons"] = n
	if n == 0 {
		r.Pass(rule, "scan", token.NoPos, "no two token columns are compared for order (each such comparison is judged on its own)")
	}
}
