package main

import (
	"flag"
	"fmt"
	"os"
	"runtime/debug"
	"sort"
)

type checkFn func(r *Run) propMeta

var checks = map[string]checkFn{}

func register(id string, fn checkFn) { checks[id] = fn }

func main() {
	prop := flag.String("property", "", "property id (C01..C20)")
	tier := flag.String("tier", "", "quick|thorough")
	repo := flag.String("repo", "/repo", "repository working tree")
	verif := flag.String("verif", "/verif", "verification directory")
	list := flag.Bool("list", false, "list implemented properties")
	selftest := flag.Bool("selftest", false, "run checker self-test mutations for the property (overlay, no files written)")
	patch := flag.String("patch", "", "development aid: judge the tree with this unified diff applied in memory; prints new failures and undecided reasons, writes nothing")
	flag.Parse()
	// go/packages runs whatever `go` is first on PATH; the default go (1.23) cannot parse /repo/go.mod.
	os.Setenv("PATH", "/opt/veriftools/go1.26.8/bin:"+os.Getenv("PATH"))
	os.Setenv("GOTOOLCHAIN", "local")
	os.Setenv("GOFLAGS", "-mod=mod")
	os.Setenv("GOPROXY", "off")
	os.Setenv("GOSUMDB", "off")
	os.Setenv("GOWORK", "off")
	if *tier == "" {
		*tier = os.Getenv("VERIF_TIER")
	}
	if *tier != "thorough" {
		*tier = "quick"
	}
	if *list {
		ids := make([]string, 0, len(checks))
		for k := range checks {
			ids = append(ids, k)
		}
		sort.Strings(ids)
		for _, k := range ids {
			fmt.Println(k)
		}
		return
	}
	fn, ok := checks[*prop]
	if !ok {
		fmt.Printf("UNDECIDED property=%s reason=no such check\n", *prop)
		os.Exit(2)
	}
	if *patch != "" {
		text, err := os.ReadFile(*patch)
		if err != nil {
			fmt.Println("cannot read patch:", err)
			os.Exit(2)
		}
		ov, why := applyUnifiedDiff(*repo, string(text))
		if ov == nil {
			fmt.Printf("PATCH-SKIP property=%s %s\n", *prop, why)
			os.Exit(3)
		}
		res := runCheck(*prop, "quick", *repo, *verif, ov, fn, true)
		for _, o := range res.run.newFailures() {
			fmt.Printf("PATCH-FAIL property=%s %s — %s\n", *prop, o.Key(), o.Detail)
		}
		for _, u := range res.run.Undecided {
			fmt.Printf("PATCH-UNDECIDED property=%s %s\n", *prop, u)
		}
		if os.Getenv("DAWGSVET_NOTES") != "" {
			for _, n := range res.run.Notes {
				fmt.Printf("PATCH-NOTE property=%s %s\n", *prop, n)
			}
		}
		os.Exit(res.code)
	}
	if *selftest {
		os.Exit(runSelfTest(*prop, fn, *repo, *verif))
	}
	os.Exit(runCheck(*prop, *tier, *repo, *verif, nil, fn, false).code)
}

type checkResult struct {
	code int
	run  *Run
}

func runCheck(prop, tier, repo, verif string, overlay map[string][]byte, fn checkFn, quiet bool) (res checkResult) {
	r := NewRun(prop, tier, repo, verif)
	r.Overlay = overlay
	r.quiet = quiet
	res.run = r
	var meta propMeta
	func() {
		defer func() {
			if p := recover(); p != nil {
				if _, ok := p.(undecidedPanic); !ok {
					r.Undecide("analyser panic: %v\n%s", p, debug.Stack())
				}
			}
		}()
		meta = fn(r)
	}()
	if meta.Level == "" {
		meta.Level = "other"
		meta.Explanation = "check aborted before completion"
	}
	if quiet {
		res.code = r.verdictOnly()
		return
	}
	if tier == "thorough" && overlay == nil {
		// checker self-test: every stored semantic mutation of /repo is applied in memory (packages.Config.Overlay)
		// and the rule it targets must fire. The outcome is evidence about the checker; it never changes the verdict
		// on /repo's tree.
		results := selfTestResults(prop, fn, repo, verif)
		fired, breaking, silent, benign := 0, 0, 0, 0
		for _, rec := range results {
			switch {
			case rec["kind"] == "benign":
				benign++
				if rec["result"] == "silent" {
					silent++
				} else {
					r.Note("self-test benign edit %s: %s", rec["mutation"], rec["result"])
				}
			default:
				breaking++
				if rec["result"] == "fired" {
					fired++
				} else {
					r.Note("self-test mutation %s: %s", rec["mutation"], rec["result"])
				}
			}
		}
		r.Extra["selftest_mutations"] = results
		r.Extra["selftest_fired"] = fired
		r.Extra["selftest_total"] = breaking
		r.Extra["selftest_benign_silent"] = silent
		r.Extra["selftest_benign_total"] = benign
	}
	res.code = r.Finish(meta)
	return
}
