package main

// C03-n unwind-before-harness: the sources of a pending UNWIND (`unnest(…) as x`) are handed to the expansion builder
// with SetUnwindClauses and joined by the root step of the search it builds. Every Build… call on the same builder, in
// the function that hands the clauses over, must come after the hand-over on every path: a harness built before it has
// no FROM item that defines `x`, while its step and its fragments still filter on `x`.

import (
	"go/ast"
	"go/token"
	"go/types"
	"strings"

	"golang.org/x/tools/go/packages"
)

func checkUnwindBeforeHarness(r *Run, tp *packages.Package) {
	const rule = "C03-n-unwind-before-harness"
	info := tp.TypesInfo
	n := 0
	for _, f := range tp.Syntax {
		for _, d := range f.Decls {
			fd, ok := d.(*ast.FuncDecl)
			if !ok || fd.Body == nil {
				continue
			}
			// the builder the clauses are handed to
			var builder types.Object
			ast.Inspect(fd.Body, func(x ast.Node) bool {
				if c, ok := x.(*ast.CallExpr); ok {
					if sel, ok := c.Fun.(*ast.SelectorExpr); ok && sel.Sel.Name == "SetUnwindClauses" {
						if id, ok := ast.Unparen(sel.X).(*ast.Ident); ok {
							builder = info.Uses[id]
						}
					}
				}
				return true
			})
			if builder == nil {
				continue
			}
			isOn := func(m ast.Node, pred func(name string) bool) bool {
				c, ok := m.(*ast.CallExpr)
				if !ok {
					return false
				}
				sel, ok := c.Fun.(*ast.SelectorExpr)
				if !ok || !pred(sel.Sel.Name) {
					return false
				}
				id, ok := ast.Unparen(sel.X).(*ast.Ident)
				return ok && info.Uses[id] == builder
			}
			paths, complete := structuredPaths(info, r.Fset, fd.Body.List, 512)
			if !complete {
				r.Note("C03-n: too many paths through %s (not decided)", funcDeclName(fd))
				continue
			}
			n++
			construct := funcDeclName(fd) + ":" + builder.Name()
			bad := ""
			var badPos token.Pos
			for _, pth := range paths {
				handed := false
				for _, leaf := range pth.Leaves {
					ast.Inspect(leaf, func(m ast.Node) bool {
						if _, isLit := m.(*ast.FuncLit); isLit {
							return false
						}
						if isOn(m, func(name string) bool { return name == "SetUnwindClauses" }) {
							handed = true
						}
						if isOn(m, func(name string) bool { return strings.HasPrefix(name, "Build") }) && !handed && bad == "" {
							bad = exprString(r.Fset, m.(*ast.CallExpr).Fun)
							badPos = m.Pos()
							if t := joinStrings(pth.Taken, ", "); t != "" {
								bad += " on the path [" + t + "]"
							}
						}
						return true
					})
				}
			}
			if bad == "" {
				r.Pass(rule, construct, fd.Pos(), "every harness is built after the pending UNWIND clauses were handed to the builder")
			} else {
				r.Fail(rule, construct, badPos, "%s builds a harness with %s before the pending UNWIND clauses are handed to the builder: the root step of that search has no FROM item for the unwound variable although its projection and its fragments refer to it — the statement uses a name that nothing defines", funcDeclName(fd), bad)
			}
		}
	}
	if n == 0 {
		r.Undecide("C03-n: no function of package translate hands UNWIND clauses to an expansion builder")
	}
}
