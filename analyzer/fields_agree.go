package main

// all-fields-agree: a condition that compares two records field by field — the live counts of a graph with the counts
// recorded for it, a checkpoint's identity with the current one — means "the records agree" (every pair equal) or "they
// differ" (some pair unequal). Written with the wrong connective (`a.N == b.N || a.E == b.E` for agree, or
// `a.N != b.N && a.E != b.E` for differ) it lets records that agree in one field pass as equal. The rule takes every
// boolean expression made only of equality tests between same-named fields of the same two values, two or more of them,
// and requires it to be equivalent to the conjunction of the equalities or to its negation.

import (
	"go/ast"
	"go/token"
	"go/types"

	"golang.org/x/tools/go/packages"
)

func checkAllFieldsAgree(r *Run, rule string, p *packages.Package, consequence string) {
	info := p.TypesInfo
	n := 0
	for _, f := range p.Syntax {
		for _, d := range f.Decls {
			fd, ok := d.(*ast.FuncDecl)
			if !ok || fd.Body == nil {
				continue
			}
			nth := 0
			seen := map[ast.Node]bool{}
			ast.Inspect(fd.Body, func(x ast.Node) bool {
				be, ok := x.(*ast.BinaryExpr)
				if !ok || seen[be] || (be.Op != token.LAND && be.Op != token.LOR) {
					return true
				}
				// the maximal boolean expression: mark the whole tree
				type atom struct {
					field string
					neg   bool
				}
				var atoms []atom
				bases := ""
				pure := true
				var collect func(e ast.Expr)
				collect = func(e ast.Expr) {
					e = ast.Unparen(e)
					switch t := e.(type) {
					case *ast.BinaryExpr:
						seen[t] = true
						switch t.Op {
						case token.LAND, token.LOR:
							collect(t.X)
							collect(t.Y)
							return
						case token.EQL, token.NEQ:
							lx, lok := ast.Unparen(t.X).(*ast.SelectorExpr)
							ly, rok := ast.Unparen(t.Y).(*ast.SelectorExpr)
							if lok && rok && lx.Sel.Name == ly.Sel.Name {
								sx, sy := info.Selections[lx], info.Selections[ly]
								if sx != nil && sy != nil && sx.Kind() == types.FieldVal && sy.Kind() == types.FieldVal {
									b := exprString(r.Fset, lx.X) + "~" + exprString(r.Fset, ly.X)
									if exprString(r.Fset, lx.X) != exprString(r.Fset, ly.X) && (bases == "" || bases == b) {
										bases = b
										atoms = append(atoms, atom{lx.Sel.Name, t.Op == token.NEQ})
										return
									}
								}
							}
						}
					case *ast.UnaryExpr:
						if t.Op == token.NOT {
							collect(t.X)
							return
						}
					}
					pure = false
				}
				collect(be)
				distinct := map[string]bool{}
				for _, a := range atoms {
					distinct[a.field] = true
				}
				if !pure || len(distinct) < 2 {
					return true
				}
				fields := sortedKeys(distinct)
				// evaluate the expression over "field i agrees"
				var eval func(e ast.Expr, env map[string]bool) bool
				eval = func(e ast.Expr, env map[string]bool) bool {
					e = ast.Unparen(e)
					switch t := e.(type) {
					case *ast.UnaryExpr:
						return !eval(t.X, env)
					case *ast.BinaryExpr:
						switch t.Op {
						case token.LAND:
							return eval(t.X, env) && eval(t.Y, env)
						case token.LOR:
							return eval(t.X, env) || eval(t.Y, env)
						case token.EQL:
							return env[ast.Unparen(t.X).(*ast.SelectorExpr).Sel.Name]
						case token.NEQ:
							return !env[ast.Unparen(t.X).(*ast.SelectorExpr).Sel.Name]
						}
					}
					return false
				}
				isAgree, isDiffer := true, true
				counter := ""
				for m := 0; m < 1<<len(fields); m++ {
					env := map[string]bool{}
					all := true
					for i, fn := range fields {
						env[fn] = m&(1<<i) != 0
						if !env[fn] {
							all = false
						}
					}
					v := eval(be, env)
					if v != all {
						isAgree = false
					}
					if v != !all {
						isDiffer = false
					}
					if v != all && v != !all {
						_ = counter
					}
				}
				n++
				nth++
				construct := funcDeclName(fd) + ":agree#" + itoa(nth)
				if isAgree || isDiffer {
					what := "all of them agree"
					if isDiffer {
						what = "one of them differs"
					}
					r.Pass(rule, construct, be.Pos(), "the comparison of %v holds exactly when %s", fields, what)
				} else {
					r.Fail(rule, construct, be.Pos(), "`%s` compares the fields %v of two records but is neither \"all agree\" nor \"some differ\": with one field equal and another different it takes the records for the same — %s", exprString(r.Fset, be), fields, consequence)
				}
				return true
			})
		}
	}
	r.Ob(rule, shortPkg(p.PkgPath)+":scanned", token.NoPos, true, "%d field-by-field comparisons of two records examined", n)
}
