package main

// E1 (quick form) — a static call graph over the module's declared functions, built from
// type-checked syntax: static callees, function-value references (may-call), and interface
// method calls resolved by class-hierarchy analysis over the module's named types.
// Closures are folded into their enclosing declared function.  Every edge keeps the call
// position so that gate rules can remove edges lexically inside a given node range.

import (
	"go/ast"
	"go/token"
	"go/types"
	"strings"

	"golang.org/x/tools/go/packages"
)

type cgEdge struct {
	From, To *types.Func
	Pos      token.Pos
	Kind     string // "static", "ref", "iface"
}

type CallGraph struct {
	r       *Run
	Decl    map[*types.Func]*ast.FuncDecl
	PkgOf   map[*types.Func]*packages.Package
	Out     map[*types.Func][]cgEdge
	In      map[*types.Func][]cgEdge
	byName  map[string]*types.Func
	methods map[string][]*types.Func // method name -> concrete methods in module
}

func BuildCallGraph(r *Run, pkgFilter func(path string) bool) *CallGraph {
	cg := &CallGraph{r: r, Decl: map[*types.Func]*ast.FuncDecl{}, PkgOf: map[*types.Func]*packages.Package{},
		Out: map[*types.Func][]cgEdge{}, In: map[*types.Func][]cgEdge{}, byName: map[string]*types.Func{}, methods: map[string][]*types.Func{}}
	var pkgs []*packages.Package
	for path, p := range r.ByPath {
		if strings.HasPrefix(path, modPath) && (pkgFilter == nil || pkgFilter(path)) {
			pkgs = append(pkgs, p)
		}
	}
	for _, p := range pkgs {
		for _, f := range p.Syntax {
			for _, d := range f.Decls {
				fd, ok := d.(*ast.FuncDecl)
				if !ok {
					continue
				}
				fn, ok := p.TypesInfo.Defs[fd.Name].(*types.Func)
				if !ok {
					continue
				}
				cg.Decl[fn] = fd
				cg.PkgOf[fn] = p
				cg.byName[funcFullName(fn)] = fn
				if fn.Type().(*types.Signature).Recv() != nil {
					cg.methods[fn.Name()] = append(cg.methods[fn.Name()], fn)
				}
			}
		}
	}
	for fn, fd := range cg.Decl {
		if fd.Body == nil {
			continue
		}
		p := cg.PkgOf[fn]
		info := p.TypesInfo
		callFuns := map[*ast.Ident]bool{}
		ast.Inspect(fd.Body, func(n ast.Node) bool {
			call, ok := n.(*ast.CallExpr)
			if !ok {
				return true
			}
			var id *ast.Ident
			switch f := ast.Unparen(call.Fun).(type) {
			case *ast.Ident:
				id = f
			case *ast.SelectorExpr:
				id = f.Sel
			case *ast.IndexExpr:
				switch x := ast.Unparen(f.X).(type) {
				case *ast.Ident:
					id = x
				case *ast.SelectorExpr:
					id = x.Sel
				}
			case *ast.IndexListExpr:
				switch x := ast.Unparen(f.X).(type) {
				case *ast.Ident:
					id = x
				case *ast.SelectorExpr:
					id = x.Sel
				}
			}
			if id == nil {
				return true
			}
			callee, ok := info.Uses[id].(*types.Func)
			if !ok {
				return true
			}
			callFuns[id] = true
			callee = callee.Origin()
			sig := callee.Type().(*types.Signature)
			if sig.Recv() != nil {
				if _, isIface := sig.Recv().Type().Underlying().(*types.Interface); isIface {
					iface := sig.Recv().Type().Underlying().(*types.Interface)
					for _, m := range cg.methods[callee.Name()] {
						rt := m.Type().(*types.Signature).Recv().Type()
						if implementsLoose(rt, iface) {
							cg.add(fn, m, call.Pos(), "iface")
						}
					}
					return true
				}
			}
			if _, ok := cg.Decl[callee]; ok {
				cg.add(fn, callee, call.Pos(), "static")
			}
			return true
		})
		// function-value references
		ast.Inspect(fd.Body, func(n ast.Node) bool {
			id, ok := n.(*ast.Ident)
			if !ok || callFuns[id] {
				return true
			}
			if ref, ok := info.Uses[id].(*types.Func); ok {
				ref = ref.Origin()
				if _, ok := cg.Decl[ref]; ok {
					cg.add(fn, ref, id.Pos(), "ref")
				}
			}
			return true
		})
	}
	return cg
}

func implementsLoose(t types.Type, iface *types.Interface) bool {
	if types.Implements(t, iface) {
		return true
	}
	if _, ok := t.(*types.Pointer); !ok {
		return types.Implements(types.NewPointer(t), iface)
	}
	// generic receivers or interfaces instantiated with a type parameter (walk.Visitor[E] inside walk.Generic):
	// compare by method names only
	if n := namedOf(t); n != nil && (n.TypeParams().Len() > 0 || ifaceMentionsTypeParam(iface)) {
		ms := types.NewMethodSet(types.NewPointer(n))
		for i := 0; i < iface.NumMethods(); i++ {
			if ms.Lookup(iface.Method(i).Pkg(), iface.Method(i).Name()) == nil {
				return false
			}
		}
		return true
	}
	return false
}

func (cg *CallGraph) add(from, to *types.Func, pos token.Pos, kind string) {
	e := cgEdge{From: from, To: to, Pos: pos, Kind: kind}
	cg.Out[from] = append(cg.Out[from], e)
	cg.In[to] = append(cg.In[to], e)
}

func (cg *CallGraph) Func(full string) *types.Func { return cg.byName[full] }

// Reach returns functions reachable from roots; skip(edge) removes edges.
func (cg *CallGraph) Reach(roots []*types.Func, skip func(e cgEdge) bool) map[*types.Func]*cgEdge {
	seen := map[*types.Func]*cgEdge{}
	var queue []*types.Func
	for _, r := range roots {
		if r != nil {
			if _, ok := seen[r]; !ok {
				seen[r] = nil
				queue = append(queue, r)
			}
		}
	}
	for len(queue) > 0 {
		f := queue[0]
		queue = queue[1:]
		for i := range cg.Out[f] {
			e := cg.Out[f][i]
			if skip != nil && skip(e) {
				continue
			}
			if _, ok := seen[e.To]; !ok {
				seen[e.To] = &cg.Out[f][i]
				queue = append(queue, e.To)
			}
		}
	}
	return seen
}

// PathTo renders the discovery path to fn from a Reach result.
func (cg *CallGraph) PathTo(reach map[*types.Func]*cgEdge, fn *types.Func) string {
	var parts []string
	for i := 0; fn != nil && i < 40; i++ {
		parts = append([]string{shortFuncName(fn)}, parts...)
		e := reach[fn]
		if e == nil {
			break
		}
		fn = e.From
	}
	return strings.Join(parts, " > ")
}

func shortFuncName(fn *types.Func) string {
	return strings.TrimPrefix(strings.TrimPrefix(funcFullName(fn), modPath), "/")
}

// enclosingFunc returns the declared function whose body contains pos, in package p.
func enclosingFuncDecl(p *packages.Package, pos token.Pos) *ast.FuncDecl {
	for _, f := range p.Syntax {
		if pos < f.Pos() || pos > f.End() {
			continue
		}
		for _, d := range f.Decls {
			if fd, ok := d.(*ast.FuncDecl); ok && fd.Pos() <= pos && pos <= fd.End() {
				return fd
			}
		}
	}
	return nil
}

func ifaceMentionsTypeParam(iface *types.Interface) bool {
	found := false
	var visit func(t types.Type, depth int)
	visit = func(t types.Type, depth int) {
		if found || depth > 4 || t == nil {
			return
		}
		switch x := t.(type) {
		case *types.TypeParam:
			found = true
		case *types.Pointer:
			visit(x.Elem(), depth+1)
		case *types.Slice:
			visit(x.Elem(), depth+1)
		case *types.Named:
			if ta := x.TypeArgs(); ta != nil {
				for i := 0; i < ta.Len(); i++ {
					visit(ta.At(i), depth+1)
				}
			}
		case *types.Signature:
			for i := 0; i < x.Params().Len(); i++ {
				visit(x.Params().At(i).Type(), depth+1)
			}
			for i := 0; i < x.Results().Len(); i++ {
				visit(x.Results().At(i).Type(), depth+1)
			}
		}
	}
	for i := 0; i < iface.NumMethods(); i++ {
		visit(iface.Method(i).Type(), 0)
	}
	return found
}
