package main

// C17-R6 tracker-after-filter: the skip/limit tracker of the sequential traversal helpers counts: every call of its
// "should this one be collected?" method uses up one unit of the skip or of the limit. It may therefore be asked only
// about nodes that the node filter has accepted — `filter(n) && tracker.ShouldCollect()`, in that order, or inside the
// branch the filter opened. Asked first (or unconditionally, with the filter applied to the answer afterwards), nodes
// the filter rejects use up the skip and count towards the limit, and the helper returns other nodes than its plan
// defines.

import (
	"go/ast"
	"go/token"
	"go/types"

	"golang.org/x/tools/go/packages"
)

func checkTrackerAfterFilter(r *Run, p *packages.Package) {
	const rule = "C17-R6-tracker-after-filter"
	if p == nil {
		r.Undecide("C17-R6: package ops not loaded")
		return
	}
	info := p.TypesInfo
	// the counting predicates: methods with a pointer receiver and one boolean result that write a field of the receiver
	counting := map[*types.Func]bool{}
	for _, f := range p.Syntax {
		for _, d := range f.Decls {
			fd, ok := d.(*ast.FuncDecl)
			if !ok || fd.Body == nil || fd.Recv == nil || len(fd.Recv.List[0].Names) != 1 || fd.Type.Results == nil || len(fd.Type.Results.List) != 1 {
				continue
			}
			if b, isBasic := info.TypeOf(fd.Type.Results.List[0].Type).Underlying().(*types.Basic); !isBasic || b.Kind() != types.Bool {
				continue
			}
			if fd.Type.Params != nil && len(fd.Type.Params.List) > 0 {
				continue
			}
			recv := info.Defs[fd.Recv.List[0].Names[0]]
			writes := false
			ast.Inspect(fd.Body, func(n ast.Node) bool {
				var lhs []ast.Expr
				switch t := n.(type) {
				case *ast.AssignStmt:
					lhs = t.Lhs
				case *ast.IncDecStmt:
					lhs = []ast.Expr{t.X}
				}
				for _, l := range lhs {
					if sel, ok := ast.Unparen(l).(*ast.SelectorExpr); ok {
						if id, ok := ast.Unparen(sel.X).(*ast.Ident); ok && info.Uses[id] == recv {
							writes = true
						}
					}
				}
				return true
			})
			if writes {
				if fn, ok := info.Defs[fd.Name].(*types.Func); ok {
					counting[fn] = true
				}
			}
		}
	}
	if len(counting) == 0 {
		r.Undecide("C17-R6: no counting predicate (a niladic bool method that writes its receiver) found in package ops")
		return
	}
	n := 0
	for _, f := range p.Syntax {
		for _, d := range f.Decls {
			fd, ok := d.(*ast.FuncDecl)
			if !ok || fd.Body == nil {
				continue
			}
			// the filters of this function: function-typed variables with a boolean result that it calls
			isFilterCall := func(e ast.Node) bool {
				call, ok := e.(*ast.CallExpr)
				if !ok {
					return false
				}
				var id *ast.Ident
				switch t := ast.Unparen(call.Fun).(type) {
				case *ast.Ident:
					id = t
				case *ast.SelectorExpr:
					id = t.Sel
				}
				if id == nil {
					return false
				}
				v, ok := info.Uses[id].(*types.Var)
				if !ok {
					return false
				}
				sig, ok := v.Type().Underlying().(*types.Signature)
				if !ok || sig.Results().Len() != 1 {
					return false
				}
				b, isBasic := sig.Results().At(0).Type().Underlying().(*types.Basic)
				return isBasic && b.Kind() == types.Bool
			}
			// the scope of a call: the body of the innermost function literal around it, or the function's own body
			scopeOf := func(target ast.Node) *ast.BlockStmt {
				scope := fd.Body
				ast.Inspect(fd.Body, func(x ast.Node) bool {
					if fl, ok := x.(*ast.FuncLit); ok && nodeContains(fl.Body, target) {
						scope = fl.Body
					}
					return true
				})
				return scope
			}
			filtersIn := func(scope *ast.BlockStmt) map[types.Object]bool {
				out := map[types.Object]bool{}
				ast.Inspect(scope, func(x ast.Node) bool {
					if fl, ok := x.(*ast.FuncLit); ok && fl.Body != scope {
						return false
					}
					if isFilterCall(x) {
						call := x.(*ast.CallExpr)
						switch t := ast.Unparen(call.Fun).(type) {
						case *ast.Ident:
							out[info.Uses[t]] = true
						case *ast.SelectorExpr:
							out[info.Uses[t.Sel]] = true
						}
					}
					return true
				})
				return out
			}
			nth := 0
			ast.Inspect(fd.Body, func(x ast.Node) bool {
				call, ok := x.(*ast.CallExpr)
				if !ok {
					return true
				}
				fn := calleeOf(info, call)
				if fn == nil || !counting[fn.Origin()] {
					return true
				}
				scope := scopeOf(call)
				filterVars := filtersIn(scope)
				if len(filterVars) == 0 {
					return true // nothing is filtered where the tracker is asked
				}
				n++
				nth++
				construct := funcDeclName(fd) + ":" + fn.Name() + "#" + itoa(nth)
				// the conditions under which the call is evaluated
				lits := append(controlConds(scope, call), shortCircuitConds(scope, call)...)
				// every filter applied in this scope must have accepted the node (or be absent) where the tracker is asked
				var cur types.Object
				filterObjOf := func(c *ast.CallExpr) types.Object {
					switch t := ast.Unparen(c.Fun).(type) {
					case *ast.Ident:
						return info.Uses[t]
					case *ast.SelectorExpr:
						return info.Uses[t.Sel]
					}
					return nil
				}
				var holds func(e ast.Expr, neg bool) bool
				holds = func(e ast.Expr, neg bool) bool {
					e = ast.Unparen(e)
					switch t := e.(type) {
					case *ast.UnaryExpr:
						if t.Op == token.NOT {
							return holds(t.X, !neg)
						}
					case *ast.BinaryExpr:
						switch {
						case (t.Op == token.LAND && !neg) || (t.Op == token.LOR && neg):
							return holds(t.X, neg) || holds(t.Y, neg)
						case (t.Op == token.LOR && !neg) || (t.Op == token.LAND && neg):
							// `f == nil || f(n)`: each side must say "accepted or no filter"
							return holds(t.X, neg) && holds(t.Y, neg)
						case t.Op == token.EQL || t.Op == token.NEQ:
							// the filter is nil
							var other ast.Expr
							if isNilIdent(info, ast.Unparen(t.X)) {
								other = t.Y
							} else if isNilIdent(info, ast.Unparen(t.Y)) {
								other = t.X
							}
							if other != nil {
								var id *ast.Ident
								switch o := ast.Unparen(other).(type) {
								case *ast.Ident:
									id = o
								case *ast.SelectorExpr:
									id = o.Sel
								}
								if id != nil && info.Uses[id] == cur {
									return (t.Op == token.EQL) != neg
								}
							}
						}
					case *ast.CallExpr:
						return !neg && isFilterCall(t) && filterObjOf(t) == cur
					}
					return false
				}
				accepted := true
				for fv := range filterVars {
					cur = fv
					one := false
					for _, l := range lits {
						if holds(l.Expr, l.Neg) {
							one = true
						}
					}
					if !one {
						accepted = false
					}
				}
				if accepted {
					r.Pass(rule, construct, call.Pos(), "%s is asked only where the filter has accepted the node (or there is no filter)", fn.Name())
				} else {
					r.Fail(rule, construct, call.Pos(), "%s calls the counting predicate %s where the node filter has not (yet) accepted the node: every call uses up one unit of the skip or the limit, so nodes the filter rejects are skipped or counted and the helper returns fewer (or other) nodes than its plan defines", funcDeclName(fd), fn.Name())
				}
				return true
			})
		}
	}
	r.Ob(rule, "ops:scanned", token.NoPos, true, "%d calls of a counting predicate in functions that also apply a filter", n)
}
