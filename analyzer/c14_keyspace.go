package main

// C14-R12 set-key-space: a set field of a container holds one kind of number — edge IDs, or positions in the edge list.
// The two are both uint64 and both at hand wherever an edge is looked up, and they agree only by accident. The rule
// classes every value that is added to, removed from or looked up in a set field: "position in F" when the same variable
// indexes the slice field F in that function, "ID" when it is the ID field of an element (or is compared with one). A set
// that is given both kinds answers the lookup for the wrong edge.

import (
	"go/ast"
	"go/token"
	"go/types"
	"strings"

	"golang.org/x/tools/go/packages"
)

func checkSetKeySpaces(r *Run, rule string, p *packages.Package) {
	info := p.TypesInfo
	type use struct {
		class string
		pos   token.Pos
		in    string
		text  string
	}
	uses := map[string][]use{} // by field name: same-named set fields of sibling types (a store and its projection) hold the same kind
	firstField := map[string]*types.Var{}
	for _, name := range sortedKeys(FuncDecls(p)) {
		fd := FuncDecls(p)[name]
		if fd.Body == nil {
			continue
		}
		// variables that index a slice field, and variables compared with an ID field
		indexes := map[types.Object]string{}
		idLike := map[types.Object]bool{}
		ast.Inspect(fd.Body, func(n ast.Node) bool {
			switch x := n.(type) {
			case *ast.IndexExpr:
				if sel, ok := ast.Unparen(x.X).(*ast.SelectorExpr); ok {
					if fv, ok := info.Uses[sel.Sel].(*types.Var); ok && fv.IsField() {
						if _, isSlice := fv.Type().Underlying().(*types.Slice); isSlice {
							if id, ok := ast.Unparen(x.Index).(*ast.Ident); ok {
								indexes[info.Uses[id]] = fv.Name()
							}
							// uint64 positions are converted for indexing: s.edges[int(i)]
							if c, ok := ast.Unparen(x.Index).(*ast.CallExpr); ok && len(c.Args) == 1 {
								if id, ok := ast.Unparen(c.Args[0]).(*ast.Ident); ok {
									indexes[info.Uses[id]] = fv.Name()
								}
							}
						}
					}
				}
			case *ast.BinaryExpr:
				if x.Op == token.EQL || x.Op == token.NEQ {
					for _, pair := range [][2]ast.Expr{{x.X, x.Y}, {x.Y, x.X}} {
						if sel, ok := ast.Unparen(pair[0]).(*ast.SelectorExpr); ok && sel.Sel.Name == "ID" {
							if id, ok := ast.Unparen(pair[1]).(*ast.Ident); ok {
								idLike[info.Uses[id]] = true
							}
						}
					}
				}
			}
			return true
		})
		ast.Inspect(fd.Body, func(n ast.Node) bool {
			call, ok := n.(*ast.CallExpr)
			if !ok || len(call.Args) == 0 {
				return true
			}
			sel, ok := call.Fun.(*ast.SelectorExpr)
			if !ok {
				return true
			}
			switch sel.Sel.Name {
			case "Contains", "Add", "Remove", "CheckedAdd", "CheckedRemove":
			default:
				return true
			}
			fsel, ok := ast.Unparen(sel.X).(*ast.SelectorExpr)
			if !ok {
				return true
			}
			fv, ok := info.Uses[fsel.Sel].(*types.Var)
			if !ok || !fv.IsField() || fv.Pkg() != p.Types {
				return true
			}
			for _, a := range call.Args {
				class := ""
				switch x := ast.Unparen(a).(type) {
				case *ast.SelectorExpr:
					if x.Sel.Name == "ID" {
						class = "ID"
					}
				case *ast.Ident:
					o := info.Uses[x]
					if f, is := indexes[o]; is {
						class = "position in " + f
					} else if idLike[o] {
						class = "ID"
					}
				}
				if class != "" {
					uses[fv.Name()] = append(uses[fv.Name()], use{class, call.Pos(), funcDeclName(fd), sel.Sel.Name + "(" + exprString(r.Fset, a) + ")"})
					if firstField[fv.Name()] == nil || fv.Pos() < firstField[fv.Name()].Pos() {
						firstField[fv.Name()] = fv
					}
				}
			}
			return true
		})
	}
	n := 0
	for _, fname := range sortedKeys(uses) {
		fv := firstField[fname]
		us := uses[fname]
		byClass := map[string][]use{}
		for _, u := range us {
			byClass[u.class] = append(byClass[u.class], u)
		}
		n++
		construct := fv.Name()
		if len(byClass) == 1 {
			r.Pass(rule, construct, fv.Pos(), "every classified value handed to the set is of one kind (%s, %d sites)", sortedKeys(byClass)[0], len(us))
			continue
		}
		// the kind with the fewest sites is reported
		minority := ""
		for _, c := range sortedKeys(byClass) {
			if minority == "" || len(byClass[c]) < len(byClass[minority]) {
				minority = c
			}
		}
		u := byClass[minority][0]
		r.Fail(rule, construct, u.pos, "the set %s is given %s elsewhere, but %s in %s hands it a %s: the two number spaces agree only by accident, so the lookup answers for another edge", construct, strings.Join(without(sortedKeys(byClass), minority), ", "), u.text, u.in, minority)
	}
	r.Counts[rule+":sets"] = n
}

func sortVars(vs []*types.Var) {
	for i := 1; i < len(vs); i++ {
		for j := i; j > 0 && vs[j-1].Pos() > vs[j].Pos(); j-- {
			vs[j-1], vs[j] = vs[j], vs[j-1]
		}
	}
}

// fieldOwnerName: the struct type of package p that declares the field.
func fieldOwnerName(p *packages.Package, fv *types.Var) string {
	for _, name := range p.Types.Scope().Names() {
		if tn, ok := p.Types.Scope().Lookup(name).(*types.TypeName); ok {
			if st, ok := tn.Type().Underlying().(*types.Struct); ok {
				for i := 0; i < st.NumFields(); i++ {
					if st.Field(i) == fv {
						return name
					}
				}
			}
		}
	}
	return "?"
}
