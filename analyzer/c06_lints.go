package main

// Two hygiene rules about how names are compared.
//
// identifier-case: Cypher variable and parameter symbols are case sensitive (n and N are two variables). A comparison
// that folds case — strings.EqualFold, or ToLower/ToUpper applied first — on a value that comes from a variable's or a
// parameter's symbol identifies two different bindings. (Function names and keywords are case insensitive; folding those
// is right, and the rule looks at where the compared value comes from, not at the call.)
//
// prefix-scheme: a key namespace made by putting a constant in front of a name (`"$" + symbol`) is recognised by that
// constant being the prefix. Testing for it anywhere in the key (strings.Contains, strings.Index ≥ 0) takes a name
// that merely contains the constant for a member of the namespace.

import (
	"go/ast"
	"go/constant"
	"go/token"
	"go/types"
	"strings"

	"golang.org/x/tools/go/packages"
)

func checkIdentifierCaseFolding(r *Run, rule string, pkgs ...*packages.Package) {
	n := 0
	for _, p := range pkgs {
		info := p.TypesInfo
		decls := FuncDecls(p)
		// symbolExpr: the expression is the symbol of a variable or of a parameter — the field itself, a helper of the
		// package that hands it back, a local that holds one of these, or a parameter that every call in the package
		// gives one of these
		var symbolExpr func(fd *ast.FuncDecl, e ast.Expr, depth int) string
		symbolExpr = func(fd *ast.FuncDecl, e ast.Expr, depth int) string {
			if depth > 4 {
				return ""
			}
			e = ast.Unparen(e)
			switch x := e.(type) {
			case *ast.SelectorExpr:
				if x.Sel.Name == "Symbol" {
					switch namedName(info.TypeOf(x.X)) {
					case "Variable":
						return "Variable.Symbol"
					case "Parameter":
						return "Parameter.Symbol"
					}
				}
			case *ast.CallExpr:
				if tv, has := info.Types[x.Fun]; has && tv.IsType() && len(x.Args) == 1 {
					return symbolExpr(fd, x.Args[0], depth+1)
				}
				fn := calleeOf(info, x)
				if fn == nil || fn.Pkg() != p.Types {
					return ""
				}
				hd := decls[declKeyOf(fn)]
				if hd == nil || hd.Body == nil {
					return ""
				}
				if sig := fn.Type().(*types.Signature); sig.Results().Len() != 1 {
					return ""
				}
				what := ""
				ast.Inspect(hd.Body, func(m ast.Node) bool {
					if _, isLit := m.(*ast.FuncLit); isLit {
						return false
					}
					if rs, ok := m.(*ast.ReturnStmt); ok && len(rs.Results) == 1 {
						if w := symbolExpr(hd, rs.Results[0], depth+1); w != "" {
							what = w
						}
					}
					return true
				})
				return what
			case *ast.Ident:
				obj := info.Uses[x]
				if def := resolveLocalCopy(info, fd.Body, x); def != ast.Expr(x) {
					return symbolExpr(fd, def, depth+1)
				}
				// a parameter: what the calls hand in
				idx := paramIndexOf(info, fd, obj)
				if idx < 0 {
					return ""
				}
				self, _ := info.Defs[fd.Name].(*types.Func)
				what, sites, all := "", 0, true
				for _, cd := range decls {
					if cd.Body == nil {
						continue
					}
					ast.Inspect(cd.Body, func(m ast.Node) bool {
						call, ok := m.(*ast.CallExpr)
						if !ok || idx >= len(call.Args) {
							return true
						}
						if c := calleeOf(info, call); c == nil || c.Origin() != self {
							return true
						}
						sites++
						if w := symbolExpr(cd, call.Args[idx], depth+1); w != "" {
							what = w
						} else {
							all = false
						}
						return true
					})
				}
				if sites > 0 && all {
					return what
				}
			}
			return ""
		}
		for _, f := range p.Syntax {
			for _, d := range f.Decls {
				fd, ok := d.(*ast.FuncDecl)
				if !ok || fd.Body == nil {
					continue
				}
				ast.Inspect(fd.Body, func(x ast.Node) bool {
					call, ok := x.(*ast.CallExpr)
					if !ok {
						return true
					}
					fn := calleeOf(info, call)
					if fn == nil {
						return true
					}
					full := funcFullName(fn)
					if full != "strings.EqualFold" && full != "strings.ToLower" && full != "strings.ToUpper" {
						return true
					}
					n++
					for _, a := range call.Args {
						if what := symbolExpr(fd, a, 0); what != "" {
							r.Fail(rule, funcDeclName(fd)+":"+fn.Name()+"("+exprString(r.Fset, a)+")", call.Pos(), "%s folds the case of %s, which is %s: Cypher names are case sensitive, so two different bindings (n and N) are taken for one", full, exprString(r.Fset, a), what)
						}
					}
					return true
				})
			}
		}
	}
	r.Counts[rule+":calls"] = n
	r.Pass(rule, "scan", token.NoPos, "%d case-folding calls looked at; none is applied to the symbol of a variable or of a parameter (each such call fails on its own)", n)
}

func checkPrefixSchemeTests(r *Run, rule string, pkgs ...*packages.Package) {
	for _, p := range pkgs {
		info := p.TypesInfo
		// constants used as the left operand of a concatenation whose result is converted to (or is) an identifier key
		prefixes := map[string]token.Pos{}
		for _, f := range p.Syntax {
			ast.Inspect(f, func(x ast.Node) bool {
				be, ok := x.(*ast.BinaryExpr)
				if !ok || be.Op != token.ADD {
					return true
				}
				tv, has := info.Types[be.X]
				if !has || tv.Value == nil || tv.Value.Kind() != constant.String {
					return true
				}
				c := constant.StringVal(tv.Value)
				if c == "" || len(c) > 3 {
					return true
				}
				if rtv, has := info.Types[be.Y]; has && rtv.Value != nil {
					return true // constant folding, not a key scheme
				}
				// the non-constant side is a name: a string-typed identifier or field called symbol/name/identifier…
				if _, seen := prefixes[c]; !seen {
					prefixes[c] = be.Pos()
				}
				return true
			})
		}
		for _, f := range p.Syntax {
			for _, d := range f.Decls {
				fd, ok := d.(*ast.FuncDecl)
				if !ok || fd.Body == nil {
					continue
				}
				ast.Inspect(fd.Body, func(x ast.Node) bool {
					call, ok := x.(*ast.CallExpr)
					if !ok || len(call.Args) != 2 {
						return true
					}
					fn := calleeOf(info, call)
					if fn == nil {
						return true
					}
					full := funcFullName(fn)
					if full != "strings.Contains" && full != "strings.Index" && full != "strings.ContainsRune" && full != "strings.IndexByte" {
						return true
					}
					tv, has := info.Types[call.Args[1]]
					if !has || tv.Value == nil {
						return true
					}
					c := ""
					switch tv.Value.Kind() {
					case constant.String:
						c = constant.StringVal(tv.Value)
					case constant.Int:
						if v, exact := constant.Int64Val(tv.Value); exact && v > 0 && v < 128 {
							c = string(rune(v))
						}
					}
					at, isPrefix := prefixes[c]
					if !isPrefix {
						return true
					}
					// only keys: the tested value is of an identifier type
					if n := namedOf(info.TypeOf(call.Args[0])); n == nil || n.Obj().Name() != "Identifier" {
						if inner, ok := ast.Unparen(call.Args[0]).(*ast.CallExpr); !ok || len(inner.Args) != 0 {
							return true
						} else if sel, ok := inner.Fun.(*ast.SelectorExpr); !ok || sel.Sel.Name != "String" || namedName(info.TypeOf(sel.X)) != "Identifier" {
							return true
						}
					}
					r.Fail(rule, funcDeclName(fd)+":"+fn.Name()+"(…, "+strconvQuote(c)+")", call.Pos(), "keys of a namespace are made by putting %s in front of a name (%s), but this test looks for %s anywhere in the key: a name that merely contains it is taken for a member of the namespace (the test for a prefix is strings.HasPrefix)", strconvQuote(c), r.Pos(at), strconvQuote(c))
					return true
				})
			}
		}
	}
	r.Pass(rule, "scan", token.NoPos, "no key namespace that is made with a constant prefix is tested for by containment (each such test fails on its own)")
}

func strconvQuote(s string) string { return "\"" + s + "\"" }

// checkNameKindsNotMixed (key-space): the string fields of the Cypher model name different things — a variable
// (Variable.Symbol), a parameter (Parameter.Symbol), a property key (PropertyLookup.Symbol), a function
// (FunctionInvocation.Name). A function of the package that is handed a variable's symbol at some of its call sites and
// another kind of name at others, in the same parameter, files them in one key space: the property key `name` then counts
// as a reference to a variable called name.
func checkNameKindsNotMixed(r *Run, rule string, cp *packages.Package, pkgs ...*packages.Package) {
	sinks := 0
	for _, p := range pkgs {
		info := p.TypesInfo
		decls := FuncDecls(p)
		var kindOf func(fd *ast.FuncDecl, e ast.Expr, depth int) string
		kindOf = func(fd *ast.FuncDecl, e ast.Expr, depth int) string {
			if depth > 3 {
				return ""
			}
			e = ast.Unparen(e)
			switch x := e.(type) {
			case *ast.SelectorExpr:
				if s := info.Selections[x]; s != nil && s.Kind() == types.FieldVal {
					if b, ok := s.Obj().Type().Underlying().(*types.Basic); ok && b.Info()&types.IsString != 0 {
						if n := namedOf(s.Recv()); n != nil && n.Obj().Pkg() == cp.Types {
							return n.Obj().Name() + "." + x.Sel.Name
						}
					}
				}
			case *ast.CallExpr:
				if tv, has := info.Types[x.Fun]; has && tv.IsType() && len(x.Args) == 1 {
					return kindOf(fd, x.Args[0], depth+1)
				}
				fn := calleeOf(info, x)
				if fn == nil || fn.Pkg() != p.Types || fn.Type().(*types.Signature).Results().Len() != 1 {
					return ""
				}
				hd := decls[declKeyOf(fn)]
				if hd == nil || hd.Body == nil {
					return ""
				}
				kinds := map[string]bool{}
				ast.Inspect(hd.Body, func(m ast.Node) bool {
					if _, isLit := m.(*ast.FuncLit); isLit {
						return false
					}
					if rs, ok := m.(*ast.ReturnStmt); ok && len(rs.Results) == 1 {
						if k := kindOf(hd, rs.Results[0], depth+1); k != "" {
							kinds[k] = true
						}
					}
					return true
				})
				if len(kinds) == 1 {
					return sortedKeys(kinds)[0]
				}
			case *ast.Ident:
				if def := resolveLocalCopy(info, fd.Body, x); def != ast.Expr(x) {
					return kindOf(fd, def, depth+1)
				}
			}
			return ""
		}
		type site struct {
			pos  token.Pos
			in   string
			text string
		}
		for _, name := range sortedKeys(decls) {
			gd := decls[name]
			if gd.Body == nil || gd.Type.Params == nil {
				continue
			}
			self, _ := info.Defs[gd.Name].(*types.Func)
			if self == nil {
				continue
			}
			idx := -1
			for _, pl := range gd.Type.Params.List {
				for _, nm := range pl.Names {
					idx++
					po := info.Defs[nm]
					if po == nil {
						continue
					}
					if b, ok := po.Type().Underlying().(*types.Basic); !ok || b.Info()&types.IsString == 0 {
						continue
					}
					byKind := map[string][]site{}
					for _, cn := range sortedKeys(decls) {
						cd := decls[cn]
						if cd.Body == nil {
							continue
						}
						ast.Inspect(cd.Body, func(m ast.Node) bool {
							call, ok := m.(*ast.CallExpr)
							if !ok || idx >= len(call.Args) {
								return true
							}
							if c := calleeOf(info, call); c == nil || c.Origin() != self {
								return true
							}
							if k := kindOf(cd, call.Args[idx], 0); k != "" {
								byKind[k] = append(byKind[k], site{call.Pos(), funcDeclName(cd), exprString(r.Fset, call.Args[idx])})
							}
							return true
						})
					}
					if len(byKind) == 0 {
						continue
					}
					sinks++
					construct := funcDeclName(gd) + ":" + nm.Name
					if len(byKind) == 1 || (len(byKind["Variable.Symbol"]) == 0 && len(byKind["Parameter.Symbol"]) == 0) {
						r.Pass(rule, construct, gd.Pos(), "every call hands in the same kind of name (%s)", strings.Join(sortedKeys(byKind), ", "))
						continue
					}
					// the odd one out: the kind with the fewest sites
					minority := ""
					for _, k := range sortedKeys(byKind) {
						if minority == "" || len(byKind[k]) < len(byKind[minority]) {
							minority = k
						}
					}
					s0 := byKind[minority][0]
					r.Fail(rule, construct, s0.pos, "%s is handed %s at %d call site(s) and %s here (`%s` in %s): two kinds of names are filed in one key space, so a %s that happens to be spelled like a variable counts as that variable", funcDeclName(gd), strings.Join(without(sortedKeys(byKind), minority), ", "), totalSites(byKind)-len(byKind[minority]), minority, s0.text, s0.in, strings.ToLower(strings.ReplaceAll(minority, ".", " ")))
				}
			}
		}
	}
	r.Counts[rule+":sinks"] = sinks
}

func without(xs []string, x string) []string {
	var out []string
	for _, v := range xs {
		if v != x {
			out = append(out, v)
		}
	}
	return out
}

func totalSites[T any](m map[string][]T) int {
	n := 0
	for _, v := range m {
		n += len(v)
	}
	return n
}
