package main

// C12 — change tracking is an exact delta: per-key effect summaries (E8), a finite abstract
// check of the per-key state machine, who-may-write and delta-reader rules.

import (
	"fmt"
	"go/ast"
	"go/token"
	"go/types"
	"sort"
	"strings"

	"golang.org/x/tools/go/packages"
)

func init() { register("C12", checkC12) }

// roles of the three tracking containers of an entity
type trackRoles struct {
	Owner                string
	Current, Plus, Minus string
}

var propRoles = trackRoles{"Properties", "Map", "Modified", "Deleted"}
var kindRoles = trackRoles{"Node", "Kinds", "AddedKinds", "DeletedKinds"}

// effect: one (guard, container, op) step of a mutator, in program order
type effect struct {
	Guard string // "" = the operated key itself; otherwise "other.<Container>" (key ranges over that container of the operand)
	Field string
	Op    string // "+" insert, "-" delete
	Pos   token.Pos
}

type summary struct {
	Method  string
	Effects []effect
	Frame   []string // frame violations: whole-container writes other than nil-initialisation
	Unknown []string
}

func checkC12(r *Run) propMeta {
	meta := propMeta{Level: "other",
		Explanation: "Decides the structural clause of exact change tracking: (R1) the per-key effect summary of every mutator, extracted from the code on all paths (recognising the nil-initialisation and ensure-absent idioms), equals the tracking table — Set: Map+ Modified+ Deleted−; Delete: Map− Deleted+ Modified−; AddKinds: Kinds+ AddedKinds+ DeletedKinds−; DeleteKinds: Kinds− AddedKinds− DeletedKinds+; (R2) frame — mutators touch only the operated key (no whole-container reassignment except nil-initialisation); (R3) a finite abstract check runs the extracted summaries (including Merge, with the operand's per-key state as a second component) over the per-key state space (loaded, inCurrent, inPlus, inMinus) from every consistent start state and checks on every reachable state: Plus∩Minus=∅, inPlus⇒inCurrent, inMinus⇒¬inCurrent, and presence(current)=apply(delta, loaded); (R4) only the entity API in package graph writes the tracking containers; (R5) every driver function that reads one half of a delta reads the other half; (R6) Clone allocates fresh containers. NOT decided: value-level equality of property values (JSON), so 'last edit wins' is decided for presence only.",
		Assumptions: []string{"graph.Kinds.Add/Remove with re-assignment to the field behave as set insert/delete (checked: both search the slice by Kind.Is / ==)"},
		TrustedBase: []string{"go/types", "this analyser"}}
	if err := r.Load("./..."); err != nil {
		r.Fatal("load: %v", err)
	}
	gp := r.MustPkg("graph")
	sums := map[string]*summary{}
	for _, spec := range []struct {
		roles   trackRoles
		methods []string
	}{
		{propRoles, []string{"Set", "Delete", "SetAll", "Merge"}},
		{kindRoles, []string{"AddKinds", "DeleteKinds", "Merge"}},
	} {
		for _, m := range spec.methods {
			s := extractSummary(r, gp, spec.roles, m)
			if s == nil {
				r.Undecide("C12: method %s.%s not found", spec.roles.Owner, m)
				continue
			}
			sums[spec.roles.Owner+"."+m] = s
		}
	}
	// ---- R1 table
	table := map[string][]string{
		"Properties.Set":    {"Map+", "Modified+", "Deleted-"},
		"Properties.Delete": {"Map-", "Deleted+", "Modified-"},
		"Properties.SetAll": {"Map+", "Modified+", "Deleted-"},
		"Node.AddKinds":     {"Kinds+", "AddedKinds+", "DeletedKinds-"},
		"Node.DeleteKinds":  {"Kinds-", "AddedKinds-", "DeletedKinds+"},
	}
	for _, name := range sortedKeys(table) {
		s := sums[name]
		if s == nil {
			continue
		}
		got := map[string]bool{}
		var pos token.Pos
		for _, e := range s.Effects {
			if e.Guard == "" {
				got[e.Field+e.Op] = true
				pos = e.Pos
			}
		}
		want := table[name]
		var missing, extra []string
		for _, w := range want {
			if !got[w] {
				missing = append(missing, w)
			}
		}
		for g := range got {
			found := false
			for _, w := range want {
				if w == g {
					found = true
				}
			}
			if !found {
				extra = append(extra, g)
			}
		}
		sort.Strings(extra)
		if len(missing) == 0 && len(extra) == 0 && len(s.Unknown) == 0 {
			r.Pass("C12-R1-effect-summary", name, pos, "on every path: %s", strings.Join(want, " "))
		} else if len(s.Unknown) > 0 && len(missing) == 0 && len(extra) == 0 {
			r.Undecide("C12-R1: %s contains statements the effect extractor does not model: %v", name, s.Unknown)
		} else {
			r.Fail("C12-R1-effect-summary", name, pos, "effect summary differs from the tracking table: missing %v, unexpected %v (a key can then be reported both written and removed, or the delta no longer reproduces the current state)", missing, extra)
		}
		if len(s.Frame) == 0 {
			r.Pass("C12-R2-frame", name, pos, "touches only the operated key")
		} else {
			r.Fail("C12-R2-frame", name, pos, "mutator writes beyond the operated key: %s", strings.Join(s.Frame, "; "))
		}
	}
	// ---- R3 abstract check
	abstractCheck(r, "Properties", propRoles, sums)
	abstractCheck(r, "Node", kindRoles, sums)
	// ---- R4 who-may-write
	checkTrackingWriters(r, gp)
	// ---- R5 delta readers
	checkDeltaReaders(r)
	// ---- R6 clone
	checkPropertiesClone(r, gp)
	checkKindsNoParamAlias(r, gp)
	checkKindsInPlace(r, gp)
	checkKindsEquality(r, gp)
	checkDedupeAgainstResult(r, gp)
	checkEntityMergeDelegates(r, gp)
	checkAccessorsPure(r, "C12-R12-accessors-pure", gp, "Properties")
	checkDeltaSlotPaths(r, "C12-R13-delta-slot-on-every-path", r.Pkg("drivers/pg"), r.Pkg("cypher/models/pgsql"), r.Pkg("drivers/neo4j"))
	checkEntityNilProperties(r, gp)
	r.Floor("C12-R1-effect-summary", 5)
	r.Floor("C12-R7-kinds-no-in-place-edit", 5)
	r.Floor("C12-R8-kinds-equality", 3)
	r.Floor("C12-R9-entity-nil-properties", 3)
	r.Floor("C12-R3-abstract-state", 2)
	r.Floor("C12-R5-delta-readers", 6)
	return meta
}

func findMethod(p *packages.Package, owner, name string) *ast.FuncDecl {
	for _, f := range p.Syntax {
		for _, d := range f.Decls {
			if fd, ok := d.(*ast.FuncDecl); ok && fd.Recv != nil && fd.Body != nil && fd.Name.Name == name && recvTypeName(fd.Recv.List[0].Type) == owner {
				return fd
			}
		}
	}
	return nil
}

// extractSummary walks the method body in program order.
func extractSummary(r *Run, p *packages.Package, roles trackRoles, method string) *summary {
	fd := findMethod(p, roles.Owner, method)
	if fd == nil {
		return nil
	}
	info := p.TypesInfo
	s := &summary{Method: method}
	recv := recvObj(p, fd)
	isTrack := func(name string) bool { return name == roles.Current || name == roles.Plus || name == roles.Minus }
	// which objects denote "the operated key": parameters that are not the operand entity, range vars over such params
	keyObjs := map[types.Object]string{} // object -> guard
	var operand types.Object
	if fd.Type.Params != nil {
		for _, pl := range fd.Type.Params.List {
			for _, nm := range pl.Names {
				obj := info.Defs[nm]
				if obj == nil {
					continue
				}
				if n := namedOf(obj.Type()); n != nil && n.Obj().Name() == roles.Owner {
					operand = obj
					continue
				}
				keyObjs[obj] = ""
			}
		}
	}
	// recvField: expr is s.<F> with F a tracking container of the receiver
	// locals that hold one of the receiver's containers (`values := s.valueStore(n)`)
	containerAlias := map[types.Object]string{}
	recvField := func(e ast.Expr) string {
		e = ast.Unparen(e)
		if id, isId := e.(*ast.Ident); isId {
			return containerAlias[info.Uses[id]]
		}
		if call, isCall := e.(*ast.CallExpr); isCall {
			// s.valueStore(n): an accessor of the owner that allocates the container when it is nil and hands it back
			if sel, isSel := ast.Unparen(call.Fun).(*ast.SelectorExpr); isSel {
				if id, isId := ast.Unparen(sel.X).(*ast.Ident); isId && info.Uses[id] == recv {
					if f := containerAccessorField(p, calleeOf(info, call)); isTrack(f) {
						return f
					}
				}
			}
			return ""
		}
		sel, ok := e.(*ast.SelectorExpr)
		if !ok {
			return ""
		}
		id, ok := ast.Unparen(sel.X).(*ast.Ident)
		if !ok || info.Uses[id] != recv || !isTrack(sel.Sel.Name) {
			return ""
		}
		return sel.Sel.Name
	}
	operandField := func(e ast.Expr) string {
		sel, ok := ast.Unparen(e).(*ast.SelectorExpr)
		if !ok {
			return ""
		}
		id, ok := ast.Unparen(sel.X).(*ast.Ident)
		if !ok || operand == nil || info.Uses[id] != operand || !isTrack(sel.Sel.Name) {
			return ""
		}
		return sel.Sel.Name
	}
	type activeIter struct {
		it    *iteration
		guard string
	}
	var iters []activeIter // index loops being walked: X[i] denotes the operated key inside them
	keyGuard := func(e ast.Expr) (string, bool) {
		id, ok := ast.Unparen(e).(*ast.Ident)
		if !ok {
			for _, a := range iters {
				if a.it.IsElem(e) {
					return a.guard, true
				}
			}
			return "", false
		}
		g, ok := keyObjs[info.Uses[id]]
		return g, ok
	}
	var walk func(list []ast.Stmt, nilInit string)
	conditional := 0
	var earlyExit *ast.IfStmt
	// idiomCond: conditions that do not make an effect conditional — nil tests of the receiver's own containers
	// (nil-initialisation / ensure-absent), possibly conjoined with len(other.X) > 0, and bare nil guards whose
	// body only leaves (return/continue).
	idiomCond := func(ifs *ast.IfStmt) bool {
		onlyLeaves := len(ifs.Body.List) > 0
		for _, st := range ifs.Body.List {
			switch st.(type) {
			case *ast.ReturnStmt, *ast.BranchStmt:
			default:
				onlyLeaves = false
			}
		}
		if onlyLeaves && ifs.Else == nil {
			// a bare guard leaves without making the effects conditional only when it tests an argument or the receiver
			// for nil (nothing to operate on); any other early exit skips the effects for some operations
			pure := ifs.Init == nil
			var chkNil func(e ast.Expr)
			chkNil = func(e ast.Expr) {
				e = ast.Unparen(e)
				if be, isBin := e.(*ast.BinaryExpr); isBin {
					switch be.Op {
					case token.LOR:
						chkNil(be.X)
						chkNil(be.Y)
						return
					case token.EQL:
						if isNilIdent(info, ast.Unparen(be.Y)) {
							return
						}
					}
				}
				pure = false
			}
			chkNil(ifs.Cond)
			if pure {
				return true
			}
			earlyExit = ifs
			return true
		}
		ok := true
		var chk func(e ast.Expr)
		chk = func(e ast.Expr) {
			e = ast.Unparen(e)
			switch x := e.(type) {
			case *ast.BinaryExpr:
				switch x.Op {
				case token.LAND:
					chk(x.X)
					chk(x.Y)
				case token.EQL, token.NEQ:
					if isNilIdent(info, x.Y) && recvField(x.X) != "" {
						return
					}
					ok = false
				case token.GTR:
					if call, isCall := ast.Unparen(x.X).(*ast.CallExpr); isCall {
						if id, isId := call.Fun.(*ast.Ident); isId && id.Name == "len" && len(call.Args) == 1 && operandField(call.Args[0]) != "" {
							return
						}
					}
					ok = false
				default:
					ok = false
				}
			default:
				ok = false
			}
		}
		chk(ifs.Cond)
		return ok
	}
	handleCall := func(call *ast.CallExpr, lhsField string) bool {
		// delete(s.F, k)
		if id, ok := call.Fun.(*ast.Ident); ok && id.Name == "delete" && len(call.Args) == 2 {
			if f := recvField(call.Args[0]); f != "" {
				if g, ok := keyGuard(call.Args[1]); ok {
					s.Effects = append(s.Effects, effect{g, f, "-", call.Pos()})
					return true
				}
				s.Frame = append(s.Frame, "delete("+f+", "+exprString(r.Fset, call.Args[1])+") with a key other than the operated one")
				return true
			}
		}
		// s.F = s.F.Add(k...) / Remove(k)
		if sel, ok := call.Fun.(*ast.SelectorExpr); ok && lhsField != "" && recvField(sel.X) == lhsField && (sel.Sel.Name == "Add" || sel.Sel.Name == "Remove") {
			op := map[string]string{"Add": "+", "Remove": "-"}[sel.Sel.Name]
			for _, a := range call.Args {
				if g, ok := keyGuard(a); ok {
					s.Effects = append(s.Effects, effect{g, lhsField, op, call.Pos()})
				} else if of := operandField(a); of != "" && call.Ellipsis.IsValid() {
					s.Effects = append(s.Effects, effect{"other." + of, lhsField, op, call.Pos()})
				} else {
					s.Unknown = append(s.Unknown, exprString(r.Fset, call))
				}
			}
			return true
		}
		// s.F = insert(s.F, k): a helper of the package that puts k into the map it is handed (allocating it when nil) and
		// hands the map back
		if fn := calleeOf(info, call); fn != nil && lhsField != "" && len(call.Args) == 2 && recvField(call.Args[0]) == lhsField && isKeyedInsertHelper(p, fn) {
			if g, ok := keyGuard(call.Args[1]); ok {
				s.Effects = append(s.Effects, effect{g, lhsField, "+", call.Pos()})
			} else {
				s.Frame = append(s.Frame, lhsField+" written through "+fn.Name()+" with a key other than the operated one")
			}
			return true
		}
		// s.Set(k, v) — delegation to another mutator of the same owner on the same receiver
		if sel, ok := call.Fun.(*ast.SelectorExpr); ok {
			if id, ok := ast.Unparen(sel.X).(*ast.Ident); ok && info.Uses[id] == recv && len(call.Args) >= 1 {
				if g, ok := keyGuard(call.Args[0]); ok {
					if sub := extractSummary(r, p, roles, sel.Sel.Name); sub != nil {
						for _, e := range sub.Effects {
							if e.Guard == "" {
								s.Effects = append(s.Effects, effect{g, e.Field, e.Op, call.Pos()})
							}
						}
						s.Frame = append(s.Frame, sub.Frame...)
						return true
					}
				}
			}
			// s.Properties.Merge(other.Properties): different owner — ignored here
		}
		return false
	}
	walk = func(list []ast.Stmt, nilInit string) {
		for _, st := range list {
			switch x := st.(type) {
			case *ast.AssignStmt:
				if x.Tok == token.DEFINE && len(x.Lhs) == 1 && len(x.Rhs) == 1 {
					if id, isId := x.Lhs[0].(*ast.Ident); isId {
						if f := recvField(x.Rhs[0]); f != "" {
							if obj := info.Defs[id]; obj != nil && singleAssignment(info, fd.Body, obj) {
								containerAlias[obj] = f
								continue
							}
						}
					}
				}
				for i, l := range x.Lhs {
					// s.F[k] = v
					if ix, ok := ast.Unparen(l).(*ast.IndexExpr); ok {
						if f := recvField(ix.X); f != "" {
							if g, ok := keyGuard(ix.Index); ok {
								s.Effects = append(s.Effects, effect{g, f, "+", x.Pos()})
							} else {
								s.Frame = append(s.Frame, f+"["+exprString(r.Fset, ix.Index)+"] written with a key other than the operated one")
							}
							continue
						}
					}
					if f := recvField(l); f != "" && i < len(x.Rhs) {
						rhs := ast.Unparen(x.Rhs[i])
						switch v := rhs.(type) {
						case *ast.CallExpr:
							if handleCall(v, f) {
								continue
							}
							if id, ok := v.Fun.(*ast.Ident); ok && id.Name == "make" && nilInit == f {
								continue // nil-initialisation
							}
						case *ast.CompositeLit:
							// s.F = map[..]..{k: v} under `s.F == nil`: nil-initialisation that inserts k
							if nilInit == f {
								for _, el := range v.Elts {
									if kv, ok := el.(*ast.KeyValueExpr); ok {
										if g, ok := keyGuard(kv.Key); ok {
											s.Effects = append(s.Effects, effect{g, f, "+", x.Pos()})
										}
									}
								}
								continue
							}
						}
						s.Frame = append(s.Frame, "whole container "+f+" reassigned from "+exprString(r.Fset, rhs))
					}
				}
			case *ast.ExprStmt:
				if call, ok := x.X.(*ast.CallExpr); ok {
					if !handleCall(call, "") {
						// calls that cannot touch the tracking containers are irrelevant
						touches := false
						ast.Inspect(call, func(n ast.Node) bool {
							if e, ok := n.(ast.Expr); ok && recvField(e) != "" {
								touches = true
							}
							return true
						})
						if touches {
							s.Unknown = append(s.Unknown, exprString(r.Fset, call))
						}
					}
				}
			case *ast.IfStmt:
				// recognise `if s.F == nil {..} else {..}`, `if s.F != nil {..}`, `if len(other.X) > 0 && s.F == nil {..}`
				ni := ""
				ast.Inspect(x.Cond, func(n ast.Node) bool {
					if be, ok := n.(*ast.BinaryExpr); ok && be.Op == token.EQL && isNilIdent(info, be.Y) {
						if f := recvField(be.X); f != "" {
							ni = f
						}
					}
					return true
				})
				idiom := idiomCond(x)
				if !idiom {
					conditional++
				}
				before := len(s.Effects)
				walk(x.Body.List, ni)
				switch e := x.Else.(type) {
				case *ast.BlockStmt:
					walk(e.List, "")
				case *ast.IfStmt:
					walk([]ast.Stmt{e}, "")
				}
				if !idiom {
					conditional--
					for i := before; i < len(s.Effects); i++ {
						if !strings.HasSuffix(s.Effects[i].Op, "?") {
							s.Effects[i].Op += "?"
							s.Effects[i].Guard += "" // keep guard
						}
					}
				}
			case *ast.RangeStmt:
				// range over a key parameter (SetAll, variadic kinds) or over a container of the operand
				var g string
				ok := false
				if id, isId := ast.Unparen(x.X).(*ast.Ident); isId {
					if gg, isKey := keyObjs[info.Uses[id]]; isKey {
						g, ok = gg, true
					}
				}
				if of := operandField(x.X); of != "" {
					g, ok = "other."+of, true
				}
				if ok {
					// map ranges bind the key first; slice ranges bind the element second
					var kv ast.Expr = x.Key
					if _, isSlice := info.Types[x.X].Type.Underlying().(*types.Slice); isSlice {
						kv = x.Value
					}
					if id, isId := kv.(*ast.Ident); isId && id.Name != "_" {
						if obj := info.Defs[id]; obj != nil {
							keyObjs[obj] = g
						}
					}
					walk(x.Body.List, "")
				} else {
					s.Unknown = append(s.Unknown, "range over "+exprString(r.Fset, x.X))
				}
			case *ast.ForStmt:
				// the index spelling of the same loops: for i := 0; i < len(X); i++ { … X[i] … }
				it := fullIteration(info, x)
				if it == nil {
					s.Unknown = append(s.Unknown, "for loop that is not a plain iteration over a slice")
					break
				}
				coll := resolveLocalCopy(info, fd.Body, it.Coll)
				var g string
				ok := false
				if id, isId := ast.Unparen(coll).(*ast.Ident); isId {
					if gg, isKey := keyObjs[info.Uses[id]]; isKey {
						g, ok = gg, true
					}
				}
				if of := operandField(coll); of != "" {
					g, ok = "other."+of, true
				}
				if !ok {
					s.Unknown = append(s.Unknown, "loop over "+exprString(r.Fset, it.Coll))
					break
				}
				for obj := range it.elems {
					keyObjs[obj] = g
				}
				iters = append(iters, activeIter{it, g})
				walk(x.Body.List, "")
				iters = iters[:len(iters)-1]
			case *ast.BlockStmt:
				walk(x.List, nilInit)
			case *ast.ReturnStmt, *ast.BranchStmt, *ast.DeclStmt, *ast.EmptyStmt, *ast.IncDecStmt:
			default:
				s.Unknown = append(s.Unknown, fmt.Sprintf("%T", st))
			}
		}
	}
	walk(fd.Body.List, "")
	// collapse duplicate consecutive effects produced by the two arms of the nil-initialisation idiom
	var out []effect
	for _, e := range s.Effects {
		dup := false
		for _, o := range out {
			if o.Guard == e.Guard && o.Field == e.Field && o.Op == e.Op {
				dup = true
			}
		}
		if !dup {
			out = append(out, e)
		}
	}
	s.Effects = out
	if earlyExit != nil {
		// effects positioned after a conditional early exit do not happen on every path
		for i := range s.Effects {
			if s.Effects[i].Pos > earlyExit.Pos() && !strings.HasSuffix(s.Effects[i].Op, "?") {
				s.Effects[i].Op += "?"
			}
		}
		s.Frame = append(s.Frame, "an early exit under `"+exprString(r.Fset, earlyExit.Cond)+"` skips the tracking effects for some operations")
	}
	return s
}

// ---- R3 finite abstract check -------------------------------------------------------------------

type kstate struct{ loaded, cur, plus, minus bool }

func (k kstate) String() string {
	b := func(x bool) string {
		if x {
			return "1"
		}
		return "0"
	}
	return "loaded=" + b(k.loaded) + " current=" + b(k.cur) + " plus=" + b(k.plus) + " minus=" + b(k.minus)
}

func (k kstate) consistent() (bool, string) {
	switch {
	case k.plus && k.minus:
		return false, "the key is recorded both as written and as removed"
	case k.plus && !k.cur:
		return false, "the key is recorded as written but is absent from the current state"
	case k.minus && k.cur:
		return false, "the key is recorded as removed but is present in the current state"
	}
	want := k.loaded
	if k.minus {
		want = false
	} else if k.plus {
		want = true
	}
	if want != k.cur {
		return false, "applying the recorded delta to the loaded state does not reproduce the current state"
	}
	return true, ""
}

func applyEffects(effs []effect, roles trackRoles, s kstate, other *kstate) kstate {
	for _, e := range effs {
		if e.Guard != "" {
			if other == nil {
				continue
			}
			on := false
			switch e.Guard {
			case "other." + roles.Current:
				on = other.cur
			case "other." + roles.Plus:
				on = other.plus
			case "other." + roles.Minus:
				on = other.minus
			}
			if !on {
				continue
			}
		}
		if strings.HasSuffix(e.Op, "?") {
			continue // not a must-effect
		}
		v := e.Op == "+"
		switch e.Field {
		case roles.Current:
			s.cur = v
		case roles.Plus:
			s.plus = v
		case roles.Minus:
			s.minus = v
		}
	}
	return s
}

func abstractCheck(r *Run, owner string, roles trackRoles, sums map[string]*summary) {
	var ops []string
	for name := range sums {
		if strings.HasPrefix(name, owner+".") {
			ops = append(ops, name)
		}
	}
	sort.Strings(ops)
	// consistent start states: freshly loaded (no delta), both loaded values
	var all []kstate
	for _, l := range []bool{false, true} {
		all = append(all, kstate{loaded: l, cur: l})
	}
	seen := map[kstate]bool{}
	queue := append([]kstate(nil), all...)
	for _, s := range queue {
		seen[s] = true
	}
	type witness struct {
		op   string
		from kstate
		oth  *kstate
		to   kstate
		why  string
	}
	var bad []witness
	// fix-point over single-entity ops first, so that operands of Merge are reachable states too
	for len(queue) > 0 {
		s := queue[0]
		queue = queue[1:]
		for _, op := range ops {
			sum := sums[op]
			if strings.HasSuffix(op, ".Merge") {
				continue
			}
			t := applyEffects(sum.Effects, roles, s, nil)
			if ok, why := t.consistent(); !ok {
				bad = append(bad, witness{op, s, nil, t, why})
				continue
			}
			if !seen[t] {
				seen[t] = true
				queue = append(queue, t)
			}
		}
	}
	var reach []kstate
	for s := range seen {
		reach = append(reach, s)
	}
	sort.Slice(reach, func(i, j int) bool { return reach[i].String() < reach[j].String() })
	transitions := 0
	for _, op := range ops {
		if !strings.HasSuffix(op, ".Merge") {
			continue
		}
		sum := sums[op]
		for _, s := range reach {
			for i := range reach {
				o := reach[i]
				if o.loaded != s.loaded {
					continue // both entities are views of the same stored entity: the delta is relative to one loaded state
				}
				t := applyEffects(sum.Effects, roles, s, &o)
				transitions++
				if ok, why := t.consistent(); !ok {
					bad = append(bad, witness{op, s, &o, t, why})
				}
			}
		}
	}
	r.Extra["abstract_states_"+owner] = len(reach)
	r.Extra["abstract_merge_transitions_"+owner] = transitions
	if len(bad) == 0 {
		r.Pass("C12-R3-abstract-state", owner, token.NoPos, "%d reachable per-key states × %d operations (Merge against every reachable operand state): all invariants hold", len(reach), len(ops))
		return
	}
	// one obligation per (operation, reason)
	reported := map[string]bool{}
	for _, w := range bad {
		key := w.op + ":" + w.why
		if reported[key] {
			continue
		}
		reported[key] = true
		oth := ""
		if w.oth != nil {
			oth = " merged with an operand in state [" + w.oth.String() + "]"
		}
		r.Fail("C12-R3-abstract-state", w.op+":"+shortWhy(w.why), token.NoPos, "from the reachable per-key state [%s]%s, %s yields [%s]: %s", w.from, oth, w.op, w.to, w.why)
	}
}

func shortWhy(w string) string {
	switch {
	case strings.Contains(w, "both as written"):
		return "written-and-removed"
	case strings.Contains(w, "written but is absent"):
		return "written-but-absent"
	case strings.Contains(w, "removed but is present"):
		return "removed-but-present"
	}
	return "delta-does-not-reproduce-current"
}

// ---- R4 who-may-write -------------------------------------------------------------------------

func checkTrackingWriters(r *Run, gp *packages.Package) {
	tbl := r.LoadTable("c12_writers")
	fields := map[*types.Var]string{}
	for _, spec := range []trackRoles{propRoles, kindRoles} {
		tn, ok := gp.Types.Scope().Lookup(spec.Owner).(*types.TypeName)
		if !ok {
			r.Fatal("graph.%s not found", spec.Owner)
		}
		st := tn.Type().Underlying().(*types.Struct)
		for i := 0; i < st.NumFields(); i++ {
			n := st.Field(i).Name()
			if n == spec.Current || n == spec.Plus || n == spec.Minus {
				fields[st.Field(i)] = spec.Owner + "." + n
			}
		}
	}
	for f, label := range fields {
		writers := fieldWritersDeep(r, f)
		n := 0
		for _, w := range writers {
			if strings.HasPrefix(w.fn, "graph.") {
				continue // the entity API itself and constructors in package graph
			}
			n++
			construct := label + "@" + w.fn
			if reason, ok := r.InTable(tbl, "c12_writers", construct); ok {
				r.Pass("C12-R4-who-may-write", construct, w.pos, "table: %s", reason)
			} else {
				r.Fail("C12-R4-who-may-write", construct, w.pos, "%s is written outside the entity API of package graph (%s): the change is not recorded in the delta", label, w.text)
			}
		}
		if n == 0 {
			r.Pass("C12-R4-who-may-write", label, f.Pos(), "written only inside package graph")
		}
	}
}

// fieldWritersDeep: fieldWriters plus delete(x.F, k), x.F[k] = v and append-reassignment, in all module packages.
func fieldWritersDeep(r *Run, field *types.Var) []writeSite {
	out := fieldWriters(r, field)
	for path, p := range r.ByPath {
		if !strings.HasPrefix(path, modPath) {
			continue
		}
		for _, f := range p.Syntax {
			for _, d := range f.Decls {
				fd, ok := d.(*ast.FuncDecl)
				if !ok || fd.Body == nil {
					continue
				}
				ast.Inspect(fd.Body, func(n ast.Node) bool {
					if call, ok := n.(*ast.CallExpr); ok {
						if id, ok := call.Fun.(*ast.Ident); ok && (id.Name == "delete" || id.Name == "clear") && len(call.Args) >= 1 {
							if sel, ok := ast.Unparen(call.Args[0]).(*ast.SelectorExpr); ok {
								if s := p.TypesInfo.Selections[sel]; s != nil && s.Obj() == field {
									out = append(out, writeSite{fn: shortPkg(path) + "." + funcDeclName(fd), pos: call.Pos(), text: exprString(r.Fset, call)})
								}
							}
						}
					}
					return true
				})
			}
		}
	}
	return out
}

// ---- R5 delta readers ----------------------------------------------------------------------------

func checkDeltaReaders(r *Run) {
	gp := r.MustPkg("graph")
	cg := BuildCallGraph(r, func(p string) bool {
		return strings.Contains(p, "/drivers/") || strings.HasSuffix(p, "/graph") || strings.Contains(p, "/cypher/models/pgsql")
	})
	// direct reads per function
	direct := map[*types.Func]map[string]token.Pos{}
	for fn, fd := range cg.Decl {
		p := cg.PkgOf[fn]
		if fd.Body == nil {
			continue
		}
		reads := map[string]token.Pos{}
		ast.Inspect(fd.Body, func(n ast.Node) bool {
			switch x := n.(type) {
			case *ast.SelectorExpr:
				if s := p.TypesInfo.Selections[x]; s != nil {
					if s.Kind() == types.FieldVal && s.Obj().Pkg() == gp.Types {
						switch s.Obj().Name() {
						case "AddedKinds", "DeletedKinds", "Kinds", "Modified", "Deleted", "Map":
							if namedName(s.Recv()) == "Node" || namedName(s.Recv()) == "Properties" {
								reads[s.Obj().Name()] = x.Pos()
							}
						}
					}
					if s.Kind() == types.MethodVal && s.Obj().Pkg() == gp.Types {
						switch s.Obj().Name() {
						case "ModifiedProperties", "DeletedProperties", "MapOrEmpty":
							reads[s.Obj().Name()] = x.Pos()
						}
					}
				}
			}
			return true
		})
		if len(reads) > 0 {
			direct[fn] = reads
		}
	}
	// effective reads: own + callees up to depth 2
	effective := func(fn *types.Func) map[string]bool {
		out := map[string]bool{}
		seen := map[*types.Func]bool{}
		var visit func(f *types.Func, d int)
		visit = func(f *types.Func, d int) {
			if seen[f] || d > 2 {
				return
			}
			seen[f] = true
			for k := range direct[f] {
				out[k] = true
			}
			for _, e := range cg.Out[f] {
				visit(e.To, d+1)
			}
		}
		visit(fn, 0)
		return out
	}
	// has(fn, keys): the counterpart is read by fn (with callees) or by every caller chain above it (≤ 3 levels)
	var has func(fn *types.Func, keys []string, depth int) bool
	has = func(fn *types.Func, keys []string, depth int) bool {
		eff := effective(fn)
		for _, k := range keys {
			if eff[k] {
				return true
			}
		}
		if depth >= 3 {
			return false
		}
		callers := cg.In[fn]
		if len(callers) == 0 {
			return false
		}
		for _, e := range callers {
			if !has(e.From, keys, depth+1) {
				return false
			}
		}
		return true
	}
	var fns []*types.Func
	for fn := range direct {
		if cg.PkgOf[fn] == gp {
			continue
		}
		fns = append(fns, fn)
	}
	sort.Slice(fns, func(i, j int) bool { return funcFullName(fns[i]) < funcFullName(fns[j]) })
	for _, fn := range fns {
		d := direct[fn]
		name := shortFuncName(fn)
		// property delta
		if pos, ok := d["ModifiedProperties"]; ok {
			if has(fn, []string{"DeletedProperties", "Deleted"}, 0) {
				r.Pass("C12-R5-delta-readers", name+":properties", pos, "reads modified and deleted properties")
			} else {
				r.Fail("C12-R5-delta-readers", name+":properties", pos, "%s writes the modified properties of an entity but never reads DeletedProperties(): deleted keys survive in the database", name)
			}
		} else if pos, ok := d["DeletedProperties"]; ok {
			if has(fn, []string{"ModifiedProperties", "Modified", "Map", "MapOrEmpty"}, 0) {
				r.Pass("C12-R5-delta-readers", name+":properties", pos, "reads deleted properties together with the modified/current properties")
			} else {
				r.Fail("C12-R5-delta-readers", name+":properties", pos, "%s applies deleted properties but never reads the modified (or current) properties", name)
			}
		}
		// kind delta
		if pos, ok := d["AddedKinds"]; ok {
			if has(fn, []string{"DeletedKinds"}, 0) {
				r.Pass("C12-R5-delta-readers", name+":kinds", pos, "reads added and deleted kinds")
			} else {
				r.Fail("C12-R5-delta-readers", name+":kinds", pos, "%s applies added kinds but never reads DeletedKinds: removed kinds survive in the database", name)
			}
		} else if pos, ok := d["DeletedKinds"]; ok {
			if has(fn, []string{"AddedKinds", "Kinds"}, 0) {
				r.Pass("C12-R5-delta-readers", name+":kinds", pos, "reads deleted kinds together with the added/current kinds")
			} else {
				r.Fail("C12-R5-delta-readers", name+":kinds", pos, "%s applies deleted kinds but never reads the added (or current) kinds", name)
			}
		}
	}
}

func checkPropertiesClone(r *Run, gp *packages.Package) {
	fd := findMethod(gp, "Properties", "Clone")
	if fd == nil {
		r.Undecide("C12-R6: Properties.Clone not found")
		return
	}
	info := gp.TypesInfo
	fresh := map[string]bool{}
	aliased := ""
	// the clone's fields are given their values by assignments `c.F = …` or by the keys of a Properties literal
	judge := func(name string, rhs ast.Expr) {
		if name != "Map" && name != "Modified" && name != "Deleted" {
			return
		}
		if call, ok := ast.Unparen(rhs).(*ast.CallExpr); ok {
			if id, ok := call.Fun.(*ast.Ident); ok && id.Name == "make" {
				fresh[name] = true
				return
			}
			if fn := calleeOf(info, call); fn != nil && (fn.Name() == "Clone" || fn.Name() == "Copy") {
				fresh[name] = true
				return
			}
			// a helper of the package that returns a map it made itself (and never its parameter)
			if fn := calleeOf(info, call); fn != nil && fn.Pkg() == gp.Types && returnsOwnMake(gp, fn) {
				fresh[name] = true
				return
			}
		}
		if rs, ok := ast.Unparen(rhs).(*ast.SelectorExpr); ok && rs.Sel.Name == name {
			aliased = name
		}
	}
	ast.Inspect(fd.Body, func(n ast.Node) bool {
		switch x := n.(type) {
		case *ast.AssignStmt:
			if len(x.Lhs) == 1 && len(x.Rhs) == 1 {
				if sel, ok := ast.Unparen(x.Lhs[0]).(*ast.SelectorExpr); ok {
					judge(sel.Sel.Name, x.Rhs[0])
				}
			}
		case *ast.CompositeLit:
			if namedName(info.TypeOf(x)) == "Properties" {
				for _, el := range x.Elts {
					if kv, ok := el.(*ast.KeyValueExpr); ok {
						if k, ok := kv.Key.(*ast.Ident); ok {
							judge(k.Name, kv.Value)
						}
					}
				}
			}
		}
		return true
	})
	for _, n := range []string{"Map", "Modified", "Deleted"} {
		if fresh[n] && aliased != n {
			r.Pass("C12-R6-clone", "Properties.Clone:"+n, fd.Pos(), "fresh map allocated")
		} else {
			r.Fail("C12-R6-clone", "Properties.Clone:"+n, fd.Pos(), "Clone does not allocate a fresh %s map: the clone shares it with the original", n)
		}
	}
}

// checkKindsNoParamAlias (R6): the tracking slices of two entities must stay disjoint.  Node.Merge feeds one node's
// AddedKinds/DeletedKinds to the other's through Kinds.Add / Concatenate; graph.Kinds.Remove edits in place.  A
// Kinds-returning method that returns one of its slice parameters (even only on a fast path) makes the receiver's
// field share the argument's backing array, so a later edit of one entity rewrites the other's delta.
func checkKindsNoParamAlias(r *Run, gp *packages.Package) {
	info := gp.TypesInfo
	n := 0
	for _, f := range gp.Syntax {
		for _, d := range f.Decls {
			fd, ok := d.(*ast.FuncDecl)
			if !ok || fd.Body == nil || fd.Recv == nil || recvTypeName(fd.Recv.List[0].Type) != "Kinds" || fd.Type.Results == nil {
				continue
			}
			if len(fd.Type.Results.List) != 1 || namedName(info.TypeOf(fd.Type.Results.List[0].Type)) != "Kinds" {
				continue
			}
			params := map[types.Object]bool{}
			if fd.Type.Params != nil {
				for _, pl := range fd.Type.Params.List {
					for _, nm := range pl.Names {
						if obj := info.Defs[nm]; obj != nil {
							if _, isSlice := obj.Type().Underlying().(*types.Slice); isSlice {
								params[obj] = true
							}
						}
					}
				}
			}
			if len(params) == 0 {
				continue
			}
			n++
			bad := token.NoPos
			ast.Inspect(fd.Body, func(x ast.Node) bool {
				ret, ok := x.(*ast.ReturnStmt)
				if !ok || len(ret.Results) != 1 || bad != token.NoPos {
					return true
				}
				e := ast.Unparen(ret.Results[0])
				for {
					switch t := e.(type) {
					case *ast.SliceExpr:
						e = ast.Unparen(t.X)
						continue
					case *ast.CallExpr:
						if tv, ok := info.Types[t.Fun]; ok && tv.IsType() && len(t.Args) == 1 {
							e = ast.Unparen(t.Args[0]) // conversion Kinds(x)
							continue
						}
					}
					break
				}
				if id, ok := e.(*ast.Ident); ok && params[info.Uses[id]] {
					bad = ret.Pos()
				}
				return true
			})
			construct := "Kinds." + fd.Name.Name
			if bad != token.NoPos {
				r.Fail("C12-R6-kinds-alias", construct, bad, "Kinds.%s returns its slice argument: after Node.Merge the receiver's Kinds/AddedKinds/DeletedKinds share a backing array with the merged node's slice, and Kinds.Remove edits in place — a later edit of either node rewrites the other node's recorded delta", fd.Name.Name)
			} else {
				r.Pass("C12-R6-kinds-alias", construct, fd.Pos(), "never returns a slice parameter")
			}
		}
	}
	if n == 0 {
		r.Undecide("C12-R6: no Kinds-returning method with a slice parameter found in package graph")
	}
}

// returnsOwnMake: every return of the function yields nil or a local that was assigned from make(…); none returns a
// parameter.
func returnsOwnMake(p *packages.Package, fn *types.Func) bool {
	info := p.TypesInfo
	fd := FuncDecls(p)[declKeyOf(fn.Origin())]
	if fd == nil || fd.Body == nil {
		return false
	}
	made := map[types.Object]bool{}
	ast.Inspect(fd.Body, func(n ast.Node) bool {
		if as, ok := n.(*ast.AssignStmt); ok && len(as.Lhs) == 1 && len(as.Rhs) == 1 {
			if call, ok := ast.Unparen(as.Rhs[0]).(*ast.CallExpr); ok {
				if id, ok := call.Fun.(*ast.Ident); ok && id.Name == "make" {
					if lid, ok := as.Lhs[0].(*ast.Ident); ok {
						if o := info.Defs[lid]; o != nil {
							made[o] = true
						}
					}
				}
			}
		}
		return true
	})
	ok, any := true, false
	ast.Inspect(fd.Body, func(n ast.Node) bool {
		switch x := n.(type) {
		case *ast.FuncLit:
			return false
		case *ast.ReturnStmt:
			if len(x.Results) != 1 {
				ok = false
				return true
			}
			if isNilIdent(info, x.Results[0]) || knownNilAt(info, fd, x, x.Results[0]) {
				return true
			}
			if id, isID := ast.Unparen(x.Results[0]).(*ast.Ident); isID && made[info.Uses[id]] {
				any = true
				return true
			}
			ok = false
		}
		return true
	})
	return ok && any
}

// isKeyedInsertHelper: fn(m, k) only ever writes m[k], and each of its returns hands back m itself or a new map literal
// whose only key is k (the nil case).
func isKeyedInsertHelper(p *packages.Package, fn *types.Func) bool {
	if fn.Pkg() != p.Types {
		return false
	}
	info := p.TypesInfo
	fd := FuncDecls(p)[declKeyOf(fn.Origin())]
	if fd == nil || fd.Body == nil || fd.Type.Params == nil {
		return false
	}
	var params []types.Object
	for _, pl := range fd.Type.Params.List {
		for _, nm := range pl.Names {
			params = append(params, info.Defs[nm])
		}
	}
	if len(params) != 2 {
		return false
	}
	m, k := params[0], params[1]
	if _, isMap := m.Type().Underlying().(*types.Map); !isMap {
		return false
	}
	isObj := func(e ast.Expr, o types.Object) bool {
		id, ok := ast.Unparen(e).(*ast.Ident)
		return ok && info.Uses[id] == o
	}
	ok, inserts := true, false
	ast.Inspect(fd.Body, func(n ast.Node) bool {
		switch x := n.(type) {
		case *ast.FuncLit:
			ok = false
		case *ast.AssignStmt:
			for _, l := range x.Lhs {
				ix, isIx := ast.Unparen(l).(*ast.IndexExpr)
				if isIx && isObj(ix.X, m) && isObj(ix.Index, k) {
					inserts = true
					continue
				}
				ok = false
			}
		case *ast.IncDecStmt:
			ok = false
		case *ast.CallExpr:
			if id, isID := ast.Unparen(x.Fun).(*ast.Ident); isID && (id.Name == "delete" || id.Name == "clear") {
				ok = false
			}
		case *ast.ReturnStmt:
			if len(x.Results) != 1 {
				ok = false
				return true
			}
			switch r := ast.Unparen(x.Results[0]).(type) {
			case *ast.Ident:
				if info.Uses[r] != m {
					ok = false
				}
			case *ast.CompositeLit:
				if len(r.Elts) != 1 {
					ok = false
					return true
				}
				kv, isKV := r.Elts[0].(*ast.KeyValueExpr)
				if !isKV || !isObj(kv.Key, k) {
					ok = false
				} else {
					inserts = true
				}
			default:
				ok = false
			}
		}
		return true
	})
	return ok && inserts
}

// containerAccessorField: fn is a method whose only job is to hand back one field of its receiver, allocating it first
// when it is nil (`if s.F == nil { s.F = make(…) }; return s.F`). The name of that field, or "".
func containerAccessorField(p *packages.Package, fn *types.Func) string {
	if fn == nil || fn.Pkg() != p.Types {
		return ""
	}
	fd := FuncDecls(p)[declKeyOf(fn)]
	if fd == nil || fd.Body == nil || fd.Recv == nil {
		return ""
	}
	info := p.TypesInfo
	recv := recvObj(p, fd)
	field := ""
	ownField := func(e ast.Expr) string {
		sel, ok := ast.Unparen(e).(*ast.SelectorExpr)
		if !ok {
			return ""
		}
		if id, ok := ast.Unparen(sel.X).(*ast.Ident); ok && info.Uses[id] == recv {
			return sel.Sel.Name
		}
		return ""
	}
	for _, st := range fd.Body.List {
		switch x := st.(type) {
		case *ast.ReturnStmt:
			if len(x.Results) != 1 || ownField(x.Results[0]) == "" || (field != "" && ownField(x.Results[0]) != field) {
				return ""
			}
			field = ownField(x.Results[0])
		case *ast.IfStmt:
			be, ok := ast.Unparen(x.Cond).(*ast.BinaryExpr)
			if !ok || be.Op != token.EQL || !isNilIdent(info, be.Y) || ownField(be.X) == "" || x.Else != nil || x.Init != nil || len(x.Body.List) != 1 {
				return ""
			}
			as, ok := x.Body.List[0].(*ast.AssignStmt)
			if !ok || len(as.Lhs) != 1 || len(as.Rhs) != 1 || ownField(as.Lhs[0]) != ownField(be.X) {
				return ""
			}
			switch v := ast.Unparen(as.Rhs[0]).(type) {
			case *ast.CallExpr:
				if id, ok := v.Fun.(*ast.Ident); !ok || id.Name != "make" {
					return ""
				}
			case *ast.CompositeLit:
				if len(v.Elts) != 0 {
					return ""
				}
			default:
				return ""
			}
			if field != "" && field != ownField(be.X) {
				return ""
			}
			field = ownField(be.X)
		default:
			return ""
		}
	}
	return field
}

// singleAssignment: obj is assigned exactly once inside body (its definition).
func singleAssignment(info *types.Info, body ast.Node, obj types.Object) bool {
	n := 0
	ast.Inspect(body, func(m ast.Node) bool {
		switch x := m.(type) {
		case *ast.AssignStmt:
			for _, l := range x.Lhs {
				if id, ok := l.(*ast.Ident); ok && info.ObjectOf(id) == obj {
					n++
				}
			}
		case *ast.IncDecStmt:
			if id, ok := x.X.(*ast.Ident); ok && info.ObjectOf(id) == obj {
				n++
			}
		case *ast.UnaryExpr:
			if x.Op == token.AND {
				if id, ok := ast.Unparen(x.X).(*ast.Ident); ok && info.ObjectOf(id) == obj {
					n += 2
				}
			}
		}
		return true
	})
	return n == 1
}
