package main

// C03 (e) and (f): two structural necessary conditions of reference closure.
//
// (e) create-source-frame ordering.  buildCreateSourceFrame re-materialises the carried bindings into a new source
//     frame; the INSERT … SELECT built afterwards has only that frame in its FROM.  Any expression that is
//     frame-qualified (RewriteFrameBindings, directly or through a helper) for that INSERT must therefore be
//     qualified after the source frame exists, otherwise it names the previous frame's CTE, which is not a FROM item.
//
// (f) liveness collector arm coverage.  The optimiser prunes bindings that no later clause reads; "reads" are
//     collected by a walk visitor.  When such a collector suppresses its generic *cypher.Variable arm by a piece of
//     traversal state (so that pattern declarations are not counted as reads), the arms that run in the suppressed
//     mode must themselves look at every field of their node type that can hold an expression: a variable read only
//     there is otherwise considered dead, its binding is pruned from the frame, and the later reference dangles.

import (
	"go/ast"
	"go/token"
	"go/types"
	"strings"
)

func checkCreateFrameOrdering(r *Run) {
	const rule = "C03-e-frame-before-qualify"
	tp := r.MustPkg("cypher/models/pgsql/translate")
	info := tp.TypesInfo
	cg := BuildCallGraph(r, func(p string) bool { return strings.Contains(p, "/cypher/models/pgsql/translate") })
	var rewriter *types.Func
	for fn := range cg.Decl {
		if fn.Name() == "RewriteFrameBindings" && cg.PkgOf[fn] == tp {
			rewriter = fn
		}
	}
	if rewriter == nil {
		r.Undecide("C03-e: translate.RewriteFrameBindings not found")
		return
	}
	reaches := map[*types.Func]bool{}
	reachesRewriter := func(fn *types.Func) bool {
		if v, ok := reaches[fn]; ok {
			return v
		}
		_, ok := cg.Reach([]*types.Func{fn}, nil)[rewriter]
		reaches[fn] = ok
		return ok
	}
	for fn, fd := range cg.Decl {
		if cg.PkgOf[fn] != tp || fd.Body == nil {
			continue
		}
		framePos := token.NoPos
		ast.Inspect(fd.Body, func(n ast.Node) bool {
			if call, ok := n.(*ast.CallExpr); ok {
				if c := calleeOf(info, call); c != nil && c.Name() == "buildCreateSourceFrame" && framePos == token.NoPos {
					framePos = call.Pos()
				}
			}
			return true
		})
		if framePos == token.NoPos {
			continue
		}
		ast.Inspect(fd.Body, func(n ast.Node) bool {
			call, ok := n.(*ast.CallExpr)
			if !ok {
				return true
			}
			c := calleeOf(info, call)
			if c == nil || cg.Decl[c] == nil || c.Name() == "buildCreateSourceFrame" || !reachesRewriter(c) {
				return true
			}
			construct := funcDeclName(fd) + ":" + c.Name()
			if call.Pos() > framePos {
				r.Pass(rule, construct, call.Pos(), "%s (which frame-qualifies identifiers) runs after the create source frame is built", c.Name())
			} else {
				r.Fail(rule, construct, call.Pos(), "%s frame-qualifies identifiers (it reaches RewriteFrameBindings) before buildCreateSourceFrame has re-materialised the carried bindings: the qualified references name the previous frame, which is not a FROM item of the INSERT … SELECT built from the new source frame", c.Name())
			}
			return true
		})
	}
	r.Floor(rule, 2)
}

func checkLivenessCollectors(r *Run) {
	const rule = "C03-f-liveness-arm-coverage"
	cpkg := r.MustPkg("cypher/models/cypher")
	exprIface, _ := cpkg.Types.Scope().Lookup("Expression").Type().Underlying().(*types.Interface)
	canHoldExpression := func(t types.Type) bool {
		if sl, ok := t.(*types.Slice); ok {
			t = sl.Elem()
		}
		// only fields of open (interface) type: struct-typed children are visited under their own arms
		if n := namedOf(t); n != nil && n.Obj().Pkg() == cpkg.Types {
			if _, isIface := n.Underlying().(*types.Interface); isIface {
				return true
			}
			return false
		}
		if it, ok := t.Underlying().(*types.Interface); ok && exprIface != nil && types.Identical(it, exprIface) {
			return true
		}
		return false
	}
	found := 0
	for _, rel := range []string{"cypher/models/pgsql/optimize", "cypher/models/pgsql/translate"} {
		p := r.MustPkg(rel)
		info := p.TypesInfo
		for _, f := range p.Syntax {
			for _, d := range f.Decls {
				fd, ok := d.(*ast.FuncDecl)
				if !ok || fd.Body == nil || fd.Recv == nil || (fd.Name.Name != "Enter" && fd.Name.Name != "Visit") {
					continue
				}
				var sw *ast.TypeSwitchStmt
				for _, st := range fd.Body.List {
					if s, ok := st.(*ast.TypeSwitchStmt); ok {
						sw = s
					}
				}
				if sw == nil {
					continue
				}
				// the *cypher.Variable arm, conditional on receiver state
				var stateFields map[*types.Var]bool
				for _, c := range sw.Body.List {
					cc := c.(*ast.CaseClause)
					if len(cc.List) != 1 || namedName(info.TypeOf(cc.List[0])) != "Variable" || namedOf(info.TypeOf(cc.List[0])).Obj().Pkg() != cpkg.Types {
						continue
					}
					if len(cc.Body) == 1 {
						if ifs, ok := cc.Body[0].(*ast.IfStmt); ok && ifs.Else == nil {
							fields := map[*types.Var]bool{}
							ast.Inspect(ifs.Cond, func(n ast.Node) bool {
								if sel, ok := n.(*ast.SelectorExpr); ok {
									if s := info.Selections[sel]; s != nil && s.Kind() == types.FieldVal {
										if v, ok := s.Obj().(*types.Var); ok {
											if b, ok := v.Type().Underlying().(*types.Basic); ok && b.Info()&(types.IsInteger|types.IsBoolean) != 0 {
												fields[v] = true
											}
										}
									}
								}
								return true
							})
							if len(fields) > 0 {
								stateFields = fields
							}
						}
					}
				}
				if stateFields == nil {
					continue
				}
				found++
				recv := recvTypeName(fd.Recv.List[0].Type)
				// arms that consult the same state run differently in the suppressed mode
				for _, c := range sw.Body.List {
					cc := c.(*ast.CaseClause)
					if len(cc.List) != 1 {
						continue
					}
					nt := namedOf(info.TypeOf(cc.List[0]))
					if nt == nil || nt.Obj().Pkg() != cpkg.Types || nt.Obj().Name() == "Variable" {
						continue
					}
					st, ok := nt.Underlying().(*types.Struct)
					if !ok {
						continue
					}
					consults := false
					reads := map[string]bool{}
					for _, s := range cc.Body {
						ast.Inspect(s, func(n ast.Node) bool {
							if sel, ok := n.(*ast.SelectorExpr); ok {
								if sl := info.Selections[sel]; sl != nil && sl.Kind() == types.FieldVal {
									if v, ok := sl.Obj().(*types.Var); ok {
										if stateFields[v] {
											consults = true
										}
										reads[v.Name()] = true
									}
								}
							}
							return true
						})
					}
					if !consults {
						continue
					}
					var missing []string
					for i := 0; i < st.NumFields(); i++ {
						fld := st.Field(i)
						if fld.Exported() && !fld.Embedded() && canHoldExpression(fld.Type()) && !reads[fld.Name()] {
							missing = append(missing, fld.Name())
						}
					}
					construct := recv + "." + fd.Name.Name + ":" + nt.Obj().Name()
					if len(missing) == 0 {
						r.Pass(rule, construct, cc.Pos(), "the arm looks at every expression-holding field of %s", nt.Obj().Name())
					} else {
						r.Fail(rule, construct, cc.Pos(), "%s.%s records a *cypher.Variable only while %s allows it, and the %s arm, which runs in the suppressed mode, never looks at %s.%s: a variable read only inside that expression (e.g. {k: id(n)}) is not recorded, the optimiser prunes its binding from the frame, and the emitted SQL references an identifier that no FROM item defines", recv, fd.Name.Name, fieldNames(stateFields), nt.Obj().Name(), nt.Obj().Name(), strings.Join(missing, ", "+nt.Obj().Name()+"."))
					}
				}
			}
		}
	}
	r.Ob("C03-f-collectors-found", "optimize+translate", token.NoPos, found >= 1, "%d walk visitors suppress their *cypher.Variable arm by traversal state (1 confirmed by reading: sourceReferenceCollector)", found)
}

func fieldNames(m map[*types.Var]bool) string {
	var out []string
	for v := range m {
		out = append(out, v.Name())
	}
	return strings.Join(out, ",")
}
