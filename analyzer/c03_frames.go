package main

// C03 (e) and (f): two structural necessary conditions of reference closure.
//
// (e) create-source-frame ordering.  buildCreateSourceFrame re-materialises the carried bindings into a new source
//     frame; the INSERT … SELECT built afterwards has only that frame in its FROM.  Any expression that is
//     frame-qualified (RewriteFrameBindings, directly or through a helper) for that INSERT must therefore be
//     qualified after the source frame exists, otherwise it names the previous frame's CTE, which is not a FROM item.
//
// (f) liveness collector arm coverage.  The optimiser prunes bindings that no later clause reads; "reads" are
//     collected by a walk visitor.  When such a collector suppresses its generic *cypher.Variable arm by a piece of
//     traversal state (so that pattern declarations are not counted as reads), the arms that run in the suppressed
//     mode must themselves look at every field of their node type that can hold an expression: a variable read only
//     there is otherwise considered dead, its binding is pruned from the frame, and the later reference dangles.

import (
	"go/ast"
	"go/token"
	"go/types"
	"strings"
)

func checkCreateFrameOrdering(r *Run) {
	const rule = "C03-e-frame-before-qualify"
	tp := r.MustPkg("cypher/models/pgsql/translate")
	info := tp.TypesInfo
	cg := BuildCallGraph(r, func(p string) bool { return strings.Contains(p, "/cypher/models/pgsql/translate") })
	var rewriter *types.Func
	for fn := range cg.Decl {
		if fn.Name() == "RewriteFrameBindings" && cg.PkgOf[fn] == tp {
			rewriter = fn
		}
	}
	if rewriter == nil {
		r.Undecide("C03-e: translate.RewriteFrameBindings not found")
		return
	}
	reaches := map[*types.Func]bool{}
	reachesRewriter := func(fn *types.Func) bool {
		if v, ok := reaches[fn]; ok {
			return v
		}
		_, ok := cg.Reach([]*types.Func{fn}, nil)[rewriter]
		reaches[fn] = ok
		return ok
	}
	for fn, fd := range cg.Decl {
		if cg.PkgOf[fn] != tp || fd.Body == nil {
			continue
		}
		framePos := token.NoPos
		ast.Inspect(fd.Body, func(n ast.Node) bool {
			if call, ok := n.(*ast.CallExpr); ok {
				if c := calleeOf(info, call); c != nil && c.Name() == "buildCreateSourceFrame" && framePos == token.NoPos {
					framePos = call.Pos()
				}
			}
			return true
		})
		if framePos == token.NoPos {
			continue
		}
		ast.Inspect(fd.Body, func(n ast.Node) bool {
			call, ok := n.(*ast.CallExpr)
			if !ok {
				return true
			}
			c := calleeOf(info, call)
			if c == nil || cg.Decl[c] == nil || c.Name() == "buildCreateSourceFrame" || !reachesRewriter(c) {
				return true
			}
			construct := funcDeclName(fd) + ":" + c.Name()
			if call.Pos() > framePos {
				r.Pass(rule, construct, call.Pos(), "%s (which frame-qualifies identifiers) runs after the create source frame is built", c.Name())
			} else {
				r.Fail(rule, construct, call.Pos(), "%s frame-qualifies identifiers (it reaches RewriteFrameBindings) before buildCreateSourceFrame has re-materialised the carried bindings: the qualified references name the previous frame, which is not a FROM item of the INSERT … SELECT built from the new source frame", c.Name())
			}
			return true
		})
	}
	r.Floor(rule, 2)
}

func checkLivenessCollectors(r *Run) {
	const rule = "C03-f-liveness-arm-coverage"
	cpkg := r.MustPkg("cypher/models/cypher")
	exprIface, _ := cpkg.Types.Scope().Lookup("Expression").Type().Underlying().(*types.Interface)
	canHoldExpression := func(t types.Type) bool {
		if sl, ok := t.(*types.Slice); ok {
			t = sl.Elem()
		}
		// only fields of open (interface) type: struct-typed children are visited under their own arms
		if n := namedOf(t); n != nil && n.Obj().Pkg() == cpkg.Types {
			if _, isIface := n.Underlying().(*types.Interface); isIface {
				return true
			}
			return false
		}
		if it, ok := t.Underlying().(*types.Interface); ok && exprIface != nil && types.Identical(it, exprIface) {
			return true
		}
		return false
	}
	found := 0
	for _, rel := range []string{"cypher/models/pgsql/optimize", "cypher/models/pgsql/translate"} {
		p := r.MustPkg(rel)
		info := p.TypesInfo
		for _, f := range p.Syntax {
			for _, d := range f.Decls {
				fd, ok := d.(*ast.FuncDecl)
				if !ok || fd.Body == nil || fd.Recv == nil || (fd.Name.Name != "Enter" && fd.Name.Name != "Visit") {
					continue
				}
				var sw *ast.TypeSwitchStmt
				for _, st := range fd.Body.List {
					if s, ok := st.(*ast.TypeSwitchStmt); ok {
						sw = s
					}
				}
				if sw == nil {
					continue
				}
				// the *cypher.Variable arm, conditional on receiver state
				var stateFields map[*types.Var]bool
				for _, c := range sw.Body.List {
					cc := c.(*ast.CaseClause)
					if len(cc.List) != 1 || namedName(info.TypeOf(cc.List[0])) != "Variable" || namedOf(info.TypeOf(cc.List[0])).Obj().Pkg() != cpkg.Types {
						continue
					}
					if len(cc.Body) == 1 {
						if ifs, ok := cc.Body[0].(*ast.IfStmt); ok && ifs.Else == nil {
							fields := map[*types.Var]bool{}
							ast.Inspect(ifs.Cond, func(n ast.Node) bool {
								if sel, ok := n.(*ast.SelectorExpr); ok {
									if s := info.Selections[sel]; s != nil && s.Kind() == types.FieldVal {
										if v, ok := s.Obj().(*types.Var); ok {
											if b, ok := v.Type().Underlying().(*types.Basic); ok && b.Info()&(types.IsInteger|types.IsBoolean) != 0 {
												fields[v] = true
											}
										}
									}
								}
								return true
							})
							if len(fields) > 0 {
								stateFields = fields
							}
						}
					}
				}
				if stateFields == nil {
					continue
				}
				found++
				recv := recvTypeName(fd.Recv.List[0].Type)
				// arms that consult the same state run differently in the suppressed mode
				for _, c := range sw.Body.List {
					cc := c.(*ast.CaseClause)
					if len(cc.List) != 1 {
						continue
					}
					nt := namedOf(info.TypeOf(cc.List[0]))
					if nt == nil || nt.Obj().Pkg() != cpkg.Types || nt.Obj().Name() == "Variable" {
						continue
					}
					st, ok := nt.Underlying().(*types.Struct)
					if !ok {
						continue
					}
					consults := false
					reads := map[string]bool{}
					for _, s := range cc.Body {
						ast.Inspect(s, func(n ast.Node) bool {
							if sel, ok := n.(*ast.SelectorExpr); ok {
								if sl := info.Selections[sel]; sl != nil && sl.Kind() == types.FieldVal {
									if v, ok := sl.Obj().(*types.Var); ok {
										if stateFields[v] {
											consults = true
										}
										reads[v.Name()] = true
									}
								}
							}
							return true
						})
					}
					if !consults {
						continue
					}
					var missing []string
					for i := 0; i < st.NumFields(); i++ {
						fld := st.Field(i)
						if fld.Exported() && !fld.Embedded() && canHoldExpression(fld.Type()) && !reads[fld.Name()] {
							missing = append(missing, fld.Name())
						}
					}
					construct := recv + "." + fd.Name.Name + ":" + nt.Obj().Name()
					if len(missing) == 0 {
						r.Pass(rule, construct, cc.Pos(), "the arm looks at every expression-holding field of %s", nt.Obj().Name())
					} else {
						r.Fail(rule, construct, cc.Pos(), "%s.%s records a *cypher.Variable only while %s allows it, and the %s arm, which runs in the suppressed mode, never looks at %s.%s: a variable read only inside that expression (e.g. {k: id(n)}) is not recorded, the optimiser prunes its binding from the frame, and the emitted SQL references an identifier that no FROM item defines", recv, fd.Name.Name, fieldNames(stateFields), nt.Obj().Name(), nt.Obj().Name(), strings.Join(missing, ", "+nt.Obj().Name()+"."))
					}
				}
			}
		}
	}
	r.Ob("C03-f-collectors-found", "optimize+translate", token.NoPos, found >= 1, "%d walk visitors suppress their *cypher.Variable arm by traversal state (1 confirmed by reading: sourceReferenceCollector)", found)
}

func fieldNames(m map[*types.Var]bool) string {
	var out []string
	for v := range m {
		out = append(out, v.Name())
	}
	return strings.Join(out, ",")
}

// checkTargetIndexAgreement (g): the optimiser's decisions and the translator's look-ups meet through PatternTarget /
// TraversalStepTarget keys (query part, clause, pattern, step).  Every producer of such a key must number clauses the
// same way — by the position in the reading-clause list, i.e. the key variable of the `range` over it.  A producer that
// keeps its own counter (incremented only for MATCH clauses) agrees with the others until an UNWIND precedes a MATCH;
// then the translator finds the decision planned for the previous MATCH, prunes a binding the later MATCH needs, and
// the statement references an identifier that no FROM item defines.
func checkTargetIndexAgreement(r *Run) {
	const rule = "C03-g-target-index"
	n := 0
	for _, rel := range []string{"cypher/models/pgsql/optimize", "cypher/models/pgsql/translate"} {
		p := r.MustPkg(rel)
		info := p.TypesInfo
		for _, f := range p.Syntax {
			for _, d := range f.Decls {
				fd, ok := d.(*ast.FuncDecl)
				if !ok || fd.Body == nil {
					continue
				}
				// range keys and parameters of this function
				rangeKeys := map[types.Object]bool{}
				params := map[types.Object]bool{}
				if fd.Type.Params != nil {
					for _, pl := range fd.Type.Params.List {
						for _, nm := range pl.Names {
							params[info.Defs[nm]] = true
						}
					}
				}
				ast.Inspect(fd.Body, func(x ast.Node) bool {
					if rs, ok := x.(*ast.RangeStmt); ok {
						if id, ok := rs.Key.(*ast.Ident); ok && id.Name != "_" {
							rangeKeys[info.Defs[id]] = true
						}
					}
					if fl, ok := x.(*ast.FuncLit); ok && fl.Type.Params != nil {
						for _, pl := range fl.Type.Params.List {
							for _, nm := range pl.Names {
								params[info.Defs[nm]] = true
							}
						}
					}
					return true
				})
				ast.Inspect(fd.Body, func(x ast.Node) bool {
					cl, ok := x.(*ast.CompositeLit)
					if !ok {
						return true
					}
					tn := namedName(info.TypeOf(cl))
					if tn != "PatternTarget" && tn != "TraversalStepTarget" {
						return true
					}
					for _, el := range cl.Elts {
						kv, ok := el.(*ast.KeyValueExpr)
						if !ok {
							continue
						}
						k, ok := kv.Key.(*ast.Ident)
						if !ok || k.Name != "ClauseIndex" {
							continue
						}
						n++
						construct := shortPkg(p.PkgPath) + "." + funcDeclName(fd) + ":" + tn + ".ClauseIndex"
						val := ast.Unparen(kv.Value)
						okv := false
						how := exprString(r.Fset, val)
						switch v := val.(type) {
						case *ast.Ident:
							obj := info.Uses[v]
							okv = rangeKeys[obj] || params[obj]
						case *ast.SelectorExpr:
							okv = true // copied from another target
						case *ast.BasicLit:
							okv = true // a fixed clause of a recognised shape
						}
						if tv, has := info.Types[val]; has && tv.Value != nil {
							okv = true
						}
						if okv {
							r.Pass(rule, construct, kv.Pos(), "the clause index is the position in the reading-clause list (%s)", how)
						} else {
							r.Fail(rule, construct, kv.Pos(), "the clause index %s is a counter kept by this function, not the position in the reading-clause list that the other producers of %s use: as soon as a clause without a pattern (UNWIND) precedes a MATCH the keys disagree and the translator applies the decision planned for a different MATCH", how, tn)
						}
					}
					return true
				})
			}
		}
	}
	if n < 4 {
		r.Undecide("C03-g: expected several producers of PatternTarget/TraversalStepTarget keys, found %d", n)
	}
}

// checkSnapshotRelinks (h): bindings refer to each other through BoundIdentifier.Dependencies (a path depends on its
// nodes and edges).  A snapshot of the scope copies every binding; the copies' dependency pointers must be re-pointed at
// the copies, otherwise the restored path still depends on the live node bindings, whose LastProjection by then names a
// CTE that only exists inside the sub-select translated in between.
func checkSnapshotRelinks(r *Run) {
	const rule = "C03-h-snapshot-relinks"
	p := r.MustPkg("cypher/models/pgsql/translate")
	info := p.TypesInfo
	fd := FuncDecls(p)["Scope.Snapshot"]
	if fd == nil || fd.Body == nil {
		r.Undecide("C03-h: Scope.Snapshot not found")
		return
	}
	relinks := false
	ast.Inspect(fd.Body, func(x ast.Node) bool {
		as, ok := x.(*ast.AssignStmt)
		if !ok {
			return true
		}
		for _, l := range as.Lhs {
			if ix, ok := ast.Unparen(l).(*ast.IndexExpr); ok {
				if sel, ok := ast.Unparen(ix.X).(*ast.SelectorExpr); ok && sel.Sel.Name == "Dependencies" {
					if s := info.Selections[sel]; s != nil && s.Kind() == types.FieldVal {
						relinks = true
					}
				}
			}
		}
		return true
	})
	if relinks {
		r.Pass(rule, "Scope.Snapshot", fd.Pos(), "the copied bindings' dependency pointers are re-pointed inside Snapshot")
	} else {
		r.Fail(rule, "Scope.Snapshot", fd.Pos(), "Snapshot copies the bindings but leaves their Dependencies pointing at the live bindings: after an isolated sub-translation is restored, a path binding is rendered from its live node bindings, whose LastProjection names a CTE of the sub-select — the statement references a frame that is not in scope")
	}
}

// checkFrameGuardAgreement (i): a reference qualified by a frame (sK.nX) is valid only if that frame carries the
// binding.  Where a function guards such a reference with `<frame>.Known().Contains(id)`, the guard must ask the frame
// that the reference names; asking a neighbouring frame (the step's own frame instead of the previous one) lets through
// bindings the named frame does not have.
func checkFrameGuardAgreement(r *Run) {
	const rule = "C03-i-frame-guard"
	p := r.MustPkg("cypher/models/pgsql/translate")
	info := p.TypesInfo
	n := 0
	for _, f := range p.Syntax {
		for _, d := range f.Decls {
			fd, ok := d.(*ast.FuncDecl)
			if !ok || fd.Body == nil {
				continue
			}
			// local aliases: v := <expr>
			alias := map[types.Object]ast.Expr{}
			ast.Inspect(fd.Body, func(x ast.Node) bool {
				if as, ok := x.(*ast.AssignStmt); ok && as.Tok == token.DEFINE && len(as.Lhs) == len(as.Rhs) {
					for i, l := range as.Lhs {
						if id, ok := l.(*ast.Ident); ok {
							alias[info.Defs[id]] = as.Rhs[i]
						}
					}
				}
				return true
			})
			var norm func(e ast.Expr, depth int) string
			norm = func(e ast.Expr, depth int) string {
				e = ast.Unparen(e)
				if id, ok := e.(*ast.Ident); ok && depth < 4 {
					if rhs, has := alias[info.Uses[id]]; has {
						return norm(rhs, depth+1)
					}
				}
				if sel, ok := e.(*ast.SelectorExpr); ok {
					return norm(sel.X, depth) + "." + sel.Sel.Name
				}
				return exprString(r.Fset, e)
			}
			var refFrames, guardFrames []string
			var refPos token.Pos
			ast.Inspect(fd.Body, func(x ast.Node) bool {
				switch y := x.(type) {
				case *ast.CompositeLit:
					if namedName(info.TypeOf(y)) == "CompoundIdentifier" && len(y.Elts) >= 2 {
						// <frame>.Binding.Identifier
						if sel, ok := ast.Unparen(y.Elts[0]).(*ast.SelectorExpr); ok && sel.Sel.Name == "Identifier" {
							if in2, ok := ast.Unparen(sel.X).(*ast.SelectorExpr); ok && in2.Sel.Name == "Binding" && namedName(info.TypeOf(in2.X)) == "Frame" {
								refFrames = append(refFrames, norm(in2.X, 0))
								refPos = y.Pos()
							}
						}
					}
				case *ast.CallExpr:
					if sel, ok := y.Fun.(*ast.SelectorExpr); ok && sel.Sel.Name == "Contains" {
						if inner, ok := ast.Unparen(sel.X).(*ast.CallExpr); ok {
							if s2, ok := inner.Fun.(*ast.SelectorExpr); ok && (s2.Sel.Name == "Known") && namedName(info.TypeOf(s2.X)) == "Frame" {
								guardFrames = append(guardFrames, norm(s2.X, 0))
							}
						}
					}
				}
				return true
			})
			if len(refFrames) == 0 || len(guardFrames) == 0 {
				continue
			}
			n++
			construct := funcDeclName(fd)
			agree := true
			for _, rf := range refFrames {
				found := false
				for _, gf := range guardFrames {
					if gf == rf {
						found = true
					}
				}
				if !found {
					agree = false
				}
			}
			if agree {
				r.Pass(rule, construct, refPos, "the frame that is asked (%v) is the frame the reference names", guardFrames)
			} else {
				r.Fail(rule, construct, refPos, "the reference is qualified by %v but the guard asks %v: a binding that the step's own frame knows and the named frame does not (a node introduced by the same pattern) passes the guard, and the statement references a column the named CTE does not have", refFrames, guardFrames)
			}
		}
	}
	if n == 0 {
		r.Undecide("C03-i: no function that guards a frame-qualified reference with Known().Contains found")
	}
}
