package main

// E2 — grammar model.  A small parser for the ANTLR4 subset used by
// cypher/grammar/Cypher.g4 and the derived facts the rules need: rule graph,
// own-level derivations, information terminals, unit rules, dominators.

import (
	"fmt"
	"os"
	"sort"
	"strings"
	"unicode"
)

type gKind int

const (
	gSeq gKind = iota
	gAlt
	gRule  // parser rule reference
	gToken // named lexer token reference
	gLit   // quoted literal
	gOpt
	gStar
	gPlus
)

type gNode struct {
	Kind gKind
	Name string
	Kids []*gNode
}

type Grammar struct {
	Rules      map[string]*gNode // parser rules
	RuleOrder  []string
	Lexer      map[string]string // lexer rule -> raw body
	LexerOrder []string
	Keyword    map[string]bool // lexer rule is a case-insensitive fixed keyword
	derivCache map[string][][]string
}

type gLexer struct {
	src []rune
	pos int
}

func (l *gLexer) skip() {
	for l.pos < len(l.src) {
		c := l.src[l.pos]
		if unicode.IsSpace(c) {
			l.pos++
		} else if c == '/' && l.pos+1 < len(l.src) && l.src[l.pos+1] == '*' {
			end := strings.Index(string(l.src[l.pos+2:]), "*/")
			if end < 0 {
				l.pos = len(l.src)
			} else {
				l.pos += 2 + len([]rune(string(l.src[l.pos+2:])[:end])) + 2
			}
		} else if c == '/' && l.pos+1 < len(l.src) && l.src[l.pos+1] == '/' {
			for l.pos < len(l.src) && l.src[l.pos] != '\n' {
				l.pos++
			}
		} else {
			return
		}
	}
}

// next returns the next token: identifiers, quoted literals (with quotes), or single punctuation.
func (l *gLexer) next() string {
	l.skip()
	if l.pos >= len(l.src) {
		return ""
	}
	c := l.src[l.pos]
	if c == '\'' {
		start := l.pos
		l.pos++
		for l.pos < len(l.src) {
			if l.src[l.pos] == '\\' {
				l.pos += 2
				continue
			}
			if l.src[l.pos] == '\'' {
				l.pos++
				break
			}
			l.pos++
		}
		return string(l.src[start:l.pos])
	}
	if c == '[' { // char set in lexer rules
		start := l.pos
		for l.pos < len(l.src) {
			if l.src[l.pos] == '\\' {
				l.pos += 2
				continue
			}
			if l.src[l.pos] == ']' {
				l.pos++
				break
			}
			l.pos++
		}
		return string(l.src[start:l.pos])
	}
	if unicode.IsLetter(c) || c == '_' {
		start := l.pos
		for l.pos < len(l.src) && (unicode.IsLetter(l.src[l.pos]) || unicode.IsDigit(l.src[l.pos]) || l.src[l.pos] == '_') {
			l.pos++
		}
		return string(l.src[start:l.pos])
	}
	if c == '.' && l.pos+1 < len(l.src) && l.src[l.pos+1] == '.' {
		l.pos += 2
		return ".."
	}
	l.pos++
	return string(c)
}

func (l *gLexer) peek() string {
	save := l.pos
	t := l.next()
	l.pos = save
	return t
}

func isParserRuleName(s string) bool {
	return s != "" && unicode.IsLower([]rune(s)[0])
}

func ParseGrammar(path string) (*Grammar, error) {
	b, err := os.ReadFile(path)
	if err != nil {
		return nil, err
	}
	return ParseGrammarSrc(string(b))
}

func ParseGrammarSrc(src string) (*Grammar, error) {
	g := &Grammar{Rules: map[string]*gNode{}, Lexer: map[string]string{}, Keyword: map[string]bool{}, derivCache: map[string][][]string{}}
	l := &gLexer{src: []rune(src)}
	// header
	if t := l.next(); t != "grammar" {
		return nil, fmt.Errorf("grammar: expected 'grammar', got %q", t)
	}
	l.next()
	if t := l.next(); t != ";" {
		return nil, fmt.Errorf("grammar: expected ';' after grammar name")
	}
	for {
		name := l.next()
		if name == "" {
			break
		}
		fragment := false
		if name == "fragment" {
			fragment = true
			name = l.next()
		}
		_ = fragment
		if t := l.next(); t != ":" {
			return nil, fmt.Errorf("grammar: rule %s: expected ':', got %q", name, t)
		}
		if isParserRuleName(name) {
			n, err := parseAlt(l)
			if err != nil {
				return nil, fmt.Errorf("grammar: rule %s: %v", name, err)
			}
			if t := l.next(); t != ";" {
				return nil, fmt.Errorf("grammar: rule %s: expected ';', got %q", name, t)
			}
			if _, dup := g.Rules[name]; dup {
				return nil, fmt.Errorf("grammar: duplicate rule %s", name)
			}
			g.Rules[name] = n
			g.RuleOrder = append(g.RuleOrder, name)
		} else {
			// lexer rule: collect raw tokens to ';'
			var parts []string
			for {
				t := l.next()
				if t == "" {
					return nil, fmt.Errorf("grammar: lexer rule %s: unexpected EOF", name)
				}
				if t == ";" {
					break
				}
				parts = append(parts, t)
			}
			g.Lexer[name] = strings.Join(parts, " ")
			g.LexerOrder = append(g.LexerOrder, name)
			g.Keyword[name] = isKeywordBody(parts)
		}
	}
	if len(g.Rules) == 0 {
		return nil, fmt.Errorf("grammar: no parser rules")
	}
	return g, nil
}

// isKeywordBody: ( 'C' | 'c' ) ( 'Y' | 'y' ) ... — a fixed case-insensitive word.
func isKeywordBody(parts []string) bool {
	if len(parts) == 0 {
		return false
	}
	i := 0
	for i < len(parts) {
		if parts[i] != "(" || i+4 >= len(parts) {
			return false
		}
		a, bar, b, cl := parts[i+1], parts[i+2], parts[i+3], parts[i+4]
		if bar != "|" || cl != ")" || len(a) != 3 || len(b) != 3 {
			return false
		}
		if !strings.EqualFold(a, b) {
			return false
		}
		i += 5
	}
	return true
}

func parseAlt(l *gLexer) (*gNode, error) {
	var alts []*gNode
	for {
		s, err := parseSeq(l)
		if err != nil {
			return nil, err
		}
		alts = append(alts, s)
		if l.peek() == "|" {
			l.next()
			continue
		}
		break
	}
	if len(alts) == 1 {
		return alts[0], nil
	}
	return &gNode{Kind: gAlt, Kids: alts}, nil
}

func parseSeq(l *gLexer) (*gNode, error) {
	seq := &gNode{Kind: gSeq}
	for {
		t := l.peek()
		if t == "" || t == ";" || t == "|" || t == ")" {
			break
		}
		l.next()
		var n *gNode
		switch {
		case t == "(":
			inner, err := parseAlt(l)
			if err != nil {
				return nil, err
			}
			if c := l.next(); c != ")" {
				return nil, fmt.Errorf("expected ')', got %q", c)
			}
			n = inner
		case strings.HasPrefix(t, "'"):
			n = &gNode{Kind: gLit, Name: t[1 : len(t)-1]}
		case isParserRuleName(t):
			n = &gNode{Kind: gRule, Name: t}
		case unicode.IsUpper([]rune(t)[0]):
			n = &gNode{Kind: gToken, Name: t}
		default:
			return nil, fmt.Errorf("unexpected token %q in parser rule", t)
		}
		switch l.peek() {
		case "?":
			l.next()
			n = &gNode{Kind: gOpt, Kids: []*gNode{n}}
		case "*":
			l.next()
			n = &gNode{Kind: gStar, Kids: []*gNode{n}}
		case "+":
			l.next()
			n = &gNode{Kind: gPlus, Kids: []*gNode{n}}
		}
		seq.Kids = append(seq.Kids, n)
	}
	if len(seq.Kids) == 1 {
		return seq.Kids[0], nil
	}
	return seq, nil
}

// ---- derived facts ------------------------------------------------------------

// Symbols in derivations: "R:oC_X" rule reference, "T:NAME" named token, "L:text" literal.
// SP and EOF are removed.

const maxDerivs = 20000

func (g *Grammar) Derivations(rule string) [][]string {
	if d, ok := g.derivCache[rule]; ok {
		return d
	}
	n := g.Rules[rule]
	if n == nil {
		return nil
	}
	d := dedupSeqs(expand(n))
	g.derivCache[rule] = d
	return d
}

func expand(n *gNode) [][]string {
	switch n.Kind {
	case gRule:
		return [][]string{{"R:" + n.Name}}
	case gToken:
		if n.Name == "SP" || n.Name == "EOF" {
			return [][]string{{}}
		}
		return [][]string{{"T:" + n.Name}}
	case gLit:
		return [][]string{{"L:" + n.Name}}
	case gSeq:
		out := [][]string{{}}
		for _, k := range n.Kids {
			ks := expand(k)
			var next [][]string
			for _, a := range out {
				for _, b := range ks {
					s := make([]string, 0, len(a)+len(b))
					s = append(append(s, a...), b...)
					next = append(next, s)
				}
			}
			out = dedupSeqs(next)
			if len(out) > maxDerivs {
				out = out[:maxDerivs]
			}
		}
		return out
	case gAlt:
		var out [][]string
		for _, k := range n.Kids {
			out = append(out, expand(k)...)
		}
		return dedupSeqs(out)
	case gOpt:
		return dedupSeqs(append([][]string{{}}, expand(n.Kids[0])...))
	case gStar, gPlus:
		ks := expand(n.Kids[0])
		var out [][]string
		if n.Kind == gStar {
			out = append(out, []string{})
		}
		out = append(out, ks...)
		for _, a := range ks {
			for _, b := range ks {
				s := make([]string, 0, len(a)+len(b))
				s = append(append(s, a...), b...)
				out = append(out, s)
			}
		}
		return dedupSeqs(out)
	}
	return nil
}

func dedupSeqs(in [][]string) [][]string {
	seen := map[string]bool{}
	var out [][]string
	for _, s := range in {
		k := strings.Join(s, "\x00")
		if !seen[k] {
			seen[k] = true
			out = append(out, s)
		}
	}
	return out
}

// Children returns the set of parser rules referenced by rule (own level).
func (g *Grammar) Children(rule string) []string {
	set := map[string]bool{}
	var walk func(n *gNode)
	walk = func(n *gNode) {
		if n.Kind == gRule {
			set[n.Name] = true
		}
		for _, k := range n.Kids {
			walk(k)
		}
	}
	if n := g.Rules[rule]; n != nil {
		walk(n)
	}
	return sortedKeys(set)
}

// Tokens returns named tokens and literals referenced at own level (excluding SP/EOF).
func (g *Grammar) Tokens(rule string) (named []string, lits []string) {
	ns, ls := map[string]bool{}, map[string]bool{}
	var walk func(n *gNode)
	walk = func(n *gNode) {
		switch n.Kind {
		case gToken:
			if n.Name != "SP" && n.Name != "EOF" {
				ns[n.Name] = true
			}
		case gLit:
			ls[n.Name] = true
		}
		for _, k := range n.Kids {
			walk(k)
		}
	}
	if n := g.Rules[rule]; n != nil {
		walk(n)
	}
	return sortedKeys(ns), sortedKeys(ls)
}

func projectRules(d []string) string {
	var rs []string
	for _, s := range d {
		if strings.HasPrefix(s, "R:") {
			rs = append(rs, s[2:])
		}
	}
	return strings.Join(rs, " ")
}

// collapseRuns collapses adjacent repetitions in the rule projection so that
// "X , X" and "X" are the same projection class modulo count when comparing
// separators — not used for information-terminal detection (count of children is
// itself visible to a handler through AllX()).

// InfoTerminals returns the information terminals of a rule: terminals (named tokens or
// literals) not functionally determined by the child-rule sequence of the derivation.
// Result entries: terminal symbol -> reason.
func (g *Grammar) InfoTerminals(rule string) map[string]string {
	ds := g.Derivations(rule)
	out := map[string]string{}
	// group by projection
	groups := map[string][][]string{}
	for _, d := range ds {
		groups[projectRules(d)] = append(groups[projectRules(d)], d)
	}
	for proj, grp := range groups {
		// variable-text tokens always carry information
		for _, d := range grp {
			for _, s := range d {
				if !strings.HasPrefix(s, "R:") && g.variableText(s) {
					out[s] = "variable-text token"
				}
			}
		}
		if len(grp) < 2 {
			continue
		}
		// terminals whose multiset differs between derivations with identical projection
		counts := make([]map[string]int, len(grp))
		all := map[string]bool{}
		for i, d := range grp {
			counts[i] = map[string]int{}
			for _, s := range d {
				if !strings.HasPrefix(s, "R:") {
					counts[i][s]++
					all[s] = true
				}
			}
		}
		found := false
		for s := range all {
			for i := 1; i < len(grp); i++ {
				if counts[i][s] != counts[0][s] {
					if _, ok := out[s]; !ok {
						out[s] = "not determined by child-rule sequence [" + proj + "]"
					}
					found = true
					break
				}
			}
		}
		// same multiset but different order relative to children (e.g. prefix vs postfix)
		if !found {
			first := strings.Join(grp[0], " ")
			for _, d := range grp[1:] {
				if strings.Join(d, " ") != first {
					for _, s := range d {
						if !strings.HasPrefix(s, "R:") {
							if _, ok := out[s]; !ok {
								out[s] = "position not determined by child-rule sequence [" + proj + "]"
							}
						}
					}
				}
			}
		}
	}
	return out
}

// variableText: a named token whose text is not a fixed keyword (identifier, number, string ...).
func (g *Grammar) variableText(sym string) bool {
	if !strings.HasPrefix(sym, "T:") {
		return false
	}
	name := sym[2:]
	if _, ok := g.Lexer[name]; !ok {
		return false
	}
	return !g.Keyword[name]
}

// Unit: every derivation of the rule is exactly one child rule and nothing else.
func (g *Grammar) Unit(rule string) bool {
	ds := g.Derivations(rule)
	if len(ds) == 0 {
		return false
	}
	for _, d := range ds {
		if len(d) != 1 || !strings.HasPrefix(d[0], "R:") {
			return false
		}
	}
	return true
}

// Reachable returns the set of rules reachable from start (including start), not
// descending below any rule in stop (stop rules themselves are included).
func (g *Grammar) Reachable(start string, stop map[string]bool) map[string]bool {
	seen := map[string]bool{}
	var walk func(r string)
	walk = func(r string) {
		if seen[r] {
			return
		}
		seen[r] = true
		if stop[r] {
			return
		}
		for _, c := range g.Children(r) {
			walk(c)
		}
	}
	walk(start)
	return seen
}

// MandatoryContains: does every parse tree rooted at `rule` contain a node of a rule in set?
// Least fix-point: rule ∈ set, or every own-level derivation contains a child that mandatorily contains.
func (g *Grammar) MandatoryContains(set map[string]bool) map[string]bool {
	res := map[string]bool{}
	for r := range set {
		res[r] = true
	}
	changed := true
	for changed {
		changed = false
		for _, r := range g.RuleOrder {
			if res[r] {
				continue
			}
			ds := g.Derivations(r)
			if len(ds) == 0 {
				continue
			}
			all := true
			for _, d := range ds {
				has := false
				for _, s := range d {
					if strings.HasPrefix(s, "R:") && res[s[2:]] {
						has = true
						break
					}
				}
				if !has {
					all = false
					break
				}
			}
			if all {
				res[r] = true
				changed = true
			}
		}
	}
	return res
}

// PathAvoiding returns a path of rules from start to target that does not pass through
// (enter) any rule in avoid, or nil when every path is blocked (target dominated by avoid).
func (g *Grammar) PathAvoiding(start, target string, avoid map[string]bool) []string {
	if avoid[start] {
		return nil
	}
	prev := map[string]string{start: ""}
	queue := []string{start}
	for len(queue) > 0 {
		r := queue[0]
		queue = queue[1:]
		if r == target {
			var path []string
			for x := r; x != ""; x = prev[x] {
				path = append([]string{x}, path...)
			}
			return path
		}
		for _, c := range g.Children(r) {
			if _, ok := prev[c]; ok {
				continue
			}
			if avoid[c] && c != target {
				continue
			}
			if avoid[c] && c == target {
				continue
			}
			prev[c] = r
			queue = append(queue, c)
		}
	}
	return nil
}

func (g *Grammar) RuleNamesSorted() []string {
	out := append([]string(nil), g.RuleOrder...)
	sort.Strings(out)
	return out
}

// NonNullable: every derivation of the rule contains a terminal, directly or through a child rule that is itself
// non-nullable (whitespace and EOF do not count: Derivations drops them).
func (g *Grammar) NonNullable(rule string) bool {
	return g.nonNullable(rule, map[string]bool{})
}

func (g *Grammar) nonNullable(rule string, busy map[string]bool) bool {
	if busy[rule] {
		return false
	}
	busy[rule] = true
	defer delete(busy, rule)
	ds := g.Derivations(rule)
	if len(ds) == 0 {
		return false
	}
	for _, d := range ds {
		ok := false
		for _, s := range d {
			if !strings.HasPrefix(s, "R:") || g.nonNullable(s[2:], busy) {
				ok = true
				break
			}
		}
		if !ok {
			return false
		}
	}
	return true
}
