package main

// C13-R8 stop-on-false: Each(delegate) hands the values to the delegate until the delegate answers false; callers rely
// on that to stop a search at the first hit. A walker that reads the bitmap in chunks has two loops, and a `break` under
// the delegate's refusal leaves only the inner one: the walk goes on with the next chunk and the delegate is called again
// after it said stop. The refusal has to leave every loop of the walker (return, or a break of the outermost loop).

import (
	"go/ast"
	"go/token"
	"go/types"

	"golang.org/x/tools/go/packages"
)

func checkStopOnFalse(r *Run, p *packages.Package) {
	const rule = "C13-R8-stop-on-false"
	info := p.TypesInfo
	n := 0
	for _, name := range sortedKeys(FuncDecls(p)) {
		fd := FuncDecls(p)[name]
		if fd.Body == nil || fd.Type.Params == nil {
			continue
		}
		fparams := map[types.Object]bool{}
		for _, pl := range fd.Type.Params.List {
			for _, nm := range pl.Names {
				if o := info.Defs[nm]; o != nil {
					if sig, isFunc := o.Type().Underlying().(*types.Signature); isFunc && sig.Results().Len() == 1 {
						if b, ok := sig.Results().At(0).Type().Underlying().(*types.Basic); ok && b.Kind() == types.Bool {
							fparams[o] = true
						}
					}
				}
			}
		}
		if len(fparams) == 0 {
			continue
		}
		isDelegateCall := func(e ast.Expr) bool {
			call, ok := ast.Unparen(e).(*ast.CallExpr)
			if !ok {
				return false
			}
			id, ok := ast.Unparen(call.Fun).(*ast.Ident)
			return ok && fparams[info.Uses[id]]
		}
		var stack []ast.Node
		ast.Inspect(fd.Body, func(m ast.Node) bool {
			if m == nil {
				stack = stack[:len(stack)-1]
				return false
			}
			stack = append(stack, m)
			if _, isLit := m.(*ast.FuncLit); isLit {
				stack = stack[:len(stack)-1]
				return false
			}
			ifs, ok := m.(*ast.IfStmt)
			if !ok {
				return true
			}
			// the refusal: `!delegate(v)`, or `ok := delegate(v); !ok`
			refusal := false
			if u, ok := ast.Unparen(ifs.Cond).(*ast.UnaryExpr); ok && u.Op == token.NOT {
				if isDelegateCall(u.X) {
					refusal = true
				}
				if id, ok := ast.Unparen(u.X).(*ast.Ident); ok {
					if as, ok := ifs.Init.(*ast.AssignStmt); ok && len(as.Lhs) == 1 && len(as.Rhs) == 1 && isDelegateCall(as.Rhs[0]) {
						if l, ok := as.Lhs[0].(*ast.Ident); ok && info.Defs[l] == info.Uses[id] {
							refusal = true
						}
					}
					if def := resolveLocalCopy(info, fd.Body, id); def != ast.Expr(id) && isDelegateCall(def) {
						refusal = true
					}
				}
			}
			if !refusal {
				return true
			}
			var loops []ast.Node
			for _, a := range stack[:len(stack)-1] {
				switch a.(type) {
				case *ast.ForStmt, *ast.RangeStmt:
					loops = append(loops, a)
				}
			}
			if len(loops) == 0 {
				return true
			}
			n++
			construct := funcDeclName(fd) + ":refusal"
			leavesAll := false
			why := ""
			for _, st := range ifs.Body.List {
				switch t := st.(type) {
				case *ast.ReturnStmt:
					leavesAll = true
				case *ast.BranchStmt:
					if t.Tok == token.BREAK && t.Label == nil {
						if len(loops) == 1 {
							leavesAll = true
						} else {
							why = "the break leaves only the inner of " + itoa(len(loops)) + " nested loops"
						}
					}
					if t.Tok == token.BREAK && t.Label != nil {
						// a labelled break: of the outermost loop?
						if ls, ok := labelledStmt(fd.Body, t.Label.Name); ok && ls == loops[0] {
							leavesAll = true
						} else {
							why = "the labelled break does not leave the outermost loop"
						}
					}
					if t.Tok == token.GOTO {
						leavesAll = true
					}
				}
			}
			if leavesAll {
				r.Pass(rule, construct, ifs.Pos(), "a refusal of the delegate ends the whole iteration")
			} else {
				if why == "" {
					why = "the branch neither returns nor breaks"
				}
				r.Fail(rule, construct, ifs.Pos(), "when the delegate answers false the iteration goes on: %s, so the delegate is called again with later values after it said stop (a search that stops at the first hit reports a later one, a bounded collection overflows)", why)
			}
			return true
		})
	}
	r.Counts[rule+":walkers"] = n
}

func labelledStmt(body ast.Node, label string) (ast.Node, bool) {
	var out ast.Node
	ast.Inspect(body, func(n ast.Node) bool {
		if ls, ok := n.(*ast.LabeledStmt); ok && ls.Label.Name == label {
			out = ls.Stmt
		}
		return out == nil
	})
	return out, out != nil
}
