package main

// C12-R13 delta-slot-on-every-path: the update sent to the database carries the keys deleted since the entity was read.
// A function that fills that slot from the entity's properties on one path and with a constant ("{}") on another drops
// the deletions on the second path, unless that path is taken only when there are no properties at all (the pointer is
// nil). A guard that also lets the path be taken when the *current* map is empty — Len() == 0 — loses exactly the case in
// which every remaining key was deleted.

import (
	"go/ast"
	"go/token"
	"go/types"
	"strings"

	"golang.org/x/tools/go/packages"
)

func checkDeltaSlotPaths(r *Run, rule string, pkgs ...*packages.Package) {
	n := 0
	for _, p := range pkgs {
		if p == nil {
			continue
		}
		info := p.TypesInfo
		isProps := func(e ast.Expr) bool {
			t := info.TypeOf(e)
			if pt, ok := t.(*types.Pointer); ok {
				if nt := namedOf(pt.Elem()); nt != nil && nt.Obj().Name() == "Properties" && nt.Obj().Pkg() != nil && strings.HasSuffix(nt.Obj().Pkg().Path(), "/graph") {
					return true
				}
			}
			return false
		}
		for _, name := range sortedKeys(FuncDecls(p)) {
			fd := FuncDecls(p)[name]
			if fd.Body == nil {
				continue
			}
			type assign struct {
				stmt  *ast.AssignStmt
				props ast.Expr // the properties expression the value is read from (nil: a constant)
			}
			slots := map[string][]assign{}
			ast.Inspect(fd.Body, func(x ast.Node) bool {
				as, ok := x.(*ast.AssignStmt)
				if !ok || len(as.Lhs) != len(as.Rhs) {
					return true
				}
				for i, l := range as.Lhs {
					if _, isSel := ast.Unparen(l).(*ast.SelectorExpr); !isSel {
						if _, isId := ast.Unparen(l).(*ast.Ident); !isId {
							continue
						}
					}
					rhs := ast.Unparen(as.Rhs[i])
					key := exprString(r.Fset, l)
					if call, ok := rhs.(*ast.CallExpr); ok {
						fn := calleeOf(info, call)
						if fn != nil && strings.Contains(fn.Name(), "Deleted") {
							for _, a := range call.Args {
								if isProps(a) {
									slots[key] = append(slots[key], assign{as, a})
								}
							}
						}
						continue
					}
					if tv, has := info.Types[rhs]; has && tv.Value != nil {
						slots[key] = append(slots[key], assign{as, nil})
					}
				}
				return true
			})
			for _, key := range sortedKeys(slots) {
				var reads, consts []assign
				for _, a := range slots[key] {
					if a.props != nil {
						reads = append(reads, a)
					} else {
						consts = append(consts, a)
					}
				}
				if len(reads) == 0 || len(consts) == 0 {
					continue
				}
				propsText := exprString(r.Fset, reads[0].props)
				for _, c := range consts {
					n++
					construct := funcDeclName(fd) + ":" + key
					// the constant path is taken only when the properties pointer is nil
					onlyNil := false
					why := "no nil test of " + propsText + " controls it"
					for _, lit := range controlConds(fd.Body, c.stmt) {
						if lit.Neg {
							continue
						}
						if be, ok := ast.Unparen(lit.Expr).(*ast.BinaryExpr); ok {
							switch {
							case be.Op == token.EQL && isNilIdent(info, ast.Unparen(be.Y)) && exprString(r.Fset, be.X) == propsText:
								onlyNil = true
							case be.Op == token.LOR:
								why = "its guard `" + exprString(r.Fset, be) + "` also holds when " + propsText + " is not nil"
							}
						}
					}
					if onlyNil {
						r.Pass(rule, construct, c.stmt.Pos(), "the constant is used only when %s is nil", propsText)
					} else {
						r.Fail(rule, construct, c.stmt.Pos(), "%s is filled from the deleted keys of %s on one path and with a constant on this one, and %s: the keys deleted since the entity was read are not sent, so the stored entity keeps them", key, propsText, why)
					}
				}
			}
		}
	}
	r.Counts[rule+":constant-paths"] = n
	if n == 0 {
		r.Pass(rule, "scan", token.NoPos, "no slot that is filled from an entity's deleted keys is filled with a constant on another path")
	}
}
