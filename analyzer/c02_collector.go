package main

// C02-R11 collector-grows: a function that starts a list with its first element (`edges := []*B{first}`), then loops to
// make the further elements, and returns the list, has to put what the loop makes into the list. When the loop body was
// extracted into a helper that returns the new step, the append that stood in the body is easily left behind: the list
// is returned with the first element only and the caller, which attaches constraints per element, skips every hop after
// the first.

import (
	"go/ast"
	"go/token"
	"go/types"

	"golang.org/x/tools/go/packages"
)

func checkCollectorGrows(r *Run, rule string, pkgs ...*packages.Package) {
	n := 0
	for _, p := range pkgs {
		info := p.TypesInfo
		for _, name := range sortedKeys(FuncDecls(p)) {
			fd := FuncDecls(p)[name]
			if fd.Body == nil {
				continue
			}
			hasLoop := false
			for _, st := range fd.Body.List {
				switch st.(type) {
				case *ast.ForStmt, *ast.RangeStmt:
					hasLoop = true
				}
			}
			if !hasLoop {
				continue
			}
			// locals started as a one-element slice literal at the top level of the function
			for _, st := range fd.Body.List {
				var names []*ast.Ident
				var values []ast.Expr
				switch t := st.(type) {
				case *ast.AssignStmt:
					if t.Tok == token.DEFINE && len(t.Lhs) == len(t.Rhs) {
						for i, l := range t.Lhs {
							if id, ok := l.(*ast.Ident); ok {
								names = append(names, id)
								values = append(values, t.Rhs[i])
							}
						}
					}
				case *ast.DeclStmt:
					if gd, ok := t.Decl.(*ast.GenDecl); ok {
						for _, sp := range gd.Specs {
							if vs, ok := sp.(*ast.ValueSpec); ok && len(vs.Names) == len(vs.Values) {
								names = append(names, vs.Names...)
								values = append(values, vs.Values...)
							}
						}
					}
				}
				for i, id := range names {
					cl, ok := ast.Unparen(values[i]).(*ast.CompositeLit)
					if !ok || len(cl.Elts) != 1 {
						continue
					}
					if _, isSlice := info.TypeOf(cl).Underlying().(*types.Slice); !isSlice {
						continue
					}
					obj := info.Defs[id]
					if obj == nil {
						continue
					}
					returned, grown, handedOut := false, false, false
					ast.Inspect(fd.Body, func(m ast.Node) bool {
						switch t := m.(type) {
						case *ast.ReturnStmt:
							for _, res := range t.Results {
								if rid, ok := ast.Unparen(res).(*ast.Ident); ok && info.Uses[rid] == obj {
									returned = true
								}
							}
						case *ast.AssignStmt:
							for _, l := range t.Lhs {
								if lid, ok := ast.Unparen(l).(*ast.Ident); ok && info.Uses[lid] == obj {
									grown = true
								}
								if ix, ok := ast.Unparen(l).(*ast.IndexExpr); ok {
									if lid, ok := ast.Unparen(ix.X).(*ast.Ident); ok && info.Uses[lid] == obj {
										grown = true
									}
								}
							}
						case *ast.UnaryExpr:
							if t.Op == token.AND {
								if lid, ok := ast.Unparen(t.X).(*ast.Ident); ok && info.Uses[lid] == obj {
									handedOut = true
								}
							}
						}
						return true
					})
					if !returned || handedOut {
						continue
					}
					n++
					construct := funcDeclName(fd) + ":" + id.Name
					if grown {
						r.Pass(rule, construct, id.Pos(), "the list that is started with its first element and returned is added to")
					} else {
						r.Fail(rule, construct, id.Pos(), "%s is started with its first element, the function then loops to make the further elements, and returns %s — but nothing is ever added to it: the caller receives the first element only", id.Name, id.Name)
					}
				}
			}
		}
	}
	r.Counts[rule+":lists"] = n
	if n == 0 {
		r.Pass(rule, "scan", token.NoPos, "no looping function returns a list it started with one element and never added to")
	}
}
