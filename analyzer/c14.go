package main

// C14 — directed-graph containers agree: direction exhaustiveness and direction↔field role consistency.

import (
	"go/ast"
	"go/token"
	"go/types"
	"regexp"
	"strings"

	"golang.org/x/tools/go/packages"
)

func init() { register("C14", checkC14) }

var outSideRe = regexp.MustCompile(`^(out|Out|outbound|startIndex)`)
var inSideRe = regexp.MustCompile(`^(in$|in[A-Z]|In[A-Z]|inbound|endIndex)`)

// sideOfExpr: the side named by any component of a selector chain (`s.outAdj`, `s.out.adj`, `rows.in.offsets`).
func sideOfExpr(e ast.Expr) string {
	for {
		switch x := ast.Unparen(e).(type) {
		case *ast.SelectorExpr:
			if sd := sideOfName(x.Sel.Name); sd != "" {
				return sd
			}
			e = x.X
		case *ast.Ident:
			return sideOfName(x.Name)
		case *ast.IndexExpr:
			e = x.X
		default:
			return ""
		}
	}
}

// sideOfName: which adjacency side a container field / variable name denotes.
func sideOfName(name string) string {
	switch {
	case outSideRe.MatchString(name):
		return "out"
	case inSideRe.MatchString(name) || name == "inbound":
		return "in"
	}
	return ""
}

func checkC14(r *Run) propMeta {
	meta := propMeta{Level: "other",
		Explanation: "Decides a thin structural necessary condition of container agreement: (R1) direction exhaustiveness — every branch on a graph.Direction value in package container distinguishes outbound, inbound and both: a switch has both single-direction cases plus an explicit Both case or a default, and the Both/default branch touches both adjacency sides (or delegates to a direction-aware helper that receives the queried node); a two-way `if d == Outbound … else …` in a function that has callers is reported; (R2) role consistency — the Outbound branch reads only out-side storage (outbound / outOffsets,outAdj / startIndex, and the edge's End as the far endpoint), the Inbound branch the mirror set; builders store `end` under `start` on the out side and `start` under `end` on the in side; closures that fill one side's arrays do not touch the other side's. (R4) query-side read-only — no function reachable from a function that takes a graph.Direction (or from NumNodes/EachNode/EachAdjacentNode) calls a mutating bitmap method (Or/And/AndNot/Xor/Add/Remove/CheckedAdd/Clear) on a bitmap that is a struct field or an element of a map/slice field, directly or through a package function that returns one, without Clone(): such a call makes later answers depend on the query history. The same origin analysis covers a stored bitmap passed to a helper that mutates its parameter, and slices: no append to, sort of, copy into or element write through a slice that aliases a container array (a CSR row is a range of one shared array). (R5) Normalize fills the derived graph's node set from an iteration over the source's nodes; (R6) the CSR builder writes each running-total offset on every iteration. NOT decided: BFS distances, prefix sums, ID normalisation, segment serialisation, reachability — value-level.",
		Assumptions: []string{"adjacency sides are recognised by the repository's naming (out*/outbound/startIndex vs in*/inbound/endIndex; Edge.End is the far endpoint of an outbound edge)"},
		TrustedBase: []string{"go/types", "this analyser"}}
	if err := r.Load("./container/...", "./algo/..."); err != nil {
		r.Fatal("load: %v", err)
	}
	p := r.MustPkg("container")
	cg := BuildCallGraph(r, func(path string) bool { return true })
	info := p.TypesInfo
	isDirection := func(e ast.Expr) bool {
		tv, ok := info.Types[e]
		if !ok {
			return false
		}
		n := namedOf(tv.Type)
		return n != nil && n.Obj().Name() == "Direction" && n.Obj().Pkg() != nil && strings.HasSuffix(n.Obj().Pkg().Path(), "/graph")
	}
	dirConst := func(e ast.Expr) string {
		var id *ast.Ident
		switch x := ast.Unparen(e).(type) {
		case *ast.Ident:
			id = x
		case *ast.SelectorExpr:
			id = x.Sel
		}
		if id == nil {
			return ""
		}
		if c, ok := info.Uses[id].(*types.Const); ok && strings.HasPrefix(c.Name(), "Direction") {
			return strings.TrimPrefix(c.Name(), "Direction")
		}
		return ""
	}
	// sides referenced in a node: via struct field names, local variable names and Edge.Start/End
	sidesIn := func(n ast.Node) map[string]bool {
		out := map[string]bool{}
		ast.Inspect(n, func(x ast.Node) bool {
			switch v := x.(type) {
			case *ast.SelectorExpr:
				if s := info.Selections[v]; s != nil && s.Kind() == types.FieldVal {
					if sd := sideOfName(v.Sel.Name); sd != "" {
						out[sd] = true
					}
					if namedName(s.Recv()) == "Edge" {
						switch v.Sel.Name {
						case "End":
							out["out"] = true
						case "Start":
							out["in"] = true
						}
					}
				}
			case *ast.Ident:
				if _, isVar := info.Uses[v].(*types.Var); isVar {
					if sd := sideOfName(v.Name); sd != "" {
						out[sd] = true
					}
				}
			case *ast.CallExpr:
				if fn := calleeOf(info, v); fn != nil && fn.Name() == "PickFrom" {
					out["out"], out["in"] = true, true // direction-aware helper that receives the queried node
				}
			}
			return true
		})
		return out
	}
	nswitch := 0
	for _, f := range p.Syntax {
		for _, d := range f.Decls {
			fd, ok := d.(*ast.FuncDecl)
			if !ok || fd.Body == nil {
				continue
			}
			fn, _ := info.Defs[fd.Name].(*types.Func)
			ast.Inspect(fd.Body, func(n ast.Node) bool {
				switch s := n.(type) {
				case *ast.SwitchStmt:
					if s.Tag == nil || !isDirection(s.Tag) {
						return true
					}
					nswitch++
					construct := funcDeclName(fd) + ":switch#" + itoa(nswitch)
					_ = construct
					construct = funcDeclName(fd) + ":direction-switch"
					var outB, inB, bothB *ast.CaseClause
					for _, c := range s.Body.List {
						cc := c.(*ast.CaseClause)
						if cc.List == nil {
							if bothB == nil {
								bothB = cc
							}
							continue
						}
						for _, e := range cc.List {
							switch dirConst(e) {
							case "Outbound":
								outB = cc
							case "Inbound":
								inB = cc
							case "Both":
								bothB = cc
							}
						}
					}
					switch {
					case outB == nil || inB == nil:
						r.Fail("C14-R1-direction-exhaustive", construct, s.Pos(), "the switch lacks a case for DirectionOutbound or DirectionInbound")
					case bothB == nil:
						r.Fail("C14-R1-direction-exhaustive", construct, s.Pos(), "the switch handles outbound and inbound but neither DirectionBoth nor a default: a 'both' query falls through and yields nothing")
					default:
						bs := sidesIn(&ast.BlockStmt{List: bothB.Body})
						if both := addsBothEndpoints(info, bothB.Body); both {
							r.Fail("C14-R1-direction-exhaustive", construct, bothB.Pos(), "the both/default branch adds both endpoints of every incident edge unconditionally: the queried node becomes its own neighbour although it has no self loop")
						} else if bs["out"] && bs["in"] {
							r.Pass("C14-R1-direction-exhaustive", construct, s.Pos(), "outbound, inbound and a both/default branch that touches both adjacency sides")
						} else {
							r.Fail("C14-R1-direction-exhaustive", construct, bothB.Pos(), "the both/default branch touches only %v: 'both' must be the union of in- and out-neighbours", sortedKeys(bs))
						}
					}
					if outB != nil {
						os := sidesIn(&ast.BlockStmt{List: outB.Body})
						if os["in"] {
							r.Fail("C14-R2-role-consistency", construct+":outbound", outB.Pos(), "the Outbound branch reads in-side storage (or the edge's Start as far endpoint): outbound and inbound neighbours are swapped")
						} else {
							r.Pass("C14-R2-role-consistency", construct+":outbound", outB.Pos(), "reads only out-side storage")
						}
					}
					if inB != nil {
						is := sidesIn(&ast.BlockStmt{List: inB.Body})
						if is["out"] {
							r.Fail("C14-R2-role-consistency", construct+":inbound", inB.Pos(), "the Inbound branch reads out-side storage (or the edge's End as far endpoint): outbound and inbound neighbours are swapped")
						} else {
							r.Pass("C14-R2-role-consistency", construct+":inbound", inB.Pos(), "reads only in-side storage")
						}
					}
				case *ast.IfStmt:
					be, ok := ast.Unparen(s.Cond).(*ast.BinaryExpr)
					if !ok || (be.Op != token.EQL && be.Op != token.NEQ) || !(isDirection(be.X) || isDirection(be.Y)) {
						return true
					}
					c := dirConst(be.X) + dirConst(be.Y)
					if c == "" {
						return true
					}
					construct := funcDeclName(fd) + ":direction-if"
					if c == "Both" {
						r.Pass("C14-R1-direction-exhaustive", construct, s.Pos(), "explicit test for DirectionBoth")
						return true
					}
					// two-way branch on a single direction: everything else (including Both) takes the other arm
					callers := 0
					if fn != nil {
						callers = len(cg.In[fn])
					}
					// what the function touches for each of the three directions, the tests on the direction decided and
					// every other condition taken both ways
					var sidesFor func(list []ast.Stmt, value string, into map[string]bool)
					decide := func(cond ast.Expr, value string) int {
						cbe, ok := ast.Unparen(cond).(*ast.BinaryExpr)
						if !ok || (cbe.Op != token.EQL && cbe.Op != token.NEQ) || !(isDirection(cbe.X) || isDirection(cbe.Y)) {
							return -1
						}
						k := dirConst(cbe.X) + dirConst(cbe.Y)
						if k == "" {
							return -1
						}
						if (k == value) == (cbe.Op == token.EQL) {
							return 1
						}
						return 0
					}
					sidesFor = func(list []ast.Stmt, value string, into map[string]bool) {
						for _, st := range list {
							switch t := st.(type) {
							case *ast.IfStmt:
								switch decide(t.Cond, value) {
								case 1:
									sidesFor(t.Body.List, value, into)
								case 0:
									if t.Else != nil {
										sidesFor([]ast.Stmt{t.Else}, value, into)
									}
								default:
									for k := range sidesIn(t.Cond) {
										into[k] = true
									}
									if t.Init != nil {
										sidesFor([]ast.Stmt{t.Init}, value, into)
									}
									sidesFor(t.Body.List, value, into)
									if t.Else != nil {
										sidesFor([]ast.Stmt{t.Else}, value, into)
									}
								}
							case *ast.BlockStmt:
								sidesFor(t.List, value, into)
							case *ast.ForStmt:
								sidesFor(t.Body.List, value, into)
							case *ast.RangeStmt:
								for k := range sidesIn(t.X) {
									into[k] = true
								}
								sidesFor(t.Body.List, value, into)
							case *ast.SwitchStmt:
								if t.Tag != nil && isDirection(t.Tag) {
									var deflt, hit *ast.CaseClause
									for _, c := range t.Body.List {
										cc := c.(*ast.CaseClause)
										if cc.List == nil {
											deflt = cc
										}
										for _, e := range cc.List {
											if dirConst(e) == value {
												hit = cc
											}
										}
									}
									if hit == nil {
										hit = deflt
									}
									if hit != nil {
										sidesFor(hit.Body, value, into)
									}
									continue
								}
								for k := range sidesIn(t) {
									into[k] = true
								}
							default:
								// closures handed to iterators run for the same direction
								handled := false
								ast.Inspect(st, func(m ast.Node) bool {
									if fl, ok := m.(*ast.FuncLit); ok {
										sidesFor(fl.Body.List, value, into)
										handled = true
										return false
									}
									return true
								})
								if !handled {
									for k := range sidesIn(st) {
										into[k] = true
									}
								}
							}
						}
					}
					perDir := map[string]map[string]bool{}
					for _, v := range []string{"Outbound", "Inbound", "Both"} {
						perDir[v] = map[string]bool{}
						sidesFor(fd.Body.List, v, perDir[v])
					}
					if perDir["Outbound"]["out"] && perDir["Inbound"]["in"] && !perDir["Outbound"]["in"] && !perDir["Inbound"]["out"] {
						if perDir["Both"]["out"] && perDir["Both"]["in"] {
							r.Pass("C14-R1-direction-exhaustive", construct, s.Pos(), "with the tests on the direction decided, an outbound query touches the out side only, an inbound query the in side only, and a query for both touches both")
						} else {
							r.Fail("C14-R1-direction-exhaustive", construct, s.Pos(), "two-way branch `direction %s Direction%s`: with the tests on the direction decided, a query for DirectionBoth touches only %v although outbound and inbound queries touch one side each: 'both' is treated like a single direction", be.Op, c, sortedKeys(perDir["Both"]))
						}
						return true
					}
					if callers == 0 {
						r.Pass("C14-R1-direction-exhaustive", construct, s.Pos(), "two-way branch on Direction%s in a function without callers in the module (unused API; DirectionBoth would take the %s arm)", c, map[bool]string{true: "else", false: "then"}[be.Op == token.EQL])
						r.Note("%s branches two-way on Direction%s and has no caller in the module", funcDeclName(fd), c)
					} else {
						r.Fail("C14-R1-direction-exhaustive", construct, s.Pos(), "two-way branch `direction %s Direction%s` in a function with %d caller(s): DirectionBoth is treated like the opposite single direction, so a 'both' query returns the wrong endpoint", be.Op, c, callers)
					}
				}
				return true
			})
		}
	}
	checkBuilderRoles(r, p)
	checkSetKeySpaces(r, "C14-R12-set-key-space", p)
	checkStaleLookups(r, "C14-R13-stale-lookup", p)
	// R4: query-side functions never mutate a stored adjacency bitmap
	var roots []*types.Func
	// the read interfaces: every method of DirectedGraph and Triplestore (views included), by name
	readMethods := map[string]bool{}
	for _, in := range []string{"DirectedGraph", "Triplestore"} {
		if tn, ok := p.Types.Scope().Lookup(in).(*types.TypeName); ok {
			if it, ok := tn.Type().Underlying().(*types.Interface); ok {
				for i := 0; i < it.NumMethods(); i++ {
					readMethods[it.Method(i).Name()] = true
				}
			}
		}
	}
	for fn := range cg.Decl {
		if cg.PkgOf[fn] != p {
			continue
		}
		sig := fn.Type().(*types.Signature)
		isRoot := false
		for i := 0; i < sig.Params().Len(); i++ {
			if n := namedOf(sig.Params().At(i).Type()); n != nil && n.Obj().Name() == "Direction" && n.Obj().Pkg() != nil && strings.HasSuffix(n.Obj().Pkg().Path(), "/graph") {
				isRoot = true
			}
		}
		if sig.Recv() != nil && readMethods[fn.Name()] {
			isRoot = true
		}
		if isRoot {
			roots = append(roots, fn)
		}
	}
	r.Ob("C14-R4-query-roots", "container", token.NoPos, len(roots) >= 20, "%d query-side entry points (functions taking a graph.Direction, and the DirectedGraph read methods)", len(roots))
	checkStoredSetsReadOnly(r, "C14-R4-stored-set-readonly", p, cg, roots, true, nil)
	// … nor hands one to a helper that mutates its parameter, nor appends to / sorts / writes through a slice that
	// aliases the container's arrays
	bitmaps := &storedSetAnalysis{r: r, p: p, cg: cg, retStore: map[*types.Func]string{}, busy: map[*types.Func]bool{}, plainFields: true}
	checkStorageAliasing(r, "C14-R4-stored-set-readonly", newAliasAnalysis(r, cg, p), bitmaps, roots)
	checkInPlaceReuse(r, "C14-R4-stored-set-readonly", p)
	checkDerivedGraphKeepsNodes(r, p)
	checkPrefixArraysWrittenEveryIteration(r, p, "C14-R6-prefix-array")
	checkLoopIndexOffset(r, p)
	checkDecoderWrapsSource(r, p)
	checkCountAccessors(r, p)
	checkProjectionCountsFiltered(r, p)
	checkFlagPairedWithPush(r, "C14-R11-extension-flag-paired", r.MustPkg("container"))
	r.Floor("C14-R8-decoder-wraps-source", 1)
	r.Floor("C14-R9-count-accessors", 3)
	r.Floor("C14-R4-stored-set-readonly", 8)
	r.Floor("C14-R1-direction-exhaustive", 6)
	r.Floor("C14-R2-role-consistency", 10)
	return meta
}

// checkBuilderRoles: AddEdge/AddTriple-like functions with (start, end) parameters, and side mixing in fill closures.
func checkBuilderRoles(r *Run, p *packages.Package) {
	info := p.TypesInfo
	for _, f := range p.Syntax {
		for _, d := range f.Decls {
			fd, ok := d.(*ast.FuncDecl)
			if !ok || fd.Body == nil || fd.Type.Params == nil {
				continue
			}
			var startP, endP types.Object
			for _, pl := range fd.Type.Params.List {
				for _, nm := range pl.Names {
					switch nm.Name {
					case "start":
						startP = info.Defs[nm]
					case "end":
						endP = info.Defs[nm]
					}
				}
			}
			if startP != nil && endP != nil {
				// derived locals
				derived := map[types.Object]string{startP: "start", endP: "end"}
				for changed := true; changed; {
					changed = false
					ast.Inspect(fd.Body, func(n ast.Node) bool {
						add := func(lhs ast.Expr, rhs ast.Expr) {
							id, ok := lhs.(*ast.Ident)
							if !ok {
								return
							}
							obj := info.Defs[id]
							if obj == nil {
								return
							}
							if _, done := derived[obj]; done {
								return
							}
							role := ""
							ast.Inspect(rhs, func(m ast.Node) bool {
								if rid, ok := m.(*ast.Ident); ok {
									if rr, ok := derived[info.Uses[rid]]; ok {
										role = rr
									}
								}
								return true
							})
							if role != "" {
								derived[obj] = role
								changed = true
							}
						}
						switch s := n.(type) {
						case *ast.AssignStmt:
							if len(s.Lhs) == len(s.Rhs) {
								for i := range s.Lhs {
									add(s.Lhs[i], s.Rhs[i])
								}
							}
						case *ast.ValueSpec:
							for i, nm := range s.Names {
								if i < len(s.Values) {
									add(nm, s.Values[i])
								}
							}
						}
						return true
					})
				}
				roleOf := func(e ast.Expr) string {
					role := ""
					ast.Inspect(e, func(m ast.Node) bool {
						if id, ok := m.(*ast.Ident); ok {
							if rr, ok := derived[info.Uses[id]]; ok {
								role = rr
							}
						}
						return true
					})
					return role
				}
				n := 0
				ast.Inspect(fd.Body, func(x ast.Node) bool {
					ix, ok := x.(*ast.IndexExpr)
					if !ok {
						return true
					}
					sel, ok := ast.Unparen(ix.X).(*ast.SelectorExpr)
					if !ok {
						return true
					}
					side := sideOfExpr(sel)
					if side == "" {
						return true
					}
					key := roleOf(ix.Index)
					if key == "" {
						return true
					}
					n++
					want := map[string]string{"out": "start", "in": "end"}[side]
					construct := funcDeclName(fd) + ":" + sel.Sel.Name + "[" + key + "]"
					if key == want {
						r.Pass("C14-R2-builder-roles", construct, ix.Pos(), "%s-side storage is keyed by the %s endpoint", side, want)
					} else {
						r.Fail("C14-R2-builder-roles", construct, ix.Pos(), "%s-side storage %s is keyed by the %s endpoint; it must be keyed by %s: every edge is stored reversed on this side", side, sel.Sel.Name, key, want)
					}
					return true
				})
				// values added: `<outContainer>[..].Add(v)` / NewBitmap64With(v) assigned to it
				ast.Inspect(fd.Body, func(x ast.Node) bool {
					checkVal := func(side string, v ast.Expr, pos token.Pos, what string) {
						role := roleOf(v)
						if role == "" {
							return
						}
						want := map[string]string{"out": "end", "in": "start"}[side]
						construct := funcDeclName(fd) + ":" + what + ":" + side + "-value"
						if role == want {
							r.Pass("C14-R2-builder-roles", construct, pos, "%s-side entry holds the %s endpoint", side, want)
						} else {
							r.Fail("C14-R2-builder-roles", construct, pos, "the %s-side entry stores the %s endpoint; it must store %s", side, role, want)
						}
					}
					switch s := x.(type) {
					case *ast.IfStmt:
						// if bm, exists := s.outTmp[startIdx]; exists { bm.Add(endIdx) } else { s.outTmp[startIdx] = New…With(endIdx) }
						if as, ok := s.Init.(*ast.AssignStmt); ok && len(as.Rhs) == 1 {
							if ix, ok := ast.Unparen(as.Rhs[0]).(*ast.IndexExpr); ok {
								if sel, ok := ast.Unparen(ix.X).(*ast.SelectorExpr); ok {
									if side := sideOfExpr(sel); side != "" {
										ast.Inspect(s, func(m ast.Node) bool {
											if call, ok := m.(*ast.CallExpr); ok {
												if cs, ok := call.Fun.(*ast.SelectorExpr); ok && cs.Sel.Name == "Add" && len(call.Args) == 1 {
													checkVal(side, call.Args[0], call.Pos(), sel.Sel.Name+".Add")
												}
												if fn := calleeOf(info, call); fn != nil && strings.HasPrefix(fn.Name(), "NewBitmap64With") && len(call.Args) == 1 {
													checkVal(side, call.Args[0], call.Pos(), sel.Sel.Name+".new")
												}
											}
											return true
										})
									}
								}
							}
						}
					}
					return true
				})
				_ = n
			}
			// side mixing in fill closures: X.Each(func…) where X is side S storage
			ast.Inspect(fd.Body, func(x ast.Node) bool {
				call, ok := x.(*ast.CallExpr)
				if !ok {
					return true
				}
				sel, ok := call.Fun.(*ast.SelectorExpr)
				if !ok || sel.Sel.Name != "Each" || len(call.Args) != 1 {
					return true
				}
				fl, ok := call.Args[0].(*ast.FuncLit)
				if !ok {
					return true
				}
				side := ""
				ast.Inspect(sel.X, func(m ast.Node) bool {
					if s2, ok := m.(*ast.SelectorExpr); ok {
						if sd := sideOfName(s2.Sel.Name); sd != "" {
							side = sd
						}
					}
					return true
				})
				if side == "" {
					return true
				}
				other := map[string]string{"out": "in", "in": "out"}[side]
				mixed := ""
				ast.Inspect(fl.Body, func(m ast.Node) bool {
					if id, ok := m.(*ast.Ident); ok {
						if _, isVar := info.Uses[id].(*types.Var); isVar && sideOfName(id.Name) == other {
							mixed = id.Name
						}
					}
					if s2, ok := m.(*ast.SelectorExpr); ok && sideOfName(s2.Sel.Name) == other {
						mixed = s2.Sel.Name
					}
					return true
				})
				construct := funcDeclName(fd) + ":fill-" + side
				if mixed == "" {
					r.Pass("C14-R2-builder-roles", construct, call.Pos(), "the closure iterating %s-side storage touches only %s-side variables", side, side)
				} else {
					r.Fail("C14-R2-builder-roles", construct, call.Pos(), "the closure iterating %s-side storage writes %s, which belongs to the %s side", side, mixed, other)
				}
				return true
			})
		}
	}
}

// addsBothEndpoints: the statement list (top level, no enclosing condition) passes both <edge>.End and <edge>.Start
// of the same edge value to calls (Add / delegate).
func addsBothEndpoints(info *types.Info, list []ast.Stmt) bool {
	seen := map[string]bool{}
	for _, st := range list {
		es, ok := st.(*ast.ExprStmt)
		if !ok {
			continue
		}
		call, ok := es.X.(*ast.CallExpr)
		if !ok {
			continue
		}
		for _, a := range call.Args {
			if sel, ok := ast.Unparen(a).(*ast.SelectorExpr); ok {
				if s := info.Selections[sel]; s != nil && s.Kind() == types.FieldVal && namedName(s.Recv()) == "Edge" {
					seen[sel.Sel.Name] = true
				}
			}
		}
	}
	return seen["End"] && seen["Start"]
}

// checkDerivedGraphKeepsNodes (R5): a graph derived from another (Normalize) has the same node set under the ID
// translation, including nodes without any edge.  Edges only mention their endpoints, so the derived graph's node set
// must be filled from an iteration over the source's nodes (EachNode / the node bitmap), not only as a side effect of
// adding edges.
func checkDerivedGraphKeepsNodes(r *Run, p *packages.Package) {
	const rule = "C14-R5-derived-node-set"
	info := p.TypesInfo
	n := 0
	for _, f := range p.Syntax {
		for _, d := range f.Decls {
			fd, ok := d.(*ast.FuncDecl)
			if !ok || fd.Body == nil || fd.Recv == nil || fd.Name.Name != "Normalize" || len(fd.Recv.List[0].Names) == 0 {
				continue
			}
			n++
			recv := info.Defs[fd.Recv.List[0].Names[0]]
			fills := false
			recvNamed := namedOf(recv.Type())
			// does the body write node storage of a graph other than the receiver?
			writesDerived := func(body ast.Node) bool {
				w := false
				ast.Inspect(body, func(m ast.Node) bool {
					switch y := m.(type) {
					case *ast.CallExpr:
						if s2, ok := y.Fun.(*ast.SelectorExpr); ok {
							switch s2.Sel.Name {
							case "AddNode":
								if id, ok := ast.Unparen(s2.X).(*ast.Ident); ok && info.Uses[id] != recv {
									w = true
								}
							case "Add":
								if in2, ok := ast.Unparen(s2.X).(*ast.SelectorExpr); ok {
									if id, ok := ast.Unparen(in2.X).(*ast.Ident); ok && info.Uses[id] != recv && namedOf(info.TypeOf(id)) == recvNamed {
										w = true
									}
								}
							}
						}
					case *ast.AssignStmt:
						for _, l := range y.Lhs {
							if ix, ok := ast.Unparen(l).(*ast.IndexExpr); ok {
								if in2, ok := ast.Unparen(ix.X).(*ast.SelectorExpr); ok {
									if id, ok := ast.Unparen(in2.X).(*ast.Ident); ok && info.Uses[id] != recv && namedOf(info.TypeOf(id)) == recvNamed && sideOfName(in2.Sel.Name) == "" {
										w = true
									}
								}
							}
						}
					}
					return true
				})
				return w
			}
			ast.Inspect(fd.Body, func(x ast.Node) bool {
				switch it := x.(type) {
				case *ast.CallExpr:
					sel, ok := it.Fun.(*ast.SelectorExpr)
					if !ok || (sel.Sel.Name != "EachNode" && sel.Sel.Name != "Each") || len(it.Args) != 1 {
						return true
					}
					base := ast.Unparen(sel.X)
					if inner, ok := base.(*ast.SelectorExpr); ok {
						if sideOfName(inner.Sel.Name) != "" {
							return true // an adjacency side, not the node set
						}
						base = ast.Unparen(inner.X)
					}
					if id, ok := base.(*ast.Ident); !ok || info.Uses[id] != recv {
						return true
					}
					if fl, ok := it.Args[0].(*ast.FuncLit); ok && writesDerived(fl.Body) {
						fills = true
					}
				case *ast.RangeStmt:
					// for … := range s.<node table>
					if sel, ok := ast.Unparen(it.X).(*ast.SelectorExpr); ok && sideOfName(sel.Sel.Name) == "" {
						if id, ok := ast.Unparen(sel.X).(*ast.Ident); ok && info.Uses[id] == recv && writesDerived(it.Body) {
							fills = true
						}
					}
				}
				return true
			})
			construct := funcDeclName(fd)
			if fills {
				r.Pass(rule, construct, fd.Pos(), "the derived graph's node set is filled from the iteration over the source's nodes")
			} else {
				r.Fail(rule, construct, fd.Pos(), "the derived graph gets its nodes only from the edges it is given: nodes without an incident edge vanish from the normalised graph while the returned index still lists them, so NumNodes and the node set disagree with the source")
			}
		}
	}
	if n == 0 {
		r.Undecide("C14-R5: no Normalize method found in package container")
	}
}

// checkPrefixArraysWrittenEveryIteration (R6): a CSR row is offsets[i] .. offsets[i+1].  The loop that fills an offsets
// array by running totals (offsets[i+1] = total) must write the entry on every iteration; a `continue` (or a
// conditional skip) before the write leaves the entry at zero, and the next vertex's row then starts at 0 and covers
// the adjacency of every earlier vertex.
func checkPrefixArraysWrittenEveryIteration(r *Run, p *packages.Package, rule string) {
	info := p.TypesInfo
	n := 0
	for _, f := range p.Syntax {
		for _, d := range f.Decls {
			fd, ok := d.(*ast.FuncDecl)
			if !ok || fd.Body == nil {
				continue
			}
			ast.Inspect(fd.Body, func(x ast.Node) bool {
				loop, ok := x.(*ast.ForStmt)
				if !ok || loop.Init == nil {
					return true
				}
				// the loop variable
				var iv types.Object
				if as, ok := loop.Init.(*ast.AssignStmt); ok && len(as.Lhs) == 1 {
					if id, ok := as.Lhs[0].(*ast.Ident); ok {
						iv = info.Defs[id]
					}
				}
				if iv == nil {
					return true
				}
				// top-level statements of the body: writes X[iv+1] = …
				for idx, st := range loop.Body.List {
					as, ok := st.(*ast.AssignStmt)
					if !ok {
						continue
					}
					for _, l := range as.Lhs {
						ix, ok := ast.Unparen(l).(*ast.IndexExpr)
						if !ok {
							continue
						}
						be, ok := ast.Unparen(ix.Index).(*ast.BinaryExpr)
						if !ok || be.Op != token.ADD {
							continue
						}
						id, ok := ast.Unparen(be.X).(*ast.Ident)
						if !ok || info.Uses[id] != iv {
							continue
						}
						if tv, has := info.Types[be.Y]; !has || tv.Value == nil || tv.Value.ExactString() != "1" {
							continue
						}
						n++
						construct := funcDeclName(fd) + ":" + exprString(r.Fset, ix.X) + "[" + iv.Name() + "+1]"
						skip := token.NoPos
						for _, before := range loop.Body.List[:idx] {
							ast.Inspect(before, func(m ast.Node) bool {
								if _, isLit := m.(*ast.FuncLit); isLit {
									return false
								}
								if br, ok := m.(*ast.BranchStmt); ok && (br.Tok == token.CONTINUE || br.Tok == token.BREAK) && skip == token.NoPos {
									skip = br.Pos()
								}
								return true
							})
						}
						if skip != token.NoPos {
							r.Fail(rule, construct, skip, "the running-total entry %s[%s+1] is not written on every iteration (a %s precedes it): a skipped vertex leaves its end offset at zero, so the next vertex's row spans the adjacency of every earlier vertex", exprString(r.Fset, ix.X), iv.Name(), "continue/break")
						} else {
							r.Pass(rule, construct, as.Pos(), "written on every iteration of the loop")
						}
					}
				}
				return true
			})
		}
	}
	if n == 0 {
		r.Undecide("%s: no running-total offsets loop found in package container (CSRDigraphBuilder.Build confirmed by reading)", rule)
	}
}
