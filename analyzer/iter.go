package main

// fullIteration recognises the two spellings of "for every element of a slice": `for _, v := range X { … }` (or with
// the index only) and `for i := 0; i < len(X); i++ { … }`. Rules that say "every filter gets the rule", "every non-nil
// error is appended" work on the iteration, not on one of the spellings.

import (
	"go/ast"
	"go/token"
	"go/types"
)

type iteration struct {
	Stmt ast.Stmt
	Coll ast.Expr // the slice iterated over, as written
	Body *ast.BlockStmt
	// MayStopEarly: the body contains a break of this loop, a return or a goto, or writes the index variable: some
	// elements may be skipped.
	MayStopEarly bool
	info         *types.Info
	elems        map[types.Object]bool
	idx          types.Object
}

// IsElem reports whether e denotes the current element: the range value, X[i], or a local bound to one of those at the
// head of the body.
func (it *iteration) IsElem(e ast.Expr) bool {
	switch x := ast.Unparen(e).(type) {
	case *ast.Ident:
		return it.elems[it.info.Uses[x]]
	case *ast.IndexExpr:
		if id, ok := ast.Unparen(x.Index).(*ast.Ident); ok && it.idx != nil && it.info.Uses[id] == it.idx {
			return sameExprText(x.X, it.Coll)
		}
	}
	return false
}

func sameExprText(a, b ast.Expr) bool {
	return types.ExprString(ast.Unparen(a)) == types.ExprString(ast.Unparen(b))
}

func fullIteration(info *types.Info, st ast.Stmt) *iteration {
	return fullIterationIn(info, nil, st)
}

// fullIterationIn also reads a bound that was given a name in scope (`n := len(X); for i := 0; i < n; i++`).
func fullIterationIn(info *types.Info, scope ast.Node, st ast.Stmt) *iteration {
	it := &iteration{Stmt: st, info: info, elems: map[types.Object]bool{}}
	switch t := st.(type) {
	case *ast.RangeStmt:
		if _, isSlice := info.TypeOf(t.X).Underlying().(*types.Slice); !isSlice {
			return nil
		}
		it.Coll, it.Body = t.X, t.Body
		if id, ok := t.Key.(*ast.Ident); ok && id.Name != "_" {
			it.idx = info.Defs[id]
			if it.idx == nil {
				it.idx = info.Uses[id]
			}
		}
		if id, ok := t.Value.(*ast.Ident); ok && id.Name != "_" {
			if o := info.Defs[id]; o != nil {
				it.elems[o] = true
			} else if o := info.Uses[id]; o != nil {
				it.elems[o] = true
			}
		}
	case *ast.ForStmt:
		init, ok := t.Init.(*ast.AssignStmt)
		if !ok || init.Tok != token.DEFINE || len(init.Lhs) != 1 || len(init.Rhs) != 1 {
			return nil
		}
		iv, ok := init.Lhs[0].(*ast.Ident)
		if !ok {
			return nil
		}
		if tv, ok := info.Types[init.Rhs[0]]; !ok || tv.Value == nil || tv.Value.ExactString() != "0" {
			return nil
		}
		it.idx = info.Defs[iv]
		isIdx := func(e ast.Expr) bool {
			id, ok := ast.Unparen(e).(*ast.Ident)
			return ok && info.Uses[id] == it.idx
		}
		lenOf := func(e ast.Expr) ast.Expr {
			if scope != nil {
				e = resolveLocalCopy(info, scope, e)
			}
			call, ok := ast.Unparen(e).(*ast.CallExpr)
			if !ok || len(call.Args) != 1 {
				return nil
			}
			if id, ok := call.Fun.(*ast.Ident); !ok || id.Name != "len" {
				return nil
			}
			return call.Args[0]
		}
		cond, ok := ast.Unparen(t.Cond).(*ast.BinaryExpr)
		if !ok {
			return nil
		}
		switch {
		case cond.Op == token.LSS && isIdx(cond.X) && lenOf(cond.Y) != nil:
			it.Coll = lenOf(cond.Y)
		case cond.Op == token.GTR && isIdx(cond.Y) && lenOf(cond.X) != nil:
			it.Coll = lenOf(cond.X)
		case cond.Op == token.NEQ && isIdx(cond.X) && lenOf(cond.Y) != nil:
			it.Coll = lenOf(cond.Y)
		default:
			return nil
		}
		if _, isSlice := info.TypeOf(it.Coll).Underlying().(*types.Slice); !isSlice {
			return nil
		}
		switch p := t.Post.(type) {
		case *ast.IncDecStmt:
			if p.Tok != token.INC || !isIdx(p.X) {
				return nil
			}
		case *ast.AssignStmt:
			if p.Tok != token.ADD_ASSIGN || len(p.Lhs) != 1 || !isIdx(p.Lhs[0]) {
				return nil
			}
			if tv, ok := info.Types[p.Rhs[0]]; !ok || tv.Value == nil || tv.Value.ExactString() != "1" {
				return nil
			}
		default:
			return nil
		}
		it.Body = t.Body
	default:
		return nil
	}
	// locals bound to the element at the head of the body
	for _, s := range it.Body.List {
		as, ok := s.(*ast.AssignStmt)
		if !ok || as.Tok != token.DEFINE || len(as.Lhs) != 1 || len(as.Rhs) != 1 || !it.IsElem(as.Rhs[0]) {
			break
		}
		if id, ok := as.Lhs[0].(*ast.Ident); ok {
			it.elems[info.Defs[id]] = true
		}
	}
	// early exits and index writes
	var walk func(n ast.Node, inner bool)
	walk = func(n ast.Node, inner bool) {
		ast.Inspect(n, func(m ast.Node) bool {
			switch x := m.(type) {
			case *ast.FuncLit:
				return false
			case *ast.ReturnStmt:
				it.MayStopEarly = true
			case *ast.BranchStmt:
				if x.Tok == token.GOTO || x.Label != nil || (x.Tok == token.BREAK && !inner) {
					it.MayStopEarly = true
				}
			case *ast.ForStmt:
				if m != n {
					walk(x.Body, true)
					return false
				}
			case *ast.RangeStmt:
				if m != n {
					walk(x.Body, true)
					return false
				}
			case *ast.SwitchStmt:
				walk(x.Body, true)
				return false
			case *ast.TypeSwitchStmt:
				walk(x.Body, true)
				return false
			case *ast.SelectStmt:
				walk(x.Body, true)
				return false
			case *ast.AssignStmt:
				for _, l := range x.Lhs {
					if id, ok := ast.Unparen(l).(*ast.Ident); ok && it.idx != nil && info.Uses[id] == it.idx {
						it.MayStopEarly = true
					}
				}
			case *ast.IncDecStmt:
				if id, ok := ast.Unparen(x.X).(*ast.Ident); ok && it.idx != nil && info.Uses[id] == it.idx {
					it.MayStopEarly = true
				}
			}
			return true
		})
	}
	walk(it.Body, false)
	return it
}

// resolveLocalCopy follows a local variable that is defined once, by `v := <expr>`, in the given statements and never
// assigned again anywhere in body, to that expression (so `filters := s.filters; for … range filters` is a loop over
// s.filters). Other expressions are returned unchanged.
func resolveLocalCopy(info *types.Info, body ast.Node, e ast.Expr) ast.Expr {
	id, ok := ast.Unparen(e).(*ast.Ident)
	if !ok {
		return e
	}
	obj := info.Uses[id]
	if obj == nil {
		return e
	}
	var def ast.Expr
	writes := 0
	ast.Inspect(body, func(n ast.Node) bool {
		switch x := n.(type) {
		case *ast.AssignStmt:
			for i, l := range x.Lhs {
				lid, ok := ast.Unparen(l).(*ast.Ident)
				if !ok {
					continue
				}
				if info.Defs[lid] == obj || info.Uses[lid] == obj {
					writes++
					if x.Tok == token.DEFINE && len(x.Lhs) == len(x.Rhs) {
						def = x.Rhs[i]
					}
				}
			}
		case *ast.ValueSpec:
			for i, nm := range x.Names {
				if info.Defs[nm] == obj {
					writes++
					if i < len(x.Values) {
						def = x.Values[i]
					}
				}
			}
		case *ast.UnaryExpr:
			if x.Op == token.AND {
				if aid, ok := ast.Unparen(x.X).(*ast.Ident); ok && info.Uses[aid] == obj {
					writes += 2
				}
			}
		}
		return true
	})
	if writes == 1 && def != nil {
		return def
	}
	return e
}
