package main

// Self-test mutations for the rules written in the fifth round: the slip of one of that round's refactorings gone wrong,
// made directly on today's code and applied in memory; each must make the named rule fire. (Rules whose construct does
// not occur on today's tree — a chunked walker, a prefix predicate, a literal-list loop — are exercised by the round's
// seeds in seeded/r5-*, not here.)

func init() {
	add := func(prop string, ms ...Mutation) { mutations[prop] = append(mutations[prop], ms...) }
	add("C01",
		Mutation{Name: "ranked-lowering-accepts-ascending-order", File: "cypher/models/pgsql/optimize/lowering_plan.go",
			Old: "\tif len(projection.Order.Items) != 1 || projection.Order.Items[0] == nil || projection.Order.Items[0].Ascending {", New: "\tif len(projection.Order.Items) != 1 || projection.Order.Items[0] == nil {", Expect: "C01-R5-recogniser-total"},
	)
	add("C02",
		Mutation{Name: "hop-edges-not-collected", File: "cypher/models/pgsql/translate/relationship.go",
			Old: "\t\tedgeBindings = append(edgeBindings, nextEdge)\n", New: "", Expect: "C02-R11-collector-grows"},
	)
	add("C04",
		Mutation{Name: "alias-letters-folded-into-one-range", File: "cypher/models/pgsql/format/format.go",
			Old: "\t\tcase char == '_', char >= 'a' && char <= 'z', char >= 'A' && char <= 'Z':", New: "\t\tcase char == '_', char >= 'A' && char <= 'z':", Expect: "C04-R3-alias-position|formatAlias:verbatim-set"},
		Mutation{Name: "identifier-letters-folded-into-one-range", File: "cypher/models/pgsql/format/format.go",
			Old: "\t\tcase char >= 'a' && char <= 'z', char >= 'A' && char <= 'Z', char >= '0' && char <= '9':", New: "\t\tcase char >= 'A' && char <= 'z', char >= '0' && char <= '9':", Expect: "C04-R3-identifier-sink"},
		Mutation{Name: "map-key-decoded-twice", File: "cypher/frontend/literal.go",
			Old: "\ts.nextPropertyKey = cypher.UnescapePropertyKeyName(s.ctx.Exit().(*SymbolicNameOrReservedWordVisitor).Name)", New: "\ts.nextPropertyKey = cypher.UnescapePropertyKeyName(cypher.UnescapePropertyKeyName(s.ctx.Exit().(*SymbolicNameOrReservedWordVisitor).Name))", Expect: "C04-R9-decode-once"},
	)
	add("C05",
		Mutation{Name: "arity-guard-bounds-from-above-only", File: "cypher/models/pgsql/translate/function.go",
			Old: "func (s *Translator) translateHeadFunction(functionInvocation *cypher.FunctionInvocation) error {\n\tif functionInvocation.NumArguments() != 1 {", New: "func (s *Translator) translateHeadFunction(functionInvocation *cypher.FunctionInvocation) error {\n\tif functionInvocation.NumArguments() > 1 {", Expect: "C05-R12-pop-within-arity|Translator.translateHeadFunction"},
	)
	add("C08",
		Mutation{Name: "root-visitor-starts-without-a-query", File: "cypher/frontend/parse.go",
			Old: "\t\tqueryVisitor = &QueryVisitor{Query: cypher.NewRegularQuery()}", New: "\t\tqueryVisitor = &QueryVisitor{}", Expect: "C08-R13-state-deref|QueryVisitor."},
	)
	add("C11",
		Mutation{Name: "error-list-cloned-by-self-append", File: "cypher/models/cypher/model.go",
			Old: "\treturn &SinglePartQuery{\n\t\terrorContext: errorContext{\n\t\t\terrors: slices.Clone(s.errors),", New: "\treturn &SinglePartQuery{\n\t\terrorContext: errorContext{\n\t\t\terrors: append(s.errors[:0], s.errors...),", Expect: "C11-copy-self-append"},
		Mutation{Name: "pattern-parts-copied-shallowly", File: "cypher/models/cypher/copy.go",
			Old: "\tcase []*PatternPart:\n\t\treturn any(copySlice(typedValue)).(T)\n", New: "\tcase []*PatternPart:\n\t\treturn any(append([]*PatternPart(nil), typedValue...)).(T)\n", Expect: "C11-copy-slice-deep|Copy:case []*PatternPart"},
	)
	add("C14",
		Mutation{Name: "tombstone-tested-by-position", File: "container/triplestore.go",
			Old: "\t\tif edge := s.edges[edgeIndex]; !s.deletedEdges.Contains(edge.ID) {", New: "\t\tif edge := s.edges[edgeIndex]; !s.deletedEdges.Contains(edgeIndex) {", Expect: "C14-R12-set-key-space|deletedEdges"},
	)
	add("C17",
		Mutation{Name: "cycle-recognised-by-pointer", File: "graph/path.go",
			Old: "\t\t\tif terminal.ID == cursor.Node.ID {", New: "\t\t\tif terminal == cursor.Node {", Expect: "C17-R7-entity-identity"},
	)
	add("C18",
		Mutation{Name: "line-guard-measures-compressed-bytes", File: "retriever/compression.go",
			Old: "\tif lineBytes := s.uncompressedCounter.count - written - 1; lineBytes > maxJSONLLineBytes {", New: "\tif lineBytes := s.compressedCounter.count - written - 1; lineBytes > maxJSONLLineBytes {", Expect: "C18-R10-line-guard"},
		Mutation{Name: "number-tried-as-float-first", File: "retriever/load.go",
			Old: "\t\tif integer, err := typedValue.Int64(); err == nil {\n\t\t\treturn integer\n\t\t} else if float, err := typedValue.Float64(); err == nil {\n\t\t\treturn float\n\t\t}", New: "\t\tif float, err := typedValue.Float64(); err == nil {\n\t\t\treturn float\n\t\t} else if integer, err := typedValue.Int64(); err == nil {\n\t\t\treturn integer\n\t\t}", Expect: "C18-R11-integer-before-float"},
	)
	add("C19",
		Mutation{Name: "resume-removes-the-next-fragment-itself", File: "retriever/dump_checkpoint.go",
			Old: "\t\tpaths = append(paths, filepath.Join(outputDir, filepath.FromSlash(nextPath))+\".tmp\")", New: "\t\tpaths = append(paths, filepath.Join(outputDir, filepath.FromSlash(nextPath)))", Expect: "C19-R9-resume-removes-temporaries-only"},
	)
	add("C20",
		Mutation{Name: "seen-paths-per-graph", File: "retriever/types.go",
			Old: "\tseenPaths := map[string]struct{}{}\n\tfor _, graphEntry := range s.Graphs {\n", New: "\tfor _, graphEntry := range s.Graphs {\n\t\tseenPaths := map[string]struct{}{}\n", Expect: "C20-R7-manifest-unique-entries|Manifest.validate:FileManifest.Path"},
	)
}
