package main

// C04-R7 escape-table: a backslash escape of a Cypher string literal stands for one byte, the same whichever case the
// letter is written in (the lexer rule EscapedChar lists every letter in both cases): \b \f \n \r \t are BS FF LF CR HT.
// The translator decodes the literal before it writes it as an SQL string, so the value the database sees is whatever
// the decoder's table says. The table is read from the code — the cases of a switch over the byte after the backslash
// with the byte each case writes, or two constant strings used as parallel arrays through strings.IndexByte — and
// compared with the language's meaning letter by letter. A letter the decoder does not know is refused by it (an error),
// which is fine; a letter it maps to another byte changes the data silently.

import (
	"go/ast"
	"go/constant"
	"go/token"
	"go/types"
	"sort"
	"strconv"
	"strings"

	"golang.org/x/tools/go/packages"
)

var cypherEscapeMeaning = map[byte]byte{'\\': '\\', '\'': '\'', '"': '"', 'b': 8, 'B': 8, 'f': 12, 'F': 12, 'n': 10, 'N': 10, 'r': 13, 'R': 13, 't': 9, 'T': 9}

func checkEscapeTable(r *Run, tp *packages.Package) {
	const rule = "C04-R7-escape-table"
	info := tp.TypesInfo
	byteConst := func(e ast.Expr) (byte, bool) {
		tv, has := info.Types[e]
		if !has || tv.Value == nil {
			return 0, false
		}
		if tv.Value.Kind() == constant.Int {
			if v, ok := constant.Int64Val(tv.Value); ok && v >= 0 && v < 256 {
				return byte(v), true
			}
		}
		return 0, false
	}
	stringConst := func(e ast.Expr) (string, bool) {
		tv, has := info.Types[e]
		if !has || tv.Value == nil || tv.Value.Kind() != constant.String {
			return "", false
		}
		return constant.StringVal(tv.Value), true
	}
	n := 0
	for _, f := range tp.Syntax {
		for _, d := range f.Decls {
			fd, ok := d.(*ast.FuncDecl)
			if !ok || fd.Body == nil {
				continue
			}
			table := map[byte]byte{}
			var pos token.Pos
			// (a) switch over a byte with character cases that write a byte
			ast.Inspect(fd.Body, func(x ast.Node) bool {
				sw, ok := x.(*ast.SwitchStmt)
				if !ok || sw.Tag == nil {
					return true
				}
				var tagObj types.Object
				if id, ok := ast.Unparen(sw.Tag).(*ast.Ident); ok {
					tagObj = info.Uses[id]
				}
				local := map[byte]byte{}
				letters := 0
				for _, c := range sw.Body.List {
					cc := c.(*ast.CaseClause)
					var keys []byte
					for _, e := range cc.List {
						if b, ok := byteConst(e); ok {
							keys = append(keys, b)
						}
					}
					if len(keys) == 0 {
						continue
					}
					// the byte written
					var out *byte
					identity := false
					for _, st := range cc.Body {
						ast.Inspect(st, func(y ast.Node) bool {
							// `return '\n', true`: the case hands the byte back
							if rs, ok := y.(*ast.ReturnStmt); ok && len(rs.Results) >= 1 {
								if b, ok := byteConst(rs.Results[0]); ok {
									out = &b
								} else if id, ok := ast.Unparen(rs.Results[0]).(*ast.Ident); ok && tagObj != nil && info.Uses[id] == tagObj {
									identity = true
								}
								return true
							}
							call, ok := y.(*ast.CallExpr)
							if !ok || len(call.Args) != 1 {
								return true
							}
							if sel, ok := call.Fun.(*ast.SelectorExpr); !ok || (sel.Sel.Name != "WriteByte" && sel.Sel.Name != "WriteRune") {
								return true
							}
							if b, ok := byteConst(call.Args[0]); ok {
								out = &b
							} else if id, ok := ast.Unparen(call.Args[0]).(*ast.Ident); ok && tagObj != nil && info.Uses[id] == tagObj {
								identity = true
							}
							return true
						})
					}
					for _, k := range keys {
						switch {
						case out != nil:
							local[k] = *out
						case identity:
							local[k] = k
						}
						if (k >= 'a' && k <= 'z') || (k >= 'A' && k <= 'Z') {
							letters++
						}
					}
				}
				if _, hasBackslash := local['\\']; hasBackslash && letters >= 2 {
					for k, v := range local {
						table[k] = v
					}
					pos = sw.Pos()
				}
				return true
			})
			// (b) parallel constant strings: idx := strings.IndexByte(A, c); … B[idx]
			ast.Inspect(fd.Body, func(x ast.Node) bool {
				call, ok := x.(*ast.CallExpr)
				if !ok || len(call.Args) != 2 {
					return true
				}
				fn := calleeOf(info, call)
				if fn == nil || fn.Pkg() == nil || fn.Pkg().Path() != "strings" || (fn.Name() != "IndexByte" && fn.Name() != "IndexRune") {
					return true
				}
				codes, ok := stringConst(call.Args[0])
				if !ok || !strings.Contains(codes, "\\") {
					return true
				}
				// the other table: a constant string indexed in the same function
				ast.Inspect(fd.Body, func(y ast.Node) bool {
					ix, ok := y.(*ast.IndexExpr)
					if !ok {
						return true
					}
					values, ok := stringConst(ix.X)
					if !ok || len(values) != len(codes) {
						return true
					}
					for i := 0; i < len(codes); i++ {
						table[codes[i]] = values[i]
					}
					pos = call.Pos()
					return true
				})
				return true
			})
			if len(table) == 0 {
				continue
			}
			n++
			construct := funcDeclName(fd)
			var wrong []string
			var keys []int
			for k := range table {
				keys = append(keys, int(k))
			}
			sort.Ints(keys)
			for _, ki := range keys {
				k := byte(ki)
				want, known := cypherEscapeMeaning[k]
				if known && table[k] != want {
					wrong = append(wrong, "\\"+string(rune(k))+" is decoded to "+strconv.Quote(string(rune(table[k])))+" instead of "+strconv.Quote(string(rune(want))))
				}
			}
			if len(wrong) == 0 {
				r.Pass(rule, construct, pos, "the %d escapes the decoder knows have the bytes the language gives them, in either case of the letter", len(table))
			} else {
				r.Fail(rule, construct, pos, "%s: the string the database is given is not the string the query wrote — a value compared or stored through this literal is silently another value", strings.Join(wrong, "; "))
			}
		}
	}
	if n == 0 {
		r.Undecide("C04-R7: no escape table (a switch over the byte after a backslash, or two parallel constant strings) found in package translate")
	}
}
