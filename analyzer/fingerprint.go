package main

// Triage tables exempt one named construct with a reason. A private name is not stable under refactoring, so an entry
// may also be stored under the *shape* of the function it sits in: a hash of the function's syntax tree in which every
// identifier that denotes something unexported (locals, parameters, private functions, types, fields) is replaced by
// the order of its first occurrence. A rename-only change keeps the shape; a restructuring keeps the name; the entry is
// found by either. A shape key only ever makes a check quieter for code that is alpha-equivalent to the code the entry
// was written for; it never makes a rule fire.

import (
	"sort"

	"crypto/sha256"
	"encoding/hex"
	"fmt"
	"go/ast"
	"go/types"
	"golang.org/x/tools/go/packages"
	"os"
	"strings"
)

func funcShape(info *types.Info, fd *ast.FuncDecl) string {
	var b strings.Builder
	order := map[types.Object]int{}
	nameOf := func(id *ast.Ident) string {
		obj := info.Uses[id]
		if obj == nil {
			obj = info.Defs[id]
		}
		if obj == nil {
			return "?" // field keys of composite literals of other packages etc.
		}
		if obj.Pkg() == nil || obj.Exported() {
			if _, isVar := obj.(*types.Var); !isVar || obj.Exported() {
				return obj.Name()
			}
		}
		n, ok := order[obj]
		if !ok {
			n = len(order) + 1
			order[obj] = n
		}
		return fmt.Sprintf("_%d", n)
	}
	var nodes []ast.Node
	if fd.Type != nil {
		nodes = append(nodes, fd.Type)
	}
	if fd.Body != nil {
		nodes = append(nodes, fd.Body)
	}
	for _, root := range nodes {
		ast.Inspect(root, func(n ast.Node) bool {
			switch x := n.(type) {
			case nil:
				b.WriteString(")")
				return true
			case *ast.Ident:
				b.WriteString("(I:" + nameOf(x))
			case *ast.BasicLit:
				b.WriteString("(L:" + x.Value)
			case *ast.BinaryExpr:
				b.WriteString("(B:" + x.Op.String())
			case *ast.UnaryExpr:
				b.WriteString("(U:" + x.Op.String())
			case *ast.AssignStmt:
				b.WriteString("(A:" + x.Tok.String())
			case *ast.IncDecStmt:
				b.WriteString("(D:" + x.Tok.String())
			case *ast.BranchStmt:
				b.WriteString("(Br:" + x.Tok.String())
			case *ast.CommentGroup, *ast.Comment:
				return false
			default:
				b.WriteString(fmt.Sprintf("(%T", n))
			}
			return true
		})
	}
	sum := sha256.Sum256([]byte(b.String()))
	return hex.EncodeToString(sum[:6])
}

// InTableAt looks a construct up by its name key and, failing that, by the shape of the function it is in plus a detail
// that does not mention private names. With DAWGSVET_FP set, every name hit prints the shape key to add to the table.
//
// semantic keys (optional) name the construct by exported vocabulary only — the struct field a write position is, the
// exported functions through which a private function is reached — and survive a rename combined with a restructuring.
func (r *Run) InTableAt(t Table, name, key string, info *types.Info, fd *ast.FuncDecl, detail string, semantic ...string) (string, bool) {
	shapeKey := ""
	if fd != nil {
		shapeKey = "shape:" + funcShape(info, fd) + ":" + detail
	}
	if reason, ok := r.InTable(t, name, key); ok {
		if os.Getenv("DAWGSVET_FP") != "" && shapeKey != "" {
			fmt.Printf("FP %s %q => %q\n", name, key, shapeKey)
			for _, sk := range semantic {
				if sk != "" {
					fmt.Printf("FP %s %q => %q\n", name, key, sk)
				}
			}
		}
		return reason, true
	}
	for _, sk := range semantic {
		if sk == "" {
			continue
		}
		if reason, ok := r.InTable(t, name, sk); ok {
			return reason + " (entry found by what the construct is, not by its private name)", true
		}
	}
	if shapeKey != "" {
		if reason, ok := r.InTable(t, name, shapeKey); ok {
			return reason + " (entry found by the shape of the enclosing function)", true
		}
	}
	return "", false
}

// positionKey names what an expression written to the output is, by exported vocabulary: a field of a named type
// (`alias.Name` → "position:TableAlias.Name"), or an element of such a field when the expression is the value variable
// of a range over it (`for _, column := range insert.Shape.Columns` → "position:RecordShape.Columns[]"). "" otherwise.
func positionKey(info *types.Info, fd *ast.FuncDecl, e ast.Expr) string {
	fieldOf := func(x ast.Expr) string {
		sel, ok := ast.Unparen(x).(*ast.SelectorExpr)
		if !ok {
			return ""
		}
		s := info.Selections[sel]
		if s == nil || s.Kind() != types.FieldVal {
			return ""
		}
		owner := namedName(s.Recv())
		if owner == "" {
			return ""
		}
		return owner + "." + sel.Sel.Name
	}
	if k := fieldOf(e); k != "" {
		return "position:" + k
	}
	if id, ok := ast.Unparen(e).(*ast.Ident); ok && fd != nil {
		obj := info.Uses[id]
		key := ""
		ast.Inspect(fd.Body, func(n ast.Node) bool {
			if rs, ok := n.(*ast.RangeStmt); ok {
				if v, ok := rs.Value.(*ast.Ident); ok && info.Defs[v] == obj {
					if k := fieldOf(rs.X); k != "" {
						key = "position:" + k + "[]"
					}
				}
			}
			return true
		})
		return key
	}
	return ""
}

// viaKey names a private function by the exported functions of its package from which it is reachable through static
// same-package calls ("via:ReadArchivePrivateKey+ReadArchivePublicKey").
func viaKey(p *packages.Package, fd *ast.FuncDecl) string {
	var names []string
	for name, cand := range FuncDecls(p) {
		if cand.Recv != nil || !ast.IsExported(cand.Name.Name) {
			continue
		}
		if declsReachableFrom(p, name)[fd] {
			names = append(names, name)
		}
	}
	if len(names) == 0 {
		return ""
	}
	sort.Strings(names)
	return "via:" + strings.Join(names, "+")
}
