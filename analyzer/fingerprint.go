package main

// Triage tables exempt one named construct with a reason. A private name is not stable under refactoring, so an entry
// may also be stored under the *shape* of the function it sits in: a hash of the function's syntax tree in which every
// identifier that denotes something unexported (locals, parameters, private functions, types, fields) is replaced by
// the order of its first occurrence. A rename-only change keeps the shape; a restructuring keeps the name; the entry is
// found by either. A shape key only ever makes a check quieter for code that is alpha-equivalent to the code the entry
// was written for; it never makes a rule fire.

import (
	"sort"

	"crypto/sha256"
	"encoding/hex"
	"fmt"
	"go/ast"
	"go/types"
	"golang.org/x/tools/go/packages"
	"os"
	"strings"
)

func funcShape(info *types.Info, fd *ast.FuncDecl) string {
	var b strings.Builder
	order := map[types.Object]int{}
	nameOf := func(id *ast.Ident) string {
		obj := info.Uses[id]
		if obj == nil {
			obj = info.Defs[id]
		}
		if obj == nil {
			return "?" // field keys of composite literals of other packages etc.
		}
		if obj.Pkg() == nil || obj.Exported() {
			if _, isVar := obj.(*types.Var); !isVar || obj.Exported() {
				return obj.Name()
			}
		}
		n, ok := order[obj]
		if !ok {
			n = len(order) + 1
			order[obj] = n
		}
		return fmt.Sprintf("_%d", n)
	}
	var nodes []ast.Node
	if fd.Type != nil {
		nodes = append(nodes, fd.Type)
	}
	if fd.Body != nil {
		nodes = append(nodes, fd.Body)
	}
	for _, root := range nodes {
		ast.Inspect(root, func(n ast.Node) bool {
			switch x := n.(type) {
			case nil:
				b.WriteString(")")
				return true
			case *ast.Ident:
				b.WriteString("(I:" + nameOf(x))
			case *ast.BasicLit:
				b.WriteString("(L:" + x.Value)
			case *ast.BinaryExpr:
				b.WriteString("(B:" + x.Op.String())
			case *ast.UnaryExpr:
				b.WriteString("(U:" + x.Op.String())
			case *ast.AssignStmt:
				b.WriteString("(A:" + x.Tok.String())
			case *ast.IncDecStmt:
				b.WriteString("(D:" + x.Tok.String())
			case *ast.BranchStmt:
				b.WriteString("(Br:" + x.Tok.String())
			case *ast.CommentGroup, *ast.Comment:
				return false
			default:
				b.WriteString(fmt.Sprintf("(%T", n))
			}
			return true
		})
	}
	sum := sha256.Sum256([]byte(b.String()))
	return hex.EncodeToString(sum[:6])
}

// InTableAt looks a construct up by its name key and, failing that, by the shape of the function it is in plus a detail
// that does not mention private names. With DAWGSVET_FP set, every name hit prints the shape key to add to the table.
//
// semantic keys (optional) name the construct by exported vocabulary only — the struct field a write position is, the
// exported functions through which a private function is reached — and survive a rename combined with a restructuring.
func (r *Run) InTableAt(t Table, name, key string, info *types.Info, fd *ast.FuncDecl, detail string, semantic ...string) (string, bool) {
	shapeKey := ""
	if fd != nil {
		shapeKey = "shape:" + funcShape(info, fd) + ":" + detail
	}
	if reason, ok := r.InTable(t, name, key); ok {
		if os.Getenv("DAWGSVET_FP") != "" && shapeKey != "" {
			fmt.Printf("FP %s %q => %q\n", name, key, shapeKey)
			for _, sk := range semantic {
				if sk != "" {
					fmt.Printf("FP %s %q => %q\n", name, key, sk)
				}
			}
		}
		return reason, true
	}
	for _, sk := range semantic {
		if sk == "" {
			continue
		}
		if reason, ok := r.InTable(t, name, sk); ok {
			return reason + " (entry found by what the construct is, not by its private name)", true
		}
	}
	if shapeKey != "" {
		if reason, ok := r.InTable(t, name, shapeKey); ok {
			return reason + " (entry found by the shape of the enclosing function)", true
		}
	}
	return "", false
}

// positionKeys names what an expression written to the output is, by exported vocabulary: a field of a named type
// (`alias.Name` → "position:TableAlias.Name"), or an element of such a field when the expression is the value variable
// of a range over it. The holder of the field is part of the name when it is itself a field
// (`for _, column := range insert.Shape.Columns` → "position:Insert.Shape.Columns[]"): the same RecordShape type holds the
// column constants of an INSERT and the column names of a CTE. When the holder is a parameter of fd, the name is taken
// at every call of fd in the package (one key per distinct argument). Nil when the expression has no such name.
func positionKeys(p *packages.Package, fd *ast.FuncDecl, e ast.Expr) []string {
	info := p.TypesInfo
	var fieldPath func(x ast.Expr, in *ast.FuncDecl, depth int) []string
	fieldPath = func(x ast.Expr, in *ast.FuncDecl, depth int) []string {
		sel, ok := ast.Unparen(x).(*ast.SelectorExpr)
		if !ok {
			return nil
		}
		s := info.Selections[sel]
		if s == nil || s.Kind() != types.FieldVal {
			return nil
		}
		owner := namedName(s.Recv())
		if owner == "" {
			return nil
		}
		// the holder is itself a field: name it instead of the type
		if inner := fieldPath(sel.X, in, depth); len(inner) > 0 {
			var out []string
			for _, k := range inner {
				out = append(out, k+"."+sel.Sel.Name)
			}
			return out
		}
		// the holder is a parameter: name it at the calls
		if id, ok := ast.Unparen(sel.X).(*ast.Ident); ok && in != nil && depth < 2 {
			if idx := paramIndexOf(info, in, info.Uses[id]); idx >= 0 {
				self, _ := info.Defs[in.Name].(*types.Func)
				seen := map[string]bool{}
				var out []string
				for _, f := range p.Syntax {
					for _, d := range f.Decls {
						caller, ok := d.(*ast.FuncDecl)
						if !ok || caller.Body == nil {
							continue
						}
						ast.Inspect(caller.Body, func(n ast.Node) bool {
							call, ok := n.(*ast.CallExpr)
							if !ok || idx >= len(call.Args) || self == nil || calleeOf(info, call) != self {
								return true
							}
							for _, k := range fieldPath(call.Args[idx], caller, depth+1) {
								k = k + "." + sel.Sel.Name
								if !seen[k] {
									seen[k] = true
									out = append(out, k)
								}
							}
							return true
						})
					}
				}
				if len(out) > 0 {
					sort.Strings(out)
					return out
				}
			}
		}
		return []string{owner + "." + sel.Sel.Name}
	}
	if ks := fieldPath(e, fd, 0); len(ks) > 0 {
		for i := range ks {
			ks[i] = "position:" + ks[i]
		}
		return ks
	}
	if id, ok := ast.Unparen(e).(*ast.Ident); ok && fd != nil {
		obj := info.Uses[id]
		var keys []string
		ast.Inspect(fd.Body, func(n ast.Node) bool {
			if rs, ok := n.(*ast.RangeStmt); ok {
				if v, ok := rs.Value.(*ast.Ident); ok && info.Defs[v] == obj {
					keys = nil
					for _, k := range fieldPath(rs.X, fd, 0) {
						keys = append(keys, "position:"+k+"[]")
					}
				}
			}
			return true
		})
		return keys
	}
	return nil
}

// positionTypeKey names the written expression by the type that declares the field only ("position:TableAlias.Name",
// "position:RecordShape.Columns[]"): the key of an exemption that holds wherever a value of that type is held.
func positionTypeKey(info *types.Info, fd *ast.FuncDecl, e ast.Expr) string {
	fieldOf := func(x ast.Expr) string {
		sel, ok := ast.Unparen(x).(*ast.SelectorExpr)
		if !ok {
			return ""
		}
		s := info.Selections[sel]
		if s == nil || s.Kind() != types.FieldVal {
			return ""
		}
		owner := namedName(s.Recv())
		if owner == "" {
			return ""
		}
		return owner + "." + sel.Sel.Name
	}
	if k := fieldOf(e); k != "" {
		return "position:" + k
	}
	if id, ok := ast.Unparen(e).(*ast.Ident); ok && fd != nil {
		obj := info.Uses[id]
		key := ""
		ast.Inspect(fd.Body, func(n ast.Node) bool {
			if rs, ok := n.(*ast.RangeStmt); ok {
				if v, ok := rs.Value.(*ast.Ident); ok && info.Defs[v] == obj {
					if k := fieldOf(rs.X); k != "" {
						key = "position:" + k + "[]"
					}
				}
			}
			return true
		})
		return key
	}
	return ""
}

// paramIndexOf: the position of obj among fd's parameters, or -1.
func paramIndexOf(info *types.Info, fd *ast.FuncDecl, obj types.Object) int {
	if obj == nil || fd.Type.Params == nil {
		return -1
	}
	n := 0
	for _, f := range fd.Type.Params.List {
		if len(f.Names) == 0 {
			n++
			continue
		}
		for _, nm := range f.Names {
			if info.Defs[nm] == obj {
				return n
			}
			n++
		}
	}
	return -1
}

// viaKey names a private function by the exported functions of its package from which it is reachable through static
// same-package calls ("via:ReadArchivePrivateKey+ReadArchivePublicKey").
func viaKey(p *packages.Package, fd *ast.FuncDecl) string {
	var names []string
	for name, cand := range FuncDecls(p) {
		if cand.Recv != nil || !ast.IsExported(cand.Name.Name) {
			continue
		}
		if declsReachableFrom(p, name)[fd] {
			names = append(names, name)
		}
	}
	if len(names) == 0 {
		return ""
	}
	sort.Strings(names)
	return "via:" + strings.Join(names, "+")
}
