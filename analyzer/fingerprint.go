package main

// Triage tables exempt one named construct with a reason. A private name is not stable under refactoring, so an entry
// may also be stored under the *shape* of the function it sits in: a hash of the function's syntax tree in which every
// identifier that denotes something unexported (locals, parameters, private functions, types, fields) is replaced by
// the order of its first occurrence. A rename-only change keeps the shape; a restructuring keeps the name; the entry is
// found by either. A shape key only ever makes a check quieter for code that is alpha-equivalent to the code the entry
// was written for; it never makes a rule fire.

import (
	"crypto/sha256"
	"encoding/hex"
	"fmt"
	"go/ast"
	"go/types"
	"os"
	"strings"
)

func funcShape(info *types.Info, fd *ast.FuncDecl) string {
	var b strings.Builder
	order := map[types.Object]int{}
	nameOf := func(id *ast.Ident) string {
		obj := info.Uses[id]
		if obj == nil {
			obj = info.Defs[id]
		}
		if obj == nil {
			return "?" // field keys of composite literals of other packages etc.
		}
		if obj.Pkg() == nil || obj.Exported() {
			if _, isVar := obj.(*types.Var); !isVar || obj.Exported() {
				return obj.Name()
			}
		}
		n, ok := order[obj]
		if !ok {
			n = len(order) + 1
			order[obj] = n
		}
		return fmt.Sprintf("_%d", n)
	}
	var nodes []ast.Node
	if fd.Type != nil {
		nodes = append(nodes, fd.Type)
	}
	if fd.Body != nil {
		nodes = append(nodes, fd.Body)
	}
	for _, root := range nodes {
		ast.Inspect(root, func(n ast.Node) bool {
			switch x := n.(type) {
			case nil:
				b.WriteString(")")
				return true
			case *ast.Ident:
				b.WriteString("(I:" + nameOf(x))
			case *ast.BasicLit:
				b.WriteString("(L:" + x.Value)
			case *ast.BinaryExpr:
				b.WriteString("(B:" + x.Op.String())
			case *ast.UnaryExpr:
				b.WriteString("(U:" + x.Op.String())
			case *ast.AssignStmt:
				b.WriteString("(A:" + x.Tok.String())
			case *ast.IncDecStmt:
				b.WriteString("(D:" + x.Tok.String())
			case *ast.BranchStmt:
				b.WriteString("(Br:" + x.Tok.String())
			case *ast.CommentGroup, *ast.Comment:
				return false
			default:
				b.WriteString(fmt.Sprintf("(%T", n))
			}
			return true
		})
	}
	sum := sha256.Sum256([]byte(b.String()))
	return hex.EncodeToString(sum[:6])
}

// InTableAt looks a construct up by its name key and, failing that, by the shape of the function it is in plus a detail
// that does not mention private names. With DAWGSVET_FP set, every name hit prints the shape key to add to the table.
func (r *Run) InTableAt(t Table, name, key string, info *types.Info, fd *ast.FuncDecl, detail string) (string, bool) {
	shapeKey := ""
	if fd != nil {
		shapeKey = "shape:" + funcShape(info, fd) + ":" + detail
	}
	if reason, ok := r.InTable(t, name, key); ok {
		if os.Getenv("DAWGSVET_FP") != "" && shapeKey != "" {
			fmt.Printf("FP %s %q => %q\n", name, key, shapeKey)
		}
		return reason, true
	}
	if shapeKey != "" {
		if reason, ok := r.InTable(t, name, shapeKey); ok {
			return reason + " (entry found by the shape of the enclosing function)", true
		}
	}
	return "", false
}
