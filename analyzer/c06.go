package main

// C06 — hygiene: user variable symbols, parameter symbols and generated names never meet in one key space.

import (
	"go/ast"
	"go/token"
	"go/types"
	"strings"

	"golang.org/x/tools/go/packages"
)

func init() { register("C06", checkC06) }

var userSymbolTags = []string{"field:Variable.Symbol", "field:ProjectionItem.Alias", "field:PatternPart.Variable", "field:NodePattern.Variable", "field:RelationshipPattern.Variable"}
var paramSymbolTag = "field:Parameter.Symbol"

func classOfOrigins(o map[string]bool) (user, param bool, tag string) {
	for _, t := range userSymbolTags {
		if o[t] {
			user = true
		}
	}
	param = o[paramSymbolTag]
	for k := range o {
		if strings.HasPrefix(k, "const:") && len(k) > len("const:") && k != "const:0" && k != "const:1" {
			tag = k
		}
	}
	return
}

func checkC06(r *Run) propMeta {
	meta := propMeta{Level: "other",
		Explanation: "Decides the capture-freedom necessary condition of hygienic translation by provenance (origin-tag) analysis of identifier values in package translate: (R1) the alias table (Scope.aliases, reached through Alias/AliasedLookup/LookupString) holds user variable and projection-alias symbols; a key derived from a parameter symbol must carry an injective constant tag so that $n and n cannot meet, and no single key expression mixes both classes; (R2) the definitions table (Scope.Lookup/LookupBindings/Define), which is keyed by generated identifiers, is never indexed with a value derived from a user or parameter symbol; (R3) BoundIdentifier.Parameter is dereferenced only on a binding obtained through a parameter-class key or freshly defined as a parameter. (R4) wherever one identifier is looked up in both tables inside one function, the generated-name table (Lookup) is consulted before the user-symbol table (AliasedLookup), so a user symbol spelled like a generated name cannot capture the lookup. (R5) the functions that substitute a user-chosen alias into an expression (table c06_alias_substitutions, confirmed by reading) are called on an expression only after RewriteFrameBindings has run on it, never before. (R6) a CTE column list that mixes an alias carried from the query with a fixed internal column name is guarded by a comparison of the two. NOT decided: that renamed twins produce byte-identical SQL apart from aliases and parameter keys (value-level), and user aliases rendered as output column names (reported under C04).",
		Assumptions: []string{"origin tags are flow-insensitive within a function; parameters are resolved through static call sites; return summaries add constants/fields flowing into a callee's first result"},
		TrustedBase: []string{"go/types", "this analyser"}}
	if err := r.Load("./cypher/..."); err != nil {
		r.Fatal("load: %v", err)
	}
	tp := r.MustPkg("cypher/models/pgsql/translate")
	info := tp.TypesInfo
	cg := BuildCallGraph(r, func(p string) bool { return strings.Contains(p, "/cypher/models/pgsql") })
	oa := newOriginAnalysis(r, cg)
	oa.returnSummaries = true
	aliasFns := map[string]bool{"Alias": true, "AliasedLookup": true, "LookupString": true}
	defFns := map[string]bool{"Lookup": true, "LookupBindings": true, "Define": true}
	isScopeMethod := func(fn *types.Func) bool {
		if fn == nil {
			return false
		}
		sig := fn.Type().(*types.Signature)
		return sig.Recv() != nil && namedName(sig.Recv().Type()) == "Scope" && fn.Pkg() == tp.Types
	}
	for _, f := range tp.Syntax {
		for _, d := range f.Decls {
			fd, ok := d.(*ast.FuncDecl)
			if !ok || fd.Body == nil {
				continue
			}
			if fd.Recv != nil && recvTypeName(fd.Recv.List[0].Type) == "Scope" {
				continue // the table's own methods
			}
			n := 0
			ast.Inspect(fd.Body, func(x ast.Node) bool {
				call, ok := x.(*ast.CallExpr)
				if !ok || len(call.Args) == 0 {
					return true
				}
				fn := calleeOf(info, call)
				if !isScopeMethod(fn) {
					return true
				}
				n++
				switch {
				case aliasFns[fn.Name()]:
					o := oa.originsOfExpr(tp, fd, call.Args[0], 0)
					user, param, tag := classOfOrigins(o)
					construct := funcDeclName(fd) + ":" + fn.Name() + "#" + itoa(n)
					switch {
					case user && param:
						r.Fail("C06-R1-alias-namespace", construct, call.Pos(), "one alias-table key is derived from both a variable symbol and a parameter symbol")
					case param && tag == "":
						r.Fail("C06-R1-alias-namespace", construct, call.Pos(), "a parameter symbol is used as an alias-table key without a distinguishing tag: $n and the variable n share one entry, so a parameter named like a bound variable resolves to that variable's binding (nil Parameter → panic)")
					case param:
						r.Pass("C06-R1-alias-namespace", construct, call.Pos(), "parameter-class key carries the tag %s", strings.TrimPrefix(tag, "const:"))
					default:
						r.Pass("C06-R1-alias-namespace", construct, call.Pos(), "variable/alias-class (or already resolved) key")
					}
				case defFns[fn.Name()]:
					for _, a := range call.Args {
						if tv, ok := info.Types[a]; !ok || namedName(tv.Type) != "Identifier" {
							continue
						}
						o := oa.originsOfExpr(tp, fd, a, 0)
						user, param, _ := classOfOrigins(o)
						construct := funcDeclName(fd) + ":" + fn.Name() + "#" + itoa(n)
						// identifiers popped from the operand stack or read from bindings are generated
						_, viaBinding := hasTagPrefix(o, "field:BoundIdentifier.Identifier")
						if (user || param) && !viaBinding {
							r.Fail("C06-R2-definition-namespace", construct, call.Pos(), "the definitions table is indexed with a value derived from a user %s symbol: a user name equal to a generated name (n0, e0, s0, pi0 …) captures the translator's binding", map[bool]string{true: "parameter", false: "variable"}[param])
						} else {
							r.Pass("C06-R2-definition-namespace", construct, call.Pos(), "indexed with a generated or already resolved identifier")
						}
					}
				}
				return true
			})
		}
	}
	// R3: dereference of BoundIdentifier.Parameter
	for _, f := range tp.Syntax {
		for _, d := range f.Decls {
			fd, ok := d.(*ast.FuncDecl)
			if !ok || fd.Body == nil {
				continue
			}
			var lhs = map[*ast.SelectorExpr]bool{}
			ast.Inspect(fd.Body, func(x ast.Node) bool {
				if as, ok := x.(*ast.AssignStmt); ok {
					for _, l := range as.Lhs {
						if sel, ok := ast.Unparen(l).(*ast.SelectorExpr); ok {
							lhs[sel] = true
						}
					}
				}
				if kv, ok := x.(*ast.KeyValueExpr); ok {
					if sel, ok := ast.Unparen(kv.Value).(*ast.SelectorExpr); ok {
						lhs[sel] = true // propagation in Copy
					}
				}
				return true
			})
			ast.Inspect(fd.Body, func(x ast.Node) bool {
				sel, ok := x.(*ast.SelectorExpr)
				if !ok || lhs[sel] || sel.Sel.Name != "Parameter" {
					return true
				}
				s := info.Selections[sel]
				if s == nil || namedName(s.Recv()) != "BoundIdentifier" {
					return true
				}
				// nil comparisons are fine
				o := oa.originsOfExpr(tp, fd, sel.X, 0)
				_, param, tag := classOfOrigins(o)
				_, fresh := hasTagPrefix(o, "call:"+modPath+"/cypher/models/pgsql/translate.Scope.DefineNew")
				construct := funcDeclName(fd) + ":BoundIdentifier.Parameter"
				if (param && tag != "") || (fresh && !hasUserOrigin(o)) {
					r.Pass("C06-R3-parameter-deref", construct, sel.Pos(), "the binding comes from a parameter-class lookup or a fresh parameter definition")
				} else if param {
					r.Fail("C06-R3-parameter-deref", construct, sel.Pos(), "BoundIdentifier.Parameter is read on a binding looked up with an untagged parameter symbol: the binding may be a variable's (Parameter == nil)")
				} else {
					r.Fail("C06-R3-parameter-deref", construct, sel.Pos(), "BoundIdentifier.Parameter is read on a binding whose class is not known to be parameter (origins %v)", sortedKeys(o))
				}
				return true
			})
		}
	}
	// ---- R4: where one identifier is tried against both tables, the generated-name table is tried first.
	// At these sites the identifier has normally already been renamed; a user symbol that happens to be spelled like
	// a generated name (e0, pc0) must not capture the lookup, so the alias table is only the fallback.
	for _, f := range tp.Syntax {
		for _, d := range f.Decls {
			fd, ok := d.(*ast.FuncDecl)
			if !ok || fd.Body == nil {
				continue
			}
			first := map[string]map[string]token.Pos{} // argument text -> method -> first position
			ast.Inspect(fd.Body, func(n ast.Node) bool {
				// a direct read of the scope's alias map is a lookup in the user-symbol table as well
				if ix, ok := n.(*ast.IndexExpr); ok {
					if sel, ok := ast.Unparen(ix.X).(*ast.SelectorExpr); ok && sel.Sel.Name == "aliases" && namedName(info.TypeOf(sel.X)) == "Scope" {
						arg := exprString(r.Fset, ix.Index)
						if first[arg] == nil {
							first[arg] = map[string]token.Pos{}
						}
						if _, seen := first[arg]["AliasedLookup"]; !seen {
							first[arg]["AliasedLookup"] = ix.Pos()
						}
					}
					return true
				}
				call, ok := n.(*ast.CallExpr)
				if !ok || len(call.Args) != 1 {
					return true
				}
				fn := calleeOf(info, call)
				if !isScopeMethod(fn) || (fn.Name() != "Lookup" && fn.Name() != "AliasedLookup") {
					return true
				}
				arg := exprString(r.Fset, call.Args[0])
				if first[arg] == nil {
					first[arg] = map[string]token.Pos{}
				}
				if _, seen := first[arg][fn.Name()]; !seen {
					first[arg][fn.Name()] = call.Pos()
				}
				return true
			})
			for _, arg := range sortedKeys(first) {
				lp, hasL := first[arg]["Lookup"]
				ap, hasA := first[arg]["AliasedLookup"]
				if !hasL || !hasA {
					continue
				}
				construct := funcDeclName(fd) + ":" + arg
				if lp < ap {
					r.Pass("C06-R4-generated-first", construct, lp, "Scope.Lookup(%s) is tried before Scope.AliasedLookup(%s)", arg, arg)
				} else {
					r.Fail("C06-R4-generated-first", construct, ap, "%s tries the user-symbol table (AliasedLookup) before the generated-name table (Lookup) for the same identifier %s: a user variable spelled like a generated name (e0, pc0, n1) captures the lookup and the query is translated against the wrong binding", funcDeclName(fd), arg)
				}
			}
		}
	}
	r.Floor("C06-R4-generated-first", 1)
	// ---- R5: user alias text is substituted into an expression only after the frame rewriter has run on it.
	// The frame rewriter resolves every identifier of the tree in the generated-name table; an alias the user chose
	// (n0, n1, s0 …) that is already in the tree when it runs is taken for the generated identifier of that spelling.
	subst := r.LoadTable("c06_alias_substitutions")
	for _, f := range tp.Syntax {
		for _, d := range f.Decls {
			fd, ok := d.(*ast.FuncDecl)
			if !ok || fd.Body == nil {
				continue
			}
			type site struct {
				pos token.Pos
				arg string
				fn  string
			}
			var substs, rewrites []site
			ast.Inspect(fd.Body, func(n ast.Node) bool {
				call, ok := n.(*ast.CallExpr)
				if !ok {
					return true
				}
				fn := calleeOf(info, call)
				if fn == nil || fn.Pkg() != tp.Types {
					return true
				}
				if _, listed := r.InTable(subst, "c06_alias_substitutions", fn.Name()); listed && len(call.Args) >= 1 {
					substs = append(substs, site{call.Pos(), exprString(r.Fset, call.Args[0]), fn.Name()})
				}
				if fn.Name() == "RewriteFrameBindings" && len(call.Args) == 2 {
					rewrites = append(rewrites, site{call.Pos(), exprString(r.Fset, call.Args[1]), fn.Name()})
				}
				return true
			})
			for _, sb := range substs {
				construct := funcDeclName(fd) + ":" + sb.fn + "(" + sb.arg + ")"
				late := token.NoPos
				for _, rw := range rewrites {
					if rw.arg == sb.arg && rw.pos > sb.pos {
						late = rw.pos
					}
				}
				if late != token.NoPos {
					r.Fail("C06-R5-alias-after-frame-rewrite", construct, late, "RewriteFrameBindings runs on %s after %s has put the user's alias text into it: an alias spelled like a live generated identifier (n0, n1) is rewritten to that identifier's frame column and the statement sorts by a different value", sb.arg, sb.fn)
				} else {
					r.Pass("C06-R5-alias-after-frame-rewrite", construct, sb.pos, "no frame rewrite of %s follows the alias substitution", sb.arg)
				}
			}
		}
	}
	r.Floor("C06-R5-alias-after-frame-rewrite", 1)
	checkShapeAliasCollisions(r, tp)
	checkVariableSymbolsRaw(r, r.MustPkg("cypher/frontend"))
	checkNoCrossNamespaceComparison(r, tp)
	checkConsistentResultBinding(r, tp, r.MustPkg("cypher/models/pgsql/optimize"))
	checkIdentifierCaseFolding(r, "C06-R13-identifier-case", tp, r.MustPkg("cypher/models/pgsql/optimize"))
	checkPrefixSchemeTests(r, "C06-R14-prefix-scheme", tp, r.MustPkg("cypher/models/pgsql/optimize"))
	checkNameKindsNotMixed(r, "C06-R15-name-kinds", r.MustPkg("cypher/models/cypher"), tp, r.MustPkg("cypher/models/pgsql/optimize"))
	r.Floor("C06-R1-alias-namespace", 15)
	r.Floor("C06-R2-definition-namespace", 8)
	r.Floor("C06-R3-parameter-deref", 1)
	_ = token.NoPos
	return meta
}

func hasUserOrigin(o map[string]bool) bool {
	for _, t := range userSymbolTags {
		if o[t] {
			return true
		}
	}
	return false
}

// checkShapeAliasCollisions (R6): the hand-built lowerings name some columns of their CTEs after aliases taken from the
// query (carried as strings in the optimiser's shape structs) and others after fixed internal names.  A column list
// that mixes the two declares the same column twice when the user's alias is spelled like the internal name
// (`ranked(root_id, root_id)`), turning a translatable query into an SQL error under a mere renaming.  Every such mix
// needs a guard somewhere in the package that compares that alias with that internal name.
func checkShapeAliasCollisions(r *Run, tp *packages.Package) {
	const rule = "C06-R6-alias-collision"
	info := tp.TypesInfo
	// shapeField(e): the optimiser shape field (string-typed) that e converts, directly or through a local
	var shapeField func(fd *ast.FuncDecl, e ast.Expr, depth int) *types.Var
	// carrier fields: a field of a struct declared in this package that is filled (in a composite literal or by an
	// assignment) from a shape field carries that alias
	type carrierSrc struct {
		fd *ast.FuncDecl
		e  ast.Expr
	}
	carrierSources := map[*types.Var][]carrierSrc{}
	for _, f := range tp.Syntax {
		for _, d := range f.Decls {
			fd, ok := d.(*ast.FuncDecl)
			if !ok || fd.Body == nil {
				continue
			}
			ast.Inspect(fd.Body, func(n ast.Node) bool {
				switch x := n.(type) {
				case *ast.CompositeLit:
					nt := namedOf(info.TypeOf(x))
					if nt == nil || nt.Obj().Pkg() != tp.Types {
						return true
					}
					for _, el := range x.Elts {
						if kv, ok := el.(*ast.KeyValueExpr); ok {
							if kid, ok := kv.Key.(*ast.Ident); ok {
								if fv, ok := info.Uses[kid].(*types.Var); ok && fv.IsField() {
									carrierSources[fv] = append(carrierSources[fv], carrierSrc{fd, kv.Value})
								}
							}
						}
					}
				case *ast.AssignStmt:
					if len(x.Lhs) != len(x.Rhs) {
						return true
					}
					for i, l := range x.Lhs {
						if sel, ok := ast.Unparen(l).(*ast.SelectorExpr); ok {
							if fv, ok := info.Uses[sel.Sel].(*types.Var); ok && fv.IsField() && fv.Pkg() == tp.Types {
								carrierSources[fv] = append(carrierSources[fv], carrierSrc{fd, x.Rhs[i]})
							}
						}
					}
				}
				return true
			})
		}
	}
	carrierOf := func(fv *types.Var, depth int) *types.Var {
		var found *types.Var
		for _, src := range carrierSources[fv] {
			sf := shapeField(src.fd, src.e, depth+1)
			if sf == nil || (found != nil && sf != found) {
				return nil
			}
			found = sf
		}
		return found
	}
	shapeField = func(fd *ast.FuncDecl, e ast.Expr, depth int) *types.Var {
		if depth > 4 {
			return nil
		}
		if sel, ok := ast.Unparen(e).(*ast.SelectorExpr); ok {
			if s := info.Selections[sel]; s != nil && s.Kind() == types.FieldVal {
				if fv := s.Obj().(*types.Var); fv.Pkg() == tp.Types {
					return carrierOf(fv, depth)
				}
			}
		}
		switch x := ast.Unparen(e).(type) {
		case *ast.CallExpr:
			if tv, ok := info.Types[x.Fun]; ok && tv.IsType() && len(x.Args) == 1 {
				return shapeField(fd, x.Args[0], depth+1)
			}
		case *ast.SelectorExpr:
			if s := info.Selections[x]; s != nil && s.Kind() == types.FieldVal {
				fv := s.Obj().(*types.Var)
				if fv.Pkg() != nil && strings.HasSuffix(fv.Pkg().Path(), "/pgsql/optimize") {
					if b, ok := fv.Type().Underlying().(*types.Basic); ok && b.Kind() == types.String {
						return fv
					}
				}
			}
		case *ast.Ident:
			obj := info.Uses[x]
			if obj == nil || fd == nil {
				return nil
			}
			var found *types.Var
			ast.Inspect(fd.Body, func(n ast.Node) bool {
				if as, ok := n.(*ast.AssignStmt); ok && len(as.Lhs) == len(as.Rhs) {
					for i, l := range as.Lhs {
						if id, ok := l.(*ast.Ident); ok && info.Defs[id] == obj && found == nil {
							found = shapeField(fd, as.Rhs[i], depth+1)
						}
					}
				}
				return true
			})
			return found
		}
		return nil
	}
	constOf := func(e ast.Expr) types.Object {
		if id, ok := ast.Unparen(e).(*ast.Ident); ok {
			if c, ok := info.Uses[id].(*types.Const); ok {
				return c
			}
		}
		return nil
	}
	// guards: comparisons between a shape field and a constant anywhere in the package
	type pair struct {
		f *types.Var
		c types.Object
	}
	guards := map[pair]bool{}
	for _, f := range tp.Syntax {
		for _, d := range f.Decls {
			fd, ok := d.(*ast.FuncDecl)
			if !ok || fd.Body == nil {
				continue
			}
			ast.Inspect(fd.Body, func(n ast.Node) bool {
				be, ok := n.(*ast.BinaryExpr)
				if !ok || (be.Op != token.EQL && be.Op != token.NEQ) {
					return true
				}
				for _, pr := range [][2]ast.Expr{{be.X, be.Y}, {be.Y, be.X}} {
					if fv := shapeField(fd, pr[0], 0); fv != nil {
						if c := constOf(pr[1]); c != nil {
							guards[pair{fv, c}] = true
						}
					}
				}
				return true
			})
		}
	}
	n := 0
	for _, f := range tp.Syntax {
		for _, d := range f.Decls {
			fd, ok := d.(*ast.FuncDecl)
			if !ok || fd.Body == nil {
				continue
			}
			ast.Inspect(fd.Body, func(x ast.Node) bool {
				cl, ok := x.(*ast.CompositeLit)
				if !ok {
					return true
				}
				sl, ok := info.TypeOf(cl).Underlying().(*types.Slice)
				if !ok || namedName(sl.Elem()) != "Identifier" || namedName(info.TypeOf(cl)) == "CompoundIdentifier" {
					return true
				}
				var consts []types.Object
				var fields []*types.Var
				for _, el := range cl.Elts {
					if c := constOf(el); c != nil {
						consts = append(consts, c)
					} else if fv := shapeField(fd, el, 0); fv != nil {
						fields = append(fields, fv)
					}
				}
				for _, fv := range fields {
					for _, c := range consts {
						n++
						construct := funcDeclName(fd) + ":" + fv.Name() + "~" + c.Name()
						if guards[pair{fv, c}] {
							r.Pass(rule, construct, cl.Pos(), "the lowering is refused when %s is spelled like %s", fv.Name(), c.Name())
						} else {
							r.Fail(rule, construct, cl.Pos(), "the column list names one column after the query's %s and another %s, and nothing compares the two: an alias spelled like the internal name declares the column twice, so renaming an alias turns a translatable query into an SQL error", fv.Name(), c.Name())
						}
					}
				}
				return true
			})
		}
	}
	// R8 alias-internal-use: a user-spelled alias of an optimiser shape (string fields named …Alias) may name an output
	// column — the value of an `Alias:` key — and nothing else. As an element of a CTE's column list, an ORDER BY
	// expression or a part of a compound identifier it becomes a name inside the statement, so renaming the alias
	// changes more than the output column.
	internal := map[string]token.Pos{}
	uses := 0
	for _, f := range tp.Syntax {
		for _, d := range f.Decls {
			fd, ok := d.(*ast.FuncDecl)
			if !ok || fd.Body == nil {
				continue
			}
			var stack []ast.Node
			ast.Inspect(fd.Body, func(x ast.Node) bool {
				if x == nil {
					stack = stack[:len(stack)-1]
					return true
				}
				stack = append(stack, x)
				e, ok := x.(ast.Expr)
				if !ok {
					return true
				}
				// only the outermost expression that converts the field: skip sub-expressions of a conversion already seen
				if len(stack) >= 2 {
					if pe, ok := stack[len(stack)-2].(ast.Expr); ok && shapeField(fd, pe, 0) != nil {
						return true
					}
				}
				fv := shapeField(fd, e, 0)
				if fv == nil || !strings.HasSuffix(fv.Name(), "Alias") {
					return true
				}
				if _, isIdent := e.(*ast.Ident); isIdent {
					// a local holding the converted alias: judged where it is used
				}
				// where does the value go? walk up: call wrappers (AsOptionalIdentifier) are transparent
				role := ""
				for i := len(stack) - 2; i >= 0 && role == ""; i-- {
					switch p := stack[i].(type) {
					case *ast.CallExpr:
						if tv, ok := info.Types[p.Fun]; ok && tv.IsType() {
							continue
						}
						if fn := calleeOf(info, p); fn != nil && strings.Contains(fn.Name(), "Optional") {
							continue
						}
						role = "argument of " + exprString(r.Fset, p.Fun)
					case *ast.KeyValueExpr:
						if k, ok := p.Key.(*ast.Ident); ok {
							role = "key " + k.Name
							// a field of a struct of this package only carries the alias on: judged where the field is used
							if kf, ok := info.Uses[k].(*types.Var); ok && kf.IsField() && kf.Pkg() == tp.Types {
								role = "local"
							}
						}
					case *ast.CompositeLit:
						role = "element of " + strings.TrimPrefix(types.TypeString(info.TypeOf(p), func(*types.Package) string { return "" }), ".")
					case *ast.AssignStmt, *ast.ValueSpec:
						role = "local"
					case *ast.BinaryExpr:
						role = "comparison"
					case *ast.ParenExpr:
						continue
					default:
						role = "other"
					}
				}
				if role == "local" || role == "comparison" || role == "" {
					return true
				}
				uses++
				if role != "key Alias" {
					// keyed by what the alias is used as, not by the private function that does it
					key := fv.Name() + "→" + role
					if _, seen := internal[key]; !seen {
						internal[key] = e.Pos()
					}
				}
				return true
			})
		}
	}
	if uses == 0 {
		r.Undecide("C06-R8: no use of a user-spelled alias of an optimiser shape found in package translate")
	} else {
		for _, key := range sortedKeys(internal) {
			r.Fail("C06-R8-alias-internal-use", key, internal[key], "the user's alias %s: it names a column inside the statement (a CTE column list, an ORDER BY, a qualified reference), not only an output column: renaming the alias changes the statement beyond its output aliases", key)
		}
		r.Pass("C06-R8-alias-internal-use", "translate:scanned", token.NoPos, "%d uses of user-spelled shape aliases examined, %d functions use one as an internal name", uses, len(internal))
	}
	r.Note("%s: %d (alias, internal name) pairs examined", rule, n)
}

// checkConsistentResultBinding (R7): a contradiction rule.  When one function calls the same multi-result helper more than
// once and binds a variable of the same name to DIFFERENT result positions at two of the call sites, one of the two
// sites takes the wrong result (helpers such as propertyLookupSymbol return (variable symbol, property key, ok): taking
// the key where the symbol is meant makes a node count as constrained only if it is spelled like the property it is
// filtered on — the plan then depends on how the user named a variable).
func checkConsistentResultBinding(r *Run, pkgs ...*packages.Package) {
	const rule = "C06-R7-result-binding"
	n := 0
	for _, p := range pkgs {
		info := p.TypesInfo
		for _, f := range p.Syntax {
			for _, d := range f.Decls {
				fd, ok := d.(*ast.FuncDecl)
				if !ok || fd.Body == nil {
					continue
				}
				// callee -> variable name -> set of result indexes it was bound to (with a position)
				type bind struct {
					idx int
					pos token.Pos
				}
				seen := map[*types.Func]map[string][]bind{}
				ast.Inspect(fd.Body, func(x ast.Node) bool {
					as, ok := x.(*ast.AssignStmt)
					if !ok || len(as.Rhs) != 1 || len(as.Lhs) < 2 {
						return true
					}
					call, ok := ast.Unparen(as.Rhs[0]).(*ast.CallExpr)
					if !ok {
						return true
					}
					callee := calleeOf(info, call)
					if callee == nil || callee.Pkg() == nil || !strings.HasPrefix(callee.Pkg().Path(), modPath) {
						return true
					}
					sig := callee.Type().(*types.Signature)
					for i, l := range as.Lhs {
						id, ok := l.(*ast.Ident)
						if !ok || id.Name == "_" || id.Name == "ok" || id.Name == "err" || i >= sig.Results().Len() {
							continue
						}
						// only positions whose types are interchangeable with another position can be mixed up
						interchangeable := false
						for j := 0; j < sig.Results().Len(); j++ {
							if j != i && types.Identical(sig.Results().At(j).Type(), sig.Results().At(i).Type()) {
								interchangeable = true
							}
						}
						if !interchangeable {
							continue
						}
						if seen[callee] == nil {
							seen[callee] = map[string][]bind{}
						}
						seen[callee][id.Name] = append(seen[callee][id.Name], bind{i, as.Pos()})
					}
					return true
				})
				for callee, byName := range seen {
					for name, binds := range byName {
						if len(binds) < 2 {
							continue
						}
						n++
						construct := shortPkg(p.PkgPath) + "." + funcDeclName(fd) + ":" + callee.Name() + "→" + name
						first := binds[0]
						bad := token.NoPos
						for _, b := range binds[1:] {
							if b.idx != first.idx {
								bad = b.pos
							}
						}
						if bad == token.NoPos {
							r.Pass(rule, construct, first.pos, "%s is bound to result #%d of %s at every call site", name, first.idx, callee.Name())
						} else {
							r.Fail(rule, construct, bad, "%s binds %q to result #%d of %s at one call site and to a different result position at another; both have the same type, so the compiler cannot tell — one of the sites reads the wrong result (for propertyLookupSymbol: the property key instead of the variable's symbol)", funcDeclName(fd), name, first.idx, callee.Name())
						}
					}
				}
			}
		}
	}
	r.Note("%s: %d repeated multi-result bindings examined", rule, n)
}
