package main

// C08 — parsing is total and bounded: the structural panics and nil results.

import (
	"fmt"
	"go/ast"
	"go/token"
	"go/types"
	"sort"
	"strings"
)

func init() { register("C08", checkC08) }

func checkC08(r *Run) propMeta {
	meta := propMeta{Level: "other",
		Explanation: "Decides the structural part of parser totality: (R1) visitor-stack typestate — for every visitor type and grammar rule, the pushes of EnterOC_R and the pops of ExitOC_R balance, with matching asserted types, under every truth assignment of the presence predicates that guard them (so Context.Exit's depth panic, an index out of range on the visitor stack, and a failed type assertion on the popped visitor are impossible); (R2) the root visitor is pushed before the walk; (R3) every parse tree without a rejected rule passes a rule at which the root visitor assigns its result (no (nil, nil)); (R4) a failed strconv/ParseOperator conversion records an error on that path and its value is not used; (R5) explicit panics and unchecked type assertions in the frontend are enumerated against a table of sites whose protecting invariant was confirmed by reading; (R6) blank input is rejected before the lexer is constructed; (R7) the lexer and the parser both get the Context as their ANTLR error listener by unconditional statements before anything pulls a token, and the listener callback records a non-nil error on every call (ANTLR recovers from lexical and syntactic errors, so an unreported error means the input is accepted). NOT decided: time and memory bounds of ANTLR's ALL(*) prediction, panics inside the ANTLR runtime.",
		Assumptions: []string{"ANTLR walker contract; Enter/Exit handlers of one rule node see the same, completed rule context", "ANTLR runtime does not panic on its own"},
		TrustedBase: []string{"go/types", "this analyser"}}
	if err := r.Load("./cypher/..."); err != nil {
		r.Fatal("load: %v", err)
	}
	g := loadGrammar(r)
	vm := BuildVisitorModel(r)

	// ---- R1 push/pop typestate ---------------------------------------------------------
	vnames := sortedKeys(vm.Types)
	for _, v := range vnames {
		vt := vm.Types[v]
		rules := map[string]bool{}
		for k := range vt.Enter {
			rules[k] = true
		}
		for k := range vt.Exit {
			rules[k] = true
		}
		for _, rule := range sortedKeys(rules) {
			en, ex := vt.Enter[rule], vt.Exit[rule]
			var evs []stackEvent
			opaque := false
			pos := token.NoPos
			if en != nil {
				evs = append(evs, en.Events...)
				opaque = opaque || en.Opaque
				pos = en.Decl.Pos()
			}
			if ex != nil {
				evs = append(evs, ex.Events...)
				opaque = opaque || ex.Opaque
				if pos == token.NoPos {
					pos = ex.Decl.Pos()
				}
			}
			if len(evs) == 0 {
				continue
			}
			construct := v + "×" + rule
			if opaque {
				r.Undecide("C08-R1: %s pushes or pops inside a loop/closure/defer; stack effect cannot be summarised", construct)
				continue
			}
			ok, why := balanced(evs)
			if ok {
				r.Pass("C08-R1-push-pop", construct, pos, "%s", why)
			} else {
				r.Fail("C08-R1-push-pop", construct, pos, "visitor stack unbalanced between EnterOC_%s and ExitOC_%s: %s", rule[3:], rule[3:], why)
			}
		}
	}
	checkStackPrimitives(r)
	checkStateDerefs(r, vm, g)
	checkOptionalDerefGuarded(r)
	checkChildAccessorsGuarded(r)
	checkDiscriminatorsNonNil(r)
	r.Floor("C08-R9-stack-primitive-total", 2)
	r.Floor("C08-R1-push-pop", 80)

	// ---- R2 root pushed before the walk ----------------------------------------------------
	checkRootPush(r, vm)

	// ---- R3 success implies a model ----------------------------------------------------------
	checkResultAssigned(r, vm, g)

	// ---- R4 failed conversions -------------------------------------------------------------
	checkConversions(r, vm)

	// ---- R5 explicit panics and unchecked assertions ---------------------------------------------
	checkPanicSites(r, vm)

	// ---- R6 empty input guard ----------------------------------------------------------------
	checkEmptyGuard(r, vm)

	// ---- R7 error listeners -------------------------------------------------------------------
	checkErrorListeners(r, vm)

	// ---- R8 visitor state initialised before it is dereferenced, on every walk ---------------------
	checkVisitorFieldInit(r, vm, g)
	return meta
}

// balanced simulates the event list under every assignment of the guard atoms.
func balanced(evs []stackEvent) (bool, string) {
	set := map[string]bool{}
	for _, e := range evs {
		e.Guard.atoms(set)
	}
	names := sortedKeys(set)
	if len(names) > 12 {
		return false, fmt.Sprintf("too many guard atoms (%d)", len(names))
	}
	var pairs []string
	for m := 0; m < 1<<len(names); m++ {
		env := map[string]bool{}
		for i, n := range names {
			env[n] = m&(1<<i) != 0
		}
		var stack []string
		for _, e := range evs {
			if !e.Guard.eval(env) {
				continue
			}
			if e.Push {
				stack = append(stack, e.Type)
			} else {
				if len(stack) == 0 {
					return false, fmt.Sprintf("a pop (asserting *%s) happens with nothing pushed by this handler pair when %s", e.Type, envString(env))
				}
				top := stack[len(stack)-1]
				stack = stack[:len(stack)-1]
				if e.Type != "" && top != "" && e.Type != top {
					return false, fmt.Sprintf("pushes *%s but pops asserting *%s when %s", top, e.Type, envString(env))
				}
				if m == 0 || len(pairs) < 4 {
					pairs = append(pairs, top)
				}
			}
		}
		if len(stack) != 0 {
			return false, fmt.Sprintf("*%s is pushed and never popped when %s", stack[len(stack)-1], envString(env))
		}
	}
	opaque := 0
	for _, n := range names {
		if strings.HasPrefix(n, "opaque:") {
			opaque++
		}
	}
	note := ""
	if opaque > 0 {
		note = fmt.Sprintf(" (%d non-context condition(s) assumed stable between Enter and Exit)", opaque)
	}
	return true, fmt.Sprintf("balanced under all %d assignments of %v%s", 1<<len(names), names, note)
}

func envString(env map[string]bool) string {
	if len(env) == 0 {
		return "always"
	}
	var parts []string
	for _, k := range sortedKeys(env) {
		if env[k] {
			parts = append(parts, k)
		} else {
			parts = append(parts, "!"+k)
		}
	}
	return strings.Join(parts, " ∧ ")
}

func checkRootPush(r *Run, vm *VisitorModel) {
	pc := frontendParseFunc(vm.pkg)
	if pc == nil {
		r.Fatal("parseCypher not found")
	}
	// the statements of helpers parseCypher is split into count as its own, in the order they run
	enterPos, walkPos := 0, 0
	nested := false
	for i, st := range inlineFunc(vm.pkg, pc, 2).Top {
		ast.Inspect(st, func(n ast.Node) bool {
			call, ok := n.(*ast.CallExpr)
			if !ok {
				return true
			}
			fn := calleeOf(vm.pkg.TypesInfo, call)
			if fn == vm.ctxEnter && enterPos == 0 {
				enterPos = i + 1
				if _, isExpr := st.(*ast.ExprStmt); !isExpr {
					nested = true
				}
			}
			if fn != nil && fn.Name() == "Walk" && walkPos == 0 {
				walkPos = i + 1
			}
			return true
		})
	}
	if enterPos != 0 && walkPos != 0 && enterPos < walkPos && !nested {
		r.Pass("C08-R2-root-before-walk", "parseCypher", pc.Pos(), "ctx.Enter(root) is an unconditional statement preceding ParseTreeWalker.Walk")
	} else {
		r.Fail("C08-R2-root-before-walk", "parseCypher", pc.Pos(), "the root visitor is not unconditionally pushed before the walk: visitorStack[len-1] in EnterEveryRule would index an empty stack")
	}
}

// checkResultAssigned: the field parseCypher returns from the root visitor is assigned at a rule that every
// error-free parse tree contains.
func checkResultAssigned(r *Run, vm *VisitorModel, g *Grammar) {
	root := vm.rootVisitor(r)
	pc := frontendParseFunc(vm.pkg)
	info := vm.pkg.TypesInfo
	var resField *types.Var
	ast.Inspect(inlineFunc(vm.pkg, pc, 2).Body, func(n ast.Node) bool {
		if rs, ok := n.(*ast.ReturnStmt); ok && len(rs.Results) == 2 {
			if sel, ok := ast.Unparen(rs.Results[0]).(*ast.SelectorExpr); ok {
				if s := info.Selections[sel]; s != nil {
					resField, _ = s.Obj().(*types.Var)
				}
			}
		}
		return true
	})
	if resField == nil {
		r.Undecide("C08-R3: parseCypher's model result is not a field of the root visitor")
		return
	}
	vt := vm.Types[root]
	assignAt := map[string]bool{}
	for kind, hs := range map[string]map[string]*handlerInfo{"Enter": vt.Enter, "Exit": vt.Exit} {
		_ = kind
		for rule, h := range hs {
			ast.Inspect(h.Decl.Body, func(n ast.Node) bool {
				if as, ok := n.(*ast.AssignStmt); ok {
					for _, l := range as.Lhs {
						if sel, ok := ast.Unparen(l).(*ast.SelectorExpr); ok {
							if s := info.Selections[sel]; s != nil && s.Obj() == resField {
								assignAt[rule] = true
							}
						}
					}
				}
				return true
			})
		}
	}
	if len(assignAt) == 0 {
		r.Fail("C08-R3-result-assigned", root+"."+resField.Name(), pc.Pos(), "no handler of the root visitor assigns %s", resField.Name())
		return
	}
	rej := universallyRejected(vm, g)
	target := map[string]bool{}
	for k := range assignAt {
		target[k] = true
	}
	for k := range rej {
		target[k] = true
	}
	mand := g.MandatoryContains(target)
	if mand["oC_Cypher"] {
		r.Pass("C08-R3-result-assigned", root+"."+resField.Name(), pc.Pos(), "every parse tree contains a rejected rule or one of %v, where the root visitor assigns its result", sortedKeys(assignAt))
		return
	}
	// witnesses: frontier rules reachable from oC_Cypher through non-mandatory rules whose derivation has no mandatory child
	seen := map[string]bool{}
	var walk func(rule string, path []string)
	walk = func(rule string, path []string) {
		if seen[rule] || mand[rule] {
			return
		}
		seen[rule] = true
		path = append(path, rule)
		descended := false
		for _, d := range g.Derivations(rule) {
			hasMand := false
			for _, s := range d {
				if strings.HasPrefix(s, "R:") && mand[s[2:]] {
					hasMand = true
				}
			}
			if hasMand {
				continue
			}
			for _, s := range d {
				if strings.HasPrefix(s, "R:") {
					if !unitLike(g, rule) {
						continue
					}
					canReach := false
					for t := range g.Reachable(s[2:], nil) {
						if assignAt[t] {
							canReach = true
						}
					}
					if !canReach && len(g.Children(rule)) > 1 {
						continue // sibling that never carries the result (e.g. oC_QueryOptions)
					}
					descended = true
					walk(s[2:], path)
				}
			}
		}
		if !descended {
			r.Fail("C08-R3-result-assigned", root+"×"+rule, token.NoPos, "a parse tree through %s reaches neither a rejected rule nor a rule where %s assigns %s: ParseCypher returns (nil, nil)", strings.Join(path, " > "), root, resField.Name())
		}
	}
	walk("oC_Cypher", nil)
}

// unitLike: the rule merely selects among / sequences child rules (used only to localise the witness).
func unitLike(g *Grammar, rule string) bool {
	for _, d := range g.Derivations(rule) {
		n := 0
		for _, s := range d {
			if strings.HasPrefix(s, "R:") {
				n++
			}
		}
		if n == 0 {
			return false
		}
	}
	return g.Unit(rule) || rule == "oC_Cypher"
}

// checkConversions: every call of a fallible conversion in the frontend has its error tested, the failing
// branch records an error (AddErrors / returns it) and does not use the value.
func checkConversions(r *Run, vm *VisitorModel) {
	info := vm.pkg.TypesInfo
	tbl := r.LoadTable("c08_sites")
	isConvFunc := func(fn *types.Func) bool {
		if fn == nil {
			return false
		}
		full := funcFullName(fn)
		return strings.HasPrefix(full, "strconv.Parse") || strings.HasPrefix(full, "strconv.Atoi") || strings.HasPrefix(full, "strconv.Unquote") ||
			full == modPath+"/cypher/models/cypher.ParseOperator"
	}
	// A conversion whose two results are returned as they are (`return strconv.ParseInt(…)` in a function literal or a
	// small function) hands the obligation to whoever calls that function; a conversion function or such a literal passed
	// as an argument makes the receiving parameter a conversion in the callee.
	byObj := map[types.Object]*ast.FuncDecl{}
	for _, f := range vm.pkg.Syntax {
		for _, d := range f.Decls {
			if fd, ok := d.(*ast.FuncDecl); ok && fd.Body != nil {
				byObj[info.Defs[fd.Name]] = fd
			}
		}
	}
	forwardsConv := func(body *ast.BlockStmt) bool {
		if body == nil || len(body.List) != 1 {
			return false
		}
		rs, ok := body.List[0].(*ast.ReturnStmt)
		if !ok || len(rs.Results) != 1 {
			return false
		}
		call, ok := ast.Unparen(rs.Results[0]).(*ast.CallExpr)
		return ok && isConvFunc(calleeOf(info, call))
	}
	wrapperDecls := map[types.Object]bool{}
	for obj, fd := range byObj {
		if forwardsConv(fd.Body) {
			wrapperDecls[obj] = true
		}
	}
	isConvValue := func(e ast.Expr) bool {
		switch x := ast.Unparen(e).(type) {
		case *ast.FuncLit:
			return forwardsConv(x.Body)
		case *ast.Ident:
			fn, _ := info.Uses[x].(*types.Func)
			return isConvFunc(fn) || (fn != nil && wrapperDecls[fn.Origin()])
		case *ast.SelectorExpr:
			fn, _ := info.Uses[x.Sel].(*types.Func)
			return isConvFunc(fn)
		}
		return false
	}
	convParams := map[types.Object]bool{}
	for _, f := range vm.pkg.Syntax {
		ast.Inspect(f, func(n ast.Node) bool {
			call, ok := n.(*ast.CallExpr)
			if !ok {
				return true
			}
			callee := calleeOf(info, call)
			if callee == nil {
				return true
			}
			hd := byObj[callee.Origin()]
			if hd == nil || hd.Type.Params == nil {
				return true
			}
			var params []types.Object
			for _, pl := range hd.Type.Params.List {
				for _, nm := range pl.Names {
					params = append(params, info.Defs[nm])
				}
			}
			for i, a := range call.Args {
				if i < len(params) && isConvValue(a) {
					convParams[params[i]] = true
				}
			}
			return true
		})
	}
	for _, f := range vm.pkg.Syntax {
		for _, d := range f.Decls {
			fd, ok := d.(*ast.FuncDecl)
			if !ok || fd.Body == nil {
				continue
			}
			var stack []ast.Node
			ast.Inspect(fd.Body, func(n ast.Node) bool {
				if n == nil {
					stack = stack[:len(stack)-1]
					return true
				}
				stack = append(stack, n)
				call, ok := n.(*ast.CallExpr)
				if !ok {
					return true
				}
				fn := calleeOf(info, call)
				convName := ""
				switch {
				case isConvFunc(fn):
					convName = fn.Name()
				case fn != nil && wrapperDecls[fn.Origin()]:
					convName = fn.Name()
				default:
					if id, ok := ast.Unparen(call.Fun).(*ast.Ident); ok && convParams[info.Uses[id]] {
						convName = id.Name
					}
				}
				if convName == "" {
					return true
				}
				if fn == nil {
					fn = types.NewFunc(token.NoPos, vm.pkg.Types, convName, types.NewSignatureType(nil, nil, nil, nil, nil, false))
				}
				construct := funcDeclName(fd) + ":" + convName
				// the two results handed on unchanged: the caller of this function (literal) is judged instead
				if len(stack) >= 2 {
					if rs, isRet := stack[len(stack)-2].(*ast.ReturnStmt); isRet && len(rs.Results) == 1 {
						forwarded := false
						for i := len(stack) - 3; i >= 0 && !forwarded; i-- {
							switch enc := stack[i].(type) {
							case *ast.FuncLit:
								forwarded = forwardsConv(enc.Body)
								i = -1
							}
						}
						if !forwarded && forwardsConv(fd.Body) {
							forwarded = true
						}
						if forwarded {
							r.Pass("C08-R4-conversion-error", construct+":forwarded", call.Pos(), "value and error are returned as they are; the function's callers are judged")
							return true
						}
					}
				}
				// parent must be an assignment v, err := call
				var as *ast.AssignStmt
				if len(stack) >= 2 {
					as, _ = stack[len(stack)-2].(*ast.AssignStmt)
				}
				if as == nil || len(as.Lhs) != 2 {
					r.Fail("C08-R4-conversion-error", construct, call.Pos(), "result of %s is not bound to (value, err)", fn.Name())
					return true
				}
				errId, _ := as.Lhs[1].(*ast.Ident)
				if errId == nil || errId.Name == "_" {
					if reason, ok := r.InTableAt(tbl, "c08_sites", "discard|"+construct, info, fd, "discard:"+convName); ok {
						r.Pass("C08-R4-conversion-error", construct, call.Pos(), "error discarded — table: %s", reason)
					} else {
						r.Fail("C08-R4-conversion-error", construct, call.Pos(), "the error of %s is discarded and the zero value is used", fn.Name())
					}
					return true
				}
				errObj := info.Defs[errId]
				if errObj == nil {
					errObj = info.Uses[errId]
				}
				// find the enclosing if whose Init is this assignment, or the next statement testing err
				var ifs *ast.IfStmt
				if len(stack) >= 3 {
					if is, ok := stack[len(stack)-3].(*ast.IfStmt); ok && is.Init == as {
						ifs = is
					}
				}
				if ifs == nil {
					// look for `if err != nil` as the following statement in the enclosing block
					for i := len(stack) - 1; i >= 0; i-- {
						if blk, ok := stack[i].(*ast.BlockStmt); ok {
							for j, st := range blk.List {
								if st == as && j+1 < len(blk.List) {
									ifs, _ = blk.List[j+1].(*ast.IfStmt)
								}
							}
							break
						}
					}
				}
				if ifs == nil {
					// value and error handed together to a same-package function (as two arguments, or as two fields of one
					// struct argument): the callee must test the error cell and keep off the value cell when it is set
					if verdict, handled := conversionHandedOn(r, vm, info, byObj, fd, as, errObj); handled {
						if verdict == "" {
							r.Pass("C08-R4-conversion-error", construct, call.Pos(), "value and error are handed to a helper that tests the error, records it and does not use the value")
						} else {
							r.Fail("C08-R4-conversion-error", construct, call.Pos(), "%s", verdict)
						}
						return true
					}
					r.Fail("C08-R4-conversion-error", construct, call.Pos(), "the error of %s is never tested", fn.Name())
					return true
				}
				be, ok := ast.Unparen(ifs.Cond).(*ast.BinaryExpr)
				errTested := false
				if ok && be.Op == token.NEQ {
					if id, ok := be.X.(*ast.Ident); ok && info.Uses[id] == errObj && isNilIdent(info, be.Y) {
						errTested = true
					}
				}
				if !errTested {
					r.Fail("C08-R4-conversion-error", construct, call.Pos(), "the statement after %s does not test err != nil", fn.Name())
					return true
				}
				records, usesVal := false, false
				valObj := types.Object(nil)
				if vid, ok := as.Lhs[0].(*ast.Ident); ok {
					valObj = info.Defs[vid]
					if valObj == nil {
						valObj = info.Uses[vid]
					}
				}
				ast.Inspect(ifs.Body, func(m ast.Node) bool {
					switch x := m.(type) {
					case *ast.CallExpr:
						if calleeOf(info, x) == vm.ctxAddErrs {
							records = true
						}
						// `errs = append(errs, …err…)` with errs a list of errors that the function returns and every
						// caller hands to AddErrors
						if id, ok := ast.Unparen(x.Fun).(*ast.Ident); ok && id.Name == "append" && len(x.Args) >= 2 {
							if _, isBuiltin := info.Uses[id].(*types.Builtin); isBuiltin {
								mentions := false
								for _, a := range x.Args[1:] {
									ast.Inspect(a, func(k ast.Node) bool {
										if eid, ok := k.(*ast.Ident); ok && info.Uses[eid] == errObj {
											mentions = true
										}
										return true
									})
								}
								if lid, ok := ast.Unparen(x.Args[0]).(*ast.Ident); ok && mentions && errorListDelivered(vm, fd, info.Uses[lid]) {
									records = true
								}
							}
						}
					case *ast.ReturnStmt:
						for _, res := range x.Results {
							ast.Inspect(res, func(k ast.Node) bool {
								if id, ok := k.(*ast.Ident); ok && info.Uses[id] == errObj {
									records = true
								}
								return true
							})
						}
					case *ast.Ident:
						if valObj != nil && info.Uses[x] == valObj {
							usesVal = true
						}
					}
					return true
				})
				switch {
				case !records:
					r.Fail("C08-R4-conversion-error", construct, call.Pos(), "the failing branch of %s neither records the error with AddErrors nor returns it: a partially built model is returned without an error", fn.Name())
				case usesVal:
					r.Fail("C08-R4-conversion-error", construct, call.Pos(), "the failing branch of %s uses the invalid value", fn.Name())
				default:
					r.Pass("C08-R4-conversion-error", construct, call.Pos(), "error tested; failing branch records it and does not use the value")
				}
				return true
			})
		}
	}
	r.Floor("C08-R4-conversion-error", 4)
}

func checkPanicSites(r *Run, vm *VisitorModel) {
	info := vm.pkg.TypesInfo
	tbl := r.LoadTable("c08_sites")
	type site struct {
		key    string
		pos    token.Pos
		what   string
		fd     *ast.FuncDecl
		detail string
		sem    string
	}
	var sites []site
	for _, f := range vm.pkg.Syntax {
		for _, d := range f.Decls {
			fd, ok := d.(*ast.FuncDecl)
			if !ok || fd.Body == nil {
				continue
			}
			var stack []ast.Node
			ast.Inspect(fd.Body, func(n ast.Node) bool {
				if n == nil {
					stack = stack[:len(stack)-1]
					return true
				}
				stack = append(stack, n)
				switch x := n.(type) {
				case *ast.CallExpr:
					if id, ok := x.Fun.(*ast.Ident); ok && id.Name == "panic" {
						if _, isBuiltin := info.Uses[id].(*types.Builtin); isBuiltin {
							sites = append(sites, site{"panic|" + funcDeclName(fd), x.Pos(), "explicit panic", fd, "panic", ""})
						}
					}
				case *ast.TypeAssertExpr:
					if x.Type == nil {
						return true // type switch
					}
					// comma-ok form?
					if len(stack) >= 2 {
						switch p := stack[len(stack)-2].(type) {
						case *ast.AssignStmt:
							if len(p.Lhs) == 2 && len(p.Rhs) == 1 && p.Rhs[0] == x {
								return true
							}
						case *ast.ValueSpec:
							if len(p.Names) == 2 {
								return true
							}
						}
					}
					// pops are covered by R1
					if call, ok := ast.Unparen(x.X).(*ast.CallExpr); ok && calleeOf(info, call) == vm.ctxExit {
						return true
					}
					t := ""
					if tv, ok := info.Types[x.Type]; ok {
						t = namedName(tv.Type)
					}
					// what is asserted, by exported names: the visitor's field and the target type
					sem := ""
					if sel, ok := ast.Unparen(x.X).(*ast.SelectorExpr); ok {
						if s := info.Selections[sel]; s != nil && s.Kind() == types.FieldVal && ast.IsExported(sel.Sel.Name) {
							sem = "assert-field|" + namedName(s.Recv()) + "." + sel.Sel.Name + ":" + t
						}
					}
					sites = append(sites, site{"assert|" + funcDeclName(fd) + ":" + t, x.Pos(), "unchecked type assertion to " + t, fd, "assert:" + t, sem})
				}
				return true
			})
		}
	}
	sort.Slice(sites, func(i, j int) bool { return sites[i].key < sites[j].key })
	for _, s := range sites {
		if reason, ok := r.InTableAt(tbl, "c08_sites", s.key, info, s.fd, s.detail, s.sem); ok {
			r.Pass("C08-R5-panic-site", s.key, s.pos, "%s — protected: %s", s.what, reason)
		} else {
			r.Fail("C08-R5-panic-site", s.key, s.pos, "%s in the parser front end with no recorded protecting invariant: a reachable panic breaks totality", s.what)
		}
	}
	r.Floor("C08-R5-panic-site", 3)
}

func checkEmptyGuard(r *Run, vm *VisitorModel) {
	info := vm.pkg.TypesInfo
	decls := FuncDecls(vm.pkg)
	pcx := decls["ParseCypher"]
	if pcx == nil {
		r.Fatal("ParseCypher not found")
	}
	// every call to parseCypher inside ParseCypher must be under the negation of an emptiness test of
	// strings.TrimSpace(input), whose positive branch returns a non-nil error
	var inputParam types.Object
	if len(pcx.Type.Params.List) >= 2 {
		inputParam = info.Defs[pcx.Type.Params.List[1].Names[0]]
	} else if len(pcx.Type.Params.List) == 1 && len(pcx.Type.Params.List[0].Names) == 2 {
		inputParam = info.Defs[pcx.Type.Params.List[0].Names[1]]
	}
	trimmed := map[types.Object]bool{}
	// trimChain: e is the value of root put through functions of the strings.Trim family only — one of them TrimSpace —
	// directly or inside a helper of the package. Such a chain maps every blank input to the empty string.
	var trimChain func(fd *ast.FuncDecl, e ast.Expr, root types.Object, depth int) (reaches, space bool)
	trimChain = func(fd *ast.FuncDecl, e ast.Expr, root types.Object, depth int) (bool, bool) {
		e = ast.Unparen(e)
		if depth > 6 {
			return false, false
		}
		switch x := e.(type) {
		case *ast.Ident:
			if info.Uses[x] == root {
				return true, false
			}
			if def := resolveLocalCopy(info, fd.Body, x); def != ast.Expr(x) {
				return trimChain(fd, def, root, depth+1)
			}
		case *ast.CallExpr:
			fn := calleeOf(info, x)
			if fn == nil || len(x.Args) == 0 {
				return false, false
			}
			full := funcFullName(fn)
			if strings.HasPrefix(full, "strings.Trim") {
				ok, sp := trimChain(fd, x.Args[0], root, depth+1)
				return ok, sp || full == "strings.TrimSpace"
			}
			if hd := decls[declKeyOf(fn)]; hd != nil && hd.Body != nil && fn.Pkg() == vm.pkg.Types && len(x.Args) == 1 && hd.Type.Params != nil && len(hd.Type.Params.List) == 1 && len(hd.Type.Params.List[0].Names) == 1 {
				hp := info.Defs[hd.Type.Params.List[0].Names[0]]
				all, allSpace, n := true, true, 0
				ast.Inspect(hd.Body, func(m ast.Node) bool {
					if _, isLit := m.(*ast.FuncLit); isLit {
						return false
					}
					if rs, ok := m.(*ast.ReturnStmt); ok {
						n++
						if len(rs.Results) != 1 {
							all = false
							return true
						}
						ok, sp := trimChain(hd, rs.Results[0], hp, depth+1)
						all = all && ok
						allSpace = allSpace && sp
					}
					return true
				})
				if all && n > 0 {
					ok, sp := trimChain(fd, x.Args[0], root, depth+1)
					return ok, sp || allSpace
				}
			}
		}
		return false, false
	}
	ast.Inspect(pcx.Body, func(n ast.Node) bool {
		if as, ok := n.(*ast.AssignStmt); ok && len(as.Lhs) == 1 && len(as.Rhs) == 1 {
			if reaches, space := trimChain(pcx, as.Rhs[0], inputParam, 0); reaches && space {
				if id, ok := as.Lhs[0].(*ast.Ident); ok {
					if o := info.Defs[id]; o != nil {
						trimmed[o] = true
					}
				}
			}
		}
		return true
	})
	isEmptyTest := func(e ast.Expr) bool {
		be, ok := ast.Unparen(e).(*ast.BinaryExpr)
		if !ok || be.Op != token.EQL {
			return false
		}
		// len(x) == 0  or x == ""
		if call, ok := be.X.(*ast.CallExpr); ok {
			if id, ok := call.Fun.(*ast.Ident); ok && id.Name == "len" && len(call.Args) == 1 {
				if a, ok := call.Args[0].(*ast.Ident); ok && trimmed[info.Uses[a]] {
					if bl, ok := be.Y.(*ast.BasicLit); ok && bl.Value == "0" {
						return true
					}
				}
			}
		}
		if a, ok := be.X.(*ast.Ident); ok && trimmed[info.Uses[a]] {
			if bl, ok := be.Y.(*ast.BasicLit); ok && bl.Value == `""` {
				return true
			}
		}
		return false
	}
	guarded, calls := 0, 0
	var visit func(list []ast.Stmt, safe bool)
	countCalls := func(n ast.Node, safe bool) {
		ast.Inspect(n, func(m ast.Node) bool {
			if call, ok := m.(*ast.CallExpr); ok {
				if fn := calleeOf(info, call); fn != nil && isFrontendParseFunc(vm.pkg, fn) {
					calls++
					if safe {
						guarded++
					}
				}
			}
			return true
		})
	}
	visit = func(list []ast.Stmt, safe bool) {
		for _, st := range list {
			if ifs, ok := st.(*ast.IfStmt); ok && isEmptyTest(ifs.Cond) {
				// then-branch must return a non-nil error
				rejects := false
				for _, s2 := range ifs.Body.List {
					if rs, ok := s2.(*ast.ReturnStmt); ok && len(rs.Results) == 2 && vm.nonNilError(rs.Results[1]) {
						rejects = true
					}
				}
				countCalls(ifs.Body, false)
				if rejects {
					if ifs.Else != nil {
						countCalls(ifs.Else, true)
					}
					safe = true // statements after a rejecting if are guarded too
				} else if ifs.Else != nil {
					countCalls(ifs.Else, safe)
				}
				continue
			}
			countCalls(st, safe)
		}
	}
	visit(pcx.Body.List, false)
	if calls > 0 && calls == guarded {
		r.Pass("C08-R6-empty-input", "ParseCypher", pcx.Pos(), "parseCypher is reached only when strings.TrimSpace(input) is non-empty; the empty branch returns a constant error")
	} else {
		r.Fail("C08-R6-empty-input", "ParseCypher", pcx.Pos(), "%d of %d calls to parseCypher are not guarded by the blank-input rejection", calls-guarded, calls)
	}
}

// checkErrorListeners (R7): ANTLR reports lexical and syntactic errors only to registered listeners, and recovers
// (drops the offending characters, deletes or conjures a token) so that the walk still produces a model.  Input that
// is not Cypher is therefore rejected only if (a) the lexer and the parser both have the Context installed as their
// error listener before anything pulls a token from them, and (b) the listener records an error on every call.
func checkErrorListeners(r *Run, vm *VisitorModel) {
	const rule = "C08-R7-error-listener"
	info := vm.pkg.TypesInfo
	pc := frontendParseFunc(vm.pkg)
	if pc == nil {
		r.Fatal("parseCypher not found")
	}
	// the recognisers: locals initialised by parser.NewCypherLexer / parser.NewCypherParser; derived streams
	type recog struct {
		obj   types.Object
		kind  string
		added token.Pos // position of the unconditional X.AddErrorListener(ctx)
	}
	var recs []*recog
	derived := map[types.Object]string{} // token stream etc. -> what it wraps
	var ctxParam types.Object
	if pc.Type.Params != nil {
		for _, f := range pc.Type.Params.List {
			for _, n := range f.Names {
				if namedName(info.TypeOf(f.Type)) == "Context" {
					ctxParam = info.Defs[n]
				}
			}
		}
	}
	inl := inlineFunc(vm.pkg, pc, 2)
	// the recognisers are storage cells — locals of parseCypher or of a helper it is split into, or fields of a local
	// struct — defined by the generated constructors; a cell that is given another cell's recogniser is the same one
	sameRec := map[types.Object]*recog{}
	recOf := func(o types.Object) *recog {
		if o == nil {
			return nil
		}
		for _, rc := range recs {
			if rc.obj == o {
				return rc
			}
		}
		return sameRec[o]
	}
	cellObj := func(e ast.Expr) types.Object {
		switch x := ast.Unparen(e).(type) {
		case *ast.Ident:
			return inl.Obj(x)
		case *ast.SelectorExpr:
			if v := cellOf(info, x); v != nil {
				return v
			}
		}
		return nil
	}
	define := func(nameObj types.Object, value ast.Expr) {
		if nameObj == nil {
			return
		}
		switch v := ast.Unparen(value).(type) {
		case *ast.CallExpr:
			fn := calleeOf(info, v)
			if fn == nil {
				return
			}
			switch fn.Name() {
			case "NewCypherLexer":
				recs = append(recs, &recog{obj: nameObj, kind: "lexer"})
			case "NewCypherParser":
				recs = append(recs, &recog{obj: nameObj, kind: "parser"})
			default:
				for _, a := range v.Args {
					if rc := recOf(cellObj(a)); rc != nil {
						derived[nameObj] = rc.kind
					}
				}
			}
			// constructor arguments: a parser built on a token stream built on the lexer is derived from the lexer
			for _, a := range v.Args {
				if k, ok := derived[cellObj(a)]; ok && (fn.Name() != "NewCypherLexer" && fn.Name() != "NewCypherParser") {
					derived[nameObj] = k
				}
			}
		case *ast.Ident, *ast.SelectorExpr:
			// another name for the same recogniser (a helper's result, a field of a state struct)
			src := cellObj(v.(ast.Expr))
			if rc := recOf(src); rc != nil {
				sameRec[nameObj] = rc
			}
			if k, ok := derived[src]; ok {
				derived[nameObj] = k
			}
		}
	}
	ast.Inspect(inl.Body, func(n ast.Node) bool {
		switch x := n.(type) {
		case *ast.ValueSpec:
			for i, name := range x.Names {
				if i < len(x.Values) {
					define(info.Defs[name], x.Values[i])
				}
			}
		case *ast.AssignStmt:
			if len(x.Lhs) == len(x.Rhs) {
				for i, l := range x.Lhs {
					switch lv := ast.Unparen(l).(type) {
					case *ast.Ident:
						if o := info.Defs[lv]; o != nil {
							define(o, x.Rhs[i])
						}
					case *ast.SelectorExpr:
						if v := cellOf(info, lv); v != nil {
							define(v, x.Rhs[i])
						}
					}
				}
			}
		case *ast.KeyValueExpr:
			if k, ok := x.Key.(*ast.Ident); ok {
				if fv, ok := info.Uses[k].(*types.Var); ok && fv.IsField() {
					define(fv, x.Value)
				}
			}
		}
		return true
	})
	if len(recs) != 2 || ctxParam == nil {
		r.Undecide("C08-R7: expected one lexer and one parser local and a *Context parameter in parseCypher, found %d recognisers", len(recs))
		return
	}
	// unconditional top-level statements X.RemoveErrorListeners(); X.AddErrorListener(ctx) — of parseCypher or of a helper
	// it calls unconditionally (the order is the order in which the statements run, not the source position)
	addedSeq := map[*recog]int{}
	for _, st := range inl.Top {
		es, ok := st.(*ast.ExprStmt)
		if !ok {
			continue
		}
		call, ok := es.X.(*ast.CallExpr)
		if !ok {
			continue
		}
		sel, ok := call.Fun.(*ast.SelectorExpr)
		if !ok || sel.Sel.Name != "AddErrorListener" || len(call.Args) != 1 {
			continue
		}
		arg, ok2 := ast.Unparen(call.Args[0]).(*ast.Ident)
		if !ok2 || inl.Obj(arg) != ctxParam {
			continue
		}
		if rc := recOf(cellObj(sel.X)); rc != nil && rc.added == token.NoPos {
			rc.added = call.Pos()
			addedSeq[rc] = inl.Seq(call)
		}
	}
	for _, rc := range recs {
		construct := "parseCypher:" + rc.kind
		if rc.added == token.NoPos {
			r.Fail(rule, construct, pc.Pos(), "the %s never gets the Context as its error listener by an unconditional statement of parseCypher: its errors go to the console listener and the input is accepted after ANTLR's recovery", rc.kind)
			continue
		}
		// nothing may use the recogniser (or a stream built on it) before the listener is installed, except constructors
		// and the listener calls themselves
		var early ast.Node
		ast.Inspect(inl.Body, func(n ast.Node) bool {
			call, ok := n.(*ast.CallExpr)
			if !ok || inl.Seq(call) >= addedSeq[rc] || early != nil {
				return true
			}
			name := ""
			switch f := ast.Unparen(call.Fun).(type) {
			case *ast.SelectorExpr:
				name = f.Sel.Name
			case *ast.Ident:
				name = f.Name
			}
			if strings.HasPrefix(name, "New") || name == "RemoveErrorListeners" || name == "AddErrorListener" {
				return true
			}
			uses := false
			check := func(e ast.Expr) {
				if o := cellObj(e); o != nil && (recOf(o) == rc || derived[o] == rc.kind || (rc.kind == "lexer" && derived[o] != "")) {
					uses = true
				}
			}
			if sel, ok := ast.Unparen(call.Fun).(*ast.SelectorExpr); ok {
				check(sel.X)
			}
			for _, a := range call.Args {
				check(a)
			}
			if uses {
				early = call
			}
			return true
		})
		if early != nil {
			r.Fail(rule, construct, early.Pos(), "%s uses the %s (or a stream built on it) before the Context is installed as its error listener: errors raised by that call are reported to the console listener only and never reach ctx.Errors", exprString(r.Fset, early), rc.kind)
		} else {
			r.Pass(rule, construct, rc.added, "the Context is installed as the %s's error listener by an unconditional statement, before anything pulls tokens", rc.kind)
		}
	}
	// the listener records on every call
	var listener *ast.FuncDecl
	for name, fd := range FuncDecls(vm.pkg) {
		if name == "Context.SyntaxError" || name == "(*Context).SyntaxError" || strings.HasSuffix(name, "Context.SyntaxError") {
			listener = fd
		}
	}
	if listener == nil {
		r.Undecide("C08-R7: Context.SyntaxError not found")
		return
	}
	// every path through the callback passes a statement that hands AddErrors a value that cannot be a nil error
	records := false
	recordsIn := func(n ast.Node) bool {
		found := false
		ast.Inspect(n, func(m ast.Node) bool {
			if _, isLit := m.(*ast.FuncLit); isLit {
				return false
			}
			call, ok := m.(*ast.CallExpr)
			if !ok {
				return true
			}
			if fn := calleeOf(info, call); fn != nil && fn == vm.ctxAddErrs && len(call.Args) >= 1 && vm.nonNilError(call.Args[0]) {
				found = true
			}
			return !found
		})
		return found
	}
	if paths, complete := structuredPaths(info, r.Fset, listener.Body.List, 64); complete && len(paths) > 0 {
		records = true
		for _, p := range paths {
			hit := false
			for _, leaf := range p.Leaves {
				if _, isExpr := leaf.(ast.Expr); isExpr {
					continue // a condition: evaluated, but not a statement that records
				}
				if recordsIn(leaf) {
					hit = true
				}
			}
			if !hit {
				records = false
			}
		}
	}
	if records {
		r.Pass(rule, "Context.SyntaxError", listener.Pos(), "every path through the listener callback hands AddErrors a value that cannot be a nil error")
	} else {
		r.Fail(rule, "Context.SyntaxError", listener.Pos(), "the ANTLR error listener does not record an error on every call (the AddErrors(&SyntaxError{…}) statement is missing, conditional, or preceded by a return): the lexer reports unrecognised characters with a nil offending symbol and skips them, so such input is accepted with the characters silently removed")
	}
	r.Floor(rule, 3)
}

// conversionHandedOn: `v, err := conv(…)` is followed, somewhere in the same block, by a call of a same-package function
// that receives err — directly or as a field of a struct literal argument. handled=false when no such call exists.
// verdict "" means the callee tests the error cell with `!= nil`, records the error in that branch (AddErrors, or
// returns it) and does not read the value cell there.
func conversionHandedOn(r *Run, vm *VisitorModel, info *types.Info, byObj map[types.Object]*ast.FuncDecl, fd *ast.FuncDecl, as *ast.AssignStmt, errObj types.Object) (verdict string, handled bool) {
	var valObj types.Object
	if vid, ok := as.Lhs[0].(*ast.Ident); ok {
		valObj = info.Defs[vid]
		if valObj == nil {
			valObj = info.Uses[vid]
		}
	}
	type cell struct {
		param types.Object
		field types.Object // nil: the parameter itself
	}
	var callee *ast.FuncDecl
	var errCell, valCell *cell
	ast.Inspect(fd.Body, func(n ast.Node) bool {
		call, ok := n.(*ast.CallExpr)
		if !ok || callee != nil || call.Pos() < as.End() {
			return true
		}
		fn := calleeOf(info, call)
		if fn == nil {
			return true
		}
		hd := byObj[fn.Origin()]
		if hd == nil || hd.Type.Params == nil {
			return true
		}
		var params []types.Object
		for _, pl := range hd.Type.Params.List {
			for _, nm := range pl.Names {
				params = append(params, info.Defs[nm])
			}
		}
		var ec, vc *cell
		for i, a := range call.Args {
			if i >= len(params) {
				break
			}
			switch av := ast.Unparen(a).(type) {
			case *ast.Ident:
				if info.Uses[av] == errObj {
					ec = &cell{params[i], nil}
				}
				if valObj != nil && info.Uses[av] == valObj {
					vc = &cell{params[i], nil}
				}
			case *ast.CompositeLit:
				for _, el := range av.Elts {
					kv, ok := el.(*ast.KeyValueExpr)
					if !ok {
						continue
					}
					k, ok1 := kv.Key.(*ast.Ident)
					v, ok2 := ast.Unparen(kv.Value).(*ast.Ident)
					if !ok1 || !ok2 {
						continue
					}
					if info.Uses[v] == errObj {
						ec = &cell{params[i], info.Uses[k]}
					}
					if valObj != nil && info.Uses[v] == valObj {
						vc = &cell{params[i], info.Uses[k]}
					}
				}
			}
		}
		if ec != nil {
			callee, errCell, valCell = hd, ec, vc
		}
		return true
	})
	if callee == nil {
		return "", false
	}
	isCell := func(e ast.Expr, c *cell) bool {
		if c == nil {
			return false
		}
		switch x := ast.Unparen(e).(type) {
		case *ast.Ident:
			return c.field == nil && info.Uses[x] == c.param
		case *ast.SelectorExpr:
			if c.field == nil {
				return false
			}
			id, ok := ast.Unparen(x.X).(*ast.Ident)
			if !ok || info.Uses[id] != c.param {
				return false
			}
			s := info.Selections[x]
			return s != nil && s.Obj() == c.field
		}
		return false
	}
	var test *ast.IfStmt
	ast.Inspect(callee.Body, func(n ast.Node) bool {
		if ifs, ok := n.(*ast.IfStmt); ok && test == nil {
			if be, ok := ast.Unparen(ifs.Cond).(*ast.BinaryExpr); ok && be.Op == token.NEQ && isNilIdent(info, be.Y) && isCell(be.X, errCell) {
				test = ifs
			}
		}
		return true
	})
	if test == nil {
		return "value and error are handed to " + callee.Name.Name + ", which never tests the error with `!= nil`: a failed conversion is used as if it had succeeded", true
	}
	records, usesVal := false, false
	ast.Inspect(test.Body, func(m ast.Node) bool {
		switch x := m.(type) {
		case *ast.CallExpr:
			if calleeOf(info, x) == vm.ctxAddErrs {
				records = true
			}
		case *ast.ReturnStmt:
			for _, res := range x.Results {
				ast.Inspect(res, func(k ast.Node) bool {
					if e, ok := k.(ast.Expr); ok && isCell(e, errCell) {
						records = true
					}
					return true
				})
			}
		}
		if e, ok := m.(ast.Expr); ok && isCell(e, valCell) {
			usesVal = true
		}
		return true
	})
	switch {
	case !records:
		return "the failing branch in " + callee.Name.Name + " neither records the error with AddErrors nor returns it", true
	case usesVal:
		return "the failing branch in " + callee.Name.Name + " uses the invalid value", true
	}
	return "", true
}

// errorListDelivered: list is a local []error of fd that fd returns, and every caller of fd in the front end hands the
// corresponding result to Context.AddErrors (or returns it onward, one level).
func errorListDelivered(vm *VisitorModel, fd *ast.FuncDecl, list types.Object) bool {
	info := vm.pkg.TypesInfo
	if list == nil {
		return false
	}
	sl, ok := list.Type().Underlying().(*types.Slice)
	if !ok || !types.Identical(sl.Elem(), types.Universe.Lookup("error").Type()) {
		return false
	}
	// the index at which fd returns the list
	idx := -1
	returnsAll := true
	ast.Inspect(fd.Body, func(n ast.Node) bool {
		if _, isLit := n.(*ast.FuncLit); isLit {
			return false
		}
		rs, ok := n.(*ast.ReturnStmt)
		if !ok {
			return true
		}
		found := false
		for i, res := range rs.Results {
			if id, ok := ast.Unparen(res).(*ast.Ident); ok && info.Uses[id] == list {
				if idx >= 0 && idx != i {
					returnsAll = false
				}
				idx = i
				found = true
			}
		}
		if !found {
			returnsAll = false
		}
		return true
	})
	if idx < 0 || !returnsAll {
		return false
	}
	self, _ := info.Defs[fd.Name].(*types.Func)
	if self == nil {
		return false
	}
	callers := 0
	delivered := true
	for _, f := range vm.pkg.Syntax {
		for _, d := range f.Decls {
			caller, ok := d.(*ast.FuncDecl)
			if !ok || caller.Body == nil {
				continue
			}
			ast.Inspect(caller.Body, func(n ast.Node) bool {
				as, ok := n.(*ast.AssignStmt)
				if !ok || len(as.Rhs) != 1 {
					if call, isCall := n.(*ast.CallExpr); isCall && calleeOf(info, call) == self {
						// a call outside an assignment of all results
						if !assignedCall(caller.Body, call) {
							callers++
							delivered = false
						}
					}
					return true
				}
				call, ok := ast.Unparen(as.Rhs[0]).(*ast.CallExpr)
				if !ok || calleeOf(info, call) != self {
					return true
				}
				callers++
				if idx >= len(as.Lhs) {
					delivered = false
					return true
				}
				lid, ok := ast.Unparen(as.Lhs[idx]).(*ast.Ident)
				if !ok || lid.Name == "_" {
					delivered = false
					return true
				}
				obj := info.ObjectOf(lid)
				handed := false
				ast.Inspect(caller.Body, func(m ast.Node) bool {
					switch x := m.(type) {
					case *ast.CallExpr:
						if calleeOf(info, x) == vm.ctxAddErrs {
							for _, a := range x.Args {
								if aid, ok := ast.Unparen(a).(*ast.Ident); ok && info.Uses[aid] == obj {
									handed = true
								}
							}
						}
					case *ast.ReturnStmt:
						for _, res := range x.Results {
							if aid, ok := ast.Unparen(res).(*ast.Ident); ok && info.Uses[aid] == obj {
								handed = true
							}
						}
					}
					return true
				})
				if !handed {
					delivered = false
				}
				return true
			})
		}
	}
	return callers > 0 && delivered
}

// assignedCall: call is the sole right-hand side of an assignment in body.
func assignedCall(body ast.Node, call *ast.CallExpr) bool {
	found := false
	ast.Inspect(body, func(n ast.Node) bool {
		if as, ok := n.(*ast.AssignStmt); ok && len(as.Rhs) == 1 && ast.Unparen(as.Rhs[0]) == ast.Expr(call) {
			found = true
		}
		return !found
	})
	return found
}
