package main

// C01 — translation preserves results: thin structural necessary conditions.

import (
	"go/ast"
	"go/token"
	"go/types"
	"strings"

	"golang.org/x/tools/go/packages"
)

func init() { register("C01", checkC01) }

func checkC01(r *Run) propMeta {
	meta := propMeta{Level: "other",
		Explanation: "Result equivalence between emitted SQL and openCypher semantics for all queries and graphs cannot be decided by static analysis of the translator; this check decides only necessary conditions whose violation silently changes answers: (R1) formatter completeness — every field of a pgsql AST node type that the translator or optimiser gives a value is read by the SQL formatter (a populated field that is never rendered drops a clause such as DISTINCT, ORDER BY, LIMIT); (R2) translator consumption — every field of every Cypher model type is read somewhere in translate ∪ optimize, or is listed with a reason (a modelled construct the translator never looks at cannot be translated faithfully); (R3) guards consulted — the kind matcher chooses contains (@>) vs overlap (&&) by KindMatcher.IsExclusive; the string-equality lowering is conjoined with the jsonb_typeof(...) = 'string' check; every recursive expansion step that extends the path is built together with the edge-not-in-path (relationship uniqueness) conjunct. (R5) recogniser totality — the shape recognisers that let a hand-built statement replace the whole translation (count-store fast path, aggregate traversal count) look, for every model node they bind, at every field the parser or a query builder can populate (fields only the optimiser writes are excluded; union siblings and provably irrelevant flags are listed with a reason); (R6) sibling agreement — every cross-segment order restoration (reversePathCompositeExpressions) is guarded by exactly the PathDirectionReversed flag. (R7) every Copy/Snapshot/Clone method of the translator's own state types (Scope, BoundIdentifier, IdentifierSet …) that returns a composite literal gives every field; (R8) the LIKE-pattern builder escapes all of \\, % and _. Everything else in C01 is NOT decided.",
		Assumptions: []string{"none beyond go/types"},
		TrustedBase: []string{"go/types", "this analyser"}}
	if err := r.Load("./cypher/...", "./graph/...", "./drivers/pg"); err != nil {
		r.Fatal("load: %v", err)
	}
	cg := BuildCallGraph(r, func(p string) bool { return strings.Contains(p, "/cypher/models") || strings.HasSuffix(p, "/graph") })
	pg := r.MustPkg("cypher/models/pgsql")
	fp := r.MustPkg("cypher/models/pgsql/format")
	tp := r.MustPkg("cypher/models/pgsql/translate")
	op := r.MustPkg("cypher/models/pgsql/optimize")
	cp := r.MustPkg("cypher/models/cypher")

	// ---- R1 formatter completeness
	exempt := r.LoadTable("c01_exempt")
	freads := consumerReads(r, cg, []*packages.Package{fp})
	for _, nt := range structTypesOf(pg) {
		ms := types.NewMethodSet(types.NewPointer(nt))
		if ms.Lookup(pg.Types, "NodeType") == nil {
			continue
		}
		st := nt.Underlying().(*types.Struct)
		for i := 0; i < st.NumFields(); i++ {
			f := st.Field(i)
			construct := "pgsql." + nt.Obj().Name() + "." + f.Name()
			intro := fieldIntroductionsIn(r, f, []*packages.Package{tp, op})
			if len(intro) == 0 {
				continue // never populated by the translator: nothing to render
			}
			if _, ok := freads[f]; ok {
				r.Pass("C01-R1-formatter-completeness", construct, f.Pos(), "populated by the translator and read by the formatter")
			} else if reason, ok := r.InTable(exempt, "c01_exempt", construct); ok {
				r.Pass("C01-R1-formatter-completeness", construct, f.Pos(), "table: %s", reason)
			} else {
				r.Fail("C01-R1-formatter-completeness", construct, intro[0], "the translator gives %s a value but the SQL formatter never reads it: the clause is silently dropped from the emitted SQL and the query returns different rows", construct)
			}
		}
	}
	// ---- R2 translator consumption
	treads := consumerReads(r, cg, []*packages.Package{tp, op})
	for _, nt := range structTypesOf(cp) {
		if !nt.Obj().Exported() {
			continue
		}
		st := nt.Underlying().(*types.Struct)
		for i := 0; i < st.NumFields(); i++ {
			f := st.Field(i)
			if f.Embedded() {
				continue
			}
			construct := "cypher." + nt.Obj().Name() + "." + f.Name()
			if len(fieldIntroductions(r, f)) == 0 {
				continue
			}
			if _, ok := treads[f]; ok {
				r.Pass("C01-R2-translator-consumption", construct, f.Pos(), "read by the translator or optimiser")
			} else if reason, ok := r.InTable(exempt, "c01_exempt", construct); ok {
				r.Pass("C01-R2-translator-consumption", construct, f.Pos(), "table: %s", reason)
			} else {
				r.Fail("C01-R2-translator-consumption", construct, f.Pos(), "no function of translate or optimize reads %s: two queries that differ only there translate to the same SQL", construct)
			}
		}
	}
	// ---- R3 guards
	checkKindGuard(r, tp)
	checkStringTypeGuard(r, tp, cg)
	checkUniquenessGuard(r, tp, cg)
	// ---- R5 shape recognisers of whole-statement lowerings look at every parser-populated field
	checkRecogniserTotality(r, tp, op, cp, r.MustPkg("cypher/frontend"), cg, exempt)
	// ---- R6 the consumers that restore a reversed pattern's written order agree on when to do it
	checkOrderRestoration(r, tp)
	// ---- R7 scope snapshots carry every field; R8 LIKE patterns escape all three metacharacters
	checkTranslatorCopies(r, tp, pg)
	checkLikeEscaping(r, tp)
	checkPartStateConsumed(r, tp)
	checkAggregateDistinct(r, tp, pg)
	checkDecoderScratchFresh(r, r.MustPkg("drivers/pg"))
	checkFloatBitSize(r, "C01-R12-float-bit-size", r.MustPkg("cypher/models/pgsql/format"), r.MustPkg("cypher/models/pgsql"), r.MustPkg("cypher/models/pgsql/translate"))
	r.Floor("C01-R9-part-state-consumed", 6)
	r.Floor("C01-R1-formatter-completeness", 60)
	r.Floor("C01-R2-translator-consumption", 60)
	r.Floor("C01-R3-guard", 4)
	return meta
}

// fieldIntroductionsIn: like fieldIntroductions but restricted to the given packages.
func fieldIntroductionsIn(r *Run, field *types.Var, pkgs []*packages.Package) []token.Pos {
	allow := map[string]bool{}
	for _, p := range pkgs {
		allow[p.PkgPath] = true
	}
	saved := r.ByPath
	sub := map[string]*packages.Package{}
	for k, v := range saved {
		if allow[k] {
			sub[k] = v
		}
	}
	r.ByPath = sub
	out := fieldIntroductions(r, field)
	r.ByPath = saved
	return out
}

func checkKindGuard(r *Run, tp *packages.Package) {
	info := tp.TypesInfo
	byObj := map[types.Object]*ast.FuncDecl{}
	var all []*ast.FuncDecl
	for _, f := range tp.Syntax {
		for _, d := range f.Decls {
			if fd, ok := d.(*ast.FuncDecl); ok && fd.Body != nil {
				all = append(all, fd)
				if o := info.Defs[fd.Name]; o != nil {
					byObj[o] = fd
				}
			}
		}
	}
	isExclusiveSel := func(e ast.Expr) bool {
		sel, ok := ast.Unparen(e).(*ast.SelectorExpr)
		if !ok || sel.Sel.Name != "IsExclusive" {
			return false
		}
		s := info.Selections[sel]
		return s != nil && namedName(s.Recv()) == "KindMatcher"
	}
	// where the matcher's exclusivity is consulted: the function that reads KindMatcher.IsExclusive itself, or the
	// function that is handed it as an argument (then its parameter stands for it)
	type site struct {
		fd    *ast.FuncDecl
		param types.Object // nil: the selector itself
	}
	var sites []site
	for _, fd := range all {
		direct := false
		var stack []ast.Node
		ast.Inspect(fd.Body, func(n ast.Node) bool {
			if n == nil {
				stack = stack[:len(stack)-1]
				return true
			}
			stack = append(stack, n)
			e, ok := n.(ast.Expr)
			if !ok || !isExclusiveSel(e) {
				return true
			}
			if len(stack) >= 2 {
				switch par := stack[len(stack)-2].(type) {
				case *ast.CallExpr:
					for i, a := range par.Args {
						if a == e {
							if fn := calleeOf(info, par); fn != nil {
								if hd := byObj[fn.Origin()]; hd != nil && hd.Type.Params != nil {
									var params []types.Object
									for _, pl := range hd.Type.Params.List {
										for _, nm := range pl.Names {
											params = append(params, info.Defs[nm])
										}
									}
									if i < len(params) {
										sites = append(sites, site{hd, params[i]})
										return true
									}
								}
							}
						}
					}
				case *ast.AssignStmt:
					for _, l := range par.Lhs {
						if l == e {
							return true // a write of the field, not a read
						}
					}
				case *ast.KeyValueExpr:
					if par.Key == e {
						return true
					}
				}
			}
			direct = true
			return true
		})
		if direct {
			sites = append(sites, site{fd, nil})
		}
	}
	if len(sites) == 0 {
		r.Fail("C01-R3-guard", "kind-matcher:IsExclusive-consulted", token.NoPos, "KindMatcher.IsExclusive is never read by the kind-matching lowering: all-of (n:A:B) and any-of (KindIn) tests translate to the same operator")
		return
	}
	// in one of those functions every use of the contains operator is controlled by a condition that mentions the
	// exclusivity, and some use of the overlap operator is controlled by the negation of that same condition (an else
	// arm, or the code after a leaving `if`)
	var judged *ast.FuncDecl
	okAny := false
	for _, st := range sites {
		fd := st.fd
		// locals that hold the exclusivity
		holders := map[types.Object]bool{}
		if st.param != nil {
			holders[st.param] = true
		}
		mentions := func(e ast.Expr) bool {
			found := false
			ast.Inspect(e, func(m ast.Node) bool {
				if id, isId := m.(*ast.Ident); isId && holders[info.Uses[id]] {
					found = true
				}
				if ex, isExpr := m.(ast.Expr); isExpr && st.param == nil && isExclusiveSel(ex) {
					found = true
				}
				return !found
			})
			return found
		}
		ast.Inspect(fd.Body, func(n ast.Node) bool {
			if as, ok := n.(*ast.AssignStmt); ok && as.Tok == token.DEFINE && len(as.Lhs) == len(as.Rhs) {
				for i, l := range as.Lhs {
					if id, ok := l.(*ast.Ident); ok && mentions(as.Rhs[i]) {
						holders[info.Defs[id]] = true
					}
				}
			}
			return true
		})
		containsGuards := map[ast.Expr]bool{}
		containsUses, unguardedContains, overlapOnNegation := 0, 0, false
		var overlapUses []*ast.Ident
		ast.Inspect(fd.Body, func(n ast.Node) bool {
			id, isId := n.(*ast.Ident)
			if !isId {
				return true
			}
			switch id.Name {
			case "OperatorPGArrayLHSContainsRHS":
				containsUses++
				guarded := false
				for _, l := range controlConds(fd.Body, id) {
					if !l.Neg && mentions(l.Expr) {
						containsGuards[l.Expr] = true
						guarded = true
					}
				}
				if !guarded {
					unguardedContains++
				}
			case "OperatorPGArrayOverlap":
				overlapUses = append(overlapUses, id)
			}
			return true
		})
		for _, id := range overlapUses {
			for _, l := range controlConds(fd.Body, id) {
				if l.Neg && containsGuards[l.Expr] {
					overlapOnNegation = true
				}
			}
		}
		if containsUses > 0 || len(overlapUses) > 0 {
			judged = fd
		}
		if containsUses > 0 && unguardedContains == 0 && overlapOnNegation {
			okAny = true
			judged = fd
			break
		}
	}
	switch {
	case okAny:
		r.Pass("C01-R3-guard", "kind-matcher:IsExclusive-consulted", judged.Pos(), "exclusive matchers use contains (@>), non-exclusive ones overlap (&&)")
	case judged != nil:
		r.Fail("C01-R3-guard", "kind-matcher:IsExclusive-consulted", judged.Pos(), "%s no longer selects contains (@>) for exclusive and overlap (&&) for non-exclusive kind tests by the matcher's exclusivity", funcDeclName(judged))
	default:
		r.Fail("C01-R3-guard", "kind-matcher:IsExclusive-consulted", sites[0].fd.Pos(), "the function that reads KindMatcher.IsExclusive (%s) chooses neither the contains (@>) nor the overlap (&&) operator by it", funcDeclName(sites[0].fd))
	}
}

func checkStringTypeGuard(r *Run, tp *packages.Package, cg *CallGraph) {
	info := tp.TypesInfo
	// the guard: the function whose own body states `jsonb_typeof(…) = 'string'` — it contains the constant "string" and
	// mentions pgsql.FunctionJSONBTypeof itself or through a helper it calls (found by that, not by its private name)
	var guard *types.Func
	for _, fd := range declsWhere(tp, func(fd *ast.FuncDecl) bool {
		if !hasStringConst(info, fd.Body, "string") || !usesObject(info, fd.Body, "/pgsql", "OperatorEquals") {
			return false
		}
		for _, b := range bodyWithHelpers(tp, fd) {
			if usesObject(info, b, "/pgsql", "FunctionJSONBTypeof") {
				return true
			}
		}
		return false
	}) {
		if fn, ok := info.Defs[fd.Name].(*types.Func); ok && guard == nil {
			guard = fn
		}
	}
	if guard == nil {
		r.Fail("C01-R3-guard", "string-equality:jsonb_typeof", token.NoPos, "the jsonb_typeof(...) = 'string' guard function no longer exists")
		return
	}
	sites := 0
	conj := 0
	for _, e := range cg.In[guard] {
		fd := cg.Decl[e.From]
		var stack []ast.Node
		ast.Inspect(fd.Body, func(n ast.Node) bool {
			if n == nil {
				stack = stack[:len(stack)-1]
				return true
			}
			stack = append(stack, n)
			call, ok := n.(*ast.CallExpr)
			if !ok || call.Pos() != e.Pos {
				return true
			}
			sites++
			// parent call must be a conjunction: NewBinaryExpression(guard, OperatorAnd, comparison) or OptionalAnd(...)
			if len(stack) >= 2 {
				if pc, ok := stack[len(stack)-2].(*ast.CallExpr); ok {
					txt := exprString(r.Fset, pc)
					if f := calleeOf(info, pc); f != nil && (strings.Contains(f.Name(), "And") || (f.Name() == "NewBinaryExpression" && strings.Contains(txt, "OperatorAnd"))) {
						conj++
					}
				}
			}
			return true
		})
	}
	if sites > 0 && sites == conj {
		r.Pass("C01-R3-guard", "string-equality:jsonb_typeof", cg.Decl[guard].Pos(), "%d use(s), each AND-ed with the text comparison", sites)
	} else {
		r.Fail("C01-R3-guard", "string-equality:jsonb_typeof", cg.Decl[guard].Pos(), "the string-typed equality lowering is not conjoined with the jsonb_typeof = 'string' check at every use (%d uses, %d conjoined): a number 1 equals the string '1'", sites, conj)
	}
}

func checkUniquenessGuard(r *Run, tp *packages.Package, cg *CallGraph) {
	var extend, notIn *types.Func
	for fn := range cg.Decl {
		if cg.PkgOf[fn] != tp {
			continue
		}
		// the path extension appends an edge id to the path array (OperatorConcatenate over the edge's ColumnID) and
		// returns the expression; the uniqueness conjunct is `edge id != all(path)` (NewAllExpression under OperatorNotEquals)
		fd := cg.Decl[fn]
		if fd == nil || fd.Body == nil {
			continue
		}
		tinfo := tp.TypesInfo
		sig := fn.Type().(*types.Signature)
		returnsBinary := sig.Results().Len() == 1 && namedName(sig.Results().At(0).Type()) == "BinaryExpression"
		if returnsBinary && usesObject(tinfo, fd.Body, "/pgsql", "OperatorConcatenate") && usesObject(tinfo, fd.Body, "/pgsql", "ColumnID") {
			extend = fn
		}
		if returnsBinary && usesObject(tinfo, fd.Body, "/pgsql", "NewAllExpression") && usesObject(tinfo, fd.Body, "/pgsql", "OperatorNotEquals") {
			notIn = fn
		}
	}
	if extend == nil || notIn == nil {
		r.Fail("C01-R3-guard", "expansion:relationship-uniqueness", token.NoPos, "the path-extension or the edge-not-in-path constructor no longer exists")
		return
	}
	// every function from which the path extension is reachable within two calls also reaches the uniqueness conjunct
	// within the same expansion build (walk up to the nearest builder method that reaches both)
	for _, e := range cg.In[extend] {
		from := e.From
		construct := "expansion:relationship-uniqueness@" + from.Name()
		ok := false
		// climb at most 3 levels looking for a function that reaches the uniqueness conjunct
		level := []*types.Func{from}
		for d := 0; d < 4 && !ok; d++ {
			var next []*types.Func
			for _, f := range level {
				if _, reaches := cg.Reach([]*types.Func{f}, nil)[notIn]; reaches {
					ok = true
				}
				for _, ce := range cg.In[f] {
					next = append(next, ce.From)
				}
			}
			level = next
		}
		if ok {
			r.Pass("C01-R3-guard", construct, e.Pos, "the recursive step that appends the edge to the path is built together with `e.id != all(path)`")
		} else {
			r.Fail("C01-R3-guard", construct, e.Pos, "a recursive expansion step extends the path but no enclosing builder adds the edge-not-in-path conjunct: an edge can be traversed twice (cycles inflate results or never terminate)")
		}
	}
	if len(cg.In[notIn]) == 0 {
		r.Fail("C01-R3-guard", "expansion:relationship-uniqueness:used", cg.Decl[notIn].Pos(), "the edge-not-in-path constructor has no caller: no expansion enforces relationship uniqueness")
	} else {
		r.Pass("C01-R3-guard", "expansion:relationship-uniqueness:used", cg.Decl[notIn].Pos(), "%d expansion builders add the uniqueness conjunct", len(cg.In[notIn]))
	}
}
