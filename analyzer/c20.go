package main

// C20 — hostile input: verify-before-mutate, archive path taint, regular files only, staging, envelope binding.

import (
	"go/ast"
	"go/token"
	"go/types"
	"os"
	"strings"

	"golang.org/x/tools/go/packages"
)

func init() { register("C20", checkC20) }

var fsWriters = map[string]bool{"os.OpenFile": true, "os.Create": true, "os.WriteFile": true, "os.Mkdir": true, "os.MkdirAll": true, "os.Rename": true,
	"os.Remove": true, "os.RemoveAll": true, "os.Symlink": true, "os.Link": true, "os.Chmod": true, "os.Chown": true, "os.Truncate": true}

func checkC20(r *Run) propMeta {
	meta := propMeta{Level: "other",
		Explanation: "Decides the structural clauses that make hostile input harmless: (R1) verify-before-mutate — in Load every call that can write nodes or relationships to the target database is preceded, as an error-gated top-level step, by manifest reading/validation, verification of every fragment (with checksum verification switched on) and the empty-target check; the preflight's and the load pass's source-ID indexes are constructed per graph; (R2) path taint — no file-system write primitive reachable from the unpack/load entry points receives a path derived from tar header fields except through sanitizeArchivePath; (R3) regular files only — the extraction loop rejects every Typeflag other than regular, duplicates and negative sizes before any file is created, and files are created with O_EXCL; (R4) staging — every exported entry point that can reach extraction extracts into a private staging directory that is removed on every error and promoted only after validateExtractedCollection; (R5) envelope — the AEAD additional data binds header hash, frame index and frame type, the reader's header hash is a digest of the header bytes as read from the stream (the io.ReadFull buffer), never of a re-encoding, end-of-stream is accepted only after an empty final frame followed by EOF, the stream is drained after the tar ends, and no error of the crypto/tar/json decoders is discarded. (R6) single-document JSON inputs (manifest, checkpoint, fragment lines, key envelope) are decoded strictly: json.Unmarshal of the whole input, or Decoder.Decode followed by an end-of-input test. NOT decided: cryptographic strength, byte-exact mutation coverage, the sanitizer's own completeness beyond the checks it visibly performs.",
		Assumptions: []string{"HPKE/AEAD Open fails on any change to ciphertext or additional data (library contract)", "archive/tar yields each entry's header before its content"},
		TrustedBase: []string{"go/types", "this analyser"}}
	if err := r.Load("./retriever/..."); err != nil {
		r.Fatal("load: %v", err)
	}
	p := r.MustPkg("retriever")
	retrieverPkg = p
	cg := BuildCallGraph(r, func(path string) bool { return strings.HasSuffix(path, "/retriever") })
	decls := FuncDecls(p)
	checkLoadGates(r, p, cg, decls)
	checkPathTaint(r, p, cg)
	checkRegularOnly(r, p, decls)
	checkStaging(r, p, cg)
	checkEnvelope(r, p, cg, decls)
	checkHeaderHashRaw(r, p, decls)
	checkPerGraphResolver(r, p)
	checkStrictDocumentDecoding(r, p, nil, cg)
	checkManifestUniqueEntries(r, p)
	checkVerificationLoopsTotal(r, p)
	checkEOFGateCountsBytes(r, p)
	r.Floor("C20-R7-manifest-unique-entries", 2)
	r.Floor("C20-R1-verify-before-mutate", 6)
	r.Floor("C20-R2-path-taint", 3)
	r.Floor("C20-R3-regular-only", 4)
	r.Floor("C20-R5-envelope", 7)
	return meta
}

// dbWriteKind: does the function (transitively, inside the package) call a data-mutating or schema-mutating
// method of the graph database?
func dbWriteKinds(cg *CallGraph, p *packages.Package) (data, schema map[*types.Func]bool) {
	data, schema = map[*types.Func]bool{}, map[*types.Func]bool{}
	direct := func(fd *ast.FuncDecl, names map[string]bool) bool {
		found := false
		ast.Inspect(fd.Body, func(n ast.Node) bool {
			if call, ok := n.(*ast.CallExpr); ok {
				if sel, ok := call.Fun.(*ast.SelectorExpr); ok && names[sel.Sel.Name] {
					if s := p.TypesInfo.Selections[sel]; s != nil {
						if rp := namedOf(s.Recv()); rp != nil && rp.Obj().Pkg() != nil && strings.HasSuffix(rp.Obj().Pkg().Path(), "/graph") {
							found = true
						}
					}
				}
			}
			return !found
		})
		return found
	}
	dataNames := map[string]bool{"BatchOperation": true, "WriteTransaction": true, "CreateNode": true, "CreateRelationship": true, "CreateRelationshipByIDs": true,
		"UpdateNode": true, "UpdateRelationship": true, "UpdateNodeBy": true, "UpdateRelationshipBy": true, "DeleteNode": true, "DeleteRelationship": true, "Run": true, "Wipe": true}
	schemaNames := map[string]bool{"AssertSchema": true}
	for fn, fd := range cg.Decl {
		if fd.Body == nil || cg.PkgOf[fn] != p {
			continue
		}
		if direct(fd, dataNames) {
			data[fn] = true
		}
		if direct(fd, schemaNames) {
			schema[fn] = true
		}
	}
	// propagate to callers
	for changed := true; changed; {
		changed = false
		for fn := range cg.Decl {
			for _, e := range cg.Out[fn] {
				if data[e.To] && !data[fn] {
					data[fn] = true
					changed = true
				}
				if schema[e.To] && !schema[fn] {
					schema[fn] = true
					changed = true
				}
			}
		}
	}
	return
}

func checkLoadGates(r *Run, p *packages.Package, cg *CallGraph, decls map[string]*ast.FuncDecl) {
	load := decls["Load"]
	if load == nil {
		r.Fatal("retriever.Load not found")
	}
	data, schema := dbWriteKinds(cg, p)
	list := load.Body.List
	gates := gatesOf(p, list)
	gateIdx := func(name string) int {
		for _, g := range gates {
			if g.Callee == name && g.Returns {
				return g.Index
			}
		}
		return -1
	}
	firstData, dataPos := firstStmtCalling(p, list, func(fn *types.Func, c *ast.CallExpr) bool {
		return fn != nil && data[fn.Origin()] && !schema[fn.Origin()] || (fn != nil && data[fn.Origin()] && fn.Name() != "assertManifestSchemas")
	})
	// refine: the schema assertion step may also count as "data" through shared helpers; find first statement whose
	// callee writes data and is not the schema step
	firstData, dataPos = firstStmtCalling(p, list, func(fn *types.Func, c *ast.CallExpr) bool {
		return fn != nil && data[fn.Origin()] && !(schema[fn.Origin()] && !writesDataDirectly(cg, p, fn.Origin()))
	})
	firstSchema, _ := firstStmtCalling(p, list, func(fn *types.Func, c *ast.CallExpr) bool { return fn != nil && schema[fn.Origin()] })
	if firstData < 0 {
		r.Undecide("C20-R1: no statement of Load reaches a data-mutating database call")
		return
	}
	for _, g := range []string{"readLoadManifest", "verifyLoadFragments", "requireEmptyLoadTargets"} {
		gi := gateIdx(g)
		construct := "Load:" + g
		if gi >= 0 && gi < firstData {
			r.Pass("C20-R1-verify-before-mutate", construct, list[gi].Pos(), "error-gated step %d precedes the first data write (step %d)", gi, firstData)
		} else {
			r.Fail("C20-R1-verify-before-mutate", construct, dataPos, "Load can write nodes or relationships (step %d) without first passing %s (step %d) with its error returned: a corrupt or hostile dump mutates the target database", firstData, g, gi)
		}
	}
	if firstSchema >= 0 {
		gi := gateIdx("verifyLoadFragments")
		if gi >= 0 && gi < firstSchema {
			r.Pass("C20-R1-verify-before-mutate", "Load:schema-after-verify", list[firstSchema].Pos(), "schema assertion happens only after fragment verification")
		} else {
			r.Fail("C20-R1-verify-before-mutate", "Load:schema-after-verify", list[firstSchema].Pos(), "the target schema is asserted before the fragments are verified")
		}
	}
	// the verification pass switches checksum verification on for every fragment decode
	if vf := decls[roleName("verifyCollectionFragments")]; vf != nil {
		n, okAll := 0, true
		ast.Inspect(vf.Body, func(x ast.Node) bool {
			call, ok := x.(*ast.CallExpr)
			if !ok {
				return true
			}
			fn := calleeOf(p.TypesInfo, call)
			// a fragment decoder: handed the manifest's file entry, the verification switch and a record handler
			if fn == nil || fn.Pkg() != p.Types || !isFragmentDecoder(fn) {
				return true
			}
			n++
			// the bool parameter
			sig := fn.Type().(*types.Signature)
			for i := 0; i < sig.Params().Len() && i < len(call.Args); i++ {
				if b, ok := sig.Params().At(i).Type().Underlying().(*types.Basic); ok && b.Kind() == types.Bool {
					if tv, ok := p.TypesInfo.Types[call.Args[i]]; !ok || tv.Value == nil || tv.Value.ExactString() != "true" {
						okAll = false
					}
				}
			}
			return true
		})
		if n >= 2 && okAll {
			r.Pass("C20-R1-verify-before-mutate", "verifyCollectionFragments:checksums-on", vf.Pos(), "%d fragment decodes, all with verification enabled", n)
		} else {
			r.Fail("C20-R1-verify-before-mutate", "verifyCollectionFragments:checksums-on", vf.Pos(), "the verification pass decodes fragments without checksum verification (%d decode calls, all enabled: %v)", n, okAll)
		}
		// the verifying reader compares digest and size before handing records over: readVerifiedCompressedJSONLines calls verifyChecksum*
	}
	// the verifying reader: the function that streams records to a handler it is given and is handed the expected
	// digest — it must call a checksum verifier (found by its shape: a func-typed parameter and a string digest
	// parameter, reading through the decompressor; today readVerifiedCompressedJSONLines)
	var rv *ast.FuncDecl
	verifiers := checksumVerifiers(p)
	takesHandler := func(fd *ast.FuncDecl) bool {
		fn, _ := p.TypesInfo.Defs[fd.Name].(*types.Func)
		if fn == nil {
			return false
		}
		sig := fn.Type().(*types.Signature)
		hasHandler, hasDigest := false, false
		for i := 0; i < sig.Params().Len(); i++ {
			switch t := sig.Params().At(i).Type().Underlying().(type) {
			case *types.Signature:
				hasHandler = true
			case *types.Basic:
				if t.Kind() == types.String && i > 0 {
					hasDigest = true
				}
			}
		}
		return hasHandler && hasDigest
	}
	callsVerifier := func(fd *ast.FuncDecl) bool {
		self, _ := p.TypesInfo.Defs[fd.Name].(*types.Func)
		return stmtHasCall(fd.Body, func(c *ast.CallExpr) bool {
			f := calleeOf(p.TypesInfo, c)
			return f != nil && f.Origin() != self && verifiers[f.Origin()]
		})
	}
	// the reader that is called with verification on: the function the fragment decoders call with the entry's SHA256
	for _, cand := range declsWhere(p, takesHandler) {
		passesDigest := false
		for _, caller := range declsWhere(p, func(fd *ast.FuncDecl) bool { return true }) {
			ast.Inspect(caller.Body, func(n ast.Node) bool {
				if c, ok := n.(*ast.CallExpr); ok {
					if f := calleeOf(p.TypesInfo, c); f != nil && p.TypesInfo.Defs[cand.Name] == types.Object(f.Origin()) {
						for _, a := range c.Args {
							if sel, ok := ast.Unparen(a).(*ast.SelectorExpr); ok && sel.Sel.Name == "SHA256" {
								passesDigest = true
							}
						}
					}
				}
				return true
			})
		}
		if passesDigest {
			rv = cand
		}
	}
	if rv != nil {
		ok := callsVerifier(rv)
		if ok {
			r.Pass("C20-R1-verify-before-mutate", "readVerifiedCompressedJSONLines:checksum", rv.Pos(), "the verifying reader checks digest and size")
		} else {
			r.Fail("C20-R1-verify-before-mutate", "readVerifiedCompressedJSONLines:checksum", rv.Pos(), "the verifying reader no longer compares the SHA-256 digest / size with the manifest")
		}
	}
}

func writesDataDirectly(cg *CallGraph, p *packages.Package, fn *types.Func) bool {
	// loadManifestGraph-like: reaches BatchOperation; assertManifestSchemas-like: reaches only AssertSchema
	fd := cg.Decl[fn]
	if fd == nil {
		return false
	}
	found := false
	seen := map[*types.Func]bool{}
	var visit func(f *types.Func)
	visit = func(f *types.Func) {
		if seen[f] || found {
			return
		}
		seen[f] = true
		d := cg.Decl[f]
		if d == nil || d.Body == nil {
			return
		}
		ast.Inspect(d.Body, func(n ast.Node) bool {
			if call, ok := n.(*ast.CallExpr); ok {
				if sel, ok := call.Fun.(*ast.SelectorExpr); ok && (sel.Sel.Name == "BatchOperation" || sel.Sel.Name == "WriteTransaction" || strings.HasPrefix(sel.Sel.Name, "CreateNode") || strings.HasPrefix(sel.Sel.Name, "CreateRelationship")) {
					found = true
				}
			}
			return !found
		})
		for _, e := range cg.Out[f] {
			visit(e.To)
		}
	}
	visit(fn)
	return found
}

// checkPathTaint: fs-write sinks reachable from the unpack/load entry points.
func checkPathTaint(r *Run, p *packages.Package, cg *CallGraph) {
	var roots []*types.Func
	for fn := range cg.Decl {
		if cg.PkgOf[fn] == p && fn.Exported() && (strings.HasPrefix(fn.Name(), "Unpack") || fn.Name() == "Load") {
			roots = append(roots, fn)
		}
	}
	reach := cg.Reach(roots, nil)
	oa := newOriginAnalysis(r, cg, modPath+"/retriever."+roleName("sanitizeArchivePath"))
	tainted := []string{"field:Header.Name", "field:Header.Linkname", "field:Header.PAXRecords", "field:Header.Xattrs"}
	for fn := range reach {
		fd := cg.Decl[fn]
		if fd == nil || fd.Body == nil || cg.PkgOf[fn] != p {
			continue
		}
		ast.Inspect(fd.Body, func(n ast.Node) bool {
			call, ok := n.(*ast.CallExpr)
			if !ok || len(call.Args) == 0 {
				return true
			}
			callee := calleeOf(p.TypesInfo, call)
			if callee == nil || !fsWriters[funcFullName(callee)] {
				return true
			}
			construct := funcDeclName(fd) + ":" + callee.Name()
			bad := ""
			npath := 1
			if callee.Name() == "Rename" || callee.Name() == "Symlink" || callee.Name() == "Link" {
				npath = 2
			}
			for i := 0; i < npath && i < len(call.Args); i++ {
				o := oa.originsOfExpr(p, fd, call.Args[i], 0)
				if os.Getenv("DAWGSVET_DEBUG") != "" {
					r.Logf("debug origins %s arg%d: %v", construct, i, sortedKeys(o))
				}
				for _, t := range tainted {
					if o[t] {
						bad = t
					}
				}
			}
			if bad == "" {
				r.Pass("C20-R2-path-taint", construct, call.Pos(), "path is not derived from an unsanitised archive header field")
			} else {
				r.Fail("C20-R2-path-taint", construct, call.Pos(), "a path derived from %s reaches %s without passing sanitizeArchivePath: an archive entry can create or overwrite a file outside the output directory", strings.TrimPrefix(bad, "field:"), funcFullName(callee))
			}
			return true
		})
	}
	// the sanitizer visibly rejects absolute paths, parent traversal and backslashes
	if sp := FuncDecls(p)[roleName("sanitizeArchivePath")]; sp != nil {
		checkArchivePathSanitizer(r, p, sp)
	} else {
		r.Undecide("C20-R2: sanitizeArchivePath not found")
	}
}

func checkRegularOnly(r *Run, p *packages.Package, decls map[string]*ast.FuncDecl) {
	info := p.TypesInfo
	fd := decls[roleName("unpackTarWithOptions")]
	if fd == nil {
		r.Undecide("C20-R3: unpackTarWithOptions not found")
		return
	}
	var loop *ast.ForStmt
	ast.Inspect(fd.Body, func(n ast.Node) bool {
		if fs, ok := n.(*ast.ForStmt); ok && loop == nil {
			if stmtHasCallShallow(fs.Body, func(c *ast.CallExpr) bool {
				sel, ok := c.Fun.(*ast.SelectorExpr)
				return ok && sel.Sel.Name == "Next"
			}) {
				loop = fs
			}
		}
		return true
	})
	if loop == nil {
		r.Undecide("C20-R3: extraction loop not found")
		return
	}
	// checks factored out into an error-returning helper are looked at where the helper is called
	list := guardClauseForm(spliceGatedHelpers(p, loop.Body.List, 2))
	idxExtract, _ := firstStmtCalling(p, list, func(fn *types.Func, c *ast.CallExpr) bool {
		return fn != nil && fn.Pkg() == p.Types && fn.Name() == roleName("unpackTarFileTracked")
	})
	if idxExtract < 0 {
		r.Undecide("C20-R3: extraction call not found in the loop")
		return
	}
	findReject := func(pred func(cond string) bool) int {
		for i, st := range list {
			if ifs, ok := st.(*ast.IfStmt); ok {
				if pred(strings.ReplaceAll(exprString(r.Fset, ifs.Cond), " ", "")) {
					for _, b := range ifs.Body.List {
						if rs, ok := b.(*ast.ReturnStmt); ok && len(rs.Results) >= 1 && !isNilIdent(info, rs.Results[len(rs.Results)-1]) {
							return i
						}
					}
				}
			}
			// if-with-init form `if _, ok := seen[x]; ok {`
			if ifs, ok := st.(*ast.IfStmt); ok && ifs.Init != nil {
				if pred(strings.ReplaceAll(exprString(r.Fset, ifs.Init)+";"+exprString(r.Fset, ifs.Cond), " ", "")) {
					for _, b := range ifs.Body.List {
						if rs, ok := b.(*ast.ReturnStmt); ok && len(rs.Results) >= 1 && !isNilIdent(info, rs.Results[len(rs.Results)-1]) {
							return i
						}
					}
				}
			}
		}
		return -1
	}
	typeIdx := -1
	for i, st := range list {
		ifs, ok := st.(*ast.IfStmt)
		if !ok {
			continue
		}
		allowed, pure := typeflagAllowList(ifs.Cond)
		if len(allowed) == 0 || !pure {
			continue
		}
		okSet := true
		for _, a := range allowed {
			if a != "TypeReg" && a != "TypeRegA" {
				okSet = false
			}
		}
		rejects := false
		for _, b := range ifs.Body.List {
			if rs, ok := b.(*ast.ReturnStmt); ok && len(rs.Results) >= 1 && !isNilIdent(info, rs.Results[len(rs.Results)-1]) {
				rejects = true
			}
		}
		if okSet && rejects {
			typeIdx = i
		}
	}
	rejects := func(ifs *ast.IfStmt) bool {
		for _, b := range ifs.Body.List {
			if rs, ok := b.(*ast.ReturnStmt); ok && len(rs.Results) >= 1 && !isNilIdent(info, rs.Results[len(rs.Results)-1]) {
				return true
			}
		}
		return false
	}
	// duplicate: a comma-ok lookup in a string-keyed map (or a bool map read) whose hit rejects the entry
	// negative size: a comparison `<header>.Size < 0` on a tar header
	dupIdx, sizeIdx := -1, -1
	for i, st := range list {
		ifs, ok := st.(*ast.IfStmt)
		if !ok || !rejects(ifs) {
			continue
		}
		isMapLookup := func(e ast.Expr) bool {
			ix, ok := ast.Unparen(e).(*ast.IndexExpr)
			if !ok {
				return false
			}
			m, ok := info.TypeOf(ix.X).Underlying().(*types.Map)
			if !ok {
				return false
			}
			b, ok := m.Key().Underlying().(*types.Basic)
			return ok && b.Kind() == types.String
		}
		if as, ok := ifs.Init.(*ast.AssignStmt); ok && len(as.Rhs) == 1 && isMapLookup(as.Rhs[0]) && dupIdx < 0 {
			dupIdx = i
		}
		if isMapLookup(ifs.Cond) && dupIdx < 0 {
			dupIdx = i
		}
		ast.Inspect(ifs.Cond, func(x ast.Node) bool {
			be, ok := x.(*ast.BinaryExpr)
			if !ok || be.Op != token.LSS {
				return true
			}
			if sel, ok := ast.Unparen(be.X).(*ast.SelectorExpr); ok && sel.Sel.Name == "Size" && namedName(info.TypeOf(sel.X)) == "Header" {
				if tv, has := info.Types[be.Y]; has && tv.Value != nil && tv.Value.String() == "0" && sizeIdx < 0 {
					sizeIdx = i
				}
			}
			return true
		})
	}
	_ = findReject
	sanIdx := -1
	for _, g := range gatesOf(p, list) {
		if g.Callee == roleName("sanitizeArchivePath") && g.Returns {
			sanIdx = g.Index
		}
	}
	for _, c := range []struct {
		name string
		idx  int
		why  string
	}{
		{"typeflag", typeIdx, "a symlink, hard link, device or directory entry is extracted"},
		{"duplicate", dupIdx, "a later entry with the same name replaces an earlier, validated one"},
		{"negative-size", sizeIdx, "a negative declared size reaches the copy"},
		{"sanitize", sanIdx, "an unsanitised entry name reaches the file system"},
	} {
		construct := "unpackTarWithOptions:" + c.name
		if c.idx >= 0 && c.idx < idxExtract {
			r.Pass("C20-R3-regular-only", construct, list[c.idx].Pos(), "rejected before any file is created")
		} else {
			r.Fail("C20-R3-regular-only", construct, loop.Pos(), "the extraction loop does not reject this case before extracting (check at step %d, extraction at step %d): %s", c.idx, idxExtract, c.why)
		}
	}
	// O_EXCL on the created file
	if uf := decls[roleName("unpackTarFileTracked")]; uf != nil {
		excl := false
		ast.Inspect(uf.Body, func(n ast.Node) bool {
			if call, ok := n.(*ast.CallExpr); ok {
				if f := calleeOf(info, call); f != nil && funcFullName(f) == "os.OpenFile" && len(call.Args) >= 2 {
					if strings.Contains(exprString(r.Fset, call.Args[1]), "O_EXCL") {
						excl = true
					}
				}
			}
			return true
		})
		if excl {
			r.Pass("C20-R3-regular-only", "unpackTarFileTracked:O_EXCL", uf.Pos(), "extracted files are created exclusively (an existing file or symlink is never followed or overwritten)")
		} else {
			r.Fail("C20-R3-regular-only", "unpackTarFileTracked:O_EXCL", uf.Pos(), "extracted files are no longer created with O_EXCL: a pre-existing symlink in the output directory is followed")
		}
		// size mismatch and copy/close errors remove the file
		removes := 0
		ast.Inspect(uf.Body, func(n ast.Node) bool {
			if ifs, ok := n.(*ast.IfStmt); ok {
				if stmtHasCall(ifs.Body, func(c *ast.CallExpr) bool {
					f := calleeOf(info, c)
					return f != nil && funcFullName(f) == "os.Remove"
				}) {
					removes++
				}
			}
			return true
		})
		if removes >= 3 {
			r.Pass("C20-R3-regular-only", "unpackTarFileTracked:cleanup", uf.Pos(), "copy error, close error and size mismatch each remove the partial file")
		} else {
			r.Fail("C20-R3-regular-only", "unpackTarFileTracked:cleanup", uf.Pos(), "only %d failing branches remove the partially written file (copy error, close error, size mismatch expected)", removes)
		}
	}
}

// checkStaging: exported entry points that can reach extraction without passing a staging function.
func checkStaging(r *Run, p *packages.Package, cg *CallGraph) {
	info := p.TypesInfo
	extract := cg.Func(modPath + "/retriever." + roleName("unpackTarFileTracked"))
	if extract == nil {
		r.Undecide("C20-R4: unpackTarFileTracked not found")
		return
	}
	// staging functions: reach os.MkdirTemp within one call and remove the directory on failure
	staging := map[*types.Func]bool{}
	for fn, fd := range cg.Decl {
		if fd.Body == nil || cg.PkgOf[fn] != p {
			continue
		}
		mk := stmtHasCall(fd.Body, func(c *ast.CallExpr) bool {
			f := calleeOf(info, c)
			if f == nil {
				return false
			}
			if funcFullName(f) == "os.MkdirTemp" {
				return true
			}
			if d := cg.Decl[f.Origin()]; d != nil && d.Body != nil && f.Pkg() == p.Types {
				return stmtHasCall(d.Body, func(c2 *ast.CallExpr) bool {
					f2 := calleeOf(info, c2)
					return f2 != nil && funcFullName(f2) == "os.MkdirTemp"
				})
			}
			return false
		})
		rm := stmtHasCall(fd.Body, func(c *ast.CallExpr) bool {
			f := calleeOf(info, c)
			return f != nil && funcFullName(f) == "os.RemoveAll"
		})
		reachesExtract := false
		if _, ok := cg.Reach([]*types.Func{fn}, nil)[extract]; ok {
			reachesExtract = true
		}
		if mk && rm && reachesExtract {
			staging[fn] = true
		}
	}
	var names []string
	for fn := range staging {
		names = append(names, fn.Name())
	}
	r.Extra["staging_functions"] = names
	for fn := range staging {
		if !fn.Exported() {
			checkArmedCleanup(r, p, cg, fn)
		}
	}
	// validation precedes the success return of the collection unpacker
	if uc := FuncDecls(p)[roleName("unpackCollectionTarWithOptions")]; uc != nil {
		ok := false
		for _, g := range gatesOf(p, uc.Body.List) {
			if g.Callee == roleName("validateExtractedCollection") && g.Returns {
				ok = true
			}
		}
		if ok {
			r.Pass("C20-R4-staging", "unpackCollectionTarWithOptions:validate", uc.Pos(), "the extracted collection is validated (manifest + digests) before success is returned, hence before promotion")
		} else {
			r.Fail("C20-R4-staging", "unpackCollectionTarWithOptions:validate", uc.Pos(), "the collection unpacker returns success without an error-gated validateExtractedCollection: unvalidated content is promoted")
		}
	}
	tbl := r.LoadTable("c20_staging")
	for fn := range cg.Decl {
		if cg.PkgOf[fn] != p || !fn.Exported() || fn.Type().(*types.Signature).Recv() != nil {
			continue
		}
		all := cg.Reach([]*types.Func{fn}, nil)
		if _, ok := all[extract]; !ok {
			continue
		}
		construct := fn.Name()
		if staging[fn] {
			checkArmedCleanup(r, p, cg, fn)
			continue
		}
		avoid := cg.Reach([]*types.Func{fn}, func(e cgEdge) bool { return staging[e.To] })
		if _, ok := avoid[extract]; !ok {
			r.Pass("C20-R4-staging", construct, cg.Decl[fn].Pos(), "reaches extraction only through a staging function")
		} else if reason, ok := r.InTable(tbl, "c20_staging", construct); ok {
			r.Pass("C20-R4-staging", construct, cg.Decl[fn].Pos(), "table: %s", reason)
		} else {
			r.Fail("C20-R4-staging", construct, cg.Decl[fn].Pos(), "exported entry point extracts archive entries straight into the caller's directory (%s): when a later entry is rejected the earlier ones stay behind as partial output", cg.PathTo(avoid, extract))
		}
	}
}

// checkArmedCleanup: in a staging function, the staging directory is removed on every error path (armed-cleanup
// idiom or explicit cleanup in each failing branch) and promotion follows the error-gated extraction.
func checkArmedCleanup(r *Run, p *packages.Package, cg *CallGraph, fn *types.Func) {
	fd := cg.Decl[fn]
	info := p.TypesInfo
	list := fd.Body.List
	construct := fn.Name()
	// idiom A: flag := true; defer func(){ if flag { RemoveAll } }(); ...; flag = false  (last assignment after promotion)
	armed := false
	var flagObj types.Object
	for _, st := range list {
		if ds, ok := st.(*ast.DeferStmt); ok {
			if fl, ok := ds.Call.Fun.(*ast.FuncLit); ok {
				ast.Inspect(fl.Body, func(n ast.Node) bool {
					if ifs, ok := n.(*ast.IfStmt); ok {
						if id, ok := ast.Unparen(ifs.Cond).(*ast.Ident); ok {
							if stmtHasCall(ifs.Body, func(c *ast.CallExpr) bool {
								f := calleeOf(info, c)
								return f != nil && funcFullName(f) == "os.RemoveAll"
							}) {
								armed = true
								flagObj = info.Uses[id]
							}
						}
					}
					return true
				})
			}
		}
	}
	gates := gatesOf(p, list)
	extractGate, promoteGate := -1, -1
	for _, g := range gates {
		if g.Returns && strings.Contains(g.Callee, "Unpack") && extractGate < 0 {
			extractGate = g.Index
		}
		if g.Returns && strings.Contains(strings.ToLower(g.Callee), "promote") {
			promoteGate = g.Index
		}
	}
	if armed {
		// the flag is cleared only after the promotion gate
		clearedAt := -1
		for i, st := range list {
			if as, ok := st.(*ast.AssignStmt); ok && len(as.Lhs) == 1 {
				if id, ok := as.Lhs[0].(*ast.Ident); ok && info.Uses[id] == flagObj {
					clearedAt = i
				}
			}
		}
		if extractGate >= 0 && promoteGate > extractGate && clearedAt > promoteGate {
			r.Pass("C20-R4-staging", construct+":armed-cleanup", fd.Pos(), "staging is removed by an armed defer on every error; promotion (step %d) follows the error-gated extraction+validation (step %d); cleanup is disarmed only afterwards (step %d)", promoteGate, extractGate, clearedAt)
		} else {
			r.Fail("C20-R4-staging", construct+":armed-cleanup", fd.Pos(), "staging protocol out of order (extraction gate %d, promotion gate %d, cleanup disarmed at %d): unvalidated content can be promoted, or staging is kept after an error", extractGate, promoteGate, clearedAt)
		}
		return
	}
	// idiom C: defer func(){ if err != nil { RemoveAll } }() — armed by the error variable itself. Every return after the
	// defer hands back nil or that very variable (a shadowing `if err := …` declares another one, which the deferred
	// function does not see), unless the variable is the function's named result, which every return assigns.
	for di, st := range list {
		ds, ok := st.(*ast.DeferStmt)
		if !ok {
			continue
		}
		fl, ok := ds.Call.Fun.(*ast.FuncLit)
		if !ok {
			continue
		}
		var errObj types.Object
		ast.Inspect(fl.Body, func(n ast.Node) bool {
			if ifs, ok := n.(*ast.IfStmt); ok {
				if be, ok := ast.Unparen(ifs.Cond).(*ast.BinaryExpr); ok && be.Op == token.NEQ && isNilIdent(info, ast.Unparen(be.Y)) {
					if id, ok := ast.Unparen(be.X).(*ast.Ident); ok && stmtHasCall(ifs.Body, func(c *ast.CallExpr) bool {
						f := calleeOf(info, c)
						return f != nil && funcFullName(f) == "os.RemoveAll"
					}) {
						if v, isVar := info.Uses[id].(*types.Var); isVar && types.Identical(v.Type(), types.Universe.Lookup("error").Type()) {
							errObj = v
						}
					}
				}
			}
			return true
		})
		if errObj == nil {
			continue
		}
		named := false
		if fd.Type.Results != nil {
			for _, rl := range fd.Type.Results.List {
				for _, nm := range rl.Names {
					if info.Defs[nm] == errObj {
						named = true
					}
				}
			}
		}
		var uncovered *ast.ReturnStmt
		nret := 0
		for _, later := range list[di+1:] {
			ast.Inspect(later, func(n ast.Node) bool {
				if _, isLit := n.(*ast.FuncLit); isLit {
					return false
				}
				rs, ok := n.(*ast.ReturnStmt)
				if !ok || len(rs.Results) == 0 {
					return true
				}
				nret++
				last := ast.Unparen(rs.Results[len(rs.Results)-1])
				if named || isNilIdent(info, last) {
					return true
				}
				if id, ok := last.(*ast.Ident); ok && info.Uses[id] == errObj {
					return true
				}
				if uncovered == nil {
					uncovered = rs
				}
				return true
			})
		}
		switch {
		case uncovered != nil:
			what := "`" + exprString(r.Fset, uncovered.Results[len(uncovered.Results)-1]) + "`"
			if id, ok := ast.Unparen(uncovered.Results[len(uncovered.Results)-1]).(*ast.Ident); ok && id.Name == errObj.Name() && info.Uses[id] != nil {
				what = "a different variable of the same name, declared at " + r.Pos(info.Uses[id].Pos()) + ", which shadows it"
			}
			r.Fail("C20-R4-staging", construct+":cleanup-on-error", uncovered.Pos(), "the staging directory is removed by a deferred function that looks at %s, but this return hands back %s: the deferred function sees nil and the staging directory, with whatever was extracted, stays behind", errObj.Name(), what)
		case extractGate >= 0 && promoteGate > extractGate:
			r.Pass("C20-R4-staging", construct+":cleanup-on-error", fd.Pos(), "staging is removed by a deferred function armed by the error the %d later returns hand back; promotion (step %d) follows the error-gated extraction (step %d)", nret, promoteGate, extractGate)
		default:
			r.Fail("C20-R4-staging", construct+":cleanup-on-error", fd.Pos(), "staging protocol out of order (extraction gate %d, promotion gate %d): unvalidated content can be promoted", extractGate, promoteGate)
		}
		return
	}
	// idiom B: explicit cleanup() call in each failing branch after the staging directory exists
	okAll := true
	n := 0
	for _, g := range gates {
		if !g.Returns || g.Callee == "validate" || g.Callee == "MkdirTemp" {
			continue
		}
		// gates after MkdirTemp
		after := false
		for _, g2 := range gates {
			if g2.Callee == "MkdirTemp" && g2.Index < g.Index {
				after = true
			}
		}
		if !after {
			continue
		}
		n++
		ifs, _ := list[g.Index].(*ast.IfStmt)
		if ifs == nil && g.Index+1 < len(list) {
			ifs, _ = list[g.Index+1].(*ast.IfStmt)
		}
		cleans := false
		if ifs != nil {
			cleans = stmtHasCall(ifs.Body, func(c *ast.CallExpr) bool {
				if id, ok := c.Fun.(*ast.Ident); ok && strings.Contains(strings.ToLower(id.Name), "cleanup") {
					return true
				}
				f := calleeOf(info, c)
				return f != nil && funcFullName(f) == "os.RemoveAll"
			})
		}
		if !cleans {
			okAll = false
		}
	}
	if n > 0 && okAll {
		r.Pass("C20-R4-staging", construct+":cleanup-on-error", fd.Pos(), "each of the %d failing branches after the temp directory exists removes it", n)
	} else {
		r.Fail("C20-R4-staging", construct+":cleanup-on-error", fd.Pos(), "a failing branch after the staging directory was created does not remove it (%d gates checked)", n)
	}
}

func checkEnvelope(r *Run, p *packages.Package, cg *CallGraph, decls map[string]*ast.FuncDecl) {
	info := p.TypesInfo
	// AAD binds all three parameters: each must flow into a Write on the buffer whose bytes are returned,
	// directly or through a carrier filled by a Put* call
	if aad := decls[roleName("archiveFrameAAD")]; aad != nil && aad.Type.Params != nil {
		var buf types.Object
		ast.Inspect(aad.Body, func(n ast.Node) bool {
			if rs, ok := n.(*ast.ReturnStmt); ok && len(rs.Results) == 1 {
				if call, ok := ast.Unparen(rs.Results[0]).(*ast.CallExpr); ok {
					if sel, ok := call.Fun.(*ast.SelectorExpr); ok && sel.Sel.Name == "Bytes" {
						if id, ok := ast.Unparen(sel.X).(*ast.Ident); ok {
							buf = info.Uses[id]
						}
					}
				}
			}
			return true
		})
		mentions := func(n ast.Node, obj types.Object) bool {
			f := false
			ast.Inspect(n, func(m ast.Node) bool {
				if id, ok := m.(*ast.Ident); ok && info.Uses[id] == obj {
					f = true
				}
				return !f
			})
			return f
		}
		for _, pl := range aad.Type.Params.List {
			for _, nm := range pl.Names {
				obj := info.Defs[nm]
				carriers := map[types.Object]bool{obj: true}
				ast.Inspect(aad.Body, func(n ast.Node) bool {
					if call, ok := n.(*ast.CallExpr); ok && len(call.Args) == 2 {
						if sel, ok := call.Fun.(*ast.SelectorExpr); ok && strings.HasPrefix(sel.Sel.Name, "Put") && mentions(call.Args[1], obj) {
							ast.Inspect(call.Args[0], func(m ast.Node) bool {
								if id, ok := m.(*ast.Ident); ok {
									if o := info.Uses[id]; o != nil {
										carriers[o] = true
									}
								}
								return true
							})
						}
					}
					return true
				})
				used := false
				ast.Inspect(aad.Body, func(n ast.Node) bool {
					call, ok := n.(*ast.CallExpr)
					if !ok {
						return true
					}
					sel, ok := call.Fun.(*ast.SelectorExpr)
					if !ok || !strings.HasPrefix(sel.Sel.Name, "Write") {
						return true
					}
					if id, ok := ast.Unparen(sel.X).(*ast.Ident); !ok || buf == nil || info.Uses[id] != buf {
						return true
					}
					for _, a := range call.Args {
						for c := range carriers {
							if mentions(a, c) {
								used = true
							}
						}
					}
					return true
				})
				construct := "archiveFrameAAD:" + nm.Name
				if used {
					r.Pass("C20-R5-envelope", construct, nm.Pos(), "flows into the additional authenticated data")
				} else {
					r.Fail("C20-R5-envelope", construct, nm.Pos(), "%s does not flow into the frame's additional authenticated data: frames can be reordered, retyped or moved to another archive without detection", nm.Name)
				}
			}
		}
	} else {
		r.Undecide("C20-R5: archiveFrameAAD not found")
	}
	// the frame reader: the function that opens (decrypts) a frame behind an error gate — found by that, not by its name
	rn := envelopeFrameReader(p)
	if rn == nil {
		r.Undecide("C20-R5: the frame reader (a function with an error-gated AEAD Open call) was not found")
		return
	}
	eofGate := envelopeEOFGate(p, rn)
	// Open is called with archiveFrameAAD(...) and error-gated
	openGated := false
	for _, g := range gatesOf(p, rn.Body.List) {
		if g.Callee == "Open" && g.Returns {
			if len(g.Call.Args) >= 1 {
				if c, ok := ast.Unparen(g.Call.Args[0]).(*ast.CallExpr); ok {
					if f := calleeOf(info, c); f != nil && f.Name() == roleName("archiveFrameAAD") && len(c.Args) == 3 {
						txt := exprString(r.Fset, c)
						if strings.Contains(txt, "headerHash") && strings.Contains(txt, "frameIndex") && strings.Contains(txt, "frameType") {
							openGated = true
						}
					}
				}
			}
		}
	}
	if openGated {
		r.Pass("C20-R5-envelope", "readNextFrame:open-gated", rn.Pos(), "every frame is opened with AAD(headerHash, frameIndex, frameType) and a failure is returned")
	} else {
		r.Fail("C20-R5-envelope", "readNextFrame:open-gated", rn.Pos(), "frame decryption is not error-gated with the position-binding additional data")
	}
	// frameIndex++ exists
	inc := false
	ast.Inspect(rn.Body, func(n ast.Node) bool {
		if ids, ok := n.(*ast.IncDecStmt); ok && ids.Tok == token.INC && strings.HasSuffix(exprString(r.Fset, ids.X), "frameIndex") {
			inc = true
		}
		return true
	})
	if inc {
		r.Pass("C20-R5-envelope", "readNextFrame:index-advances", rn.Pos(), "the frame index advances with every opened frame")
	} else {
		r.Fail("C20-R5-envelope", "readNextFrame:index-advances", rn.Pos(), "the frame index never advances: every frame authenticates against index 0 and can be replayed or reordered")
	}
	// final = true only after the empty-plaintext check and the EOF gate: both must be leaving ifs that dominate the
	// assignment (in whichever spelling: nested in the final-frame branch, or after an early return for data frames)
	var finalAssign *ast.AssignStmt
	ast.Inspect(rn.Body, func(n ast.Node) bool {
		if as, ok := n.(*ast.AssignStmt); ok && finalAssign == nil && len(as.Lhs) == 1 {
			if sel, ok := ast.Unparen(as.Lhs[0]).(*ast.SelectorExpr); ok && sel.Sel.Name == "final" {
				if tv, has := p.TypesInfo.Types[as.Rhs[0]]; has && tv.Value != nil && tv.Value.String() == "true" {
					finalAssign = as
				}
			}
		}
		return true
	})
	if finalAssign == nil {
		r.Fail("C20-R5-envelope", "readNextFrame:final-gates", rn.Pos(), "no branch sets the reader's final flag")
	} else {
		hasEmpty, hasEOF := false, false
		for _, ifs := range dominatingLeavingIfs(rn.Body, finalAssign) {
			// `if len(<bytes>) != 0 { return … }`
			if be, ok := ast.Unparen(ifs.Cond).(*ast.BinaryExpr); ok && (be.Op == token.NEQ || be.Op == token.GTR) {
				if call, ok := ast.Unparen(be.X).(*ast.CallExpr); ok && len(call.Args) == 1 {
					if id, ok := call.Fun.(*ast.Ident); ok && id.Name == "len" {
						if sl, ok := p.TypesInfo.TypeOf(call.Args[0]).Underlying().(*types.Slice); ok {
							if b, ok := sl.Elem().Underlying().(*types.Basic); ok && b.Kind() == types.Byte {
								if tv, has := p.TypesInfo.Types[be.Y]; has && tv.Value != nil && tv.Value.String() == "0" {
									hasEmpty = true
								}
							}
						}
					}
				}
			}
			// `if err := requireEncryptedArchiveEOF(…); err != nil { return err }`
			if ifs.Init != nil && eofGate != nil && stmtHasCall(ifs.Init, func(c *ast.CallExpr) bool {
				fn := calleeOf(p.TypesInfo, c)
				return fn != nil && p.TypesInfo.Defs[eofGate.Name] == types.Object(fn.Origin())
			}) {
				hasEOF = true
			}
		}
		if hasEmpty && hasEOF {
			r.Pass("C20-R5-envelope", "readNextFrame:final-gates", finalAssign.Pos(), "end of stream is accepted only after an empty final frame and a verified EOF")
		} else {
			r.Fail("C20-R5-envelope", "readNextFrame:final-gates", finalAssign.Pos(), "the final flag is set without both gates in front of it (empty final frame: %v, EOF gate: %v): appended or truncated data is accepted", hasEmpty, hasEOF)
		}
	}
	// Read returns EOF only when final
	if rd := decls["encryptedArchiveReader.Read"]; rd != nil {
		ok := false
		ast.Inspect(rd.Body, func(n ast.Node) bool {
			if ifs, isIf := n.(*ast.IfStmt); isIf && strings.HasSuffix(exprString(r.Fset, ifs.Cond), ".final") {
				for _, st := range ifs.Body.List {
					if rs, isRet := st.(*ast.ReturnStmt); isRet && strings.Contains(exprString(r.Fset, rs), "io.EOF") {
						ok = true
					}
				}
			}
			return true
		})
		neof := 0
		ast.Inspect(rd.Body, func(n ast.Node) bool {
			if sel, isSel := n.(*ast.SelectorExpr); isSel && sel.Sel.Name == "EOF" {
				neof++
			}
			return true
		})
		if ok && neof == 1 {
			r.Pass("C20-R5-envelope", "encryptedArchiveReader.Read:eof-only-final", rd.Pos(), "io.EOF is produced only after the final frame was authenticated")
		} else {
			r.Fail("C20-R5-envelope", "encryptedArchiveReader.Read:eof-only-final", rd.Pos(), "Read can report io.EOF without the final frame (guarded: %v, EOF sites: %d): a truncated archive looks complete", ok, neof)
		}
	}
	// the stream is drained after the tar ends (forces the final frame)
	if ue := decls["UnpackEncryptedCollectionArchiveWithOptions"]; ue != nil {
		drained := false
		idxTar := -1
		for _, g := range gatesOf(p, ue.Body.List) {
			if g.Callee == roleName("unpackCollectionTarWithOptions") && g.Returns {
				idxTar = g.Index
			}
			if g.Full == "io.Copy" && g.Returns && idxTar >= 0 && g.Index > idxTar {
				drained = true
			}
		}
		if drained {
			r.Pass("C20-R5-envelope", "UnpackEncryptedCollectionArchiveWithOptions:drain", ue.Pos(), "after the tar stream ends the encrypted stream is read to its authenticated end")
		} else {
			r.Fail("C20-R5-envelope", "UnpackEncryptedCollectionArchiveWithOptions:drain", ue.Pos(), "the encrypted stream is not drained (error-gated) after the tar ends: a truncated archive whose tar part is complete is accepted")
		}
	}
	// error discipline: no discarded error from crypto / tar / json / hpke calls on these paths
	var roots []*types.Func
	for fn := range cg.Decl {
		if cg.PkgOf[fn] == p && fn.Exported() && (strings.HasPrefix(fn.Name(), "Unpack") || fn.Name() == "Load" || strings.HasPrefix(fn.Name(), "NewEncryptedArchiveReader")) {
			roots = append(roots, fn)
		}
	}
	reach := cg.Reach(roots, nil)
	discards := 0
	for fn := range reach {
		fd := cg.Decl[fn]
		if fd == nil || fd.Body == nil || cg.PkgOf[fn] != p {
			continue
		}
		ast.Inspect(fd.Body, func(n ast.Node) bool {
			as, ok := n.(*ast.AssignStmt)
			if !ok || len(as.Rhs) != 1 {
				return true
			}
			call, ok := as.Rhs[0].(*ast.CallExpr)
			if !ok {
				return true
			}
			callee := calleeOf(info, call)
			if callee == nil || callee.Pkg() == nil {
				return true
			}
			pp := callee.Pkg().Path()
			if !(strings.HasPrefix(pp, "crypto") || strings.Contains(pp, "hpke") || pp == "archive/tar" || pp == "encoding/json" || pp == "encoding/base64" || pp == "encoding/hex") {
				return true
			}
			res := callee.Type().(*types.Signature).Results()
			if res.Len() == 0 || res.At(res.Len()-1).Type().String() != "error" {
				return true
			}
			last, ok := as.Lhs[len(as.Lhs)-1].(*ast.Ident)
			if ok && last.Name == "_" {
				discards++
				r.Fail("C20-R5-error-discipline", funcDeclName(fd)+":"+callee.Name(), as.Pos(), "the error of %s is discarded on an unpack/load path", funcFullName(callee))
			}
			return true
		})
	}
	if discards == 0 {
		r.Pass("C20-R5-error-discipline", "unpack/load paths", token.NoPos, "no error from crypto, hpke, tar, json, base64 or hex calls is assigned to _ in %d reachable functions", len(reach))
	}
}

// typeflagAllowList: cond is a conjunction of `<x>.Typeflag != tar.<T>`; returns the allowed T's and whether
// the condition consists only of such conjuncts.
func typeflagAllowList(cond ast.Expr) (allowed []string, pure bool) {
	pure = true
	var walk func(e ast.Expr)
	walk = func(e ast.Expr) {
		e = ast.Unparen(e)
		be, ok := e.(*ast.BinaryExpr)
		if !ok {
			pure = false
			return
		}
		switch be.Op {
		case token.LAND:
			walk(be.X)
			walk(be.Y)
		case token.NEQ:
			l, okL := ast.Unparen(be.X).(*ast.SelectorExpr)
			rr, okR := ast.Unparen(be.Y).(*ast.SelectorExpr)
			if okL && okR && l.Sel.Name == "Typeflag" {
				allowed = append(allowed, rr.Sel.Name)
			} else {
				pure = false
			}
		default:
			pure = false
		}
	}
	walk(cond)
	return
}

// checkHeaderHashRaw (R5, header clause): the frames are bound to the header through a digest in the AAD.  On the
// reading side that digest must be computed over the header bytes exactly as they were read from the stream.  A digest
// of the re-encoded, parsed header is invariant under everything the JSON decoder is lenient about (key case,
// whitespace, unknown or duplicate keys), so a header that was modified in those ways still authenticates.
func checkHeaderHashRaw(r *Run, p *packages.Package, decls map[string]*ast.FuncDecl) {
	info := p.TypesInfo
	const rule = "C20-R5-envelope"
	fd := decls["newEncryptedArchiveReader"]
	if fd == nil {
		r.Undecide("C20-R5: newEncryptedArchiveReader not found")
		return
	}
	// rawIn: is `v` (an identifier in function f) a byte slice that f filled with io.ReadFull?
	filledByReadFull := func(f *ast.FuncDecl, obj types.Object) bool {
		found := false
		ast.Inspect(f.Body, func(n ast.Node) bool {
			call, ok := n.(*ast.CallExpr)
			if !ok || len(call.Args) != 2 {
				return true
			}
			if fn := calleeOf(info, call); fn != nil && funcFullName(fn) == "io.ReadFull" {
				if id, ok := ast.Unparen(call.Args[1]).(*ast.Ident); ok && info.Uses[id] == obj {
					found = true
				}
			}
			return true
		})
		return found
	}
	// definition of an identifier inside f: the single RHS expression and, for multi-value calls, the result index
	defOf := func(f *ast.FuncDecl, obj types.Object) (ast.Expr, int) {
		var rhs ast.Expr
		idx := -1
		ast.Inspect(f.Body, func(n ast.Node) bool {
			as, ok := n.(*ast.AssignStmt)
			if !ok {
				return true
			}
			for i, l := range as.Lhs {
				if id, ok := l.(*ast.Ident); ok && (info.Defs[id] == obj || (as.Tok == token.ASSIGN && info.Uses[id] == obj)) {
					if len(as.Rhs) == len(as.Lhs) {
						rhs, idx = as.Rhs[i], -1
					} else if len(as.Rhs) == 1 {
						rhs, idx = as.Rhs[0], i
					}
				}
			}
			return true
		})
		return rhs, idx
	}
	var hashArg ast.Expr
	var hashPos token.Pos
	var why string
	ast.Inspect(fd.Body, func(n ast.Node) bool {
		kv, ok := n.(*ast.KeyValueExpr)
		if !ok {
			return true
		}
		k, ok := kv.Key.(*ast.Ident)
		if !ok || k.Name != "headerHash" {
			return true
		}
		hashPos = kv.Pos()
		v := ast.Unparen(kv.Value)
		if id, ok := v.(*ast.Ident); ok {
			if rhs, _ := defOf(fd, info.Uses[id]); rhs != nil {
				v = ast.Unparen(rhs)
			}
		}
		if call, ok := v.(*ast.CallExpr); ok {
			if fn := calleeOf(info, call); fn != nil && strings.HasPrefix(funcFullName(fn), "crypto/sha256.Sum") && len(call.Args) == 1 {
				hashArg = call.Args[0]
			} else if fn != nil {
				why = "it is the result of " + fn.Name() + ", which does not hash one of its byte-slice arguments"
				// a helper that hashes one of its parameters: follow the corresponding argument
				if hd := decls[fn.Name()]; hd != nil && hd.Body != nil && hd.Type.Params != nil {
					pidx := map[types.Object]int{}
					i := 0
					for _, pl := range hd.Type.Params.List {
						for _, nm := range pl.Names {
							pidx[info.Defs[nm]] = i
							i++
						}
					}
					ast.Inspect(hd.Body, func(m ast.Node) bool {
						if hc, ok := m.(*ast.CallExpr); ok && len(hc.Args) == 1 {
							if hf := calleeOf(info, hc); hf != nil && strings.HasPrefix(funcFullName(hf), "crypto/sha256.Sum") {
								if aid, ok := ast.Unparen(hc.Args[0]).(*ast.Ident); ok {
									if k, isParam := pidx[info.Uses[aid]]; isParam && k < len(call.Args) {
										hashArg = call.Args[k]
									}
								}
							}
						}
						return true
					})
				}
			}
		}
		return true
	})
	construct := "newEncryptedArchiveReader:header-hash-over-wire-bytes"
	if hashPos == token.NoPos {
		r.Undecide("C20-R5: no headerHash field in the reader literal of newEncryptedArchiveReader")
		return
	}
	raw := false
	if hashArg != nil {
		if id, ok := ast.Unparen(hashArg).(*ast.Ident); ok {
			obj := info.Uses[id]
			if filledByReadFull(fd, obj) {
				raw = true
			} else if rhs, idx := defOf(fd, obj); rhs != nil && idx >= 0 {
				if call, ok := ast.Unparen(rhs).(*ast.CallExpr); ok {
					if callee := calleeOf(info, call); callee != nil {
						for name, cd := range decls {
							if name != callee.Name() || cd.Body == nil {
								continue
							}
							all, any := true, false
							ast.Inspect(cd.Body, func(n ast.Node) bool {
								if _, isLit := n.(*ast.FuncLit); isLit {
									return false
								}
								ret, ok := n.(*ast.ReturnStmt)
								if !ok || idx >= len(ret.Results) {
									return true
								}
								res := ast.Unparen(ret.Results[idx])
								if rid, ok := res.(*ast.Ident); ok {
									if _, isNil := info.Uses[rid].(*types.Nil); isNil {
										return true // error exit
									}
									any = true
									if !filledByReadFull(cd, info.Uses[rid]) {
										all = false
									}
								} else {
									all = false
								}
								return true
							})
							raw = all && any
							if !raw {
								why = "the bytes returned by " + callee.Name() + " are not the buffer it filled with io.ReadFull"
							}
						}
					}
				}
			} else {
				why = "the hashed value is not a buffer filled by io.ReadFull"
			}
		} else if hsel, ok := ast.Unparen(hashArg).(*ast.SelectorExpr); ok && info.Selections[hsel] != nil && info.Selections[hsel].Kind() == types.FieldVal {
			// a field of a struct: the buffer is that field's cell — filled by io.ReadFull here, or in the same-package
			// function whose result the struct is
			fieldObj := info.Selections[hsel].Obj()
			filledCell := func(f *ast.FuncDecl) bool {
				found := false
				ast.Inspect(f.Body, func(n ast.Node) bool {
					call, ok := n.(*ast.CallExpr)
					if !ok || len(call.Args) != 2 {
						return true
					}
					if fn := calleeOf(info, call); fn != nil && funcFullName(fn) == "io.ReadFull" {
						if as, ok := ast.Unparen(call.Args[1]).(*ast.SelectorExpr); ok {
							if sl := info.Selections[as]; sl != nil && sl.Obj() == fieldObj {
								found = true
							}
						}
					}
					return true
				})
				return found
			}
			if filledCell(fd) {
				raw = true
			} else if bid, ok := ast.Unparen(hsel.X).(*ast.Ident); ok {
				if rhs, _ := defOf(fd, info.Uses[bid]); rhs != nil {
					if call, ok := ast.Unparen(rhs).(*ast.CallExpr); ok {
						if callee := calleeOf(info, call); callee != nil && callee.Pkg() == p.Types {
							if cd := decls[declKeyOf(callee)]; cd != nil && cd.Body != nil && filledCell(cd) {
								// and nothing else in the callee overwrites the field after the read
								writes := 0
								ast.Inspect(cd.Body, func(n ast.Node) bool {
									if as, ok := n.(*ast.AssignStmt); ok {
										for _, l := range as.Lhs {
											if ls, ok := ast.Unparen(l).(*ast.SelectorExpr); ok {
												if sl := info.Selections[ls]; sl != nil && sl.Obj() == fieldObj {
													writes++
												}
											}
										}
									}
									return true
								})
								raw = writes == 0
								if !raw {
									why = "the field " + fieldObj.Name() + " is reassigned in " + callee.Name() + " after it was read from the stream"
								}
							}
						}
					}
				}
			}
			if !raw && why == "" {
				why = "the hashed value is " + exprString(r.Fset, hashArg)
			}
		} else {
			why = "the hashed value is " + exprString(r.Fset, hashArg)
		}
	}
	if raw {
		r.Pass(rule, construct, hashPos, "the digest in the frames' additional data is taken over the header bytes as read from the stream (io.ReadFull buffer)")
	} else {
		r.Fail(rule, construct, hashPos, "the reader's header digest is not computed over the bytes read from the stream (%s): a digest of the re-encoded header is blind to every change the JSON decoder tolerates (key case, whitespace, unknown keys), so a modified header still authenticates all frames", why)
	}
}

// checkPerGraphResolver (R1, scoping clause): source IDs are unique per graph, not per dump.  The preflight that has to
// reject a corrupt dump before anything is written resolves edge endpoints against the nodes of the same graph only if
// its ID index is constructed per graph, like the load pass does.  An index that lives across graphs lets an edge that
// points at a node of an earlier graph pass preflight; the load pass, whose index is per graph, then fails after it
// has already written.
func checkPerGraphResolver(r *Run, p *packages.Package) {
	info := p.TypesInfo
	n := 0
	for _, f := range p.Syntax {
		for _, d := range f.Decls {
			fd, ok := d.(*ast.FuncDecl)
			if !ok || fd.Body == nil || fd.Name.Name == "newNodeIDResolver" {
				continue
			}
			var stack []ast.Node
			ast.Inspect(fd.Body, func(x ast.Node) bool {
				if x == nil {
					stack = stack[:len(stack)-1]
					return true
				}
				stack = append(stack, x)
				call, ok := x.(*ast.CallExpr)
				if !ok {
					return true
				}
				fn := calleeOf(info, call)
				if fn == nil || fn.Name() != "newNodeIDResolver" || fn.Pkg() != p.Types {
					return true
				}
				n++
				construct := funcDeclName(fd) + ":newNodeIDResolver"
				perGraph := ""
				conditional := ""
				// a parameter of type GraphManifest: the function runs for one graph
				if fd.Type.Params != nil {
					for _, pl := range fd.Type.Params.List {
						if namedName(info.TypeOf(pl.Type)) == "GraphManifest" {
							perGraph = "the enclosing function handles one GraphManifest"
						}
					}
				}
				for _, anc := range stack {
					if rs, ok := anc.(*ast.RangeStmt); ok && call.Pos() >= rs.Body.Pos() && call.End() <= rs.Body.End() {
						if sel, ok := ast.Unparen(rs.X).(*ast.SelectorExpr); ok && sel.Sel.Name == "Graphs" {
							// … on every iteration: a construction under a condition keeps the previous graph's index
							// for the graphs that do not meet it
							if conds := controlConds(rs.Body, call); len(conds) > 0 {
								conditional = exprString(r.Fset, conds[0].Expr)
							} else {
								perGraph = "constructed on every iteration of the loop over " + exprString(r.Fset, rs.X)
							}
						}
					}
				}
				if conditional != "" {
					r.Fail("C20-R1-verify-before-mutate", construct, call.Pos(), "the source-ID index is rebuilt only when `%s`: a graph that does not meet the condition is checked against the previous graph's node IDs, so the preflight accepts an edge fragment that points into another graph and the load fails only after nodes and relationships were written", conditional)
				} else if perGraph != "" {
					r.Pass("C20-R1-verify-before-mutate", construct, call.Pos(), "the source-ID index is per graph: %s", perGraph)
				} else {
					r.Fail("C20-R1-verify-before-mutate", construct, call.Pos(), "the source-ID index is constructed outside the per-graph scope: IDs of earlier graphs stay resolvable, so the preflight accepts an edge that points into another graph and the dump is rejected only after the load pass has written nodes and relationships")
				}
				return true
			})
		}
	}
	if n < 2 {
		r.Undecide("C20-R1: expected the preflight and the load pass to construct a nodeIDResolver, found %d construction sites", n)
	}
}

// checkStrictDocumentDecoding (R6): json.Unmarshal rejects anything after the document; json.Decoder.Decode stops at the
// end of the first value and leaves the rest unread.  A manifest, checkpoint or header read with a single Decode and no
// end-of-input test accepts the file with arbitrary bytes appended (a second manifest, a NUL, a stray brace): a
// corrupted file loads as if it were intact.  Decoders that read a stream of values in a loop are not judged.
func checkStrictDocumentDecoding(r *Run, p *packages.Package, reach map[*types.Func]*cgEdge, cg *CallGraph) {
	const rule = "C20-R6-strict-decoding"
	info := p.TypesInfo
	tbl := r.LoadTable("c20_decoding_exempt")
	n := 0
	for _, f := range p.Syntax {
		for _, d := range f.Decls {
			fd, ok := d.(*ast.FuncDecl)
			if !ok || fd.Body == nil {
				continue
			}
			var decodes []*ast.CallExpr
			strict := false
			var stack []ast.Node
			inLoop := map[*ast.CallExpr]bool{}
			ast.Inspect(fd.Body, func(x ast.Node) bool {
				if x == nil {
					stack = stack[:len(stack)-1]
					return true
				}
				stack = append(stack, x)
				call, ok := x.(*ast.CallExpr)
				if !ok {
					return true
				}
				sel, ok := call.Fun.(*ast.SelectorExpr)
				if !ok {
					return true
				}
				recvT := info.TypeOf(sel.X)
				if recvT == nil || namedName(recvT) != "Decoder" || namedOf(recvT) == nil || namedOf(recvT).Obj().Pkg() == nil || namedOf(recvT).Obj().Pkg().Path() != "encoding/json" {
					return true
				}
				switch sel.Sel.Name {
				case "Decode":
					decodes = append(decodes, call)
					for _, anc := range stack {
						switch anc.(type) {
						case *ast.ForStmt, *ast.RangeStmt:
							inLoop[call] = true
						}
					}
				case "More":
					strict = true
				}
				return true
			})
			if len(decodes) == 0 {
				continue
			}
			// a second Decode whose error is compared with io.EOF
			ast.Inspect(fd.Body, func(x ast.Node) bool {
				// … by a case of a switch over the error
				if cc, isCase := x.(*ast.CaseClause); isCase && len(decodes) >= 2 {
					for _, e := range cc.List {
						if s, ok := ast.Unparen(e).(*ast.SelectorExpr); ok && s.Sel.Name == "EOF" {
							strict = true
						}
					}
				}
				be, ok := x.(*ast.BinaryExpr)
				if !ok || (be.Op != token.NEQ && be.Op != token.EQL) {
					return true
				}
				for _, side := range []ast.Expr{be.X, be.Y} {
					if s, ok := ast.Unparen(side).(*ast.SelectorExpr); ok && s.Sel.Name == "EOF" && len(decodes) >= 2 {
						strict = true
					}
				}
				return true
			})
			for i, dc := range decodes {
				if inLoop[dc] && len(decodes) == 1 {
					// value stream: the loop itself consumes the input
					continue
				}
				if i > 0 {
					continue // the trailing-data probe itself
				}
				n++
				construct := funcDeclName(fd) + ":" + exprString(r.Fset, dc.Fun)
				if len(construct) > 100 {
					construct = construct[:100]
				}
				if strict {
					r.Pass(rule, construct, dc.Pos(), "the document is decoded and the rest of the input is required to be empty")
				} else if reason, ok := r.InTableAt(tbl, "c20_decoding_exempt", funcDeclName(fd), info, fd, "decode-once", viaKey(p, fd)); ok {
					r.Pass(rule, construct, dc.Pos(), "table: %s", reason)
				} else {
					r.Fail(rule, construct, dc.Pos(), "%s decodes one JSON value with Decoder.Decode and never checks that nothing follows it (no second Decode == io.EOF, no More()): bytes appended to the file are ignored, so an extended or concatenated manifest is accepted as intact", funcDeclName(fd))
				}
			}
		}
	}
	// the manifest itself must be read strictly: either json.Unmarshal of the whole file or a judged decoder
	if rm := FuncDecls(p)["readManifest"]; rm != nil {
		usesUnmarshal := stmtHasCall(rm.Body, func(c *ast.CallExpr) bool {
			fn := calleeOf(info, c)
			return fn != nil && funcFullName(fn) == "encoding/json.Unmarshal"
		})
		usesDecoder := stmtHasCall(rm.Body, func(c *ast.CallExpr) bool {
			sel, ok := c.Fun.(*ast.SelectorExpr)
			return ok && sel.Sel.Name == "Decode"
		})
		if usesUnmarshal && !usesDecoder {
			n++
			r.Pass(rule, "readManifest:json.Unmarshal", rm.Pos(), "the whole file is handed to json.Unmarshal, which rejects trailing data")
		}
		// otherwise the read goes through a Decoder here or in a helper, which the loop above has judged
	}
	if n < 3 {
		r.Undecide("C20-R6: expected at least three single-document JSON reads in package retriever, found %d", n)
	}
	_ = reach
	_ = cg
}

// envelopeFrameReader: the function of the package whose statements include `…, err := <aead>.Open(…)` behind an error
// gate that leaves.
func envelopeFrameReader(p *packages.Package) *ast.FuncDecl {
	var found *ast.FuncDecl
	for _, f := range p.Syntax {
		for _, d := range f.Decls {
			fd, ok := d.(*ast.FuncDecl)
			if !ok || fd.Body == nil {
				continue
			}
			for _, g := range gatesOf(p, fd.Body.List) {
				if g.Callee == "Open" && g.Returns && g.Call != nil && len(g.Call.Args) >= 2 {
					if fn := calleeOf(p.TypesInfo, g.Call); fn == nil || fn.Pkg() != p.Types {
						found = fd
					}
				}
			}
		}
	}
	return found
}

// envelopeEOFGate: the same-package function, called by the frame reader, that returns only an error and looks at
// io.EOF — the check that nothing follows the final frame.
func envelopeEOFGate(p *packages.Package, frameReader *ast.FuncDecl) *ast.FuncDecl {
	info := p.TypesInfo
	byObj := map[types.Object]*ast.FuncDecl{}
	for _, f := range p.Syntax {
		for _, d := range f.Decls {
			if fd, ok := d.(*ast.FuncDecl); ok && fd.Body != nil {
				byObj[info.Defs[fd.Name]] = fd
			}
		}
	}
	var gate *ast.FuncDecl
	ast.Inspect(frameReader.Body, func(n ast.Node) bool {
		call, ok := n.(*ast.CallExpr)
		if !ok {
			return true
		}
		fn := calleeOf(info, call)
		if fn == nil || fn.Pkg() != p.Types {
			return true
		}
		sig := fn.Type().(*types.Signature)
		if sig.Results().Len() != 1 || !types.Identical(sig.Results().At(0).Type(), types.Universe.Lookup("error").Type()) {
			return true
		}
		hd := byObj[fn.Origin()]
		if hd == nil {
			return true
		}
		mentionsEOF := false
		ast.Inspect(hd.Body, func(m ast.Node) bool {
			if sel, ok := m.(*ast.SelectorExpr); ok && sel.Sel.Name == "EOF" {
				if id, ok := sel.X.(*ast.Ident); ok {
					if pn, ok := info.Uses[id].(*types.PkgName); ok && pn.Imported().Path() == "io" {
						mentionsEOF = true
					}
				}
			}
			return true
		})
		if mentionsEOF {
			gate = hd
		}
		return true
	})
	return gate
}

// isFragmentDecoder: a function with a FileManifest parameter, a bool parameter (verify integrity) and a func-typed
// parameter (the record handler), returning (count, error).
func isFragmentDecoder(fn *types.Func) bool {
	sig := fn.Type().(*types.Signature)
	hasEntry, hasBool, hasFunc := false, false, false
	for i := 0; i < sig.Params().Len(); i++ {
		t := sig.Params().At(i).Type()
		if namedName(t) == "FileManifest" {
			hasEntry = true
		}
		switch u := t.Underlying().(type) {
		case *types.Basic:
			if u.Kind() == types.Bool {
				hasBool = true
			}
		case *types.Signature:
			hasFunc = true
		}
	}
	return hasEntry && hasBool && hasFunc && sig.Results().Len() == 2
}
