package main

// C05-R9 loop-progress: translation is bounded only if every loop on the translation path is. For a loop governed by a
// condition over local variables (`for len(remaining) > 0`, `for cursor != nil`, `for i < n` without a post statement)
// a necessary condition is visible in its shape: every way through the body either changes one of the variables the
// condition reads, or leaves the loop. A path that does neither re-enters the loop in the state it came in with, and —
// the body being deterministic — takes the same path again, for ever. (The usual victim is the "nothing can be
// scheduled" case of a work-list loop whose break was lost in a rewrite.)
//
// Decided for loops whose condition contains no calls other than len/cap; a nested loop or switch that assigns a
// condition variable anywhere inside counts as changing it (no alarm on code this rule cannot follow).

import (
	"go/ast"
	"go/token"
	"go/types"
)

func checkLoopProgress(r *Run, cg *CallGraph, reach map[*types.Func]*cgEdge) {
	const rule = "C05-R9-loop-progress"
	n := 0
	for fn, fd := range cg.Decl {
		if fd.Body == nil || reach[fn] == nil {
			continue
		}
		p := cg.PkgOf[fn]
		if p == nil {
			continue
		}
		info := p.TypesInfo
		nth := 0
		ast.Inspect(fd.Body, func(x ast.Node) bool {
			fs, ok := x.(*ast.ForStmt)
			if !ok || fs.Cond == nil {
				return true
			}
			// the variables the condition reads; calls other than len/cap make the condition opaque
			condVars := map[types.Object]bool{}
			opaque := false
			ast.Inspect(fs.Cond, func(y ast.Node) bool {
				switch t := y.(type) {
				case *ast.CallExpr:
					if id, ok := ast.Unparen(t.Fun).(*ast.Ident); ok {
						if _, isBuiltin := info.Uses[id].(*types.Builtin); isBuiltin && (id.Name == "len" || id.Name == "cap") {
							return true
						}
					}
					if tv, has := info.Types[t.Fun]; has && tv.IsType() {
						return true
					}
					opaque = true
				case *ast.Ident:
					if v, ok := info.Uses[t].(*types.Var); ok && !v.IsField() {
						condVars[v] = true
					}
				case *ast.UnaryExpr:
					if t.Op == token.ARROW {
						opaque = true
					}
				}
				return true
			})
			if opaque || len(condVars) == 0 {
				return true
			}
			changes := func(n ast.Node) bool {
				found := false
				isCondVar := func(e ast.Expr) bool {
					if id := rootIdent(e); id != nil {
						return condVars[info.Uses[id]] || condVars[info.Defs[id]]
					}
					// x[i], *x
					switch t := ast.Unparen(e).(type) {
					case *ast.IndexExpr:
						if id := rootIdent(t.X); id != nil {
							return condVars[info.Uses[id]]
						}
					case *ast.StarExpr:
						if id := rootIdent(t.X); id != nil {
							return condVars[info.Uses[id]]
						}
					}
					return false
				}
				ast.Inspect(n, func(m ast.Node) bool {
					switch t := m.(type) {
					case *ast.AssignStmt:
						for _, l := range t.Lhs {
							if isCondVar(l) {
								found = true
							}
						}
					case *ast.IncDecStmt:
						if isCondVar(t.X) {
							found = true
						}
					case *ast.RangeStmt:
						if (t.Key != nil && isCondVar(t.Key)) || (t.Value != nil && isCondVar(t.Value)) {
							found = true
						}
					case *ast.UnaryExpr:
						if t.Op == token.AND && isCondVar(t.X) {
							found = true // its address is handed out: it may be changed through it
						}
					case *ast.CallExpr:
						// a method called on the variable may change it
						if sel, ok := t.Fun.(*ast.SelectorExpr); ok && isCondVar(sel.X) {
							if s := info.Selections[sel]; s != nil && s.Kind() == types.MethodVal {
								found = true
							}
						}
					}
					return !found
				})
				return found
			}
			if fs.Post != nil && changes(fs.Post) {
				return true // a counting loop: the post statement runs on every iteration
			}
			paths, complete := structuredPaths(info, r.Fset, fs.Body.List, 256)
			if !complete {
				return true
			}
			n++
			nth++
			construct := shortFuncName(fn) + ":for#" + itoa(nth)
			stuck := ""
			for _, pth := range paths {
				progress := false
				if pth.Leaving && len(pth.Leaves) > 0 {
					switch last := pth.Leaves[len(pth.Leaves)-1].(type) {
					case *ast.ReturnStmt:
						progress = true
					case *ast.BranchStmt:
						if last.Tok != token.CONTINUE {
							progress = true
						}
					}
				}
				for _, leaf := range pth.Leaves {
					if _, isCond := leaf.(ast.Expr); isCond {
						continue
					}
					if changes(leaf) {
						progress = true
					}
					// a call that may not return
					ast.Inspect(leaf, func(m ast.Node) bool {
						if c, ok := m.(*ast.CallExpr); ok {
							if id, ok := ast.Unparen(c.Fun).(*ast.Ident); ok && id.Name == "panic" {
								progress = true
							}
						}
						return true
					})
				}
				if !progress && stuck == "" {
					stuck = joinStrings(pth.Taken, ", ")
					if stuck == "" {
						stuck = "the unconditional path"
					}
				}
			}
			if stuck == "" {
				r.Pass(rule, construct, fs.Pos(), "every path through the body changes a variable of the condition %s or leaves the loop (%d paths)", exprString(r.Fset, fs.Cond), len(paths))
			} else {
				r.Fail(rule, construct, fs.Pos(), "the loop `for %s` has a path through its body (%s) that neither changes a variable the condition reads nor leaves the loop: once that path is taken the loop is re-entered in the same state and takes it again — translation of such a query never returns", exprString(r.Fset, fs.Cond), stuck)
			}
			return true
		})
	}
	r.Ob(rule, "translation-path:scanned", token.NoPos, true, "%d condition-governed loops on the translation path examined", n)
}
