package main

// C04-R9 decode-once: a decoder that is not idempotent — un-escaping doubled backticks halves every run of them — is
// applied exactly once to a token's text. Applying it to a value that already went through it (directly, or because a
// helper hands back decoded text) decodes twice: the key `a````b`, which names a``b, becomes a`b, and the SQL addresses
// another property than the query named. The rule follows the argument of every decoder call through locals and through
// the returns of same-package helpers.

import (
	"go/ast"
	"go/token"
	"go/types"
	"strings"

	"golang.org/x/tools/go/packages"
)

func checkDecodeOnce(r *Run, rule string, pkgs ...*packages.Package) {
	isDecoder := func(fn *types.Func) bool {
		return fn != nil && fn.Pkg() != nil && strings.HasPrefix(fn.Pkg().Path(), modPath) && strings.HasPrefix(fn.Name(), "Unescape")
	}
	n := 0
	for _, p := range pkgs {
		info := p.TypesInfo
		decls := FuncDecls(p)
		// decoded: the expression is (or may be) the output of a decoder
		var decoded func(fd *ast.FuncDecl, e ast.Expr, depth int) (bool, string)
		decoded = func(fd *ast.FuncDecl, e ast.Expr, depth int) (bool, string) {
			if depth > 4 {
				return false, ""
			}
			e = ast.Unparen(e)
			switch x := e.(type) {
			case *ast.CallExpr:
				fn := calleeOf(info, x)
				if isDecoder(fn) {
					return true, fn.Name()
				}
				if fn == nil || fn.Pkg() != p.Types {
					return false, ""
				}
				hd := decls[declKeyOf(fn)]
				if hd == nil || hd.Body == nil {
					return false, ""
				}
				found, via := false, ""
				ast.Inspect(hd.Body, func(m ast.Node) bool {
					if _, isLit := m.(*ast.FuncLit); isLit {
						return false
					}
					if rs, ok := m.(*ast.ReturnStmt); ok && len(rs.Results) >= 1 {
						if d, v := decoded(hd, rs.Results[0], depth+1); d {
							found, via = true, fn.Name()+" (which returns the output of "+v+")"
						}
					}
					return true
				})
				return found, via
			case *ast.Ident:
				if def := resolveLocalCopy(info, fd.Body, x); def != ast.Expr(x) {
					return decoded(fd, def, depth+1)
				}
			}
			return false, ""
		}
		for _, name := range sortedKeys(decls) {
			fd := decls[name]
			if fd.Body == nil {
				continue
			}
			ast.Inspect(fd.Body, func(x ast.Node) bool {
				call, ok := x.(*ast.CallExpr)
				if !ok || len(call.Args) != 1 || !isDecoder(calleeOf(info, call)) {
					return true
				}
				n++
				construct := funcDeclName(fd) + ":" + calleeOf(info, call).Name() + "(" + exprString(r.Fset, call.Args[0]) + ")"
				if twice, via := decoded(fd, call.Args[0], 0); twice {
					r.Fail(rule, construct, call.Pos(), "%s is applied to text that is already decoded — it comes from %s: every doubled backtick that the first pass turned into one is halved again, so the key addresses another property than the query named", calleeOf(info, call).Name(), via)
				} else {
					r.Pass(rule, construct, call.Pos(), "applied to text that has not been through the decoder")
				}
				return true
			})
		}
	}
	if n == 0 {
		r.Note("%s: no call of an Unescape… decoder found", rule)
	}
	_ = token.NoPos
}
