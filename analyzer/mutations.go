package main

// Checker self-test: semantic mutations of /repo applied in memory (packages.Config.Overlay).
// Each must make the named rule fire on the mutated construct. Run with -selftest.

func init() {
	mutations["C09"] = []Mutation{
		{Name: "drop-updating-filter", File: "cypher/frontend/filter.go", Old: "\t\t&UpdatingNotAllowedClauseFilter{},\n", New: "", Expect: "C09-O4-dominance|oC_Create"},
		{Name: "conditional-filter-error", File: "cypher/frontend/filter.go",
			Old: "func (s *SpecifiedParametersFilter) EnterOC_Parameter(ctx *parser.OC_ParameterContext) {\n\ts.ctx.AddErrors(ErrUserSpecifiedParametersNotSupported)",
			New: "func (s *SpecifiedParametersFilter) EnterOC_Parameter(ctx *parser.OC_ParameterContext) {\n\tif len(ctx.GetText()) > 3 {\n\t\ts.ctx.AddErrors(ErrUserSpecifiedParametersNotSupported)\n\t}", Expect: "C09-O4-dominance|oC_Parameter"},
		{Name: "reset-errors", File: "cypher/frontend/parse.go", Old: "\t// Collect errors\n", New: "\tif len(ctx.Errors) == 1 {\n\t\tctx.Errors = nil\n\t}\n", Expect: "C09-O3-errors-append-only"},
		{Name: "return-nil-error", File: "cypher/frontend/parse.go", Old: "return queryVisitor.Query, errors.Join(ctx.Errors...)", New: "_ = errors.Join\n\treturn queryVisitor.Query, nil", Expect: "C09-O3-errors-returned|parseCypher"},
		{Name: "skip-filters-sometimes", File: "cypher/frontend/context.go", Old: "\t// Filter entry for this rule\n\tfor _, filter := range s.filters {", New: "\tif len(s.visitorStack) > 40 {\n\t\treturn\n\t}\n\tfor _, filter := range s.filters {", Expect: "C09-O2-dispatch-loop"},
		{Name: "foreach-supported", File: "cypher/frontend/context.go", Old: "func (s *BaseVisitor) EnterOC_LegacyParameter(c *parser.OC_LegacyParameterContext) {\n\ts.newUnsupportedRuleError(c)\n}", New: "func (s *BaseVisitor) EnterOC_LegacyParameter(c *parser.OC_LegacyParameterContext) {\n}", Expect: "C09-O4-dominance|oC_LegacyParameter"},
	}
	mutations["C07"] = []Mutation{
		{Name: "union-dropped", File: "cypher/frontend/context.go", Old: "func (s *BaseVisitor) EnterOC_Union(c *parser.OC_UnionContext) {\n\ts.newUnsupportedRuleError(c)\n}", New: "func (s *BaseVisitor) EnterOC_Union(c *parser.OC_UnionContext) {\n}", Expect: "×oC_Union"},
		{Name: "desc-ignored", File: "cypher/frontend/query.go", Old: "ctx.GetToken(parser.CypherLexerDESC, 0) != nil || ", New: "", Expect: "oC_SortItem:T:DESC"},
		{Name: "distinct-ignored", File: "cypher/frontend/query.go", Old: "\tif HasTokens(ctx, parser.CypherLexerDISTINCT) {\n\t\tdistinct = true\n\t}\n", New: "", Expect: "oC_ProjectionBody:T:DISTINCT"},
		{Name: "emitter-ignores-optional", File: "cypher/models/cypher/format/format.go", Old: "if readingClause.Match.Optional {", New: "if false {", Expect: "C07-R2-emitter-field|Match.Optional"},
	}
	mutations["C08"] = []Mutation{
		{Name: "push-guard-weakened", File: "cypher/frontend/atom.go", Old: "if ctx.NULL() == nil && ctx.StringLiteral() == nil {\n\t\ts.ctx.Enter(NewLiteralVisitor())", New: "if ctx.NULL() == nil {\n\t\ts.ctx.Enter(NewLiteralVisitor())", Expect: "C08-R1-push-pop|AtomVisitor×oC_Literal"},
		{Name: "pop-type-mismatch", File: "cypher/frontend/query.go", Old: "s.currentItem.Alias = s.ctx.Exit().(*VariableVisitor).Variable", New: "s.currentItem.Alias = cypher.NewVariableWithSymbol(s.ctx.Exit().(*SymbolicNameOrReservedWordVisitor).Name)", Expect: "C08-R1-push-pop|ProjectionVisitor×oC_Variable"},
		{Name: "conversion-error-dropped", File: "cypher/frontend/literal.go", Old: "\t\ts.ctx.AddErrors(fmt.Errorf(\"invalid double literal: %s - %w\", text, err))", New: "\t\t_ = text", Expect: "C08-R4-conversion-error|LiteralVisitor.EnterOC_DoubleLiteral"},
		{Name: "empty-guard-untrimmed", File: "cypher/frontend/parse.go", Old: "len(formattedInput) == 0", New: "len(input) == 0", Expect: "C08-R6-empty-input"},
		{Name: "new-panic", File: "cypher/frontend/literal.go", Old: "\t\ts.ctx.AddErrors(fmt.Errorf(\"invalid boolean literal: %s - %w\", text, err))", New: "\t\tpanic(fmt.Errorf(\"invalid boolean literal: %s - %w\", text, err))", Expect: "EnterOC_BooleanLiteral"},
		{Name: "standalone-call-accepted", File: "cypher/frontend/context.go", Old: "func (s *BaseVisitor) EnterOC_StandaloneCall(c *parser.OC_StandaloneCallContext) {\n\ts.newUnsupportedRuleError(c)\n}", New: "func (s *BaseVisitor) EnterOC_StandaloneCall(c *parser.OC_StandaloneCallContext) {\n}", Expect: "C08-R3-result-assigned"},
	}
	mutations["C11"] = []Mutation{
		{Name: "copy-drops-field", File: "cypher/models/cypher/model.go", Old: "\t\tOptional: s.Optional,\n", New: "", Expect: "C11-copy-field|Match.Optional"},
		{Name: "copy-aliases-slice", File: "cypher/models/cypher/model.go", Old: "\t\tParts:           Copy(s.Parts),", New: "\t\tParts:           s.Parts,", Expect: "C11-copy-field|MultiPartQuery.Parts"},
		{Name: "copy-case-removed", File: "cypher/models/cypher/copy.go", Old: "\tcase *Unwind:\n\t\treturn any(typedValue.copy()).(T)\n\n", New: "", Expect: "C11-copy-case|Unwind"},
		{Name: "structural-skips-alias", File: "cypher/models/walk/walk_cypher.go", Old: "\t\tif typedNode.Alias != nil {\n\t\t\tnextCursor.AddBranches(typedNode.Alias)\n\t\t}\n", New: "", Expect: "C11-walk-structural-child|ProjectionItem.Alias"},
		{Name: "generic-no-done-after-enter", File: "cypher/models/walk/walk.go", Old: "\t\t\tif visitor.Done() {\n\t\t\t\treturn nil\n\t\t\t}\n\t\t}\n\n\t\tif !nextNode.HasNext() {", New: "\t\t}\n\n\t\tif !nextNode.HasNext() {", Expect: "C11-generic-stop-gates"},
		{Name: "nil-guard-removed", File: "cypher/models/walk/walk_cypher.go", Old: "func newCypherWalkCursor(node cypher.SyntaxNode) (*Cursor[cypher.SyntaxNode], error) {\n\tif isNilNode(node) {\n\t\treturn nil, fmt.Errorf(\"unable to negotiate cypher model type %T into a translation cursor\", node)\n\t}\n", New: "func newCypherWalkCursor(node cypher.SyntaxNode) (*Cursor[cypher.SyntaxNode], error) {\n", Expect: "C11-walk-nil-guard|newCypherWalkCursor"},
	}
	mutations["C10"] = []Mutation{
		{Name: "xor-operand-unwrapped", File: "cypher/models/cypher/format/format.go", Old: "s.writeOperand(output, precedenceConjunction, joinedExpression)", New: "s.WriteExpression(output, joinedExpression)", Expect: "C10-R1-precedence|Conjunction>ExclusiveDisjunction"},
		{Name: "precedence-order-swapped", File: "cypher/models/cypher/format/format.go", Old: "\tprecedenceExclusiveDisjunction\n\tprecedenceConjunction\n", New: "\tprecedenceConjunction\n\tprecedenceExclusiveDisjunction\n", Expect: "C10-R1-precedence|Conjunction>ExclusiveDisjunction"},
		{Name: "wrap-condition-inverted", File: "cypher/models/cypher/format/format.go", Old: "if operandPrecedence(operand) >= parentPrecedence {", New: "if operandPrecedence(operand) > parentPrecedence+1 {", Expect: "C10-R1-precedence"},
		{Name: "float-as-integer", File: "cypher/models/cypher/format/format.go", Old: "\tif !strings.ContainsAny(formatted, \".eEIN\") {\n\t\tformatted += \".0\"\n\t}\n", New: "\t_ = strings.ContainsAny\n", Expect: "C10-R3-literal-class"},
		{Name: "emitter-ignores-exclusive", File: "cypher/models/cypher/format/format.go", Old: "if typedExpression.IsExclusive && len(typedExpression.Kinds) > 1 {", New: "if false && len(typedExpression.Kinds) > 1 {", Expect: "C10-R2-emitter-field|KindMatcher.IsExclusive"},
	}
	mutations["C16"] = []Mutation{
		{Name: "get-without-lock", File: "cache/sieve.go", Old: "func (s *Sieve[K, V]) Get(key K) (V, bool) {\n\ts.rwLock.RLock()\n\tdefer s.rwLock.RUnlock()\n", New: "func (s *Sieve[K, V]) Get(key K) (V, bool) {\n", Expect: "C16-R1-guarded-by|Sieve.Get"},
		{Name: "put-under-read-lock", File: "cache/nemap.go", Old: "func (s *NonExpiringMapCache[K, V]) Put(key K, value V) {\n\ts.rwLock.Lock()\n\tdefer s.rwLock.Unlock()", New: "func (s *NonExpiringMapCache[K, V]) Put(key K, value V) {\n\ts.rwLock.RLock()\n\tdefer s.rwLock.RUnlock()", Expect: "C16-R1-guarded-by|NonExpiringMapCache.Put:store"},
		{Name: "capacity-guard-removed", File: "cache/nemap.go", Old: "} else if int(s.stats.Size()) < s.stats.Capacity {", New: "} else {", Expect: "C16-R3-bounded|NonExpiringMapCache.Put:store-insert"},
		{Name: "evict-only-when-over", File: "cache/sieve.go", Old: "\tif s.queue.Len() >= int(s.stats.Capacity) {\n\t\ts.evict()\n\t}\n", New: "", Expect: "C16-R3-bounded|Sieve.putEntry:store-insert"},
		{Name: "size-not-decremented", File: "cache/sieve.go", Old: "\tdelete(s.store, e.key)\n\n\ts.stats.Delete()\n", New: "\tdelete(s.store, e.key)\n", Expect: "C16-R4-pairing|Sieve.removeEntry:delete↔size-1"},
		{Name: "hand-not-repaired", File: "cache/sieve.go", Old: "\t\tif entry.element == s.hand {\n\t\t\ts.hand = s.hand.Prev()\n\t\t}\n", New: "", Expect: "C16-R5-stale-hand|Sieve.Delete"},
		{Name: "reentrant-delete", File: "cache/sieve.go", Old: "\ts.hand = hand.Prev()\n\ts.removeEntry(entry)\n}", New: "\ts.hand = hand.Prev()\n\ts.Delete(entry.key)\n}", Expect: "C16-R1-reentrancy"},
		{Name: "lock-leak", File: "cache/nemap.go", Old: "func (s *NonExpiringMapCache[K, V]) Delete(key K) {\n\ts.rwLock.Lock()\n\tdefer s.rwLock.Unlock()\n", New: "func (s *NonExpiringMapCache[K, V]) Delete(key K) {\n\ts.rwLock.Lock()\n", Expect: "C16-R1-lock-release|NonExpiringMapCache.Delete"},
		{Name: "off-by-one-evict", File: "cache/sieve.go", Old: "if s.queue.Len() >= int(s.stats.Capacity) {", New: "if s.queue.Len() > int(s.stats.Capacity) {", Expect: "C16-R3-bounded|Sieve.putEntry:store-insert"},
		{Name: "off-by-one-admit", File: "cache/nemap.go", Old: "int(s.stats.Size()) < s.stats.Capacity", New: "int(s.stats.Size()) <= s.stats.Capacity", Expect: "C16-R3-bounded|NonExpiringMapCache.Put:store-insert"},
		{Name: "clamp-removed", File: "cache/sieve.go", Old: "\tif capacity <= 0 {\n\t\tcapacity = 1\n\t}\n", New: "", Expect: "C16-R3-capacity-clamp"},
	}
	mutations["C13"] = []Mutation{
		{Name: "and-polarity-flipped", File: "cardinality/roaring64.go", Old: "\t\t\tif !typedProvider.Contains(nextValue) {\n\t\t\t\tremovals.Add(nextValue)", New: "\t\t\tif typedProvider.Contains(nextValue) {\n\t\t\t\tremovals.Add(nextValue)", Expect: "C13-R2-fallback|bitmap64.And:fallback"},
		{Name: "remove-during-iteration", File: "cardinality/roaring32.go", Old: "\t\t\tif !typedProvider.Contains(nextValue) {\n\t\t\t\tremovals.Add(nextValue)", New: "\t\t\tif !typedProvider.Contains(nextValue) {\n\t\t\t\ts.Remove(nextValue)", Expect: "C13-R1-self-iteration|bitmap32.And"},
		{Name: "native-op-wrong", File: "cardinality/roaring64.go", Old: "\t\ts.bitmap.AndNot(typedProvider.bitmap)", New: "\t\ts.bitmap.And(typedProvider.bitmap)", Expect: "C13-R2-native-op|bitmap64.AndNot:native"},
		{Name: "wrapper-unlocked", File: "cardinality/lock.go", Old: "func (s threadSafeDuplex[T]) Contains(value T) bool {\n\ts.lock.Lock()\n\tdefer s.lock.Unlock()\n\n", New: "func (s threadSafeDuplex[T]) Contains(value T) bool {\n", Expect: "C13-R3-wrapper|threadSafeDuplex.Contains"},
		{Name: "wrapper-wrong-delegate", File: "cardinality/lock.go", Old: "func (s threadSafeDuplex[T]) Xor(other Provider[T]) {\n\ts.lock.Lock()\n\tdefer s.lock.Unlock()\n\n\ts.provider.Xor(other)", New: "func (s threadSafeDuplex[T]) Xor(other Provider[T]) {\n\ts.lock.Lock()\n\tdefer s.lock.Unlock()\n\n\ts.provider.Or(other)", Expect: "C13-R3-wrapper|threadSafeDuplex.Xor"},
		{Name: "clone-unwrapped", File: "cardinality/lock.go", Old: "\treturn ThreadSafeDuplex(s.provider.Clone())", New: "\treturn s.provider.Clone()", Expect: "C13-R3-wrapper|threadSafeDuplex.Clone"},
		{Name: "clone-shares-bitmap", File: "cardinality/roaring32.go", Old: "\t\tbitmap: s.bitmap.Clone(),", New: "\t\tbitmap: s.bitmap,", Expect: "C13-R4-clone|bitmap32.Clone"},
		{Name: "or-fallback-dropped", File: "cardinality/roaring32.go", Old: "\t\ttypedProvider.Each(func(nextValue uint32) bool {\n\t\t\ts.Add(nextValue)\n\t\t\treturn true\n\t\t})", New: "\t\ttypedProvider.Each(func(nextValue uint32) bool {\n\t\t\treturn s.Contains(nextValue)\n\t\t})", Expect: "C13-R2-fallback|bitmap32.Or:fallback"},
	}
	mutations["C12"] = []Mutation{
		{Name: "set-keeps-deleted", File: "graph/properties.go", Old: "\tif s.Deleted != nil {\n\t\tdelete(s.Deleted, key)\n\t}\n\n\treturn s\n}\n\nfunc (s *Properties) SetAll", New: "\treturn s\n}\n\nfunc (s *Properties) SetAll", Expect: "C12-R1-effect-summary|Properties.Set"},
		{Name: "delete-keeps-modified", File: "graph/properties.go", Old: "\tif s.Modified != nil {\n\t\tdelete(s.Modified, key)\n\t}\n", New: "", Expect: "C12-R1-effect-summary|Properties.Delete"},
		{Name: "addkinds-keeps-deleted", File: "graph/node.go", Old: "\t\ts.AddedKinds = s.AddedKinds.Add(kind)\n\t\ts.DeletedKinds = s.DeletedKinds.Remove(kind)\n", New: "\t\ts.AddedKinds = s.AddedKinds.Add(kind)\n", Expect: "C12-R1-effect-summary|Node.AddKinds"},
		{Name: "merge-regression", File: "graph/properties.go", Old: "\t\tdelete(s.Deleted, otherKey)\n", New: "", Expect: "C12-R3-abstract-state|Properties.Merge"},
		{Name: "merge-deleted-keeps-modified", File: "graph/properties.go", Old: "\t\tdelete(s.Map, otherDeletedKey)\n\t\tdelete(s.Modified, otherDeletedKey)\n", New: "\t\tdelete(s.Map, otherDeletedKey)\n", Expect: "C12-R3-abstract-state|Properties.Merge"},
		{Name: "driver-ignores-deleted", File: "drivers/pg/node.go", Old: "\t\tif deletedProperties := properties.DeletedProperties(); len(deletedProperties) > 0 {\n\t\t\tupdateStatements = append(updateStatements, query.DeleteProperties(query.Node(), deletedProperties...))\n\t\t}\n", New: "", Expect: "C12-R5-delta-readers|drivers/pg.nodeQuery.Update"},
		{Name: "clone-aliases-deleted", File: "graph/properties.go", Old: "\t\tnewProperties.Deleted = make(map[string]struct{}, len(s.Deleted))\n\t\tfor key := range s.Deleted {\n\t\t\tnewProperties.Deleted[key] = struct{}{}\n\t\t}", New: "\t\tnewProperties.Deleted = s.Deleted", Expect: "C12-R6-clone|Properties.Clone:Deleted"},
		{Name: "set-clears-deleted-conditionally", File: "graph/properties.go", Old: "\tif s.Deleted != nil {\n\t\tdelete(s.Deleted, key)\n\t}\n\n\treturn s\n}\n\nfunc (s *Properties) SetAll", New: "\tif s.Deleted != nil && value != nil {\n\t\tdelete(s.Deleted, key)\n\t}\n\n\treturn s\n}\n\nfunc (s *Properties) SetAll", Expect: "C12-R1-effect-summary|Properties.Set"},
		{Name: "set-wipes-modified", File: "graph/properties.go", Old: "\t} else {\n\t\ts.Modified[key] = struct{}{}\n\t}\n", New: "\t} else {\n\t\ts.Modified = map[string]struct{}{key: {}}\n\t}\n", Expect: "C12-R2-frame|Properties.Set"},
	}
	mutations["C17"] = []Mutation{
		{Name: "submit-before-increment", File: "traversal/traversal.go", Old: "\t\t\t\t\t\t\t\tdescentCount.Add(1)\n\t\t\t\t\t\t\t\tchannels.Submit(traversalCtx, segmentWriterC, descendingSegment)", New: "\t\t\t\t\t\t\t\tchannels.Submit(traversalCtx, segmentWriterC, descendingSegment)\n\t\t\t\t\t\t\t\tdescentCount.Add(1)", Expect: "C17-R1-termination|BreadthFirst:submit"},
		{Name: "decrement-before-expand", File: "traversal/traversal.go", Old: "\t\t\t\tfor {\n\t\t\t\t\tif nextDescent, ok := channels.Receive(traversalCtx, segmentReaderC); !ok {", New: "\t\t\t\tfor {\n\t\t\t\t\tdescentCount.Add(-1)\n\t\t\t\t\tif nextDescent, ok := channels.Receive(traversalCtx, segmentReaderC); !ok {", Expect: "C17-R1-termination|BreadthFirst:decrement"},
		{Name: "coordinator-ignores-close", File: "traversal/traversal.go", Old: "; !ok || descentCount.Load() == 0 {", New: "; descentCount.Load() == 0 && ok {", Expect: "C17-R1-termination|BreadthFirst:coordinator-exit"},
		{Name: "no-wait", File: "traversal/traversal.go", Old: "\t// Wait for all workers to exit\n\tworkerWG.Wait()\n", New: "", Expect: "C17-R2-join-cancel|BreadthFirst:join"},
		{Name: "worker-error-not-cancelling", File: "traversal/traversal.go", Old: "\t\t\t\t// A worker encountered a fatal error, kill the traversal context\n\t\t\t\tdoneFunc()\n", New: "", Expect: "C17-R2-join-cancel|BreadthFirst:go#1:error-path"},
		{Name: "pipe-pops-wrong-end", File: "util/channels/pipe.go", Old: "\t\t\tcase getReaderC() <- getNext():\n\t\t\t\tbuffer.PopFront()", New: "\t\t\tcase getReaderC() <- getNext():\n\t\t\t\tbuffer.PopBack()", Expect: "C17-R3-pipe|BufferedPipe:fifo-ends"},
		{Name: "pipe-flush-no-ctx", File: "util/channels/pipe.go", Old: "\t\t\tselect {\n\t\t\tcase <-ctx.Done():\n\t\t\t\t// If the context was canceled, exit right away\n\t\t\t\treturn\n\n\t\t\tcase readerC <- buffer.Front():", New: "\t\t\tselect {\n\t\t\tcase readerC <- buffer.Front():", Expect: "C17-R3-pipe|BufferedPipe:flush:ctx-done"},
		{Name: "pipe-no-close", File: "util/channels/pipe.go", Old: "\t\tdefer close(readerC)\n\n", New: "", Expect: "C17-R3-pipe|BufferedPipe:close-reader"},
		{Name: "pipe-sends-when-empty", File: "util/channels/pipe.go", Old: "\t\t\tif buffer.Len() > 0 {\n\t\t\t\treturn readerC\n\t\t\t}\n\n\t\t\treturn nil", New: "\t\t\treturn readerC", Expect: "C17-R3-pipe|BufferedPipe:nil-channel"},
	}
	mutations["C19"] = []Mutation{
		{Name: "manifest-written-in-place", File: "retriever/manifest.go", Old: "\tif err := os.WriteFile(tempPath, payload, 0o600); err != nil {", New: "\tif err := os.WriteFile(finalPath, payload, 0o600); err != nil {", Expect: "C19-R1-publish-by-rename|writeManifest:WriteFile"},
		{Name: "file-close-error-ignored", File: "retriever/compression.go", Old: "\tif err := s.file.Close(); err != nil {\n\t\t_ = os.Remove(s.tempPath)\n\n\t\treturn FileManifest{}, fmt.Errorf(\"close fragment file: %w\", err)\n\t}\n", New: "\t_ = s.file.Close()\n", Expect: "C19-R2-close-before-rename|compressedJSONLinesWriter.Close:rename:closes"},
		{Name: "commit-before-publish", File: "retriever/dump.go", Old: "\t\tfileEntry, err := closeFragmentWriter(fragmentWriter, fragmentRelativePath, PhaseNodes, shardActionCounts.mapValue())\n\t\tfragmentWriter = nil\n\t\tif err != nil {\n\t\t\treturn err\n\t\t}\n", New: "\t\tif onCommit != nil {\n\t\t\tif err := onCommit(FileManifest{Path: fragmentRelativePath, Phase: PhaseNodes}, lastWrittenID); err != nil {\n\t\t\t\treturn err\n\t\t\t}\n\t\t}\n\t\tfileEntry, err := closeFragmentWriter(fragmentWriter, fragmentRelativePath, PhaseNodes, shardActionCounts.mapValue())\n\t\tfragmentWriter = nil\n\t\tif err != nil {\n\t\t\treturn err\n\t\t}\n", Expect: "C19-R3-record-after-publish|dumpNodePhase:order"},
		{Name: "no-final-flush", File: "retriever/dump.go", Old: "\t\treturn nil, err\n\t}\n\n\tif err := flush(); err != nil {\n\t\treturn nil, err\n\t}\n\n\treturn files, nil\n}\n\nfunc dumpEdgePhase", New: "\t\treturn nil, err\n\t}\n\n\treturn files, nil\n}\n\nfunc dumpEdgePhase", Expect: "C19-R3-record-after-publish|dumpNodePhase:final-flush"},
		{Name: "resume-skips-file-validation", File: "retriever/dump_checkpoint.go", Old: "\tif err := validateDumpCheckpointFiles(outputDir, value); err != nil {\n\t\treturn dumpCheckpoint{}, err\n\t}\n\n\treturn value, nil", New: "\treturn value, nil", Expect: "C19-R5-resume-gate|loadCompatibleDumpCheckpoint:validateDumpCheckpointFiles"},
		{Name: "identity-drops-shard-size", File: "retriever/dump_checkpoint.go", Old: "\t\tShardSize:        options.ShardSize,\n", New: "", Expect: "C19-R6-identity|DumpOptions.ShardSize"},
		{Name: "rollback-keeps-fragment", File: "retriever/dump.go", Old: "\t\t\tif err := onCommit(fileEntry, lastWrittenID); err != nil {\n\t\t\t\t_ = os.Remove(filepath.Join(options.OutputDir, filepath.FromSlash(fileEntry.Path)))\n\t\t\t\tfiles = files[:len(files)-1]\n\t\t\t\treturn err\n\t\t\t}\n\t\t}\n\t\tshardActionCounts = scrubActionCounts{}\n\t\tshardNumber++\n\n\t\treturn nil\n\t}\n\n\tif _, err := scanDatabaseNodesFrom", New: "\t\t\tif err := onCommit(fileEntry, lastWrittenID); err != nil {\n\t\t\t\tfiles = files[:len(files)-1]\n\t\t\t\treturn err\n\t\t\t}\n\t\t}\n\t\tshardActionCounts = scrubActionCounts{}\n\t\tshardNumber++\n\n\t\treturn nil\n\t}\n\n\tif _, err := scanDatabaseNodesFrom", Expect: "C19-R3-record-after-publish|dumpNodePhase:rollback"},
		{Name: "manifest-per-graph", File: "retriever/dump.go", Old: "\t\tcheckpoint.Current = nil\n\t\tif err := writeDumpCheckpoint(options.OutputDir, checkpoint); err != nil {", New: "\t\tcheckpoint.Current = nil\n\t\t_ = writeManifest(options.OutputDir, checkpoint.Manifest)\n\t\tif err := writeDumpCheckpoint(options.OutputDir, checkpoint); err != nil {", Expect: "C19-R4-manifest-last"},
	}
}
