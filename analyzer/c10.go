package main

// C10 — emitted Cypher means the same as the model it was emitted from (structural clauses).

import (
	"go/ast"
	"go/constant"
	"go/token"
	"go/types"
	"strings"

	"golang.org/x/tools/go/packages"
)

func init() { register("C10", checkC10) }

// chain of boolean/comparison rules, loosest first, as nested in the grammar
var precedenceRules = []string{"oC_OrExpression", "oC_XorExpression", "oC_AndExpression", "oC_NotExpression", "oC_ComparisonExpression"}

func checkC10(r *Run) propMeta {
	meta := propMeta{Level: "other",
		Explanation: "Decides three structural necessary conditions of emit/parse agreement for builder-made models: (R1) precedence closure — binding strength of each boolean/negation/comparison model type is read from the nesting of the grammar rules that produce it; for every parent type P and looser child type C that a P node can hold, the emitter's case for P must parenthesise a bare C (otherwise the text regroups: And(Xor(a,b),c) → `a xor b and c` = a xor (b and c)); (R2) the emitter reads every field of every model type it handles (all-of/any-of bit, DISTINCT, OPTIONAL, ...); (R3) the literal formatter cannot print a float as text of the integer-literal class. NOT decided: value equality of literals, string escapes, list/map contents, parameter values.",
		Assumptions: []string{"the model↔grammar-rule correspondence is read from the parser front end (which handler constructs which model type)"},
		TrustedBase: []string{"go/types", "Cypher.g4", "this analyser"}}
	if err := r.Load("./..."); err != nil {
		r.Fatal("load: %v", err)
	}
	g := loadGrammar(r)
	vm := BuildVisitorModel(r)
	checkPrecedenceClosure(r, g, vm)
	checkEmitterCoverage(r, "C10-R2-emitter-field")
	checkLiteralClass(r)
	checkRenderStateless(r)
	checkNamespaceSeparator(r)
	checkHoistUnderConjunctionOnly(r)
	checkBuilderCopiesCriteria(r)
	checkEscapeOnce(r)
	checkRewriteFlagState(r)
	checkLazyMapReadThroughAccessor(r)
	checkEmitterPackageState(r, "C10-R4-render-function-of-model")
	r.Floor("C10-R9-rewritten-implies-parameters", 2)
	r.Floor("C10-R1-precedence", 6)
	r.Floor("C10-R2-emitter-field", 60)
	r.Floor("C10-R3-literal-class", 2)
	return meta
}

// modelTypeOfRule: the cypher model type that the front end constructs for each precedence rule.
func modelTypeOfRule(r *Run, vm *VisitorModel) map[string]*types.Named {
	out := map[string]*types.Named{}
	cp := r.MustPkg("cypher/models/cypher")
	info := vm.pkg.TypesInfo
	for _, rule := range precedenceRules {
		for _, v := range []string{"ExpressionVisitor"} {
			vt := vm.Types[v]
			if vt == nil || vt.Enter[rule] == nil {
				continue
			}
			for _, body := range bodyWithHelpers(vm.pkg, vt.Enter[rule].Decl) {
				ast.Inspect(body, func(n ast.Node) bool {
					if out[rule] != nil {
						return false
					}
					switch x := n.(type) {
					case *ast.CompositeLit:
						if tv, ok := info.Types[x]; ok {
							if nt := namedOf(tv.Type); nt != nil && nt.Obj().Pkg() == cp.Types {
								out[rule] = nt
							}
						}
					case *ast.CallExpr:
						if fn := calleeOf(info, x); fn != nil && fn.Pkg() == cp.Types {
							res := fn.Type().(*types.Signature).Results()
							if res.Len() == 1 {
								if nt := namedOf(res.At(0).Type()); nt != nil && nt.Obj().Pkg() == cp.Types {
									if _, isStruct := nt.Underlying().(*types.Struct); isStruct {
										out[rule] = nt
									}
								}
							}
						}
					}
					return true
				})
			}
		}
	}
	// the comparison rule pushes a ComparisonVisitor; its model type is the struct it fills
	if out["oC_ComparisonExpression"] == nil {
		if tn, ok := cp.Types.Scope().Lookup("Comparison").(*types.TypeName); ok {
			out["oC_ComparisonExpression"] = tn.Type().(*types.Named)
		}
	}
	return out
}

func checkPrecedenceClosure(r *Run, g *Grammar, vm *VisitorModel) {
	// verify the chain is nested in the grammar in this order
	for i := 0; i+1 < len(precedenceRules); i++ {
		found := false
		for _, c := range g.Children(precedenceRules[i]) {
			if c == precedenceRules[i+1] {
				found = true
			}
		}
		if !found {
			r.Undecide("C10-R1: grammar rule %s no longer nests %s; precedence chain changed", precedenceRules[i], precedenceRules[i+1])
			return
		}
	}
	byRule := modelTypeOfRule(r, vm)
	if len(byRule) < 5 {
		r.Undecide("C10-R1: model types of the precedence rules not identified (%d of 5)", len(byRule))
		return
	}
	strength := map[*types.TypeName]int{}
	var order []*types.Named
	for i, rule := range precedenceRules {
		strength[byRule[rule].Obj()] = i
		order = append(order, byRule[rule])
	}
	emit := r.MustPkg("cypher/models/cypher/format")
	decls := FuncDecls(emit)
	we := decls["Emitter.WriteExpression"]
	if we == nil {
		r.Fatal("format.Emitter.WriteExpression not found")
	}
	// case clause per model type
	clauses := map[*types.TypeName]*ast.CaseClause{}
	ast.Inspect(we.Body, func(n ast.Node) bool {
		ts, ok := n.(*ast.TypeSwitchStmt)
		if !ok {
			return true
		}
		for _, c := range ts.Body.List {
			cc := c.(*ast.CaseClause)
			for _, te := range cc.List {
				if tv, ok := emit.TypesInfo.Types[te]; ok {
					if nt := namedOf(tv.Type); nt != nil {
						if _, seen := clauses[nt.Obj()]; !seen {
							clauses[nt.Obj()] = cc
						}
					}
				}
			}
		}
		return false
	})
	// parents: each precedence type (and PartialComparison as the holder of a comparison's right operand)
	parents := append([]*types.Named(nil), order[1:]...)
	if tn, ok := r.MustPkg("cypher/models/cypher").Types.Scope().Lookup("PartialComparison").(*types.TypeName); ok {
		parents = append(parents, tn.Type().(*types.Named))
		strength[tn] = strength[byRule["oC_ComparisonExpression"].Obj()]
	}
	for _, p := range parents {
		cc := clauses[p.Obj()]
		if cc == nil {
			r.Undecide("C10-R1: emitter has no case for %s", p.Obj().Name())
			continue
		}
		for _, c := range order {
			sameLevelChain := strength[c.Obj()] == strength[p.Obj()] && c.Obj().Name() == "Comparison"
			if strength[c.Obj()] >= strength[p.Obj()] && !sameLevelChain {
				continue
			}
			construct := p.Obj().Name() + ">" + c.Obj().Name()
			if sameLevelChain {
				// a comparison among the operands of a comparison is read as one more link of the chain
				wraps, decided := evalPrecedenceIdiom(emit, decls, cc, c)
				if decided && wraps {
					r.Pass("C10-R1-precedence", construct, cc.Pos(), "the emitter's %s case parenthesises a Comparison operand", p.Obj().Name())
				} else {
					r.Fail("C10-R1-precedence", construct, cc.Pos(), "a %s may hold a bare Comparison as operand; the emitter writes it without parentheses, so `(a = b) = c` becomes the comparison chain `a = b = c`", p.Obj().Name())
				}
				continue
			}
			wraps, decided := evalPrecedenceIdiom(emit, decls, cc, c)
			if !decided {
				wraps = wrapsLooser(emit, decls, cc, c)
			}
			if wraps {
				r.Pass("C10-R1-precedence", construct, cc.Pos(), "the emitter's %s case parenthesises a bare %s operand", p.Obj().Name(), c.Obj().Name())
			} else {
				r.Fail("C10-R1-precedence", construct, cc.Pos(), "a %s may hold a bare %s (e.g. built with the exported constructors), which binds looser; the emitter writes it without parentheses, so the text parses back with different grouping", p.Obj().Name(), c.Obj().Name())
			}
		}
	}
	checkArithmeticPrecedence(r, emit, decls, clauses)
}

// checkArithmeticPrecedence (R1, arithmetic part): the binding strength of an ArithmeticExpression depends on the
// operators it holds, so the pairs cannot be enumerated by type. Three structural conditions are necessary for any
// grouping to survive: (A) the emitter's arithmetic cases hand their operands to the helper that can write "(", never
// to WriteExpression directly; (B) the precedence function does not class arithmetic nodes with the atoms; (C) the
// precedence demanded of a partial's right operand is computed from the partial's operator and is strictly tighter.
func checkArithmeticPrecedence(r *Run, emit *packages.Package, decls map[string]*ast.FuncDecl, clauses map[*types.TypeName]*ast.CaseClause) {
	info := emit.TypesInfo
	cy := r.MustPkg("cypher/models/cypher")
	lookup := func(name string) *types.TypeName {
		tn, _ := cy.Types.Scope().Lookup(name).(*types.TypeName)
		return tn
	}
	writesParen := func(fd *ast.FuncDecl) bool {
		f := false
		if fd == nil || fd.Body == nil {
			return false
		}
		ast.Inspect(emitterHelperBody(emit, fd), func(m ast.Node) bool {
			if bl, ok := m.(*ast.BasicLit); ok && bl.Kind == token.STRING && bl.Value == `"("` {
				f = true
			}
			return true
		})
		return f
	}
	declOf := func(fn *types.Func) *ast.FuncDecl {
		for _, fd := range decls {
			if info.Defs[fd.Name] == fn {
				return fd
			}
		}
		return nil
	}
	var precedenceFn *ast.FuncDecl
	for _, spec := range []struct {
		typ    string
		fields []string
	}{{"ArithmeticExpression", []string{"Left"}}, {"PartialArithmeticExpression", []string{"Right"}}, {"UnaryAddOrSubtractExpression", []string{"Right"}}} {
		tn := lookup(spec.typ)
		if tn == nil || clauses[tn] == nil {
			r.Undecide("C10-R1: emitter case for %s not found", spec.typ)
			return
		}
		cc := clauses[tn]
		for _, field := range spec.fields {
			construct := spec.typ + "." + field
			var viaHelper, direct *ast.CallExpr
			for _, st := range cc.Body {
				ast.Inspect(st, func(n ast.Node) bool {
					call, ok := n.(*ast.CallExpr)
					if !ok {
						return true
					}
					usesField := false
					for _, a := range call.Args {
						if sel, ok := ast.Unparen(a).(*ast.SelectorExpr); ok && sel.Sel.Name == field {
							usesField = true
						}
					}
					if !usesField {
						return true
					}
					fn := calleeOf(info, call)
					if fn == nil {
						return true
					}
					if fn.Name() == "WriteExpression" {
						direct = call
					} else if fd := declOf(fn); writesParen(fd) {
						viaHelper = call
						// the helper's comparison names the precedence function
						ast.Inspect(fd.Body, func(m ast.Node) bool {
							if c2, ok := m.(*ast.CallExpr); ok {
								if g := calleeOf(info, c2); g != nil && g.Pkg() == emit.Types && declOf(g) != nil && returnsInt(g) {
									if _, k := typeSwitchInts(emit, decls, declOf(g), tn.Type().(*types.Named)); k || hasTypeSwitch(declOf(g)) {
										precedenceFn = declOf(g)
									}
								}
							}
							return true
						})
					}
					return true
				})
			}
			switch {
			case direct != nil:
				r.Fail("C10-R1-precedence", construct, direct.Pos(), "the emitter writes %s.%s with WriteExpression directly: an operand that binds looser than its position allows (2 * (3 + 4), -(a + b)) is written without parentheses and regroups when parsed", spec.typ, field)
			case viaHelper == nil:
				r.Fail("C10-R1-precedence", construct, cc.Pos(), "the emitter's %s case never writes %s", spec.typ, field)
			default:
				ok := true
				why := ""
				if spec.typ == "PartialArithmeticExpression" {
					// (C) the demanded precedence mentions the Operator field and adds a positive constant
					ok = false
					why = "the precedence demanded of the right operand is not `<precedence of the partial's operator> + c` with c > 0: a right operand of the same level (a - (b - c)) joins the operators to its left"
					for _, a := range viaHelper.Args {
						if be, isBin := ast.Unparen(a).(*ast.BinaryExpr); isBin && be.Op == token.ADD {
							constSide, otherSide := be.Y, be.X
							if tv, has := info.Types[be.X]; has && tv.Value != nil {
								constSide, otherSide = be.X, be.Y
							}
							if tv, has := info.Types[constSide]; has && tv.Value != nil {
								if c, exact := constantInt64(tv); exact && c > 0 {
									mentionsOp := false
									ast.Inspect(otherSide, func(m ast.Node) bool {
										if sel, isSel := m.(*ast.SelectorExpr); isSel && sel.Sel.Name == "Operator" {
											mentionsOp = true
										}
										return true
									})
									if mentionsOp {
										ok = true
									}
								}
							}
						}
					}
				}
				if ok {
					r.Pass("C10-R1-precedence", construct, viaHelper.Pos(), "written through the parenthesising helper")
				} else {
					r.Fail("C10-R1-precedence", construct, viaHelper.Pos(), "%s", why)
				}
			}
		}
	}
	// (B)
	if precedenceFn == nil {
		r.Fail("C10-R1-precedence", "operand-precedence:arithmetic", token.NoPos, "no precedence function is consulted for arithmetic operands")
		return
	}
	for _, name := range []string{"ArithmeticExpression", "UnaryAddOrSubtractExpression"} {
		tn := lookup(name)
		hasCase := false
		ast.Inspect(precedenceFn.Body, func(n ast.Node) bool {
			if cc, ok := n.(*ast.CaseClause); ok {
				for _, te := range cc.List {
					if tv, has := info.Types[te]; has {
						if nt := namedOf(tv.Type); nt != nil && nt.Obj() == tn {
							hasCase = true
						}
					}
				}
			}
			return true
		})
		if hasCase {
			r.Pass("C10-R1-precedence", "operand-precedence:"+name, precedenceFn.Pos(), "%s has a precedence of its own", name)
		} else {
			r.Fail("C10-R1-precedence", "operand-precedence:"+name, precedenceFn.Pos(), "%s has no case in %s and is classed with the atoms: it is never parenthesised", name, precedenceFn.Name.Name)
		}
	}
}

func returnsInt(fn *types.Func) bool {
	res := fn.Type().(*types.Signature).Results()
	if res.Len() != 1 {
		return false
	}
	b, ok := res.At(0).Type().Underlying().(*types.Basic)
	return ok && b.Info()&types.IsInteger != 0
}

func hasTypeSwitch(fd *ast.FuncDecl) bool {
	if fd == nil || fd.Body == nil {
		return false
	}
	found := false
	ast.Inspect(fd.Body, func(n ast.Node) bool {
		if _, ok := n.(*ast.TypeSwitchStmt); ok {
			found = true
		}
		return !found
	})
	return found
}

// wrapsLooser: code reachable (≤ 2 same-package calls) from the case clause contains a write of "(" whose
// controlling condition or enclosing type-switch case tests the operand against *cypher.<child>, directly or
// through a same-package function used in the condition.
func wrapsLooser(p *packages.Package, decls map[string]*ast.FuncDecl, cc *ast.CaseClause, child *types.Named) bool {
	info := p.TypesInfo
	mentionsChild := func(n ast.Node, depth int) bool { return false }
	var mentions func(n ast.Node, depth int) bool
	mentions = func(n ast.Node, depth int) bool {
		found := false
		ast.Inspect(n, func(m ast.Node) bool {
			if found {
				return false
			}
			switch x := m.(type) {
			case *ast.Ident:
				if tn, ok := info.Uses[x].(*types.TypeName); ok && tn == child.Obj() {
					found = true
				}
			case *ast.CallExpr:
				if depth < 2 {
					if fn := calleeOf(info, x); fn != nil && fn.Pkg() == p.Types {
						for _, fd := range decls {
							if info.Defs[fd.Name] == fn && fd.Body != nil {
								if mentions(fd.Body, depth+1) {
									found = true
								}
							}
						}
					}
				}
			}
			return true
		})
		return found
	}
	_ = mentionsChild
	writesParen := func(n ast.Node) bool {
		f := false
		ast.Inspect(n, func(m ast.Node) bool {
			if bl, ok := m.(*ast.BasicLit); ok && bl.Kind == token.STRING && (bl.Value == `"("` || bl.Value == "`(`") {
				f = true
			}
			return true
		})
		return f
	}
	seen := map[*ast.FuncDecl]bool{}
	var scan func(body ast.Node, depth int) bool
	scan = func(body ast.Node, depth int) bool {
		ok := false
		ast.Inspect(body, func(n ast.Node) bool {
			if ok {
				return false
			}
			switch x := n.(type) {
			case *ast.IfStmt:
				if writesParen(x.Body) && mentions(x.Cond, 0) {
					ok = true
				}
			case *ast.CaseClause:
				for _, e := range x.List {
					if mentions(e, 2) {
						for _, st := range x.Body {
							if writesParen(st) {
								ok = true
							}
						}
					}
				}
			case *ast.CallExpr:
				if depth < 2 {
					if fn := calleeOf(info, x); fn != nil && fn.Pkg() == p.Types && fn.Name() != "WriteExpression" {
						for _, fd := range decls {
							if info.Defs[fd.Name] == fn && fd.Body != nil && !seen[fd] {
								seen[fd] = true
								if scan(fd.Body, depth+1) {
									ok = true
								}
							}
						}
					}
				}
			}
			return true
		})
		return ok
	}
	for _, st := range cc.Body {
		if scan(st, 0) {
			return true
		}
	}
	return false
}

// checkLiteralClass: float kinds must not be printable as integer-literal text.
func checkLiteralClass(r *Run) {
	emit := r.MustPkg("cypher/models/cypher/format")
	info := emit.TypesInfo
	decls := FuncDecls(emit)
	fl := decls["Emitter.formatLiteral"]
	if fl == nil {
		r.Undecide("C10-R3: format.Emitter.formatLiteral not found")
		return
	}
	ast.Inspect(fl.Body, func(n ast.Node) bool {
		ts, ok := n.(*ast.TypeSwitchStmt)
		if !ok {
			return true
		}
		for _, c := range ts.Body.List {
			cc := c.(*ast.CaseClause)
			for _, te := range cc.List {
				tv, ok := info.Types[te]
				if !ok {
					continue
				}
				b, ok := tv.Type.Underlying().(*types.Basic)
				if !ok || b.Info()&types.IsFloat == 0 {
					continue
				}
				construct := "formatLiteral:" + b.Name()
				verdict, why := floatCaseVerdict(emit, decls, cc)
				switch verdict {
				case 0:
					r.Undecide("C10-R3: float case of formatLiteral does not use a recognised formatter")
				case 1:
					r.Pass("C10-R3-literal-class", construct, cc.Pos(), "the float branch ensures a decimal point / exponent in the emitted text (%s)", why)
				default:
					r.Fail("C10-R3-literal-class", construct, cc.Pos(), "%s: the literal is emitted as text of the integer-literal class (1.0 as `1`, 1e19 as `10000000000000000000`), which parses back as an integer literal or not at all", why)
				}
			}
		}
		return false
	})
}

// evalPrecedenceIdiom evaluates the repository's idiom exactly: the case clause calls F(…, K, operand) with a constant
// K; F compares G(operand) with its K parameter; G is a type switch returning constants. The comparison is evaluated
// for the child type and combined with which branch writes "(".
func evalPrecedenceIdiom(p *packages.Package, decls map[string]*ast.FuncDecl, cc *ast.CaseClause, child *types.Named) (wraps bool, decided bool) {
	info := p.TypesInfo
	var enclosing *ast.FuncDecl
	for _, d := range decls {
		if d.Body != nil && d.Body.Pos() <= cc.Pos() && cc.End() <= d.Body.End() {
			enclosing = d
		}
	}
	declOf := func(fn *types.Func) *ast.FuncDecl {
		for _, fd := range decls {
			if info.Defs[fd.Name] == fn {
				return fd
			}
		}
		return nil
	}
	writesParen := func(n ast.Node) bool {
		f := false
		ast.Inspect(n, func(m ast.Node) bool {
			if bl, ok := m.(*ast.BasicLit); ok && bl.Kind == token.STRING && bl.Value == `"("` {
				f = true
			}
			return true
		})
		return f
	}
	var result, found bool
	allAgree := true
	for _, st := range cc.Body {
		ast.Inspect(st, func(n ast.Node) bool {
			call, ok := n.(*ast.CallExpr)
			if !ok {
				return true
			}
			fn := calleeOf(info, call)
			if fn == nil || fn.Pkg() != p.Types || fn.Name() == "WriteExpression" {
				return true
			}
			fd := declOf(fn)
			if fd == nil || fd.Body == nil || fd.Type.Params == nil {
				return true
			}
			// the precedence argument (an int expression whose possible values can be enumerated) and its parameter object
			var kSet map[int64]bool
			var kParam types.Object
			idx := 0
			for _, pl := range fd.Type.Params.List {
				for _, nm := range pl.Names {
					if idx < len(call.Args) {
						if b, isBasic := info.TypeOf(call.Args[idx]).Underlying().(*types.Basic); isBasic && b.Info()&types.IsInteger != 0 {
							if vs, k := possibleInts(p, decls, enclosing, call.Args[idx], map[*ast.FuncDecl]bool{}, 0); k && len(vs) > 0 {
								kSet = vs
								kParam = info.Defs[nm]
							}
						}
					}
					idx++
				}
			}
			if kParam == nil {
				return true
			}
			var evalHelper func(fd *ast.FuncDecl, kParam types.Object, depth int) bool
			evalHelper = func(fd *ast.FuncDecl, kParam types.Object, depth int) bool {
				decidedHere := false
				// the helper is read with its own private helpers inlined (the parentheses may be written by one) and with
				// a condition that was given a name resolved to the comparison it names
				helperBody := emitterHelperBody(p, fd)
				for si, fst := range helperBody.List {
					ifs, ok := fst.(*ast.IfStmt)
					if !ok {
						continue
					}
					be, ok := ast.Unparen(resolveLocalCopy(info, fd.Body, ifs.Cond)).(*ast.BinaryExpr)
					if !ok {
						continue
					}
					var gcall *ast.CallExpr
					paramOnRight := true
					if c1, ok := ast.Unparen(be.X).(*ast.CallExpr); ok {
						if id, ok := ast.Unparen(be.Y).(*ast.Ident); ok && info.Uses[id] == kParam {
							gcall = c1
						}
					}
					if gcall == nil {
						if c2, ok := ast.Unparen(be.Y).(*ast.CallExpr); ok {
							if id, ok := ast.Unparen(be.X).(*ast.Ident); ok && info.Uses[id] == kParam {
								gcall = c2
								paramOnRight = false
							}
						}
					}
					if gcall == nil {
						continue
					}
					gfn := calleeOf(info, gcall)
					if gfn == nil || gfn.Pkg() != p.Types {
						continue
					}
					gSet, ok := typeSwitchInts(p, decls, declOf(gfn), child)
					if !ok {
						continue
					}
					// the comparison must come out the same for every possible pair; a mixed outcome means the operand is
					// not always wrapped
					var t, tSet, mixed bool
					for gv := range gSet {
						for kVal := range kSet {
							l, rr := gv, kVal
							if !paramOnRight {
								l, rr = kVal, gv
							}
							var one bool
							switch be.Op {
							case token.LSS:
								one = l < rr
							case token.LEQ:
								one = l <= rr
							case token.GTR:
								one = l > rr
							case token.GEQ:
								one = l >= rr
							default:
								mixed = true
							}
							if tSet && one != t {
								mixed = true
							}
							t, tSet = one, true
						}
					}
					if !tSet {
						continue
					}
					if mixed {
						found, result = true, false
						allAgree = false
						decidedHere = true
						continue
					}
					bodyWrites := writesParen(ifs.Body)
					bodyReturns := false
					if len(ifs.Body.List) > 0 {
						_, bodyReturns = ifs.Body.List[len(ifs.Body.List)-1].(*ast.ReturnStmt)
					}
					restWrites := false
					for _, later := range helperBody.List[si+1:] {
						if writesParen(later) {
							restWrites = true
						}
					}
					if ifs.Else != nil && writesParen(ifs.Else) {
						restWrites = true
					}
					var w bool
					switch {
					case bodyWrites:
						w = t
					case bodyReturns && restWrites:
						w = !t
					default:
						continue
					}
					if found && w != result {
						allAgree = false
					}
					found, result = true, w
					decidedHere = true
				}
				if decidedHere || depth >= 2 {
					return decidedHere
				}
				// the helper only passes the precedence on (a loop over the operands, a fast path for a single operand): the
				// functions it hands the precedence to are judged, and an operand written through the emitter's general entry
				// on the way is written without grouping
				forwarded := false
				ast.Inspect(fd.Body, func(m ast.Node) bool {
					c2, ok := m.(*ast.CallExpr)
					if !ok {
						return true
					}
					f2 := calleeOf(info, c2)
					if f2 == nil || f2.Pkg() != p.Types {
						return true
					}
					if f2.Name() == "WriteExpression" {
						found, result = true, false
						allAgree = false
						forwarded = true
						return true
					}
					d2 := declOf(f2)
					if d2 == nil || d2.Body == nil || d2.Type.Params == nil || d2 == fd {
						return true
					}
					i2 := 0
					for _, pl := range d2.Type.Params.List {
						for _, nm := range pl.Names {
							if i2 < len(c2.Args) {
								if id, ok := ast.Unparen(c2.Args[i2]).(*ast.Ident); ok && info.Uses[id] == kParam {
									if evalHelper(d2, info.Defs[nm], depth+1) {
										forwarded = true
									}
								}
							}
							i2++
						}
					}
					return true
				})
				return forwarded
			}
			evalHelper(fd, kParam, 0)
			return true
		})
	}
	if !found {
		return false, false
	}
	return result && allAgree, true
}

func constantInt64(tv types.TypeAndValue) (int64, bool) {
	if tv.Value == nil {
		return 0, false
	}
	s := tv.Value.ExactString()
	var v int64
	neg := false
	for i, ch := range s {
		if i == 0 && ch == '-' {
			neg = true
			continue
		}
		if ch < '0' || ch > '9' {
			return 0, false
		}
		v = v*10 + int64(ch-'0')
	}
	if neg {
		v = -v
	}
	return v, true
}

// possibleInts: the set of integer values an expression of fd can take, flow-insensitively: constants, x±c, local
// variables (union over their assignments in fd), and calls to same-package functions (union over their return
// expressions, a recursive call contributing nothing).
func possibleInts(p *packages.Package, decls map[string]*ast.FuncDecl, fd *ast.FuncDecl, e ast.Expr, busy map[*ast.FuncDecl]bool, depth int) (map[int64]bool, bool) {
	info := p.TypesInfo
	e = ast.Unparen(e)
	if tv, has := info.Types[e]; has && tv.Value != nil {
		if v, exact := constantInt64(tv); exact {
			return map[int64]bool{v: true}, true
		}
	}
	if depth > 4 {
		return nil, false
	}
	switch x := e.(type) {
	case *ast.BinaryExpr:
		if x.Op == token.ADD {
			if tv, has := info.Types[x.X]; has && tv.Value != nil {
				if c, exact := constantInt64(tv); exact {
					base, ok := possibleInts(p, decls, fd, x.Y, busy, depth+1)
					if !ok {
						return nil, false
					}
					out := map[int64]bool{}
					for v := range base {
						out[v+c] = true
					}
					return out, true
				}
			}
		}
		if x.Op == token.ADD || x.Op == token.SUB {
			if tv, has := info.Types[x.Y]; has && tv.Value != nil {
				if c, exact := constantInt64(tv); exact {
					base, ok := possibleInts(p, decls, fd, x.X, busy, depth+1)
					if !ok {
						return nil, false
					}
					out := map[int64]bool{}
					for v := range base {
						if x.Op == token.ADD {
							out[v+c] = true
						} else {
							out[v-c] = true
						}
					}
					return out, true
				}
			}
		}
	case *ast.Ident:
		obj, isVar := info.Uses[x].(*types.Var)
		if !isVar || fd == nil {
			return nil, false
		}
		out := map[int64]bool{}
		found, ok := false, true
		ast.Inspect(fd.Body, func(n ast.Node) bool {
			switch as := n.(type) {
			case *ast.AssignStmt:
				if len(as.Lhs) != len(as.Rhs) {
					return true
				}
				for i, l := range as.Lhs {
					if id, isID := l.(*ast.Ident); isID && info.ObjectOf(id) == obj {
						if as.Tok != token.ASSIGN && as.Tok != token.DEFINE {
							ok = false
							continue
						}
						vs, k := possibleInts(p, decls, fd, as.Rhs[i], busy, depth+1)
						if !k {
							ok = false
							continue
						}
						found = true
						for v := range vs {
							out[v] = true
						}
					}
				}
			case *ast.ValueSpec:
				for i, nm := range as.Names {
					if info.Defs[nm] == obj && i < len(as.Values) {
						vs, k := possibleInts(p, decls, fd, as.Values[i], busy, depth+1)
						if !k {
							ok = false
							continue
						}
						found = true
						for v := range vs {
							out[v] = true
						}
					}
				}
			}
			return true
		})
		return out, found && ok
	case *ast.CallExpr:
		fn := calleeOf(info, x)
		if fn == nil || fn.Pkg() != p.Types {
			return nil, false
		}
		var gd *ast.FuncDecl
		for _, d := range decls {
			if info.Defs[d.Name] == fn {
				gd = d
			}
		}
		if gd == nil || gd.Body == nil {
			return nil, false
		}
		if busy[gd] {
			return map[int64]bool{}, true // recursion contributes nothing new
		}
		busy[gd] = true
		defer delete(busy, gd)
		return returnInts(p, decls, gd, gd.Body, busy, depth+1)
	}
	return nil, false
}

// returnInts: union of the values of every return statement below n (function literals excluded).
func returnInts(p *packages.Package, decls map[string]*ast.FuncDecl, fd *ast.FuncDecl, n ast.Node, busy map[*ast.FuncDecl]bool, depth int) (map[int64]bool, bool) {
	out := map[int64]bool{}
	ok, any := true, false
	ast.Inspect(n, func(m ast.Node) bool {
		if _, isLit := m.(*ast.FuncLit); isLit {
			return false
		}
		if rs, isRet := m.(*ast.ReturnStmt); isRet && len(rs.Results) == 1 {
			any = true
			vs, k := possibleInts(p, decls, fd, rs.Results[0], busy, depth)
			if !k {
				ok = false
				return true
			}
			for v := range vs {
				out[v] = true
			}
		}
		return true
	})
	return out, ok && any
}

// typeSwitchInts: fd is `switch x.(type) { case *T: … return … default: return D }`; the set of values it can return
// for an operand of type child.
func typeSwitchInts(p *packages.Package, decls map[string]*ast.FuncDecl, fd *ast.FuncDecl, child *types.Named) (map[int64]bool, bool) {
	if fd == nil || fd.Body == nil {
		return nil, false
	}
	info := p.TypesInfo
	var val, def map[int64]bool
	ast.Inspect(fd.Body, func(n ast.Node) bool {
		ts, isTS := n.(*ast.TypeSwitchStmt)
		if !isTS {
			return true
		}
		for _, c := range ts.Body.List {
			cc := c.(*ast.CaseClause)
			busy := map[*ast.FuncDecl]bool{fd: true}
			vs, k := returnInts(p, decls, fd, cc, busy, 0)
			if cc.List == nil {
				if k {
					def = vs
				}
				continue
			}
			for _, te := range cc.List {
				if tv, has := info.Types[te]; has {
					if nt := namedOf(tv.Type); nt != nil && nt.Obj() == child.Obj() && k {
						val = vs
					}
				}
			}
		}
		return false
	})
	if val != nil && len(val) > 0 {
		return val, true
	}
	if def != nil && len(def) > 0 && val == nil {
		return def, true
	}
	return nil, false
}

// emitterHelperBody: the body of a private emitter helper with the private helpers it calls inlined (exported methods —
// WriteExpression itself — stay calls).
func emitterHelperBody(p *packages.Package, fd *ast.FuncDecl) *ast.BlockStmt {
	body, _ := inlineCallsOpt(p, fd, fd.Body, 2, func(fn *types.Func) bool { return fn.Exported() }, true)
	return body
}

// floatCaseVerdict judges the formatter calls reachable from a float case of the literal formatter (the case body and
// the same-package helpers it calls, one level). Every strconv.FormatFloat / AppendFloat whose text can lack a decimal
// point or exponent (format 'f' or 'g' with precision -1 or 0) must either have its result checked for one before it is
// used (the text is held in a local and the function tests it for '.'), or run only where the value is known not to be
// integral by a total test (v == math.Trunc(v) and the like, negated). An integrality test through a conversion to an
// integer type is not total: beyond the range of the type the conversion does not give the value back. 0 = no formatter
// found, 1 = holds, 2 = fails.
func floatCaseVerdict(emit *packages.Package, decls map[string]*ast.FuncDecl, cc *ast.CaseClause) (int, string) {
	info := emit.TypesInfo
	type site struct {
		call *ast.CallExpr
		root ast.Node // the body the call stands in
	}
	var sites []site
	var bodies []ast.Node
	for _, st := range cc.Body {
		bodies = append(bodies, st)
	}
	usesFmt := false
	seen := map[*ast.FuncDecl]bool{}
	var collect func(n ast.Node, root ast.Node, depth int)
	collect = func(n ast.Node, root ast.Node, depth int) {
		ast.Inspect(n, func(m ast.Node) bool {
			call, ok := m.(*ast.CallExpr)
			if !ok {
				return true
			}
			fn := calleeOf(info, call)
			if fn == nil {
				return true
			}
			full := funcFullName(fn)
			switch {
			case full == "strconv.FormatFloat" || full == "strconv.AppendFloat":
				sites = append(sites, site{call, root})
			case strings.HasPrefix(full, "fmt."):
				usesFmt = true
			case fn.Pkg() == emit.Types && depth < 2:
				if fd := decls[declKeyOf(fn)]; fd != nil && fd.Body != nil && !seen[fd] {
					seen[fd] = true
					collect(fd.Body, fd.Body, depth+1)
				}
			}
			return true
		})
	}
	for _, b := range bodies {
		collect(b, b, 0)
	}
	if len(sites) == 0 {
		if usesFmt {
			// fmt verbs: the old heuristic — the text must be checked for a point somewhere in the case
			for _, b := range bodies {
				if mentionsPointLiteral(b) {
					return 1, "fmt formatting followed by a test for '.'"
				}
			}
			return 2, "the float is formatted with package fmt and the text is never tested for a decimal point"
		}
		return 0, ""
	}
	constInt := func(e ast.Expr) (int64, bool) {
		tv, has := info.Types[e]
		if !has || tv.Value == nil {
			return 0, false
		}
		return constant.Int64Val(constant.ToInt(tv.Value))
	}
	isTotalIntegralTest := func(e ast.Expr) (isTest, total bool) {
		be, ok := ast.Unparen(e).(*ast.BinaryExpr)
		if !ok || (be.Op != token.EQL && be.Op != token.NEQ) {
			return false, false
		}
		for _, side := range []ast.Expr{be.X, be.Y} {
			call, ok := ast.Unparen(side).(*ast.CallExpr)
			if !ok {
				continue
			}
			if fn := calleeOf(info, call); fn != nil && fn.Pkg() != nil && fn.Pkg().Path() == "math" {
				switch fn.Name() {
				case "Trunc", "Floor", "Ceil", "Round", "RoundToEven":
					return true, true
				}
			}
			// float64(int64(v)): a conversion to a float type of a conversion to an integer type
			if tv, has := info.Types[call.Fun]; has && tv.IsType() && len(call.Args) == 1 {
				if inner, ok := ast.Unparen(call.Args[0]).(*ast.CallExpr); ok {
					if itv, has := info.Types[inner.Fun]; has && itv.IsType() {
						if b, ok := itv.Type.Underlying().(*types.Basic); ok && b.Info()&types.IsInteger != 0 {
							return true, false
						}
					}
				}
			}
		}
		return false, false
	}
	for _, s := range sites {
		args := s.call.Args
		if fn := calleeOf(info, s.call); fn != nil && fn.Name() == "AppendFloat" && len(args) == 5 {
			args = args[1:]
		}
		if len(args) != 4 {
			return 2, "a float formatter call that could not be read"
		}
		f, okF := constInt(args[1])
		prec, okP := constInt(args[2])
		if !okF || !okP {
			return 2, "strconv.FormatFloat is called with a format or precision that is not a constant"
		}
		switch {
		case (f == 'e' || f == 'E'):
			continue // always has an exponent
		case (f == 'f' || f == 'F') && prec >= 1:
			continue // always has a decimal point
		}
		// the text may lack the point: checked afterwards, or reached only for non-integral values?
		if held := resultHeldAndTested(info, s.root, s.call); held {
			continue
		}
		guarded := false
		partial := false
		for _, l := range controlConds(s.root, s.call) {
			e, neg := l.Expr, l.Neg
			for {
				u, ok := ast.Unparen(e).(*ast.UnaryExpr)
				if !ok || u.Op != token.NOT {
					break
				}
				e, neg = u.X, !neg
			}
			isTest, total := isTotalIntegralTest(e)
			if !isTest {
				continue
			}
			be := ast.Unparen(e).(*ast.BinaryExpr)
			nonIntegral := (be.Op == token.EQL) == neg // `v == trunc(v)` negated, or `v != trunc(v)` held
			if !nonIntegral {
				continue
			}
			if total {
				guarded = true
			} else {
				partial = true
			}
		}
		if guarded {
			continue
		}
		if partial {
			return 2, "strconv.FormatFloat(v, 'f', -1, …) is reached for every value that fails an integrality test made through a conversion to an integer type; that test is not total — beyond the range of the integer type (1e19, ±Inf) the conversion does not give the value back, so an integral float takes the branch that prints no decimal point"
		}
		return 2, "strconv.FormatFloat(v, 'f', -1, …) prints integral floats without a decimal point and nothing checks the text or the value"
	}
	return 1, itoa(len(sites)) + " formatter call(s) judged"
}

func mentionsPointLiteral(n ast.Node) bool {
	found := false
	ast.Inspect(n, func(k ast.Node) bool {
		if bl, ok := k.(*ast.BasicLit); ok {
			if bl.Kind == token.STRING && strings.Contains(bl.Value, ".") {
				found = true
			}
			if bl.Kind == token.CHAR && bl.Value == "'.'" {
				found = true
			}
		}
		return !found
	})
	return found
}

// resultHeldAndTested: the call's result is stored in a local of the enclosing body and that body tests the local with
// a strings function against text containing '.', i.e. the text is examined before use.
func resultHeldAndTested(info *types.Info, root ast.Node, call *ast.CallExpr) bool {
	var local types.Object
	ast.Inspect(root, func(n ast.Node) bool {
		switch x := n.(type) {
		case *ast.AssignStmt:
			for i, rhs := range x.Rhs {
				if ast.Unparen(rhs) == ast.Expr(call) && i < len(x.Lhs) {
					if id, ok := ast.Unparen(x.Lhs[i]).(*ast.Ident); ok {
						local = info.ObjectOf(id)
					}
				}
			}
		case *ast.ValueSpec:
			for i, v := range x.Values {
				if ast.Unparen(v) == ast.Expr(call) && i < len(x.Names) {
					local = info.ObjectOf(x.Names[i])
				}
			}
		}
		return local == nil
	})
	if local == nil {
		return false
	}
	tested := false
	ast.Inspect(root, func(n ast.Node) bool {
		c, ok := n.(*ast.CallExpr)
		if !ok || len(c.Args) < 2 {
			return true
		}
		fn := calleeOf(info, c)
		if fn == nil || fn.Pkg() == nil || (fn.Pkg().Path() != "strings" && fn.Pkg().Path() != "bytes") {
			return true
		}
		if id, ok := ast.Unparen(c.Args[0]).(*ast.Ident); ok && info.Uses[id] == local && mentionsPointLiteral(c.Args[1]) {
			tested = true
		}
		return !tested
	})
	return tested
}
