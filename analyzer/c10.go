package main

// C10 — emitted Cypher means the same as the model it was emitted from (structural clauses).

import (
	"go/ast"
	"go/token"
	"go/types"
	"strings"

	"golang.org/x/tools/go/packages"
)

func init() { register("C10", checkC10) }

// chain of boolean/comparison rules, loosest first, as nested in the grammar
var precedenceRules = []string{"oC_OrExpression", "oC_XorExpression", "oC_AndExpression", "oC_NotExpression", "oC_ComparisonExpression"}

func checkC10(r *Run) propMeta {
	meta := propMeta{Level: "other",
		Explanation: "Decides three structural necessary conditions of emit/parse agreement for builder-made models: (R1) precedence closure — binding strength of each boolean/negation/comparison model type is read from the nesting of the grammar rules that produce it; for every parent type P and looser child type C that a P node can hold, the emitter's case for P must parenthesise a bare C (otherwise the text regroups: And(Xor(a,b),c) → `a xor b and c` = a xor (b and c)); (R2) the emitter reads every field of every model type it handles (all-of/any-of bit, DISTINCT, OPTIONAL, ...); (R3) the literal formatter cannot print a float as text of the integer-literal class. NOT decided: value equality of literals, string escapes, list/map contents, parameter values.",
		Assumptions: []string{"the model↔grammar-rule correspondence is read from the parser front end (which handler constructs which model type)"},
		TrustedBase: []string{"go/types", "Cypher.g4", "this analyser"}}
	if err := r.Load("./..."); err != nil {
		r.Fatal("load: %v", err)
	}
	g := loadGrammar(r)
	vm := BuildVisitorModel(r)
	checkPrecedenceClosure(r, g, vm)
	checkEmitterCoverage(r, "C10-R2-emitter-field")
	checkLiteralClass(r)
	checkRenderStateless(r)
	checkNamespaceSeparator(r)
	checkHoistUnderConjunctionOnly(r)
	checkBuilderCopiesCriteria(r)
	checkEscapeOnce(r)
	r.Floor("C10-R1-precedence", 6)
	r.Floor("C10-R2-emitter-field", 60)
	r.Floor("C10-R3-literal-class", 2)
	return meta
}

// modelTypeOfRule: the cypher model type that the front end constructs for each precedence rule.
func modelTypeOfRule(r *Run, vm *VisitorModel) map[string]*types.Named {
	out := map[string]*types.Named{}
	cp := r.MustPkg("cypher/models/cypher")
	info := vm.pkg.TypesInfo
	for _, rule := range precedenceRules {
		for _, v := range []string{"ExpressionVisitor"} {
			vt := vm.Types[v]
			if vt == nil || vt.Enter[rule] == nil {
				continue
			}
			ast.Inspect(vt.Enter[rule].Decl.Body, func(n ast.Node) bool {
				if out[rule] != nil {
					return false
				}
				switch x := n.(type) {
				case *ast.CompositeLit:
					if tv, ok := info.Types[x]; ok {
						if nt := namedOf(tv.Type); nt != nil && nt.Obj().Pkg() == cp.Types {
							out[rule] = nt
						}
					}
				case *ast.CallExpr:
					if fn := calleeOf(info, x); fn != nil && fn.Pkg() == cp.Types {
						res := fn.Type().(*types.Signature).Results()
						if res.Len() == 1 {
							if nt := namedOf(res.At(0).Type()); nt != nil && nt.Obj().Pkg() == cp.Types {
								if _, isStruct := nt.Underlying().(*types.Struct); isStruct {
									out[rule] = nt
								}
							}
						}
					}
				}
				return true
			})
		}
	}
	// the comparison rule pushes a ComparisonVisitor; its model type is the struct it fills
	if out["oC_ComparisonExpression"] == nil {
		if tn, ok := cp.Types.Scope().Lookup("Comparison").(*types.TypeName); ok {
			out["oC_ComparisonExpression"] = tn.Type().(*types.Named)
		}
	}
	return out
}

func checkPrecedenceClosure(r *Run, g *Grammar, vm *VisitorModel) {
	// verify the chain is nested in the grammar in this order
	for i := 0; i+1 < len(precedenceRules); i++ {
		found := false
		for _, c := range g.Children(precedenceRules[i]) {
			if c == precedenceRules[i+1] {
				found = true
			}
		}
		if !found {
			r.Undecide("C10-R1: grammar rule %s no longer nests %s; precedence chain changed", precedenceRules[i], precedenceRules[i+1])
			return
		}
	}
	byRule := modelTypeOfRule(r, vm)
	if len(byRule) < 5 {
		r.Undecide("C10-R1: model types of the precedence rules not identified (%d of 5)", len(byRule))
		return
	}
	strength := map[*types.TypeName]int{}
	var order []*types.Named
	for i, rule := range precedenceRules {
		strength[byRule[rule].Obj()] = i
		order = append(order, byRule[rule])
	}
	emit := r.MustPkg("cypher/models/cypher/format")
	decls := FuncDecls(emit)
	we := decls["Emitter.WriteExpression"]
	if we == nil {
		r.Fatal("format.Emitter.WriteExpression not found")
	}
	// case clause per model type
	clauses := map[*types.TypeName]*ast.CaseClause{}
	ast.Inspect(we.Body, func(n ast.Node) bool {
		ts, ok := n.(*ast.TypeSwitchStmt)
		if !ok {
			return true
		}
		for _, c := range ts.Body.List {
			cc := c.(*ast.CaseClause)
			for _, te := range cc.List {
				if tv, ok := emit.TypesInfo.Types[te]; ok {
					if nt := namedOf(tv.Type); nt != nil {
						if _, seen := clauses[nt.Obj()]; !seen {
							clauses[nt.Obj()] = cc
						}
					}
				}
			}
		}
		return false
	})
	// parents: each precedence type (and PartialComparison as the holder of a comparison's right operand)
	parents := append([]*types.Named(nil), order[1:]...)
	if tn, ok := r.MustPkg("cypher/models/cypher").Types.Scope().Lookup("PartialComparison").(*types.TypeName); ok {
		parents = append(parents, tn.Type().(*types.Named))
		strength[tn] = strength[byRule["oC_ComparisonExpression"].Obj()]
	}
	for _, p := range parents {
		cc := clauses[p.Obj()]
		if cc == nil {
			r.Undecide("C10-R1: emitter has no case for %s", p.Obj().Name())
			continue
		}
		for _, c := range order {
			if strength[c.Obj()] >= strength[p.Obj()] {
				continue
			}
			construct := p.Obj().Name() + ">" + c.Obj().Name()
			wraps, decided := evalPrecedenceIdiom(emit, decls, cc, c)
			if !decided {
				wraps = wrapsLooser(emit, decls, cc, c)
			}
			if wraps {
				r.Pass("C10-R1-precedence", construct, cc.Pos(), "the emitter's %s case parenthesises a bare %s operand", p.Obj().Name(), c.Obj().Name())
			} else {
				r.Fail("C10-R1-precedence", construct, cc.Pos(), "a %s may hold a bare %s (e.g. built with the exported constructors), which binds looser; the emitter writes it without parentheses, so the text parses back with different grouping", p.Obj().Name(), c.Obj().Name())
			}
		}
	}
}

// wrapsLooser: code reachable (≤ 2 same-package calls) from the case clause contains a write of "(" whose
// controlling condition or enclosing type-switch case tests the operand against *cypher.<child>, directly or
// through a same-package function used in the condition.
func wrapsLooser(p *packages.Package, decls map[string]*ast.FuncDecl, cc *ast.CaseClause, child *types.Named) bool {
	info := p.TypesInfo
	mentionsChild := func(n ast.Node, depth int) bool { return false }
	var mentions func(n ast.Node, depth int) bool
	mentions = func(n ast.Node, depth int) bool {
		found := false
		ast.Inspect(n, func(m ast.Node) bool {
			if found {
				return false
			}
			switch x := m.(type) {
			case *ast.Ident:
				if tn, ok := info.Uses[x].(*types.TypeName); ok && tn == child.Obj() {
					found = true
				}
			case *ast.CallExpr:
				if depth < 2 {
					if fn := calleeOf(info, x); fn != nil && fn.Pkg() == p.Types {
						for _, fd := range decls {
							if info.Defs[fd.Name] == fn && fd.Body != nil {
								if mentions(fd.Body, depth+1) {
									found = true
								}
							}
						}
					}
				}
			}
			return true
		})
		return found
	}
	_ = mentionsChild
	writesParen := func(n ast.Node) bool {
		f := false
		ast.Inspect(n, func(m ast.Node) bool {
			if bl, ok := m.(*ast.BasicLit); ok && bl.Kind == token.STRING && (bl.Value == `"("` || bl.Value == "`(`") {
				f = true
			}
			return true
		})
		return f
	}
	seen := map[*ast.FuncDecl]bool{}
	var scan func(body ast.Node, depth int) bool
	scan = func(body ast.Node, depth int) bool {
		ok := false
		ast.Inspect(body, func(n ast.Node) bool {
			if ok {
				return false
			}
			switch x := n.(type) {
			case *ast.IfStmt:
				if writesParen(x.Body) && mentions(x.Cond, 0) {
					ok = true
				}
			case *ast.CaseClause:
				for _, e := range x.List {
					if mentions(e, 2) {
						for _, st := range x.Body {
							if writesParen(st) {
								ok = true
							}
						}
					}
				}
			case *ast.CallExpr:
				if depth < 2 {
					if fn := calleeOf(info, x); fn != nil && fn.Pkg() == p.Types && fn.Name() != "WriteExpression" {
						for _, fd := range decls {
							if info.Defs[fd.Name] == fn && fd.Body != nil && !seen[fd] {
								seen[fd] = true
								if scan(fd.Body, depth+1) {
									ok = true
								}
							}
						}
					}
				}
			}
			return true
		})
		return ok
	}
	for _, st := range cc.Body {
		if scan(st, 0) {
			return true
		}
	}
	return false
}

// checkLiteralClass: float kinds must not be printable as integer-literal text.
func checkLiteralClass(r *Run) {
	emit := r.MustPkg("cypher/models/cypher/format")
	info := emit.TypesInfo
	decls := FuncDecls(emit)
	fl := decls["Emitter.formatLiteral"]
	if fl == nil {
		r.Undecide("C10-R3: format.Emitter.formatLiteral not found")
		return
	}
	ast.Inspect(fl.Body, func(n ast.Node) bool {
		ts, ok := n.(*ast.TypeSwitchStmt)
		if !ok {
			return true
		}
		for _, c := range ts.Body.List {
			cc := c.(*ast.CaseClause)
			for _, te := range cc.List {
				tv, ok := info.Types[te]
				if !ok {
					continue
				}
				b, ok := tv.Type.Underlying().(*types.Basic)
				if !ok || b.Info()&types.IsFloat == 0 {
					continue
				}
				construct := "formatLiteral:" + b.Name()
				usesFormatFloat, guardsPoint := false, false
				for _, st := range cc.Body {
					ast.Inspect(st, func(m ast.Node) bool {
						switch x := m.(type) {
						case *ast.CallExpr:
							if fn := calleeOf(info, x); fn != nil {
								full := funcFullName(fn)
								if full == "strconv.FormatFloat" || full == "strconv.AppendFloat" || strings.HasPrefix(full, "fmt.") {
									usesFormatFloat = true
								}
								// a helper that normalises the text counts when it mentions "."
								if fn.Pkg() == emit.Types {
									for _, fd := range decls {
										if info.Defs[fd.Name] == fn && fd.Body != nil {
											ast.Inspect(fd.Body, func(k ast.Node) bool {
												if bl, ok := k.(*ast.BasicLit); ok && bl.Kind == token.STRING && strings.Contains(bl.Value, ".") {
													guardsPoint = true
												}
												if c2, ok := k.(*ast.CallExpr); ok {
													if f2 := calleeOf(info, c2); f2 != nil && (funcFullName(f2) == "strconv.FormatFloat") {
														usesFormatFloat = true
													}
												}
												return true
											})
										}
									}
								}
							}
						case *ast.BasicLit:
							if x.Kind == token.STRING && strings.Contains(x.Value, ".") {
								guardsPoint = true
							}
							if x.Kind == token.CHAR && x.Value == "'.'" {
								guardsPoint = true
							}
						}
						return true
					})
				}
				switch {
				case !usesFormatFloat:
					r.Undecide("C10-R3: float case of formatLiteral does not use a recognised formatter")
				case guardsPoint:
					r.Pass("C10-R3-literal-class", construct, cc.Pos(), "the float branch ensures a decimal point / exponent in the emitted text")
				default:
					r.Fail("C10-R3-literal-class", construct, cc.Pos(), "strconv.FormatFloat(v, 'f', -1, …) prints integral floats without a decimal point: the literal 1.0 is emitted as `1`, which parses back as an integer literal")
				}
			}
		}
		return false
	})
}

// evalPrecedenceIdiom evaluates the repository's idiom exactly: the case clause calls F(…, K, operand) with a constant
// K; F compares G(operand) with its K parameter; G is a type switch returning constants. The comparison is evaluated
// for the child type and combined with which branch writes "(".
func evalPrecedenceIdiom(p *packages.Package, decls map[string]*ast.FuncDecl, cc *ast.CaseClause, child *types.Named) (wraps bool, decided bool) {
	info := p.TypesInfo
	declOf := func(fn *types.Func) *ast.FuncDecl {
		for _, fd := range decls {
			if info.Defs[fd.Name] == fn {
				return fd
			}
		}
		return nil
	}
	writesParen := func(n ast.Node) bool {
		f := false
		ast.Inspect(n, func(m ast.Node) bool {
			if bl, ok := m.(*ast.BasicLit); ok && bl.Kind == token.STRING && bl.Value == `"("` {
				f = true
			}
			return true
		})
		return f
	}
	var result, found bool
	allAgree := true
	for _, st := range cc.Body {
		ast.Inspect(st, func(n ast.Node) bool {
			call, ok := n.(*ast.CallExpr)
			if !ok {
				return true
			}
			fn := calleeOf(info, call)
			if fn == nil || fn.Pkg() != p.Types || fn.Name() == "WriteExpression" {
				return true
			}
			fd := declOf(fn)
			if fd == nil || fd.Body == nil || fd.Type.Params == nil {
				return true
			}
			// constant int argument and its parameter object
			var kVal int64
			var kParam types.Object
			idx := 0
			for _, pl := range fd.Type.Params.List {
				for _, nm := range pl.Names {
					if idx < len(call.Args) {
						if tv, ok := info.Types[call.Args[idx]]; ok && tv.Value != nil {
							if v, exact := constantInt64(tv); exact {
								kVal = v
								kParam = info.Defs[nm]
							}
						}
					}
					idx++
				}
			}
			if kParam == nil {
				return true
			}
			for si, fst := range fd.Body.List {
				ifs, ok := fst.(*ast.IfStmt)
				if !ok {
					continue
				}
				be, ok := ast.Unparen(ifs.Cond).(*ast.BinaryExpr)
				if !ok {
					continue
				}
				var gcall *ast.CallExpr
				paramOnRight := true
				if c1, ok := ast.Unparen(be.X).(*ast.CallExpr); ok {
					if id, ok := ast.Unparen(be.Y).(*ast.Ident); ok && info.Uses[id] == kParam {
						gcall = c1
					}
				}
				if gcall == nil {
					if c2, ok := ast.Unparen(be.Y).(*ast.CallExpr); ok {
						if id, ok := ast.Unparen(be.X).(*ast.Ident); ok && info.Uses[id] == kParam {
							gcall = c2
							paramOnRight = false
						}
					}
				}
				if gcall == nil {
					continue
				}
				gfn := calleeOf(info, gcall)
				if gfn == nil || gfn.Pkg() != p.Types {
					continue
				}
				gv, ok := typeSwitchConstant(p, declOf(gfn), child)
				if !ok {
					continue
				}
				l, rr := gv, kVal
				if !paramOnRight {
					l, rr = kVal, gv
				}
				var t bool
				switch be.Op {
				case token.LSS:
					t = l < rr
				case token.LEQ:
					t = l <= rr
				case token.GTR:
					t = l > rr
				case token.GEQ:
					t = l >= rr
				default:
					continue
				}
				bodyWrites := writesParen(ifs.Body)
				bodyReturns := false
				if len(ifs.Body.List) > 0 {
					_, bodyReturns = ifs.Body.List[len(ifs.Body.List)-1].(*ast.ReturnStmt)
				}
				restWrites := false
				for _, later := range fd.Body.List[si+1:] {
					if writesParen(later) {
						restWrites = true
					}
				}
				if ifs.Else != nil && writesParen(ifs.Else) {
					restWrites = true
				}
				var w bool
				switch {
				case bodyWrites:
					w = t
				case bodyReturns && restWrites:
					w = !t
				default:
					continue
				}
				if found && w != result {
					allAgree = false
				}
				found, result = true, w
			}
			return true
		})
	}
	if !found {
		return false, false
	}
	return result && allAgree, true
}

func constantInt64(tv types.TypeAndValue) (int64, bool) {
	if tv.Value == nil {
		return 0, false
	}
	s := tv.Value.ExactString()
	var v int64
	neg := false
	for i, ch := range s {
		if i == 0 && ch == '-' {
			neg = true
			continue
		}
		if ch < '0' || ch > '9' {
			return 0, false
		}
		v = v*10 + int64(ch-'0')
	}
	if neg {
		v = -v
	}
	return v, true
}

// typeSwitchConstant: fd is `switch x.(type) { case *T: return K ... default: return D }`; returns the constant for child.
func typeSwitchConstant(p *packages.Package, fd *ast.FuncDecl, child *types.Named) (int64, bool) {
	if fd == nil || fd.Body == nil {
		return 0, false
	}
	info := p.TypesInfo
	var val int64
	ok := false
	var def *int64
	ast.Inspect(fd.Body, func(n ast.Node) bool {
		ts, isTS := n.(*ast.TypeSwitchStmt)
		if !isTS {
			return true
		}
		for _, c := range ts.Body.List {
			cc := c.(*ast.CaseClause)
			ret := func() (int64, bool) {
				for _, st := range cc.Body {
					if rs, isRet := st.(*ast.ReturnStmt); isRet && len(rs.Results) == 1 {
						if tv, has := info.Types[rs.Results[0]]; has {
							return constantInt64(tv)
						}
					}
				}
				return 0, false
			}
			if cc.List == nil {
				if v, k := ret(); k {
					def = &v
				}
				continue
			}
			for _, te := range cc.List {
				if tv, has := info.Types[te]; has {
					if nt := namedOf(tv.Type); nt != nil && nt.Obj() == child.Obj() {
						if v, k := ret(); k {
							val, ok = v, true
						}
					}
				}
			}
		}
		return false
	})
	if ok {
		return val, true
	}
	if def != nil {
		return *def, true
	}
	return 0, false
}
