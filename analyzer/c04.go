package main

// C04 — user text cannot change the token structure of emitted SQL (sanitizer placement and taint rules).

import (
	"golang.org/x/tools/go/packages"

	"go/ast"
	"go/constant"
	"go/token"
	"go/types"
	"os"
	"strings"
)

func init() { register("C04", checkC04) }

func checkC04(r *Run) propMeta {
	meta := propMeta{Level: "other",
		Explanation: "Decides where user-controlled text can reach SQL text and that each such position has its sanitizer: (R1) string values are rendered only by formatValue's string case, which doubles single quotes inside one quoted literal (sufficient under standard_conforming_strings=on, which the shipped schema does not change); (R2) every raw-text AST node (pgsql.FormattingLiteral) is built from a compile-time constant, a DataType/Operator name, or the alias quoting function — never from other runtime text; (R3) provenance analysis with one abstract cell per struct field: a pgsql.Identifier derived from a user symbol (variable, projection alias, and the optimiser shape fields they are copied into) may reach the SQL AST only in the alias position of an aliased expression (which the formatter renders through formatAlias) or the translator's alias table; in any other identifier position (compound identifier, column list, table name, ORDER BY) it is rendered verbatim and is reported; (R4) materialised parameters are rendered through AsLiteral/formatValue and never written raw; property and map keys are emitted as literals. (R5) the Cypher text that FromCypher echoes in a `-- ` comment is written only through the replacer that re-opens the comment after \\r\\n, \\r and \\n; identifiers are written only through formatIdentifier/formatAlias (their own String() is raw text), with two table entries for positions that R3 keeps free of user text. NOT decided: that the value PostgreSQL reads back equals the Cypher value (escape decoding is value-level), NUL bytes and length limits inside the driver.",
		Assumptions: []string{"PostgreSQL lexes '…''…' as one string literal (standard_conforming_strings=on) and \"…\"\"…\" as one delimited identifier"},
		TrustedBase: []string{"go/types", "this analyser"}}
	if err := r.Load("./cypher/..."); err != nil {
		r.Fatal("load: %v", err)
	}
	fp := r.MustPkg("cypher/models/pgsql/format")
	finfo := fp.TypesInfo
	fdecls := FuncDecls(fp)
	c04Roles = findFormatRoles(fp)
	// ---- R1 string sanitizer
	if fv := c04Roles.declOf(c04Roles.value); fv != nil {
		ok := false
		ast.Inspect(fv.Body, func(n ast.Node) bool {
			cc, isCC := n.(*ast.CaseClause)
			if !isCC || len(cc.List) != 1 {
				return true
			}
			if tv, has := finfo.Types[cc.List[0]]; !has || tv.Type.String() != "string" {
				return true
			}
			// the case writes an opening quote, the value with every quote doubled, and a closing quote
			body := &ast.BlockStmt{List: cc.Body}
			quoteConsts := 0
			ast.Inspect(body, func(m ast.Node) bool {
				if e, isExpr := m.(ast.Expr); isExpr && constStringArg(finfo, e, "'") {
					quoteConsts++
				}
				return true
			})
			if findDoublingReplace(finfo, body, "'") != nil && quoteConsts >= 3 {
				ok = true
			}
			return true
		})
		if ok {
			r.Pass("C04-R1-string-literal", "formatValue:string", fv.Pos(), "string values are written as '…' with every embedded single quote doubled")
		} else {
			r.Fail("C04-R1-string-literal", "formatValue:string", fv.Pos(), "formatValue's string case no longer doubles embedded single quotes inside a quoted literal: a quote in user text ends the literal")
		}
	} else {
		r.Undecide("C04-R1: the formatter's value function (a type switch over `any` with a string case) not found")
	}
	// who else writes string-typed runtime values raw? builder.Write(x) with x a non-constant string that is not the result
	// of a strconv formatter / sanitizer, inside package format
	raw := 0
	rawTbl := r.LoadTable("c04_raw_identifier_writes")
	for _, f := range fp.Syntax {
		for _, d := range f.Decls {
			fd, ok := d.(*ast.FuncDecl)
			if !ok || fd.Body == nil {
				continue
			}
			ast.Inspect(fd.Body, func(n ast.Node) bool {
				call, ok := n.(*ast.CallExpr)
				if !ok {
					return true
				}
				sel, ok := call.Fun.(*ast.SelectorExpr)
				if !ok || sel.Sel.Name != "Write" || namedName(finfo.TypeOf(sel.X)) != "OutputBuilder" {
					return true
				}
				for _, a := range call.Args {
					tv := finfo.Types[a]
					if tv.Value != nil {
						continue
					}
					construct := funcDeclName(fd) + ":Write(" + exprString(r.Fset, a) + ")"
					switch x := ast.Unparen(a).(type) {
					case *ast.CallExpr:
						if fn := calleeOf(finfo, x); fn != nil {
							full := funcFullName(fn)
							if fn.Name() == "String" {
								// stringers of closed token types are fine; an identifier's String() is its raw, undelimited text
								if sel, isSel := x.Fun.(*ast.SelectorExpr); isSel {
									if rt := namedName(finfo.TypeOf(sel.X)); rt != "Identifier" && rt != "CompoundIdentifier" {
										continue
									}
								}
							}
							if strings.HasPrefix(full, "strconv.Format") || c04Roles.isAliasQuoter(fn) || c04Roles.isIdentFormatter(fn) || full == "strings.ReplaceAll" {
								continue
							}
						}
					case *ast.Ident, *ast.SelectorExpr:
						t := namedName(tv.Type)
						if t == "FormattingLiteral" || t == "DataType" || t == "Operator" {
							continue // typed tokens: R2
						}
					}
					// what is written, by exported vocabulary; a helper that writes for several callers is exempt only if
					// what it writes is exempt at each of them
					posKeys := positionKeys(fp, fd, a)
					typeKey := positionTypeKey(finfo, fd, a)
					if typeKey != "" {
						// an exemption stated for the declaring type holds wherever a value of the type is held
						if reason, ok := r.InTable(rawTbl, "c04_raw_identifier_writes", typeKey); ok {
							r.Pass("C04-R1-raw-write", construct, a.Pos(), "table: %s", reason)
							continue
						}
					}
					if len(posKeys) > 1 {
						unlisted := ""
						for _, k := range posKeys {
							if _, ok := r.InTable(rawTbl, "c04_raw_identifier_writes", k); !ok && unlisted == "" {
								unlisted = k
							}
						}
						if unlisted == "" {
							reason, _ := r.InTable(rawTbl, "c04_raw_identifier_writes", posKeys[0])
							r.Pass("C04-R1-raw-write", construct, a.Pos(), "table (every caller): %s", reason)
							continue
						}
						raw++
						r.Fail("C04-R1-raw-write", construct, a.Pos(), "%s writes a runtime string raw for several callers, and for one of them (%s) nothing says the value is a program constant: a name that is not a plain identifier is then read as SQL (the other positions are exempt in the table; this one is written through the node formatter elsewhere)", funcDeclName(fd), strings.TrimPrefix(unlisted, "position:"))
						continue
					}
					sem := ""
					if len(posKeys) == 1 {
						sem = posKeys[0]
					}
					if reason, listed := r.InTableAt(rawTbl, "c04_raw_identifier_writes", construct, finfo, fd, "raw-write:"+namedName(tv.Type), sem); listed {
						r.Pass("C04-R1-raw-write", construct, a.Pos(), "table: %s", reason)
						continue
					}
					raw++
					r.Fail("C04-R1-raw-write", construct, a.Pos(), "a runtime string is written to the SQL text without passing formatValue, a strconv formatter, formatIdentifier or the alias quoting function (an identifier's own String() is its raw text: a name that is not a plain identifier is then read as SQL)")
				}
				return true
			})
		}
	}
	if raw == 0 {
		r.Pass("C04-R1-raw-write", "format:OutputBuilder.Write", token.NoPos, "every non-constant argument of OutputBuilder.Write is a typed token, a strconv result or sanitizer output")
	}
	// ---- R2 FormattingLiteral conversions
	nconv := 0
	for path, p := range r.ByPath {
		if !strings.HasPrefix(path, modPath+"/cypher/") {
			continue
		}
		for _, f := range p.Syntax {
			for _, d := range f.Decls {
				fd, ok := d.(*ast.FuncDecl)
				if !ok || fd.Body == nil {
					continue
				}
				ast.Inspect(fd.Body, func(n ast.Node) bool {
					call, ok := n.(*ast.CallExpr)
					if !ok || len(call.Args) != 1 {
						return true
					}
					tv, ok := p.TypesInfo.Types[call.Fun]
					if !ok || !tv.IsType() || namedName(tv.Type) != "FormattingLiteral" {
						return true
					}
					nconv++
					arg := call.Args[0]
					atv := p.TypesInfo.Types[arg]
					construct := shortPkg(path) + "." + funcDeclName(fd) + ":FormattingLiteral(" + exprString(r.Fset, arg) + ")"
					switch {
					case atv.Value != nil:
						r.Pass("C04-R2-raw-text-node", construct, call.Pos(), "compile-time constant")
					case isTokenStringer(p.TypesInfo, arg):
						r.Pass("C04-R2-raw-text-node", construct, call.Pos(), "DataType/Operator name or sanitizer output")
					default:
						r.Fail("C04-R2-raw-text-node", construct, call.Pos(), "a raw-text SQL node is built from runtime text that is neither a constant, a DataType/Operator name nor the output of the alias quoting function")
					}
					return true
				})
			}
		}
	}
	r.Counts["C04-R2-conversions"] = nconv
	// aliased expressions are rendered through the quoting function
	aliasQuoted := false
	if fn := fdecls["formatNode"]; fn != nil {
		_ = fn
	}
	for _, fd := range fdecls {
		ast.Inspect(fd.Body, func(n ast.Node) bool {
			cc, ok := n.(*ast.CaseClause)
			if !ok || len(cc.List) != 1 {
				return true
			}
			if tv, has := finfo.Types[cc.List[0]]; !has || namedName(tv.Type) != "AliasedExpression" {
				return true
			}
			if _, isPtr := finfo.Types[cc.List[0]].Type.(*types.Pointer); isPtr {
				return true
			}
			raw := false
			quoted := false
			for _, st := range cc.Body {
				ast.Inspect(st, func(m ast.Node) bool {
					if call, ok := m.(*ast.CallExpr); ok {
						if f := calleeOf(finfo, call); c04Roles.isAliasQuoter(f) {
							quoted = true
						}
						if id, ok := call.Fun.(*ast.Ident); ok && id.Name == "append" {
							for _, a := range call.Args[1:] {
								if strings.HasSuffix(exprString(r.Fset, a), ".Alias.Value") {
									raw = true
								}
							}
						}
					}
					return true
				})
			}
			if quoted && !raw {
				aliasQuoted = true
			}
			return true
		})
	}
	if aliasQuoted {
		r.Pass("C04-R3-alias-position", "format:AliasedExpression", token.NoPos, "the alias of an aliased expression is rendered through formatAlias (delimited identifier when not a plain name)")
	} else {
		r.Fail("C04-R3-alias-position", "format:AliasedExpression", token.NoPos, "the alias of an aliased expression is pushed to the output verbatim: a user-chosen result alias is read as SQL")
	}
	letters := [][2]rune{{'a', 'z'}, {'A', 'Z'}, {'0', '9'}}
	if fa := c04Roles.declOf(c04Roles.alias); fa != nil {
		ok, undecided, quoted, detail := sanitizerVerdict(r, fp, fa, asciiSet("_$", letters...))
		if quoted > 0 {
			r.Pass("C04-R3-alias-position", "formatAlias:doubles-quotes", fa.Pos(), "embedded double quotes are doubled inside the delimited identifier")
		} else {
			r.Fail("C04-R3-alias-position", "formatAlias:doubles-quotes", fa.Pos(), "formatAlias no longer doubles embedded double quotes")
		}
		switch {
		case !ok:
			r.Fail("C04-R3-alias-position", "formatAlias:verbatim-set", fa.Pos(), "the alias quoting function lets a name through undelimited that is not made of letters, digits, _ and $ only: %s", detail)
		case undecided:
			r.Undecide("C04-R3-alias-position formatAlias:verbatim-set: " + detail)
		default:
			r.Pass("C04-R3-alias-position", "formatAlias:verbatim-set", fa.Pos(), "range analysis of the per-character tests: a name is handed back unchanged only when made of letters, digits, _ and $")
		}
	}
	// generic identifier positions are rendered through formatIdentifier, whose pass-through set has no SQL-significant character
	identSanitised := false
	for _, fd := range fdecls {
		ast.Inspect(fd.Body, func(n ast.Node) bool {
			cc, ok := n.(*ast.CaseClause)
			if !ok || len(cc.List) != 1 {
				return true
			}
			if tv, has := finfo.Types[cc.List[0]]; !has || namedName(tv.Type) != "Identifier" || !tv.IsType() {
				return true
			}
			for _, st := range cc.Body {
				if stmtHasCall(st, func(c *ast.CallExpr) bool {
					return c04Roles.isIdentFormatter(calleeOf(finfo, c))
				}) {
					identSanitised = true
				}
			}
			return true
		})
	}
	if fi := c04Roles.declOf(c04Roles.ident); fi != nil && identSanitised {
		okSet, undecidedSet, quotedReturns, detail := sanitizerVerdict(r, fp, fi, asciiSet("_$.*", letters...))
		delegates := quotedReturns > 0
		if undecidedSet && okSet {
			r.Undecide("C04-R3-identifier-sink format:Identifier: " + detail)
		}
		if okSet && delegates {
			r.Pass("C04-R3-identifier-sink", "format:Identifier", fi.Pos(), "identifiers are written verbatim only when made of letters, digits, _ $ . *; anything else is delimited by formatAlias")
		} else {
			identSanitised = false
			r.Fail("C04-R3-identifier-sink", "format:Identifier", fi.Pos(), "formatIdentifier passes a character through that is significant in SQL, or no longer delegates to the quoting function (safe set ok: %v, delimits otherwise: %v) %s", okSet, delegates, detail)
		}
	} else {
		r.Fail("C04-R3-identifier-sink", "format:Identifier", token.NoPos, "the formatter's identifier case writes identifiers verbatim (no quoting step): any user-derived name in an identifier position is read as SQL")
		identSanitised = false
	}
	// ---- R3 taint of identifier positions in translate/optimize
	checkIdentifierTaint(r, identSanitised)
	// ---- R4 materialised parameters
	checkMaterializedParameters(r)
	checkCommentEcho(r)
	checkEscapedTextFinal(r, r.MustPkg("cypher/models/pgsql/format"), r.MustPkg("cypher/models/pgsql/translate"), r.MustPkg("cypher/models/pgsql"))
	checkEscapeTable(r, r.MustPkg("cypher/models/pgsql/translate"))
	checkDecodeOnce(r, "C04-R9-decode-once", r.MustPkg("cypher/frontend"), r.MustPkg("cypher/models/cypher"))
	checkSearchResultTestsAgree(r, "C04-R8-search-result-tests-agree", "a piece-by-piece copy stops early, and a name with two doubled backticks in a row keeps them doubled: the SQL then addresses another property key than the query named", r.MustPkg("cypher/models/cypher"), r.MustPkg("cypher/frontend"), r.MustPkg("cypher/models/pgsql/format"))
	r.Floor("C04-R2-raw-text-node", 40)
	r.Floor("C04-R3-identifier-position", 20)
	return meta
}

func isTokenStringer(info *types.Info, e ast.Expr) bool {
	e = ast.Unparen(e)
	switch x := e.(type) {
	case *ast.CallExpr:
		if sel, ok := x.Fun.(*ast.SelectorExpr); ok && sel.Sel.Name == "String" {
			t := namedName(info.TypeOf(sel.X))
			return t == "DataType" || t == "Operator"
		}
		if fn := calleeOf(info, x); c04Roles.isAliasQuoter(fn) {
			return true
		}
		if tv, ok := info.Types[x.Fun]; ok && tv.IsType() && len(x.Args) == 1 {
			return isTokenStringer(info, x.Args[0])
		}
	case *ast.BinaryExpr:
		if x.Op == token.ADD {
			l := info.Types[x.X].Value != nil || isTokenStringer(info, x.X)
			rr := info.Types[x.Y].Value != nil || isTokenStringer(info, x.Y)
			return l && rr
		}
	case *ast.Ident, *ast.SelectorExpr:
		t := namedName(info.TypeOf(e))
		return t == "DataType" || t == "Operator"
	}
	return false
}

// checkIdentifierTaint: user-symbol-derived identifiers in non-alias identifier positions of the SQL AST.
func checkIdentifierTaint(r *Run, identSanitised bool) {
	cg := BuildCallGraph(r, func(p string) bool { return strings.Contains(p, "/cypher/models/pgsql") })
	oa := newOriginAnalysis(r, cg)
	oa.fieldCells = true
	oa.returnSummaries = true
	// carrier fields: string-typed fields of the optimiser's plan/shape/decision structs — the places where user
	// symbols are copied out of the Cypher model as plain strings and later turned back into identifiers. Bindings
	// (BoundIdentifier.Identifier) are generated names by construction and are not expanded.
	oa.fieldCellFilter = func(f *types.Var) bool {
		if f.Pkg() == nil || !strings.HasSuffix(f.Pkg().Path(), "/pgsql/optimize") {
			return false
		}
		switch t := f.Type().Underlying().(type) {
		case *types.Basic:
			return t.Kind() == types.String
		case *types.Slice:
			b, ok := t.Elem().Underlying().(*types.Basic)
			return ok && b.Kind() == types.String
		}
		return false
	}
	isUser := func(o map[string]bool) string {
		for _, t := range []string{"field:Variable.Symbol", "field:ProjectionItem.Alias"} {
			if o[t] {
				return strings.TrimPrefix(t, "field:")
			}
		}
		return ""
	}
	for _, rel := range []string{"cypher/models/pgsql/translate"} {
		p := r.Pkg(rel)
		if p == nil {
			continue
		}
		info := p.TypesInfo
		for _, f := range p.Syntax {
			for _, d := range f.Decls {
				fd, ok := d.(*ast.FuncDecl)
				if !ok || fd.Body == nil {
					continue
				}
				report := func(pos string, e ast.Expr) {
					tv, ok := info.Types[e]
					if !ok || namedName(tv.Type) != "Identifier" || tv.Value != nil {
						return
					}
					o := oa.originsOfExpr(p, fd, e, 0)
					construct := funcDeclName(fd) + ":" + pos + "(" + exprString(r.Fset, e) + ")"
					if os.Getenv("DAWGSVET_DEBUG") != "" && strings.Contains(construct, "CountAlias") {
						r.Logf("debug %s: %v", construct, sortedKeys(o))
					}
					if unq, unquoted := hasTagPrefix(o, "call:"+modPath+"/cypher/models/cypher.Unescape"); unquoted {
						r.Fail("C04-R3-identifier-position", construct, e.Pos(), "an identifier whose Cypher quoting was removed (%s) is placed in a %s position: formatIdentifier leaves names made of letters, digits, '_', '$', '.' and '*' undelimited, which is safe only while a user name containing '.' or '*' still carries its backticks; unquoted, `s0.n0` is written as the compound reference s0.n0", strings.TrimPrefix(unq, "call:"), pos)
						return
					}
					if u := isUser(o); u != "" {
						// values that went through the alias table come back as generated identifiers
						if _, viaBinding := hasTagPrefix(o, "field:BoundIdentifier.Identifier"); viaBinding && !strings.Contains(exprString(r.Fset, e), "Alias") && !strings.Contains(exprString(r.Fset, e), "Symbol") && !o["field:AggregateTraversalCountShape.CountAlias"] {
							r.Pass("C04-R3-identifier-position", construct, e.Pos(), "resolved through the scope to a generated identifier")
							return
						}
						if identSanitised && pos != "table-name" {
							r.Pass("C04-R3-identifier-position", construct, e.Pos(), "derived from the user's %s; this position is rendered through formatIdentifier (delimited when not a safe name)", u)
							return
						}
						r.Fail("C04-R3-identifier-position", construct, e.Pos(), "an identifier derived from the user's %s is placed in a %s position of the SQL AST, where the formatter writes it verbatim: characters of a user-chosen name are read as SQL", u, pos)
					} else {
						r.Pass("C04-R3-identifier-position", construct, e.Pos(), "generated or constant identifier")
					}
				}
				ast.Inspect(fd.Body, func(n ast.Node) bool {
					switch x := n.(type) {
					case *ast.AssignStmt:
						// X.Expression = identifier: an identifier stored as an expression node of the SQL AST
						if len(x.Lhs) == len(x.Rhs) {
							for i, l := range x.Lhs {
								if sel, ok := ast.Unparen(l).(*ast.SelectorExpr); ok {
									if s := info.Selections[sel]; s != nil && s.Kind() == types.FieldVal && namedName(s.Obj().Type()) == "Expression" {
										report("expression-field "+namedName(s.Recv())+"."+sel.Sel.Name, x.Rhs[i])
									}
								}
							}
						}
					case *ast.CompositeLit:
						tv, ok := info.Types[x]
						if !ok {
							return true
						}
						switch namedName(tv.Type) {
						case "CompoundIdentifier":
							for _, el := range x.Elts {
								report("compound-identifier", el)
							}
						case "TableAlias", "TableReference":
							for _, el := range x.Elts {
								if kv, ok := el.(*ast.KeyValueExpr); ok {
									if k, ok := kv.Key.(*ast.Ident); ok && (k.Name == "Name") {
										report("table-name", kv.Value)
									}
								}
							}
						case "RowColumnReference":
							for _, el := range x.Elts {
								if kv, ok := el.(*ast.KeyValueExpr); ok {
									if k, ok := kv.Key.(*ast.Ident); ok && (k.Name == "Column") {
										report("column", kv.Value)
									}
								}
							}
						case "OrderBy":
							for _, el := range x.Elts {
								if kv, ok := el.(*ast.KeyValueExpr); ok {
									if k, ok := kv.Key.(*ast.Ident); ok && k.Name == "Expression" {
										report("order-by", kv.Value)
									}
								}
							}
						}
						// []pgsql.Identifier{…} (record shapes)
						if sl, ok := tv.Type.Underlying().(*types.Slice); ok && namedName(sl.Elem()) == "Identifier" && namedName(tv.Type) != "CompoundIdentifier" {
							for _, el := range x.Elts {
								report("column-list", el)
							}
						}
					}
					return true
				})
			}
		}
	}
}

// checkMaterializedParameters: when parameters are inlined, the value goes through the literal renderer.
func checkMaterializedParameters(r *Run) {
	fp := r.MustPkg("cypher/models/pgsql/format")
	info := fp.TypesInfo
	found := false
	for _, fd := range FuncDecls(fp) {
		ast.Inspect(fd.Body, func(n ast.Node) bool {
			cc, ok := n.(*ast.CaseClause)
			if !ok || len(cc.List) == 0 {
				return true
			}
			isParam := false
			for _, e := range cc.List {
				if tv, has := info.Types[e]; has && namedName(tv.Type) == "Parameter" {
					isParam = true
				}
			}
			if !isParam {
				return true
			}
			txt := exprString(r.Fset, &ast.BlockStmt{List: cc.Body})
			if !strings.Contains(txt, "MaterializeParameters") {
				return true
			}
			found = true
			// inside the materialising branch: value must flow to AsLiteral / formatLiteral / formatValue, not to Write
			viaLiteral := strings.Contains(txt, "AsLiteral(") || strings.Contains(txt, "formatLiteral(") || strings.Contains(txt, "formatValue(") || strings.Contains(txt, "NewLiteral(")
			rawWrite := false
			for _, st := range cc.Body {
				ast.Inspect(st, func(m ast.Node) bool {
					if call, ok := m.(*ast.CallExpr); ok {
						if sel, ok := call.Fun.(*ast.SelectorExpr); ok && sel.Sel.Name == "Write" {
							for _, a := range call.Args {
								if info.Types[a].Value == nil {
									s := exprString(r.Fset, a)
									if !strings.Contains(s, "Identifier") && !strings.Contains(s, ".String()") {
										rawWrite = true
									}
								}
							}
						}
					}
					return true
				})
			}
			if viaLiteral && !rawWrite {
				r.Pass("C04-R4-materialized-parameters", funcDeclName(fd)+":Parameter", cc.Pos(), "inlined parameter values are rendered as literals (AsLiteral → formatValue)")
			} else {
				r.Fail("C04-R4-materialized-parameters", funcDeclName(fd)+":Parameter", cc.Pos(), "an inlined parameter value is written without the literal renderer (via literal: %v, raw write: %v)", viaLiteral, rawWrite)
			}
			return true
		})
	}
	if !found {
		r.Undecide("C04-R4: the formatter's parameter materialisation branch was not found")
	}
}

// checkCommentEcho (R5): FromCypher prefixes the SQL with the query's Cypher text as a `-- ` line comment.  PostgreSQL
// ends a line comment at \n and at \r, so the echoed text (which contains the user's string literals verbatim) must
// have every \r\n, \r and \n followed by a new comment opener, on every path: a path that writes the text directly
// lets a literal containing a bare carriage return end the comment and have the rest of the literal parsed as SQL.
func checkCommentEcho(r *Run) {
	const rule = "C04-R5-comment-echo"
	tp := r.MustPkg("cypher/models/pgsql/translate")
	info := tp.TypesInfo
	fd := FuncDecls(tp)["FromCypher"]
	if fd == nil || fd.Body == nil {
		r.Undecide("C04-R5: translate.FromCypher not found")
		return
	}
	// the variable holding the emitted Cypher text: assigned from <buffer>.String() (possibly trimmed)
	var echoed types.Object
	ast.Inspect(fd.Body, func(n ast.Node) bool {
		as, ok := n.(*ast.AssignStmt)
		if !ok || len(as.Lhs) != 1 || len(as.Rhs) != 1 || echoed != nil {
			return true
		}
		isText := false
		ast.Inspect(as.Rhs[0], func(m ast.Node) bool {
			if call, ok := m.(*ast.CallExpr); ok {
				if sel, ok := call.Fun.(*ast.SelectorExpr); ok && sel.Sel.Name == "String" && len(call.Args) == 0 {
					isText = true
				}
			}
			return true
		})
		if id, ok := as.Lhs[0].(*ast.Ident); ok && isText {
			if b, ok := info.TypeOf(id).Underlying().(*types.Basic); ok && b.Kind() == types.String {
				echoed = info.Defs[id]
			}
		}
		return true
	})
	if echoed == nil {
		r.Undecide("C04-R5: the variable holding the echoed Cypher text was not identified in FromCypher")
		return
	}
	// the replacer: a package-level strings.NewReplacer whose keys include \r\n, \r and \n
	goodReplacers := map[types.Object]bool{}
	for _, f := range tp.Syntax {
		ast.Inspect(f, func(n ast.Node) bool {
			vs, ok := n.(*ast.ValueSpec)
			if !ok {
				return true
			}
			for i, nm := range vs.Names {
				if i >= len(vs.Values) {
					continue
				}
				call, ok := vs.Values[i].(*ast.CallExpr)
				if !ok {
					continue
				}
				if fn := calleeOf(info, call); fn == nil || funcFullName(fn) != "strings.NewReplacer" {
					continue
				}
				keys := map[string]string{}
				for k := 0; k+1 < len(call.Args); k += 2 {
					kv, ok1 := info.Types[call.Args[k]]
					vv, ok2 := info.Types[call.Args[k+1]]
					if ok1 && ok2 && kv.Value != nil && vv.Value != nil {
						keys[constant.StringVal(kv.Value)] = constant.StringVal(vv.Value)
					}
				}
				ok3 := true
				for _, k := range []string{"\r\n", "\r", "\n"} {
					if v, has := keys[k]; !has || !strings.HasSuffix(v, "-- ") || !strings.Contains(v, "\n") {
						ok3 = false
					}
				}
				if ok3 {
					goodReplacers[info.Defs[nm]] = true
				}
			}
			return true
		})
	}
	uses, bad := 0, token.NoPos
	ast.Inspect(fd.Body, func(n ast.Node) bool {
		call, ok := n.(*ast.CallExpr)
		if !ok {
			return true
		}
		mentions := false
		for _, a := range call.Args {
			if id, ok := ast.Unparen(a).(*ast.Ident); ok && info.Uses[id] == echoed {
				mentions = true
			}
		}
		if !mentions {
			return true
		}
		if fn := calleeOf(info, call); fn != nil && fn.Pkg() != nil && fn.Pkg().Path() == "strings" && (fn.Name() == "IndexByte" || fn.Name() == "Contains" || fn.Name() == "ContainsAny" || fn.Name() == "ContainsRune" || fn.Name() == "Index" || fn.Name() == "IndexAny") {
			return true // a test on the text, not a write
		}
		uses++
		sel, ok := call.Fun.(*ast.SelectorExpr)
		viaReplacer := false
		if ok {
			if id, ok := ast.Unparen(sel.X).(*ast.Ident); ok && goodReplacers[info.Uses[id]] {
				viaReplacer = true
			}
		}
		if !viaReplacer && bad == token.NoPos {
			bad = call.Pos()
		}
		return true
	})
	switch {
	case uses == 0:
		r.Undecide("C04-R5: FromCypher never writes the echoed Cypher text")
	case bad != token.NoPos:
		r.Fail(rule, "FromCypher:echo", bad, "the echoed Cypher text reaches the output on a path that does not go through the line-break replacer (\\r\\n, \\r and \\n each re-opening the comment): PostgreSQL also ends a `--` comment at a bare carriage return, so the remainder of a string literal that contains one is parsed as SQL")
	default:
		r.Pass(rule, "FromCypher:echo", fd.Pos(), "every write of the echoed text goes through a replacer that re-opens the comment after \\r\\n, \\r and \\n")
	}
}

// formatRoles: the three sanitising functions of the SQL formatter, found by what they are used for rather than by
// their (private) names: the alias quoter is the string-returning function the AliasedExpression case passes the alias
// to; the identifier formatter is the string-returning function the Identifier case passes the identifier to; the value
// function is the package-level function with an `any` parameter and a type switch that has a string case.
type formatRoles struct {
	alias, ident, value *types.Func
	decls               map[*types.Func]*ast.FuncDecl
}

var c04Roles formatRoles

func (fr formatRoles) declOf(fn *types.Func) *ast.FuncDecl {
	if fn == nil {
		return nil
	}
	return fr.decls[fn]
}

func (fr formatRoles) isAliasQuoter(fn *types.Func) bool {
	return fn != nil && fr.alias != nil && fn.Origin() == fr.alias
}

func (fr formatRoles) isIdentFormatter(fn *types.Func) bool {
	return fn != nil && fr.ident != nil && fn.Origin() == fr.ident
}

func findFormatRoles(fp *packages.Package) formatRoles {
	info := fp.TypesInfo
	fr := formatRoles{decls: map[*types.Func]*ast.FuncDecl{}}
	for _, f := range fp.Syntax {
		for _, d := range f.Decls {
			if fd, ok := d.(*ast.FuncDecl); ok && fd.Body != nil {
				if fn, ok := info.Defs[fd.Name].(*types.Func); ok {
					fr.decls[fn] = fd
				}
			}
		}
	}
	returnsString := func(fn *types.Func) bool {
		sig, _ := fn.Type().(*types.Signature)
		if sig == nil || sig.Recv() != nil || sig.Results().Len() != 1 || fn.Pkg() != fp.Types {
			return false
		}
		b, ok := sig.Results().At(0).Type().Underlying().(*types.Basic)
		return ok && b.Kind() == types.String
	}
	for fn, fd := range fr.decls {
		// value function
		if sig := fn.Type().(*types.Signature); sig.Recv() == nil {
			hasAny := false
			for i := 0; i < sig.Params().Len(); i++ {
				if it, ok := sig.Params().At(i).Type().Underlying().(*types.Interface); ok && it.Empty() && !sig.Variadic() {
					if _, isTP := sig.Params().At(i).Type().(*types.TypeParam); !isTP {
						hasAny = true
					}
				}
			}
			if hasAny {
				ast.Inspect(fd.Body, func(n ast.Node) bool {
					if cc, ok := n.(*ast.CaseClause); ok && len(cc.List) == 1 {
						if tv, has := info.Types[cc.List[0]]; has && tv.IsType() && tv.Type.String() == "string" {
							fr.value = fn
						}
					}
					return true
				})
			}
		}
		// callees of the AliasedExpression / Identifier cases
		ast.Inspect(fd.Body, func(n ast.Node) bool {
			cc, ok := n.(*ast.CaseClause)
			if !ok || len(cc.List) != 1 {
				return true
			}
			tv, has := info.Types[cc.List[0]]
			if !has || !tv.IsType() {
				return true
			}
			if _, isPtr := tv.Type.(*types.Pointer); isPtr {
				return true
			}
			switch namedName(tv.Type) {
			case "AliasedExpression":
				for _, st := range cc.Body {
					ast.Inspect(st, func(m ast.Node) bool {
						if call, ok := m.(*ast.CallExpr); ok && len(call.Args) == 1 {
							if callee := calleeOf(info, call); callee != nil && returnsString(callee) {
								if sel, ok := ast.Unparen(call.Args[0]).(*ast.SelectorExpr); ok && sel.Sel.Name == "Value" {
									fr.alias = callee.Origin()
								}
							}
						}
						return true
					})
				}
			case "Identifier":
				for _, st := range cc.Body {
					ast.Inspect(st, func(m ast.Node) bool {
						if call, ok := m.(*ast.CallExpr); ok && len(call.Args) == 1 {
							if callee := calleeOf(info, call); callee != nil && returnsString(callee) {
								if id, ok := ast.Unparen(call.Args[0]).(*ast.Ident); ok && info.Uses[id] == info.Implicits[cc] {
									fr.ident = callee.Origin()
								}
							}
						}
						return true
					})
				}
			}
			return true
		})
	}
	return fr
}
