package main

// C01-R5 — shape recognisers of whole-statement lowerings are total over the model.
//
// Two translator entry points replace the whole emitted statement with a hand-built one when a
// recogniser says the query has a particular shape (count-store fast path, aggregate traversal count).
// The hand-built statement is assembled from a few fields of the recognised model nodes; every other
// field that the parser can populate for such a node must have been looked at by the recogniser,
// otherwise two queries that differ only in that field get the same SQL.
//
// Rule: in the closure of a recogniser (the module functions it calls with Cypher model values), every
// named binding of type *T (T a struct of the Cypher model) must have every parser-populated field of T
// selected through it, through an alias of it, or through the parameter of a closure function it is
// passed to.  A binding that leaves the closure whole (stored in the result, handed to a function
// outside the closure, or a method is called on it) is not judged: its remaining fields are the
// business of whoever receives it.

import (
	"go/ast"
	"go/constant"
	"go/token"
	"go/types"
	"sort"
	"strings"

	"golang.org/x/tools/go/packages"
)

// exemptKey names one binding and field for the triage table: "<function>.<binding>.<Field>" of the
// first member of the class (members are sorted).
func exemptKey(members []*recBinding, field string) string {
	return "recogniser:" + members[0].fn.Name() + "." + members[0].obj.Name() + "." + field
}

type recBinding struct {
	obj     *types.Var
	fn      *types.Func
	reads   map[string]token.Pos
	escapes string
}

func checkRecogniserTotality(r *Run, tp, op, cp, fe *packages.Package, cg *CallGraph, exempt Table) {
	const rule = "C01-R5-recogniser-total"
	// 1. statement-replacing functions: assign s.translation.Statement and take a *cypher.RegularQuery
	type entry struct {
		host *types.Func
		rec  *types.Func
	}
	var entries []entry
	for fn, fd := range cg.Decl {
		if cg.PkgOf[fn] != tp || fd.Body == nil {
			continue
		}
		var queryParam *types.Var
		sig := fn.Type().(*types.Signature)
		for i := 0; i < sig.Params().Len(); i++ {
			if namedName(sig.Params().At(i).Type()) == "RegularQuery" && namedOf(sig.Params().At(i).Type()).Obj().Pkg() == cp.Types {
				queryParam = sig.Params().At(i)
			}
		}
		if queryParam == nil {
			continue
		}
		assigns := false
		ast.Inspect(fd.Body, func(n ast.Node) bool {
			if as, ok := n.(*ast.AssignStmt); ok {
				for _, l := range as.Lhs {
					if sel, ok := ast.Unparen(l).(*ast.SelectorExpr); ok && sel.Sel.Name == "Statement" {
						if inner, ok := ast.Unparen(sel.X).(*ast.SelectorExpr); ok && inner.Sel.Name == "translation" {
							assigns = true
						}
					}
				}
			}
			return true
		})
		if !assigns {
			continue
		}
		ast.Inspect(fd.Body, func(n ast.Node) bool {
			call, ok := n.(*ast.CallExpr)
			if !ok {
				return true
			}
			callee := calleeOf(tp.TypesInfo, call)
			if callee == nil || cg.Decl[callee] == nil {
				return true
			}
			for _, a := range call.Args {
				if id, ok := ast.Unparen(a).(*ast.Ident); ok && tp.TypesInfo.Uses[id] == queryParam {
					res := callee.Type().(*types.Signature).Results()
					if res.Len() >= 1 && types.Identical(res.At(res.Len()-1).Type(), types.Typ[types.Bool]) {
						entries = append(entries, entry{fn, callee})
					}
				}
			}
			return true
		})
	}
	sort.Slice(entries, func(i, j int) bool { return funcFullName(entries[i].rec) < funcFullName(entries[j].rec) })
	r.Ob("C01-R5-recognisers-found", "whole-statement lowerings", token.NoPos, len(entries) >= 2, "%d functions assign translation.Statement from a shape recogniser over the RegularQuery (2 confirmed by reading: count-store fast path, aggregate traversal count)", len(entries))

	isModelPtr := func(t types.Type) *types.Named {
		pt, ok := t.(*types.Pointer)
		if !ok {
			return nil
		}
		n, ok := pt.Elem().(*types.Named)
		if !ok || n.Obj().Pkg() != cp.Types {
			return nil
		}
		if _, ok := n.Underlying().(*types.Struct); !ok {
			return nil
		}
		return n
	}
	mentionsModel := func(fn *types.Func) bool {
		sig := fn.Type().(*types.Signature)
		for i := 0; i < sig.Params().Len(); i++ {
			t := sig.Params().At(i).Type()
			if sl, ok := t.(*types.Slice); ok {
				t = sl.Elem()
			}
			if isModelPtr(t) != nil {
				return true
			}
			if n := namedOf(t); n != nil && n.Obj().Pkg() == cp.Types {
				return true
			}
		}
		return false
	}
	for _, e := range entries {
		// 2. closure
		closure := map[*types.Func]bool{e.rec: true}
		queue := []*types.Func{e.rec}
		for len(queue) > 0 {
			f := queue[0]
			queue = queue[1:]
			for _, edge := range cg.Out[f] {
				if edge.Kind != "static" || closure[edge.To] {
					continue
				}
				p := cg.PkgOf[edge.To]
				if (p == tp || p == op) && mentionsModel(edge.To) && edge.To.Type().(*types.Signature).Recv() == nil {
					closure[edge.To] = true
					queue = append(queue, edge.To)
				}
			}
		}
		// 3. bindings, union-find
		parent := map[*types.Var]*types.Var{}
		var find func(v *types.Var) *types.Var
		find = func(v *types.Var) *types.Var {
			if parent[v] == nil || parent[v] == v {
				parent[v] = v
				return v
			}
			root := find(parent[v])
			parent[v] = root
			return root
		}
		union := func(a, b *types.Var) {
			if a == nil || b == nil {
				return
			}
			ra, rb := find(a), find(b)
			if ra != rb {
				parent[ra] = rb
			}
		}
		binds := map[*types.Var]*recBinding{}
		elemVars := map[*types.Var]*types.Var{} // list field -> the binding that stands for its elements
		get := func(v *types.Var, fn *types.Func) *recBinding {
			if b := binds[v]; b != nil {
				return b
			}
			b := &recBinding{obj: v, fn: fn, reads: map[string]token.Pos{}}
			binds[v] = b
			find(v)
			return b
		}
		for fn := range closure {
			fd := cg.Decl[fn]
			p := cg.PkgOf[fn]
			info := p.TypesInfo
			varOf := func(e ast.Expr) *types.Var {
				// an element of a list field taken by index (`order.Items[0]`) stands for "the elements of that field": one
				// binding per field, shared by every function of the closure
				if ix, isIx := ast.Unparen(e).(*ast.IndexExpr); isIx {
					if sel, isSel := ast.Unparen(ix.X).(*ast.SelectorExpr); isSel {
						if fv, isField := info.Uses[sel.Sel].(*types.Var); isField && fv.IsField() && isModelPtr(info.TypeOf(e)) != nil {
							if elemVars[fv] == nil {
								elemVars[fv] = types.NewVar(fv.Pos(), fv.Pkg(), fv.Name()+"[]", info.TypeOf(e))
							}
							return elemVars[fv]
						}
					}
					return nil
				}
				id, ok := ast.Unparen(e).(*ast.Ident)
				if !ok {
					return nil
				}
				obj := info.Uses[id]
				if obj == nil {
					obj = info.Defs[id]
				}
				v, ok := obj.(*types.Var)
				if !ok || v.IsField() || isModelPtr(v.Type()) == nil {
					return nil
				}
				return v
			}
			// returned idents per result index
			handled := map[*ast.Ident]bool{}
			mark := func(e ast.Expr) {
				if id, ok := ast.Unparen(e).(*ast.Ident); ok {
					handled[id] = true
				}
			}
			ast.Inspect(fd.Body, func(n ast.Node) bool {
				switch x := n.(type) {
				case *ast.FuncLit:
					return true
				case *ast.SelectorExpr:
					if v := varOf(x.X); v != nil {
						mark(x.X)
						if s := info.Selections[x]; s != nil && s.Kind() == types.FieldVal {
							b := get(v, fn)
							if _, seen := b.reads[x.Sel.Name]; !seen {
								b.reads[x.Sel.Name] = x.Pos()
							}
						} else {
							get(v, fn).escapes = "method " + x.Sel.Name + " called on it"
						}
					}
				case *ast.BinaryExpr:
					if x.Op == token.EQL || x.Op == token.NEQ {
						for _, side := range []ast.Expr{x.X, x.Y} {
							if v := varOf(side); v != nil {
								get(v, fn)
								mark(side)
							}
						}
					}
				case *ast.AssignStmt:
					if len(x.Lhs) == len(x.Rhs) {
						for i := range x.Lhs {
							lv, rv := varOf(x.Lhs[i]), varOf(x.Rhs[i])
							if lv != nil {
								get(lv, fn)
								mark(x.Lhs[i])
							}
							if lv != nil && rv != nil {
								get(rv, fn)
								union(lv, rv)
								mark(x.Rhs[i])
							}
						}
					} else if len(x.Rhs) == 1 {
						call, isCall := ast.Unparen(x.Rhs[0]).(*ast.CallExpr)
						var callee *types.Func
						if isCall {
							callee = calleeOf(info, call)
						}
						for i, l := range x.Lhs {
							lv := varOf(l)
							if lv == nil {
								continue
							}
							get(lv, fn)
							mark(l)
							if callee != nil && closure[callee] {
								cfd := cg.Decl[callee]
								cinfo := cg.PkgOf[callee].TypesInfo
								ast.Inspect(cfd.Body, func(m ast.Node) bool {
									if _, isLit := m.(*ast.FuncLit); isLit {
										return false
									}
									if ret, ok := m.(*ast.ReturnStmt); ok && i < len(ret.Results) {
										if id, ok := ast.Unparen(ret.Results[i]).(*ast.Ident); ok {
											if rv, ok := cinfo.Uses[id].(*types.Var); ok && isModelPtr(rv.Type()) != nil {
												get(rv, callee)
												union(lv, rv)
											}
										}
									}
									return true
								})
							}
						}
					}
				case *ast.CallExpr:
					callee := calleeOf(info, x)
					for i, a := range x.Args {
						v := varOf(a)
						if v == nil {
							continue
						}
						mark(a)
						b := get(v, fn)
						if callee != nil && closure[callee] {
							sig := callee.Type().(*types.Signature)
							if i < sig.Params().Len() && isModelPtr(sig.Params().At(i).Type()) != nil {
								get(sig.Params().At(i), callee)
								union(v, sig.Params().At(i))
								continue
							}
						}
						name := exprString(r.Fset, x.Fun)
						b.escapes = "passed to " + name
					}
				case *ast.ReturnStmt:
					for _, res := range x.Results {
						if v := varOf(res); v != nil {
							mark(res)
							b := get(v, fn)
							if fn == e.rec {
								b.escapes = "returned by the recogniser"
							}
						}
					}
				case *ast.RangeStmt:
					for _, k := range []ast.Expr{x.Key, x.Value} {
						if k != nil {
							if v := varOf(k); v != nil {
								get(v, fn)
								mark(k)
							}
						}
					}
					// the element variable of a range over a list field is the same binding as an indexed element
					if sel, isSel := ast.Unparen(x.X).(*ast.SelectorExpr); isSel && x.Value != nil {
						if fv, isField := info.Uses[sel.Sel].(*types.Var); isField && fv.IsField() && elemVars[fv] != nil {
							if v := varOf(x.Value); v != nil {
								get(elemVars[fv], fn)
								union(v, elemVars[fv])
							}
						}
					}
				}
				return true
			})
			// parameters and every other mention
			sig := fn.Type().(*types.Signature)
			for i := 0; i < sig.Params().Len(); i++ {
				if isModelPtr(sig.Params().At(i).Type()) != nil {
					get(sig.Params().At(i), fn)
				}
			}
			ast.Inspect(fd.Body, func(n ast.Node) bool {
				id, ok := n.(*ast.Ident)
				if !ok || handled[id] {
					return true
				}
				if v, ok := info.Uses[id].(*types.Var); ok && !v.IsField() && isModelPtr(v.Type()) != nil {
					b := get(v, fn)
					if b.escapes == "" {
						b.escapes = "used as a value at " + r.Pos(id.Pos())
					}
				}
				return true
			})
		}
		// 4. classes
		classes := map[*types.Var][]*recBinding{}
		for v, b := range binds {
			classes[find(v)] = append(classes[find(v)], b)
		}
		for _, members := range classes {
			sort.Slice(members, func(i, j int) bool {
				if members[i].fn != members[j].fn {
					return funcFullName(members[i].fn) < funcFullName(members[j].fn)
				}
				return members[i].obj.Name() < members[j].obj.Name()
			})
			nt := isModelPtr(members[0].obj.Type())
			st := nt.Underlying().(*types.Struct)
			var names []string
			reads := map[string]bool{}
			escapes := ""
			for _, m := range members {
				names = append(names, m.fn.Name()+"."+m.obj.Name())
				for f := range m.reads {
					reads[f] = true
				}
				if m.escapes != "" && escapes == "" {
					escapes = m.fn.Name() + "." + m.obj.Name() + " " + m.escapes
				}
			}
			construct := shortFuncName(e.rec) + ":" + nt.Obj().Name() + "{" + strings.Join(names, ",") + "}"
			if escapes != "" {
				r.Pass(rule, construct, members[0].obj.Pos(), "not judged: %s", escapes)
				continue
			}
			var missing, covered []string
			for i := 0; i < st.NumFields(); i++ {
				f := st.Field(i)
				if !f.Exported() || f.Embedded() {
					continue
				}
				if w := fieldWriterPackages(r, f); len(w) > 0 && w[tp.PkgPath]+w[op.PkgPath] == total(w) {
					continue // an annotation that only the optimiser or translator itself writes, not query syntax
				}
				if reads[f.Name()] {
					covered = append(covered, f.Name())
				} else if _, ok := r.InTable(exempt, "c01_exempt", exemptKey(members, f.Name())); ok {
					covered = append(covered, f.Name()+"(table)")
				} else if semanticRecogniserExemption(r, exempt, nt.Obj().Name(), f.Name(), reads, members) {
					covered = append(covered, f.Name()+"(table: model fact)")
				} else {
					missing = append(missing, f.Name())
				}
			}
			if len(missing) == 0 {
				r.Pass(rule, construct, members[0].obj.Pos(), "every field is looked at: %s", strings.Join(covered, ", "))
			} else {
				r.Fail(rule, construct, members[0].obj.Pos(), "the recogniser that lets %s replace the whole statement never looks at %s.%s of this binding: a query that differs only there gets the same hand-built SQL", e.host.Name(), nt.Obj().Name(), strings.Join(missing, ", "+nt.Obj().Name()+"."))
			}
		}
	}
	r.Floor(rule, 12)
	var recs []*types.Func
	for _, e := range entries {
		recs = append(recs, e.rec)
	}
	checkRecogniserSymbolPairs(r, cg, recs)
}

func total(m map[string]int) int {
	n := 0
	for _, v := range m {
		n += v
	}
	return n
}

// fieldWriterPackages counts, per module package, the sites that give the field a value other than a plain copy
// of the same field (x.F = y.F, F: s.F, F: Copy(s.F)).
func fieldWriterPackages(r *Run, field *types.Var) map[string]int {
	out := map[string]int{}
	for path, p := range r.ByPath {
		if !strings.HasPrefix(path, modPath) {
			continue
		}
		info := p.TypesInfo
		plainCopy := func(e ast.Expr) bool {
			e = ast.Unparen(e)
			if call, ok := e.(*ast.CallExpr); ok && len(call.Args) == 1 {
				e = ast.Unparen(call.Args[0])
			}
			if sel, ok := e.(*ast.SelectorExpr); ok {
				if s := info.Selections[sel]; s != nil && s.Obj() == field {
					return true
				}
			}
			return false
		}
		for _, f := range p.Syntax {
			ast.Inspect(f, func(n ast.Node) bool {
				switch x := n.(type) {
				case *ast.KeyValueExpr:
					if k, ok := x.Key.(*ast.Ident); ok && info.Uses[k] == field && !plainCopy(x.Value) {
						out[path]++
					}
				case *ast.AssignStmt:
					for i, l := range x.Lhs {
						if sel, ok := ast.Unparen(l).(*ast.SelectorExpr); ok {
							if s := info.Selections[sel]; s != nil && s.Obj() == field {
								if len(x.Lhs) == len(x.Rhs) && plainCopy(x.Rhs[i]) {
									continue
								}
								out[path]++
							}
						}
					}
				}
				return true
			})
		}
	}
	return out
}

// checkOrderRestoration (C01-R6): the optimiser may reverse a pattern and records that in PathDirectionReversed; every
// consumer that assembles a path's components across segments (relationships(p), the edge-id array, the path
// composite) restores the written order with reversePathCompositeExpressions under exactly that flag.  The consumers
// are siblings: they must agree.  A restoration guarded by anything more (or less) than the flag makes one consumer
// order the segments differently from the others for the same path.
func checkOrderRestoration(r *Run, tp *packages.Package) {
	const rule = "C01-R6-order-restoration"
	info := tp.TypesInfo
	for _, f := range tp.Syntax {
		for _, d := range f.Decls {
			fd, ok := d.(*ast.FuncDecl)
			if !ok || fd.Body == nil {
				continue
			}
			var stack []ast.Node
			n := 0
			ast.Inspect(fd.Body, func(node ast.Node) bool {
				if node == nil {
					stack = stack[:len(stack)-1]
					return true
				}
				stack = append(stack, node)
				call, ok := node.(*ast.CallExpr)
				if !ok {
					return true
				}
				callee := calleeOf(info, call)
				if callee == nil || callee.Name() != "reversePathCompositeExpressions" || callee.Pkg() != tp.Types {
					return true
				}
				n++
				construct := funcDeclName(fd) + ":" + exprString(r.Fset, call)
				var guards []string
				for _, anc := range stack {
					switch a := anc.(type) {
					case *ast.IfStmt:
						if call.Pos() >= a.Body.Pos() && call.End() <= a.Body.End() {
							guards = append(guards, exprString(r.Fset, a.Cond))
						} else {
							guards = append(guards, "else-of("+exprString(r.Fset, a.Cond)+")")
						}
					case *ast.CaseClause, *ast.ForStmt, *ast.RangeStmt:
						guards = append(guards, "nested")
					}
				}
				okShape := false
				if len(guards) == 1 {
					// exactly one enclosing condition: a bare selection of the flag
					for _, anc := range stack {
						if a, isIf := anc.(*ast.IfStmt); isIf {
							if sel, isSel := ast.Unparen(a.Cond).(*ast.SelectorExpr); isSel && sel.Sel.Name == "PathDirectionReversed" {
								okShape = true
							}
						}
					}
				}
				if okShape {
					r.Pass(rule, construct, call.Pos(), "restoration runs exactly when the pattern was reversed (%s)", guards[0])
				} else {
					r.Fail(rule, construct, call.Pos(), "the cross-segment order restoration is guarded by [%s] instead of the bare PathDirectionReversed flag that its sibling consumers use: for some reversed patterns this consumer lists the path's segments in the reversed physical order while the others restore the written order", strings.Join(guards, " ; "))
				}
				return true
			})
			_ = n
		}
	}
	r.Floor(rule, 4)
}

// checkTranslatorCopies (C01-R7): the translator snapshots its scope around nested contexts (pattern predicates,
// isolated projections) and restores it afterwards.  A Copy/Snapshot/Clone method that builds the copy with a
// composite literal must give every field of the struct: a field left out silently reverts to its zero value after
// the restore (PathDirectionReversed lost → a reversed path is rendered back to front only when a pattern predicate
// happens to sit in the same WHERE).
func checkTranslatorCopies(r *Run, pkgs ...*packages.Package) {
	const rule = "C01-R7-translator-copy-complete"
	for _, p := range pkgs {
		info := p.TypesInfo
		for _, f := range p.Syntax {
			for _, d := range f.Decls {
				fd, ok := d.(*ast.FuncDecl)
				if !ok || fd.Body == nil || fd.Recv == nil {
					continue
				}
				switch strings.ToLower(fd.Name.Name) {
				case "copy", "snapshot", "clone":
				default:
					continue
				}
				fn, _ := info.Defs[fd.Name].(*types.Func)
				if fn == nil {
					continue
				}
				recvNamed := namedOf(fn.Type().(*types.Signature).Recv().Type())
				if recvNamed == nil {
					continue
				}
				st, ok := recvNamed.Underlying().(*types.Struct)
				if !ok {
					continue
				}
				// the literal of the receiver's type that is returned
				var lit *ast.CompositeLit
				ast.Inspect(fd.Body, func(n ast.Node) bool {
					ret, ok := n.(*ast.ReturnStmt)
					if !ok || len(ret.Results) != 1 {
						return true
					}
					e := ast.Unparen(ret.Results[0])
					if u, ok := e.(*ast.UnaryExpr); ok && u.Op == token.AND {
						e = ast.Unparen(u.X)
					}
					if cl, ok := e.(*ast.CompositeLit); ok && namedOf(info.TypeOf(cl)) == recvNamed {
						lit = cl
					}
					return true
				})
				if lit == nil {
					continue
				}
				keyed := map[string]bool{}
				positional := 0
				for _, el := range lit.Elts {
					if kv, ok := el.(*ast.KeyValueExpr); ok {
						if k, ok := kv.Key.(*ast.Ident); ok {
							keyed[k.Name] = true
						}
					} else {
						positional++
					}
				}
				for i := 0; i < st.NumFields(); i++ {
					fld := st.Field(i)
					construct := shortPkg(p.PkgPath) + "." + recvNamed.Obj().Name() + "." + fd.Name.Name + ":" + fld.Name()
					if keyed[fld.Name()] || positional == st.NumFields() {
						r.Pass(rule, construct, lit.Pos(), "carried into the copy")
					} else {
						r.Fail(rule, construct, lit.Pos(), "%s.%s() builds its copy without field %s: after a snapshot/restore of the translator's scope the field is back to its zero value, so queries that trigger the snapshot are translated differently from those that do not", recvNamed.Obj().Name(), fd.Name.Name, fld.Name())
					}
				}
			}
		}
	}
	r.Floor(rule, 10)
}

// checkLikeEscaping (C01-R8): CONTAINS / STARTS WITH / ENDS WITH on a string literal are lowered to LIKE.  PostgreSQL's
// LIKE gives a meaning to three characters — %, _ and the escape character \ — so the literal is faithful only if all
// three are escaped. The replacer that builds the pattern must list each of them as a key with an escaped value.
func checkLikeEscaping(r *Run, tp *packages.Package) {
	const rule = "C01-R8-like-escape"
	info := tp.TypesInfo
	n := 0
	for _, f := range tp.Syntax {
		ast.Inspect(f, func(x ast.Node) bool {
			call, ok := x.(*ast.CallExpr)
			if !ok {
				return true
			}
			fn := calleeOf(info, call)
			if fn == nil || funcFullName(fn) != "strings.NewReplacer" {
				return true
			}
			pairs := map[string]string{}
			for i := 0; i+1 < len(call.Args); i += 2 {
				k, okK := info.Types[call.Args[i]]
				v, okV := info.Types[call.Args[i+1]]
				if okK && okV && k.Value != nil && v.Value != nil && k.Value.Kind() == constant.String && v.Value.Kind() == constant.String {
					pairs[constant.StringVal(k.Value)] = constant.StringVal(v.Value)
				}
			}
			if _, escapesWildcard := pairs["%"]; !escapesWildcard {
				if _, alt := pairs["_"]; !alt {
					return true // not a LIKE-pattern escaper
				}
			}
			n++
			fd := enclosingFuncDecl(tp, call.Pos())
			where := "package level"
			if fd != nil {
				where = funcDeclName(fd)
			}
			for _, meta := range []string{"\\", "%", "_"} {
				construct := where + ":escape(" + meta + ")"
				if v, ok := pairs[meta]; ok && v == "\\"+meta {
					r.Pass(rule, construct, call.Pos(), "%q is escaped as %q", meta, v)
				} else {
					r.Fail(rule, construct, call.Pos(), "the LIKE pattern builder does not escape %q (pairs: %v): PostgreSQL reads it as a wildcard or as the escape character, so a literal containing it matches different rows than the Cypher string predicate", meta, pairs)
				}
			}
			return true
		})
	}
	if n == 0 {
		r.Undecide("C01-R8: no LIKE-pattern escaper (strings.NewReplacer over %% / _) found in package translate")
		return
	}
	// the escaper is for LIKE patterns only: a call to a function holding such a replacer, made in a switch case that
	// also lists the regular-expression operator, must be conditional on the operator not being that one
	escapers := map[*types.Func]bool{}
	for _, f := range tp.Syntax {
		for _, d := range f.Decls {
			fd, ok := d.(*ast.FuncDecl)
			if !ok || fd.Body == nil {
				continue
			}
			holds := false
			ast.Inspect(fd.Body, func(x ast.Node) bool {
				if call, ok := x.(*ast.CallExpr); ok {
					if fn := calleeOf(info, call); fn != nil && funcFullName(fn) == "strings.NewReplacer" {
						for _, a := range call.Args {
							if tv, has := info.Types[a]; has && tv.Value != nil && tv.Value.Kind() == constant.String && constant.StringVal(tv.Value) == "%" {
								holds = true
							}
						}
					}
				}
				return true
			})
			if holds {
				if fn, ok := info.Defs[fd.Name].(*types.Func); ok {
					escapers[fn] = true
				}
			}
		}
	}
	sites := 0
	for _, f := range tp.Syntax {
		for _, d := range f.Decls {
			fd, ok := d.(*ast.FuncDecl)
			if !ok || fd.Body == nil {
				continue
			}
			ast.Inspect(fd.Body, func(x ast.Node) bool {
				cc, ok := x.(*ast.CaseClause)
				if !ok {
					return true
				}
				var regexConst types.Object
				for _, e := range cc.List {
					if sel, ok := ast.Unparen(e).(*ast.SelectorExpr); ok && strings.Contains(sel.Sel.Name, "Regex") {
						regexConst = info.Uses[sel.Sel]
					}
				}
				for _, st := range cc.Body {
					ast.Inspect(st, func(y ast.Node) bool {
						call, ok := y.(*ast.CallExpr)
						if !ok {
							return true
						}
						if fn := calleeOf(info, call); fn == nil || !escapers[fn] {
							return true
						}
						sites++
						construct := funcDeclName(fd) + ":like-escape-call"
						if regexConst == nil {
							r.Pass(rule, construct, call.Pos(), "the escaper is applied in a case of LIKE operators only")
							return true
						}
						excluded := false
						for _, l := range controlConds(cc, call) {
							ast.Inspect(l.Expr, func(k ast.Node) bool {
								if be, ok := k.(*ast.BinaryExpr); ok {
									for _, side := range []ast.Expr{be.X, be.Y} {
										if sel, ok := ast.Unparen(side).(*ast.SelectorExpr); ok && info.Uses[sel.Sel] == regexConst {
											if (be.Op == token.NEQ && !l.Neg) || (be.Op == token.EQL && l.Neg) {
												excluded = true
											}
										}
									}
								}
								return true
							})
						}
						if excluded {
							r.Pass(rule, construct, call.Pos(), "the case also handles the regular-expression operator, and the escaper is skipped for it")
						} else {
							r.Fail(rule, construct, call.Pos(), "the LIKE-pattern escaper is applied in a case that also handles %s: the backslashes of a regular expression are doubled, so `=~ '\\d+'` asks PostgreSQL for a literal backslash", regexConst.Name())
						}
						return true
					})
				}
				return true
			})
		}
	}
	if sites == 0 {
		r.Undecide("C01-R8: the LIKE-pattern escaper is never called from a switch case")
	}
	// the places that build the pattern itself ("%" + value, value + "%"): the value must have been escaped on every
	// path that reaches them. The escaper runs upstream only where the left operand is a property lookup, so a pattern
	// site is decided by whether the escaper is applied in its own case clause.
	patternSites := 0
	for _, f := range tp.Syntax {
		for _, d := range f.Decls {
			fd, ok := d.(*ast.FuncDecl)
			if !ok || fd.Body == nil {
				continue
			}
			ast.Inspect(fd.Body, func(x ast.Node) bool {
				cc, ok := x.(*ast.CaseClause)
				if !ok || len(cc.List) == 0 {
					return true
				}
				label := ""
				for _, e := range cc.List {
					if sel, ok := ast.Unparen(e).(*ast.SelectorExpr); ok && strings.HasPrefix(sel.Sel.Name, "OperatorCypher") {
						label = sel.Sel.Name
					}
				}
				if label == "" {
					return true
				}
				var concat *ast.BinaryExpr
				escaped := false
				for _, st := range cc.Body {
					ast.Inspect(st, func(y ast.Node) bool {
						switch t := y.(type) {
						case *ast.BinaryExpr:
							if t.Op == token.ADD && concat == nil {
								for _, side := range []ast.Expr{t.X, t.Y} {
									if tv, has := info.Types[side]; has && tv.Value != nil && tv.Value.Kind() == constant.String && constant.StringVal(tv.Value) == "%" {
										concat = t
									}
								}
							}
						case *ast.CallExpr:
							if fn := calleeOf(info, t); fn != nil && escapers[fn] {
								escaped = true
							}
						}
						return true
					})
				}
				if concat == nil {
					return true
				}
				patternSites++
				construct := funcDeclName(fd) + ":like-pattern:" + label
				if escaped {
					r.Pass(rule, construct, concat.Pos(), "the literal is escaped where the pattern is built")
				} else {
					r.Fail(rule, construct, concat.Pos(), "the LIKE pattern for %s is built from the literal as it is; the escaper runs upstream only when the left operand is a bare property lookup, so behind any other expression (coalesce(n.name, '') contains 'a_b') the literal's %%, _ and \\ act as pattern syntax", label)
				}
				return false
			})
		}
	}
	if patternSites == 0 {
		r.Undecide("C01-R8: no LIKE pattern construction (\"%%\" + literal) found in package translate")
	}
}

// checkRecogniserSymbolPairs (C01-R5, relational clause): a recogniser that binds the symbols of two pattern nodes in
// the same scope must compare them.  Whether two positions of a pattern carry the same variable is part of the
// pattern's meaning ((s)-[*]->(s) is a cycle constraint); a hand-built statement that has no place for that
// constraint may only be used when the recogniser has established that the symbols differ (or handles equality).
func checkRecogniserSymbolPairs(r *Run, cg *CallGraph, recs []*types.Func) {
	const rule = "C01-R5-recogniser-symbols"
	n := 0
	for _, rec := range recs {
		fd := cg.Decl[rec]
		if fd == nil || fd.Body == nil {
			continue
		}
		info := cg.PkgOf[rec].TypesInfo
		// does result #idx of callee return the Symbol of a node pattern's variable?
		returnsNodeSymbol := func(callee *types.Func, idx int) bool {
			cd := cg.Decl[callee]
			if cd == nil || cd.Body == nil {
				return false
			}
			cinfo := cg.PkgOf[callee].TypesInfo
			found := false
			ast.Inspect(cd.Body, func(m ast.Node) bool {
				ret, ok := m.(*ast.ReturnStmt)
				if !ok || idx >= len(ret.Results) {
					return true
				}
				if sel, ok := ast.Unparen(ret.Results[idx]).(*ast.SelectorExpr); ok && sel.Sel.Name == "Symbol" {
					if inner, ok := ast.Unparen(sel.X).(*ast.SelectorExpr); ok && inner.Sel.Name == "Variable" {
						if namedName(cinfo.TypeOf(inner.X)) == "NodePattern" {
							found = true
						}
					}
				}
				return true
			})
			return found
		}
		var syms []*types.Var
		ast.Inspect(fd.Body, func(m ast.Node) bool {
			as, ok := m.(*ast.AssignStmt)
			if !ok || len(as.Rhs) != 1 {
				return true
			}
			call, ok := ast.Unparen(as.Rhs[0]).(*ast.CallExpr)
			if !ok {
				return true
			}
			callee := calleeOf(info, call)
			if callee == nil {
				return true
			}
			for i, l := range as.Lhs {
				id, ok := l.(*ast.Ident)
				if !ok {
					continue
				}
				v, ok := info.Defs[id].(*types.Var)
				if !ok {
					continue
				}
				if b, ok := v.Type().Underlying().(*types.Basic); ok && b.Kind() == types.String && returnsNodeSymbol(callee.Origin(), i) {
					syms = append(syms, v)
				}
			}
			return true
		})
		for i := 0; i < len(syms); i++ {
			for j := i + 1; j < len(syms); j++ {
				a, b := syms[i], syms[j]
				if !(a.Parent().Contains(b.Pos()) || b.Parent().Contains(a.Pos())) {
					continue
				}
				n++
				compared := false
				ast.Inspect(fd.Body, func(m ast.Node) bool {
					be, ok := m.(*ast.BinaryExpr)
					if !ok || (be.Op != token.EQL && be.Op != token.NEQ) {
						return true
					}
					x, okx := ast.Unparen(be.X).(*ast.Ident)
					y, oky := ast.Unparen(be.Y).(*ast.Ident)
					if okx && oky {
						ox, oy := info.Uses[x], info.Uses[y]
						if (ox == a && oy == b) || (ox == b && oy == a) {
							compared = true
						}
					}
					return true
				})
				construct := shortFuncName(rec) + ":" + a.Name() + "~" + b.Name()
				if compared {
					r.Pass(rule, construct, b.Pos(), "the two node symbols are compared")
				} else {
					r.Fail(rule, construct, b.Pos(), "the recogniser binds the symbols of two pattern nodes (%s, %s) and never compares them: a pattern that uses the same variable in both places, such as (s)-[*1..]->(s), is accepted and the hand-built statement drops the constraint that both ends are the same node", a.Name(), b.Name())
				}
			}
		}
	}
	r.Note("%s: %d symbol pairs examined", rule, n)
}

// semanticRecogniserExemption looks an unexamined field up under keys that speak about the model type rather than about
// the recogniser's private function and variable names:
//
//	model-union:<Type>.<Field>|reads:<Other>   exactly one of the two fields is set by the parser; usable when the
//	                                            binding looks at <Other>
//	single-node:<Type>.<Field>                  the flag means nothing for a pattern that is a single node; usable when a
//	                                            member of the class is the parameter of a function that maps a pattern
//	                                            part to (its only node pattern, bool)
func semanticRecogniserExemption(r *Run, exempt Table, typeName, field string, reads map[string]bool, members []*recBinding) bool {
	for key := range exempt {
		prefix := "model-union:" + typeName + "." + field + "|reads:"
		if strings.HasPrefix(key, prefix) && reads[strings.TrimPrefix(key, prefix)] {
			_, ok := r.InTable(exempt, "c01_exempt", key)
			return ok
		}
	}
	if _, has := exempt["single-node:"+typeName+"."+field]; has {
		for _, m := range members {
			sig := m.fn.Type().(*types.Signature)
			if sig.Params().Len() == 1 && sig.Params().At(0) == m.obj && sig.Results().Len() == 2 {
				if namedName(sig.Results().At(0).Type()) == "NodePattern" {
					if b, ok := sig.Results().At(1).Type().Underlying().(*types.Basic); ok && b.Kind() == types.Bool {
						_, ok := r.InTable(exempt, "c01_exempt", "single-node:"+typeName+"."+field)
						return ok
					}
				}
			}
		}
	}
	return false
}
