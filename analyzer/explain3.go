package main

// Additions to the per-property explanations for the rules of the third round (kept next to each other so that the
// evidence files say what is covered without the long explanation strings of the cNN.go files being rewritten).
var explanationAddenda = map[string]string{
	"C01": "Third round: the LIKE escaper is not applied to regex operands and is applied where patterns are built (three pattern sites are known findings pinned by goldens); both builders of a query part read the ORDER BY/SKIP/LIMIT the projection preparer writes; every aggregate case hands on DISTINCT; the pg driver's composite decoder scratch is fresh per decode.",
	"C02": "Third round: a clause's symbols are declared whatever its own flags (OPTIONAL) say; a bound read from the pattern range is never overridden (no clamp of *0.. to *1..).",
	"C03": "Third round: parameter merges are total (no value-dependent skip); occurrence counters of the source-reference collector are unconditional on other collector state; endpoint/column/bound-flag roles of boundEndpointProjectionConstraint-style calls agree.",
	"C04": "Third round: the text with quotes doubled goes straight between its delimiters (no cut, trim or rewrite of escaped text).",
	"C05": "Third round: counted last-element reads are guarded; constant indexes into caller-value slices are under a length test; no function on the translation path writes a map[string]any/[]any it was handed; lookup methods of a lock-free kind mapper write nothing.",
	"C06": "Third round: direct reads of the scope's alias map count as alias lookups (generated-first order); a user alias of an optimiser shape may only name an output column (two known findings pinned by tests); the front end keeps variable symbols as written (injective $-keys); a projection item's alias is not compared with its own select expression.",
	"C07": "Third round: the keywords outside oC_ReservedWord ∪ oC_SymbolicName (computed from the grammar) are never emitted bare as property keys; keyed stores of parsed pairs report repeats; no narrowing/sign-changing conversion of parsed numbers; the emitter package keeps no state; kind-name backticks are treated alike by front end and emitter; the bare-name character predicates stay within UAX #31's derivation of the grammar's Unicode properties.",
	"C08": "Third round: Context.Enter/Exit change the visitor stack on every call; no method call on a parse-tree child accessor's result without a nil test.",
	"C10": "Third round: precedence closure evaluated over value sets, including same-level comparison chains and the arithmetic cases (helper used, arithmetic nodes have a precedence, right operand demanded strictly tighter); kind tests hoisted only into a pattern without kinds; the Neo4j rewriter's rewritten flag implies its parameter map, which its methods read only through the accessor; the emitter package keeps no state.",
	"C11": "Third round: every copy() guards a nil receiver; `any` payload fields copied by assignment are reported (two known findings); the Generic walk is analysed with local closures inlined and the consume flag followed forwards from every Exit; index-paired child lists are length-checked with !=; graph.Kinds.Copy never returns its receiver.",
	"C12": "Third round: a conditional early exit before the tracking effects makes them conditional; Kinds methods never rewrite a slice they were handed and look kinds up with one equality; a Properties pointer that one entity method allows to be nil is guarded in the others.",
	"C13": "Third round: a set operand is never handed raw to the wrapped provider under the wrapper's lock (prepared by a helper that recognises wrappers and reads them under their own lock); duplex providers use no package-level pools.",
	"C14": "Third round: loop-index offsets guarded; decompressing readers are what is read and raw ID records are not delimiter-framed; NumNodes ≠ NumEdges; a projection's counts apply its iteration's membership tests.",
	"C15": "Third round: the partial mark is only ever set; 64-bit IDs are not narrowed.",
	"C16": "Third round: the eviction hand is not taken from queue.Back()/Front() just before a removal.",
	"C17": "Third round: the worker's error path is decided as an implication over its path condition: any error returned while the traversal context is alive cancels the traversal and is recorded.",
	"C18": "Third round: the record writer applies the reader's line limit; decoders of untyped targets use UseNumber and the numbers are converted before storing; IDs are not narrowed; start/end arguments match start/end parameters.",
	"C19": "Third round: an io.Reader option is consumed once; the persist callback returns exactly the checkpoint write's error.",
	"C20": "Third round: the preflight's source-ID index is rebuilt on every graph unconditionally; the EOF gate looks at the byte count before the error; the manifest validator refuses repeated fragment paths; verification loops cannot continue before the verifier.",
}
