package main

// C01-R10 aggregate-distinct: DISTINCT inside an aggregate (count(distinct x)) is a flag of the function invocation.
// Every case of the translator's function switch that builds a call to an SQL aggregate must hand that flag on;
// min and max give the same answer with and without duplicates and are the only exceptions.

import (
	"go/ast"
	"go/types"
	"sort"
	"strings"

	"golang.org/x/tools/go/packages"
)

var duplicateInsensitiveAggregates = map[string]string{
	"FunctionMin":       "the minimum of a multiset is the minimum of its set",
	"FunctionMax":       "the maximum of a multiset is the maximum of its set",
	"FunctionCypherMin": "the minimum of a multiset is the minimum of its set",
	"FunctionCypherMax": "the maximum of a multiset is the maximum of its set",
}

func checkAggregateDistinct(r *Run, tp, pg *packages.Package) {
	// the aggregate set, from pgsql.IsAggregateFunction
	aggregates := map[types.Object]bool{}
	if fd := FuncDecls(pg)["IsAggregateFunction"]; fd != nil {
		ast.Inspect(fd.Body, func(x ast.Node) bool {
			if cc, ok := x.(*ast.CaseClause); ok {
				returnsTrue := false
				for _, st := range cc.Body {
					if rs, ok := st.(*ast.ReturnStmt); ok && len(rs.Results) == 1 {
						if tv, has := pg.TypesInfo.Types[rs.Results[0]]; has && tv.Value != nil && tv.Value.String() == "true" {
							returnsTrue = true
						}
					}
				}
				if returnsTrue {
					for _, e := range cc.List {
						if id, ok := e.(*ast.Ident); ok {
							aggregates[pg.TypesInfo.Uses[id]] = true
						}
					}
				}
			}
			return true
		})
	}
	if len(aggregates) < 4 {
		r.Undecide("C01-R10: pgsql.IsAggregateFunction lists fewer than four aggregates (%d)", len(aggregates))
		return
	}
	info := tp.TypesInfo
	decls := map[*types.Func]*ast.FuncDecl{}
	for _, f := range tp.Syntax {
		for _, d := range f.Decls {
			if fd, ok := d.(*ast.FuncDecl); ok && fd.Body != nil {
				if fn, ok := info.Defs[fd.Name].(*types.Func); ok {
					decls[fn] = fd
				}
			}
		}
	}
	aggregatesIn := func(n ast.Node) map[string]bool {
		out := map[string]bool{}
		var visit func(n ast.Node, depth int)
		visit = func(n ast.Node, depth int) {
			ast.Inspect(n, func(x ast.Node) bool {
				switch t := x.(type) {
				case *ast.SelectorExpr:
					if obj := info.Uses[t.Sel]; obj != nil && aggregates[obj] {
						out[obj.Name()] = true
					}
				case *ast.CallExpr:
					if depth < 1 {
						if fn := calleeOf(info, t); fn != nil && fn.Pkg() == tp.Types && decls[fn] != nil && fn.Type().(*types.Signature).Recv() == nil {
							visit(decls[fn].Body, depth+1)
						}
					}
				}
				return true
			})
		}
		visit(n, 0)
		return out
	}
	n := 0
	for _, fd := range decls {
		ast.Inspect(fd.Body, func(x ast.Node) bool {
			sw, ok := x.(*ast.SwitchStmt)
			if !ok || sw.Tag == nil {
				return true
			}
			// the function switch: its cases are the cypher package's *Function name constants
			named := 0
			for _, c := range sw.Body.List {
				for _, e := range c.(*ast.CaseClause).List {
					if s2, ok := ast.Unparen(e).(*ast.SelectorExpr); ok {
						if c2, isConst := info.Uses[s2.Sel].(*types.Const); isConst && strings.HasSuffix(c2.Name(), "Function") && c2.Pkg() != nil && strings.HasSuffix(c2.Pkg().Path(), "models/cypher") {
							named++
						}
					}
				}
			}
			if named < 10 {
				return true
			}
			for _, c := range sw.Body.List {
				cc := c.(*ast.CaseClause)
				if cc.List == nil {
					continue
				}
				aggs := aggregatesIn(cc)
				if len(aggs) == 0 {
					continue
				}
				var names []string
				sensitive := false
				for a := range aggs {
					names = append(names, a)
					if _, insensitive := duplicateInsensitiveAggregates[a]; !insensitive {
						sensitive = true
					}
				}
				sort.Strings(names)
				label := exprString(r.Fset, cc.List[0])
				construct := "function:" + label
				n++
				readsDistinct := false
				ast.Inspect(cc, func(y ast.Node) bool {
					if s2, ok := y.(*ast.SelectorExpr); ok && s2.Sel.Name == "Distinct" && namedName(info.TypeOf(s2.X)) == "FunctionInvocation" {
						readsDistinct = true
					}
					return true
				})
				switch {
				case readsDistinct:
					r.Pass("C01-R10-aggregate-distinct", construct, cc.Pos(), "the DISTINCT flag of the invocation is handed to %s", strings.Join(names, ", "))
				case !sensitive:
					r.Pass("C01-R10-aggregate-distinct", construct, cc.Pos(), "%s: %s", strings.Join(names, ", "), duplicateInsensitiveAggregates[names[0]])
				default:
					r.Fail("C01-R10-aggregate-distinct", construct, cc.Pos(), "the case for %s builds a call to the aggregate %s without reading FunctionInvocation.Distinct: %s(distinct x) is computed over every row, duplicates included", label, strings.Join(names, ", "), strings.ToLower(strings.TrimSuffix(strings.TrimPrefix(label, "cypher."), "Function")))
				}
			}
			return true
		})
	}
	if n < 4 {
		r.Undecide("C01-R10: fewer than four aggregate cases found in the function translator (%d)", n)
	}
}
