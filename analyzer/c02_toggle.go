package main

// C02-R4 — set before toggle.
//
// A boolean field that is both set absolutely (x.F = true) and toggled (x.F = !x.F) records a parity: the optimiser's
// pattern reversal sets it, and each later direction flip of the step toggles it, so that two reversals cancel.  The
// two writes do not commute.  If an absolute write runs after a call that can toggle the field, the toggle is
// overwritten and the recorded parity is wrong (the recursive CTE then prepends edges while walking forward, and the
// path segment comes out back to front).  Rule: in the function that contains an absolute write of such a field, no
// call that precedes the write can reach a toggler of the same field.

import (
	"go/ast"
	"go/token"
	"go/types"
	"strings"

	"golang.org/x/tools/go/packages"
)

func checkSetBeforeToggle(r *Run, cg *CallGraph) {
	const rule = "C02-R4-set-before-toggle"
	togglers := map[*types.Var][]*types.Func{}
	type absWrite struct {
		fn  *types.Func
		fd  *ast.FuncDecl
		pos token.Pos
	}
	abs := map[*types.Var][]absWrite{}
	mentions := func(info *types.Info, e ast.Expr, f *types.Var) bool {
		found := false
		ast.Inspect(e, func(n ast.Node) bool {
			if sel, ok := n.(*ast.SelectorExpr); ok {
				if s := info.Selections[sel]; s != nil && s.Obj() == f {
					found = true
				}
			}
			return true
		})
		return found
	}
	for fn, fd := range cg.Decl {
		p := cg.PkgOf[fn]
		if fd.Body == nil || !strings.Contains(p.PkgPath, "/cypher/models/pgsql") {
			continue
		}
		info := p.TypesInfo
		ast.Inspect(fd.Body, func(n ast.Node) bool {
			as, ok := n.(*ast.AssignStmt)
			if !ok || as.Tok != token.ASSIGN || len(as.Lhs) != len(as.Rhs) {
				return true
			}
			for i, l := range as.Lhs {
				sel, ok := ast.Unparen(l).(*ast.SelectorExpr)
				if !ok {
					continue
				}
				s := info.Selections[sel]
				if s == nil || s.Kind() != types.FieldVal {
					continue
				}
				f := s.Obj().(*types.Var)
				if b, ok := f.Type().Underlying().(*types.Basic); !ok || b.Kind() != types.Bool {
					continue
				}
				if u, ok := ast.Unparen(as.Rhs[i]).(*ast.UnaryExpr); ok && u.Op == token.NOT && mentions(info, u.X, f) {
					togglers[f] = append(togglers[f], fn)
				} else if !mentions(info, as.Rhs[i], f) {
					abs[f] = append(abs[f], absWrite{fn, fd, as.Pos()})
				}
			}
			return true
		})
	}
	nFields := 0
	for f, ts := range togglers {
		if len(abs[f]) == 0 {
			continue
		}
		nFields++
		isToggler := map[*types.Func]bool{}
		for _, t := range ts {
			isToggler[t] = true
		}
		reachCache := map[*types.Func]string{}
		reachesToggler := func(fn *types.Func) string {
			if v, ok := reachCache[fn]; ok {
				return v
			}
			reach := cg.Reach([]*types.Func{fn}, nil)
			out := ""
			for t := range isToggler {
				if _, ok := reach[t]; ok {
					out = cg.PathTo(reach, t)
				}
			}
			reachCache[fn] = out
			return out
		}
		owner := ""
		if f.Pkg() != nil {
			owner = shortPkg(f.Pkg().Path()) + "."
		}
		for _, w := range abs[f] {
			info := cg.PkgOf[w.fn].TypesInfo
			offending, path := token.NoPos, ""
			ast.Inspect(w.fd.Body, func(n ast.Node) bool {
				call, ok := n.(*ast.CallExpr)
				if !ok || call.Pos() >= w.pos || offending != token.NoPos {
					return true
				}
				if c := calleeOf(info, call); c != nil && cg.Decl[c] != nil {
					if p := reachesToggler(c); p != "" {
						offending, path = call.Pos(), p
					}
				}
				return true
			})
			construct := owner + f.Name() + "@" + funcDeclName(w.fd)
			if offending == token.NoPos {
				r.Pass(rule, construct, w.pos, "no call before the absolute write can toggle %s", f.Name())
			} else {
				r.Fail(rule, construct, w.pos, "%s is set absolutely after a call (%s) that can toggle it (%s): a toggle applied by that call is overwritten, so the recorded parity is wrong when both the set and the toggle apply", f.Name(), r.Pos(offending), path)
			}
		}
	}
	r.Ob("C02-R4-parity-fields", "pgsql", token.NoPos, nFields >= 1, "%d boolean fields are both set absolutely and toggled (1 confirmed by reading: TraversalStep.PathReversed)", nFields)
	r.Floor(rule, 1)
}

// checkReversalSeesEarlierParts (C02-R5): the pattern reversal is sound only for a pattern whose source is not bound yet,
// because the reversed expansion re-reads its far end by id.  Bindings come from earlier clauses AND from earlier
// pattern parts of the same MATCH (MATCH (s {…}), p = (s)-[*0..]->…).  In every loop over a MATCH's pattern parts that
// may reverse a part, the set of declared symbols handed to the reversal test must be extended with each part's
// symbols inside the loop.
func checkReversalSeesEarlierParts(r *Run, op *packages.Package, cg *CallGraph) {
	const rule = "C02-R5-reversal-bindings"
	info := op.TypesInfo
	reverser := patternReverser(op)
	if reverser == nil {
		r.Undecide("C02-R5: the pattern reverser (a function of package optimize that assigns Direction = Direction.Reverse()) was not found")
		return
	}
	n := 0
	for _, f := range op.Syntax {
		for _, d := range f.Decls {
			fd, ok := d.(*ast.FuncDecl)
			if !ok || fd.Body == nil {
				continue
			}
			ast.Inspect(fd.Body, func(x ast.Node) bool {
				rs, ok := x.(*ast.RangeStmt)
				if !ok {
					return true
				}
				sel, ok := ast.Unparen(rs.X).(*ast.SelectorExpr)
				if !ok || sel.Sel.Name != "Pattern" {
					return true
				}
				part, ok := rs.Value.(*ast.Ident)
				if !ok {
					return true
				}
				partObj := info.Defs[part]
				// a call in the body that takes the part and a map of declared symbols and can reach the reverser
				var declared types.Object
				ast.Inspect(rs.Body, func(m ast.Node) bool {
					call, ok := m.(*ast.CallExpr)
					if !ok {
						return true
					}
					callee := calleeOf(info, call)
					if callee == nil || cg.Decl[callee] == nil {
						return true
					}
					if _, reaches := cg.Reach([]*types.Func{callee}, nil)[reverser]; !reaches {
						return true
					}
					takesPart := false
					for _, a := range call.Args {
						if id, ok := ast.Unparen(a).(*ast.Ident); ok {
							if info.Uses[id] == partObj {
								takesPart = true
							} else if _, isMap := info.TypeOf(id).Underlying().(*types.Map); isMap && declared == nil {
								declared = info.Uses[id]
							}
						}
					}
					if !takesPart {
						declared = nil
					}
					return true
				})
				if declared == nil {
					return true
				}
				n++
				extends := false
				ast.Inspect(rs.Body, func(m ast.Node) bool {
					call, ok := m.(*ast.CallExpr)
					if !ok {
						return true
					}
					// the call that records the part's symbols: any call that is handed the declared-symbols map and the part
					// and does not itself lead to the reverser
					callee := calleeOf(info, call)
					if callee == nil {
						return true
					}
					if _, reaches := cg.Reach([]*types.Func{callee}, nil)[reverser]; reaches {
						return true
					}
					hasMap, hasPart := false, false
					for _, a := range call.Args {
						if id, ok := ast.Unparen(a).(*ast.Ident); ok {
							if info.Uses[id] == declared {
								hasMap = true
							}
							if info.Uses[id] == partObj {
								hasPart = true
							}
						}
					}
					if hasMap && hasPart {
						extends = true
					}
					return true
				})
				construct := funcDeclName(fd) + ":range " + exprString(r.Fset, rs.X)
				if extends {
					r.Pass(rule, construct, rs.Pos(), "each pattern part declares its symbols for the parts that follow it")
				} else {
					r.Fail(rule, construct, rs.Pos(), "the loop may reverse a pattern part but %s only learns the symbols of earlier clauses: in MATCH (s {name:'a'}), p = (s)-[*0..]->()-[]->(d {name:'x'}) the second part is reversed although s is bound by the first, and the reversed statement returns paths from every node", declared.Name())
				}
				return true
			})
		}
	}
	if n == 0 {
		r.Undecide("C02-R5: no loop over a MATCH's pattern parts that can reverse a part was found in package optimize")
	}
}

// checkWithCarryReadsAlias (C02-R5, WITH clause): symbols stay bound across WITH under their alias (WITH s AS src binds
// src).  The function that carries the reversal rule's set of bound symbols over a WITH projection must look at
// ProjectionItem.Alias; one that only recognises bare variables forgets every renamed binding, and a traversal that
// starts at such a binding is reversed although its source is bound.
func checkWithCarryReadsAlias(r *Run, op *packages.Package, cg *CallGraph) {
	const rule = "C02-R5-reversal-bindings"
	info := op.TypesInfo
	cp := r.MustPkg("cypher/models/cypher")
	var aliasField *types.Var
	if tn, ok := cp.Types.Scope().Lookup("ProjectionItem").(*types.TypeName); ok {
		if st, ok := tn.Type().Underlying().(*types.Struct); ok {
			for i := 0; i < st.NumFields(); i++ {
				if st.Field(i).Name() == "Alias" {
					aliasField = st.Field(i)
				}
			}
		}
	}
	if aliasField == nil {
		r.Undecide("C02-R5: cypher.ProjectionItem.Alias not found")
		return
	}
	n := 0
	reverserFn := patternReverser(op)
	for fn, fd := range cg.Decl {
		if cg.PkgOf[fn] != op || fd.Body == nil || reverserFn == nil {
			continue
		}
		// the functions of the reversal rule: those from which the pattern reverser is reachable
		if _, reaches := cg.Reach([]*types.Func{fn}, nil)[reverserFn]; !reaches {
			continue
		}
		ast.Inspect(fd.Body, func(x ast.Node) bool {
			call, ok := x.(*ast.CallExpr)
			if !ok {
				return true
			}
			takesWithProjection := false
			for _, a := range call.Args {
				if sel, ok := ast.Unparen(a).(*ast.SelectorExpr); ok && sel.Sel.Name == "Projection" {
					if inner, ok := ast.Unparen(sel.X).(*ast.SelectorExpr); ok && inner.Sel.Name == "With" {
						takesWithProjection = true
					}
				}
			}
			callee := calleeOf(info, call)
			if !takesWithProjection || callee == nil || cg.Decl[callee] == nil {
				return true
			}
			n++
			// does the carry function add to its result set a value that can be ProjectionItem.Alias.Symbol?
			var mayBeAlias func(g *types.Func, e ast.Expr, depth int) bool
			mayBeAlias = func(g *types.Func, e ast.Expr, depth int) bool {
				gd := cg.Decl[g]
				if gd == nil || gd.Body == nil || depth > 5 {
					return false
				}
				ginfo := cg.PkgOf[g].TypesInfo
				switch x := ast.Unparen(e).(type) {
				case *ast.SelectorExpr:
					if x.Sel.Name == "Symbol" {
						if inner, ok := ast.Unparen(x.X).(*ast.SelectorExpr); ok {
							if sl := ginfo.Selections[inner]; sl != nil && sl.Obj() == aliasField {
								return true
							}
						}
					}
				case *ast.Ident:
					obj := ginfo.Uses[x]
					if obj == nil {
						return false
					}
					found := false
					ast.Inspect(gd.Body, func(m ast.Node) bool {
						as, ok := m.(*ast.AssignStmt)
						if !ok || found {
							return true
						}
						for k, l := range as.Lhs {
							id, ok := l.(*ast.Ident)
							if !ok || (ginfo.Defs[id] != obj && ginfo.Uses[id] != obj) {
								continue
							}
							if len(as.Lhs) == len(as.Rhs) {
								if mayBeAlias(g, as.Rhs[k], depth+1) {
									found = true
								}
							} else if len(as.Rhs) == 1 {
								if c, ok := ast.Unparen(as.Rhs[0]).(*ast.CallExpr); ok {
									if h := calleeOf(ginfo, c); h != nil && cg.Decl[h] != nil && cg.Decl[h].Body != nil {
										ast.Inspect(cg.Decl[h].Body, func(q ast.Node) bool {
											if ret, ok := q.(*ast.ReturnStmt); ok && k < len(ret.Results) && mayBeAlias(h, ret.Results[k], depth+1) {
												found = true
											}
											return true
										})
									}
								}
							}
						}
						return true
					})
					return found
				}
				return false
			}
			reads := false
			if cd := cg.Decl[callee]; cd != nil && cd.Body != nil {
				cinfo := cg.PkgOf[callee].TypesInfo
				ast.Inspect(cd.Body, func(m ast.Node) bool {
					switch y := m.(type) {
					case *ast.CallExpr:
						if h := calleeOf(cinfo, y); h != nil && strings.HasPrefix(h.Name(), "add") && len(y.Args) == 2 && mayBeAlias(callee, y.Args[1], 0) {
							reads = true
						}
					case *ast.AssignStmt:
						for _, l := range y.Lhs {
							if ix, ok := ast.Unparen(l).(*ast.IndexExpr); ok && mayBeAlias(callee, ix.Index, 0) {
								reads = true
							}
						}
					}
					return true
				})
			}
			construct := funcDeclName(fd) + ":" + callee.Name() + "(With.Projection)"
			if reads {
				r.Pass(rule, construct, call.Pos(), "%s adds ProjectionItem.Alias.Symbol to the carried set: renamed bindings stay bound", callee.Name())
			} else {
				r.Fail(rule, construct, call.Pos(), "%s carries the bound symbols over WITH without ever adding ProjectionItem.Alias.Symbol to the carried set: after WITH s AS src the symbol src is not bound for the reversal rule, the traversal that starts at src is reversed, and its far end is re-read as any node with the reached id", callee.Name())
			}
			return true
		})
	}
	if n == 0 {
		r.Undecide("C02-R5: no carry of the reversal rule's bound symbols over a WITH projection found")
	}
}

// patternReverser: the function of package optimize that reverses a pattern in place — found by the assignment
// `x.Direction = x.Direction.Reverse()`, not by its private name.
func patternReverser(op *packages.Package) *types.Func {
	info := op.TypesInfo
	var found *types.Func
	for _, fd := range declsWhere(op, func(fd *ast.FuncDecl) bool {
		hit := false
		ast.Inspect(fd.Body, func(n ast.Node) bool {
			as, ok := n.(*ast.AssignStmt)
			if !ok || len(as.Lhs) != 1 || len(as.Rhs) != 1 {
				return true
			}
			sel, ok := ast.Unparen(as.Lhs[0]).(*ast.SelectorExpr)
			if !ok || sel.Sel.Name != "Direction" {
				return true
			}
			if call, ok := ast.Unparen(as.Rhs[0]).(*ast.CallExpr); ok {
				if cs, ok := call.Fun.(*ast.SelectorExpr); ok && cs.Sel.Name == "Reverse" {
					hit = true
				}
			}
			return true
		})
		return hit
	}) {
		if fn, ok := info.Defs[fd.Name].(*types.Func); ok && found == nil {
			found = fn
		}
	}
	return found
}
