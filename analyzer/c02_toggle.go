package main

// C02-R4 — set before toggle.
//
// A boolean field that is both set absolutely (x.F = true) and toggled (x.F = !x.F) records a parity: the optimiser's
// pattern reversal sets it, and each later direction flip of the step toggles it, so that two reversals cancel.  The
// two writes do not commute.  If an absolute write runs after a call that can toggle the field, the toggle is
// overwritten and the recorded parity is wrong (the recursive CTE then prepends edges while walking forward, and the
// path segment comes out back to front).  Rule: in the function that contains an absolute write of such a field, no
// call that precedes the write can reach a toggler of the same field.

import (
	"go/ast"
	"go/token"
	"go/types"
	"strings"
)

func checkSetBeforeToggle(r *Run, cg *CallGraph) {
	const rule = "C02-R4-set-before-toggle"
	togglers := map[*types.Var][]*types.Func{}
	type absWrite struct {
		fn  *types.Func
		fd  *ast.FuncDecl
		pos token.Pos
	}
	abs := map[*types.Var][]absWrite{}
	mentions := func(info *types.Info, e ast.Expr, f *types.Var) bool {
		found := false
		ast.Inspect(e, func(n ast.Node) bool {
			if sel, ok := n.(*ast.SelectorExpr); ok {
				if s := info.Selections[sel]; s != nil && s.Obj() == f {
					found = true
				}
			}
			return true
		})
		return found
	}
	for fn, fd := range cg.Decl {
		p := cg.PkgOf[fn]
		if fd.Body == nil || !strings.Contains(p.PkgPath, "/cypher/models/pgsql") {
			continue
		}
		info := p.TypesInfo
		ast.Inspect(fd.Body, func(n ast.Node) bool {
			as, ok := n.(*ast.AssignStmt)
			if !ok || as.Tok != token.ASSIGN || len(as.Lhs) != len(as.Rhs) {
				return true
			}
			for i, l := range as.Lhs {
				sel, ok := ast.Unparen(l).(*ast.SelectorExpr)
				if !ok {
					continue
				}
				s := info.Selections[sel]
				if s == nil || s.Kind() != types.FieldVal {
					continue
				}
				f := s.Obj().(*types.Var)
				if b, ok := f.Type().Underlying().(*types.Basic); !ok || b.Kind() != types.Bool {
					continue
				}
				if u, ok := ast.Unparen(as.Rhs[i]).(*ast.UnaryExpr); ok && u.Op == token.NOT && mentions(info, u.X, f) {
					togglers[f] = append(togglers[f], fn)
				} else if !mentions(info, as.Rhs[i], f) {
					abs[f] = append(abs[f], absWrite{fn, fd, as.Pos()})
				}
			}
			return true
		})
	}
	nFields := 0
	for f, ts := range togglers {
		if len(abs[f]) == 0 {
			continue
		}
		nFields++
		isToggler := map[*types.Func]bool{}
		for _, t := range ts {
			isToggler[t] = true
		}
		reachCache := map[*types.Func]string{}
		reachesToggler := func(fn *types.Func) string {
			if v, ok := reachCache[fn]; ok {
				return v
			}
			reach := cg.Reach([]*types.Func{fn}, nil)
			out := ""
			for t := range isToggler {
				if _, ok := reach[t]; ok {
					out = cg.PathTo(reach, t)
				}
			}
			reachCache[fn] = out
			return out
		}
		owner := ""
		if f.Pkg() != nil {
			owner = shortPkg(f.Pkg().Path()) + "."
		}
		for _, w := range abs[f] {
			info := cg.PkgOf[w.fn].TypesInfo
			offending, path := token.NoPos, ""
			ast.Inspect(w.fd.Body, func(n ast.Node) bool {
				call, ok := n.(*ast.CallExpr)
				if !ok || call.Pos() >= w.pos || offending != token.NoPos {
					return true
				}
				if c := calleeOf(info, call); c != nil && cg.Decl[c] != nil {
					if p := reachesToggler(c); p != "" {
						offending, path = call.Pos(), p
					}
				}
				return true
			})
			construct := owner + f.Name() + "@" + funcDeclName(w.fd)
			if offending == token.NoPos {
				r.Pass(rule, construct, w.pos, "no call before the absolute write can toggle %s", f.Name())
			} else {
				r.Fail(rule, construct, w.pos, "%s is set absolutely after a call (%s) that can toggle it (%s): a toggle applied by that call is overwritten, so the recorded parity is wrong when both the set and the toggle apply", f.Name(), r.Pos(offending), path)
			}
		}
	}
	r.Ob("C02-R4-parity-fields", "pgsql", token.NoPos, nFields >= 1, "%d boolean fields are both set absolutely and toggled (1 confirmed by reading: TraversalStep.PathReversed)", nFields)
	r.Floor(rule, 1)
}
