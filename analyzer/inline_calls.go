package main

// inlineCalls: statement-level inlining of same-package helper functions, for path rules.
//
// A rule that follows the control-flow graph of one function stops seeing a step as soon as the step is moved into a
// helper (`if err := exitNode(visitor, n); err != nil { return err }`). Rather than teaching every rule about every
// helper, the function's body is rewritten before go/cfg sees it: a call statement of one of the shapes
//
//	h(args)
//	lhs… = h(args)            lhs… := h(args)
//	if lhs… := h(args); cond { A } else { B }
//	return h(args)
//
// is replaced by the helper's own statements, with every `return e…` of the helper turned into the assignment
// `lhs… = e…` followed by what the caller does next. For the if-shape with an error test (`x != nil` / `x == nil` on the
// variable that receives the helper's error), a return whose error is the literal nil continues with the nil arm only
// and a return whose error is known to be non-nil (a fresh error, or an identifier returned under its own `!= nil` test)
// with the non-nil arm only; anything else keeps the whole if statement. The helper must be in tail-return form after
// guard clauses are nested (no return inside a loop, switch or select, no defer, no named-result bare return);
// otherwise the call is left alone.
//
// The original statement and expression nodes are reused, so go/types information stays valid for them; only the
// connecting assignments are synthetic. The helper's parameters are different objects from the caller's variables: the
// returned inlineAliases maps a parameter to the caller object it was bound to when the argument is a plain identifier
// (transitively), and rules compare objects through Root.

import (
	"fmt"
	"go/ast"
	"go/token"
	"go/types"
	"os"

	"golang.org/x/tools/go/packages"
)

type inlineAliases struct {
	alias     map[types.Object]types.Object
	ambiguous map[types.Object]bool
	// Inlined lists the helpers whose statements were spliced in, in the order of first use.
	Inlined []string
}

// Root resolves a helper parameter to the caller-side object it stands for (itself when unknown).
func (a *inlineAliases) Root(o types.Object) types.Object {
	if a == nil {
		return o
	}
	for i := 0; i < 8 && o != nil; i++ {
		n, ok := a.alias[o]
		if !ok || a.ambiguous[o] {
			return o
		}
		o = n
	}
	return o
}

func (a *inlineAliases) bind(param, arg types.Object) {
	if param == nil || arg == nil {
		return
	}
	arg = a.Root(arg)
	if prev, ok := a.alias[param]; ok && a.Root(prev) != arg {
		a.ambiguous[param] = true
		return
	}
	a.alias[param] = arg
}

type callInliner struct {
	p       *packages.Package
	info    *types.Info
	byObj   map[types.Object]*ast.FuncDecl
	aliases *inlineAliases
	skip    func(fn *types.Func) bool
	budget  int
	methods bool
}

// inlineCalls returns body with same-package helper calls inlined to the given depth. skip (optional) names callees
// that must stay opaque. self is the function being analysed (never inlined into itself).
func inlineCalls(p *packages.Package, self *ast.FuncDecl, body *ast.BlockStmt, depth int, skip func(fn *types.Func) bool) (*ast.BlockStmt, *inlineAliases) {
	return inlineCallsOpt(p, self, body, depth, skip, false)
}

func inlineCallsOpt(p *packages.Package, self *ast.FuncDecl, body *ast.BlockStmt, depth int, skip func(fn *types.Func) bool, methods bool) (*ast.BlockStmt, *inlineAliases) {
	in := &callInliner{p: p, info: p.TypesInfo, byObj: map[types.Object]*ast.FuncDecl{}, skip: skip, budget: 40000, methods: methods,
		aliases: &inlineAliases{alias: map[types.Object]types.Object{}, ambiguous: map[types.Object]bool{}}}
	for _, f := range p.Syntax {
		for _, d := range f.Decls {
			if fd, ok := d.(*ast.FuncDecl); ok && fd.Body != nil {
				if o := p.TypesInfo.Defs[fd.Name]; o != nil {
					in.byObj[o] = fd
				}
			}
		}
	}
	active := map[*ast.FuncDecl]bool{}
	if self != nil {
		active[self] = true
	}
	out := &ast.BlockStmt{Lbrace: body.Lbrace, Rbrace: body.Rbrace, List: in.rewriteList(body.List, depth, active)}
	return out, in.aliases
}

func (in *callInliner) helperFor(call *ast.CallExpr, active map[*ast.FuncDecl]bool) *ast.FuncDecl {
	if call == nil {
		return nil
	}
	fn := calleeOf(in.info, call)
	if fn == nil || fn.Pkg() != in.p.Types {
		return nil
	}
	fn = fn.Origin()
	if in.skip != nil && in.skip(fn) {
		return nil
	}
	fd := in.byObj[fn]
	if fd == nil || active[fd] {
		return nil
	}
	sig, _ := fn.Type().(*types.Signature)
	if sig == nil || sig.Variadic() {
		return nil
	}
	if sig.Recv() != nil {
		// methods are the vocabulary the rules speak in (ctx.Enter, visitor.Exit, …): they stay calls unless the rule
		// asks for them, and then only when called on a plain identifier, so the receiver can be bound
		if !in.methods {
			return nil
		}
		sel, ok := ast.Unparen(call.Fun).(*ast.SelectorExpr)
		if !ok {
			return nil
		}
		if _, isID := ast.Unparen(sel.X).(*ast.Ident); !isID && !isFieldPath(in.info, sel.X) {
			return nil
		}
	}
	return fd
}

func containsReturn(n ast.Node) bool {
	found := false
	ast.Inspect(n, func(m ast.Node) bool {
		switch m.(type) {
		case *ast.FuncLit:
			return false
		case *ast.ReturnStmt:
			found = true
		}
		return !found
	})
	return found
}

// tailForm nests the statements after a return-containing if into its arms, so that afterwards every return is the last
// statement of the list it is in. ok=false when the helper's shape is not supported.
func (in *callInliner) tailForm(list []ast.Stmt) ([]ast.Stmt, bool) {
	var out []ast.Stmt
	for i, st := range list {
		in.budget--
		if in.budget < 0 {
			return nil, false
		}
		switch t := st.(type) {
		case *ast.ReturnStmt:
			return append(out, t), true
		case *ast.DeferStmt:
			return nil, false
		case *ast.IfStmt:
			if !containsReturn(t) {
				out = append(out, t)
				continue
			}
			rest := list[i+1:]
			c := *t
			thenList, ok := in.tailForm(append(append([]ast.Stmt(nil), t.Body.List...), rest...))
			if !ok {
				return nil, false
			}
			c.Body = &ast.BlockStmt{Lbrace: t.Body.Lbrace, List: thenList, Rbrace: t.Body.Rbrace}
			var elseList []ast.Stmt
			switch e := t.Else.(type) {
			case nil:
				elseList = append([]ast.Stmt(nil), rest...)
			case *ast.BlockStmt:
				elseList = append(append([]ast.Stmt(nil), e.List...), rest...)
			case *ast.IfStmt:
				elseList = append([]ast.Stmt{e}, rest...)
			default:
				return nil, false
			}
			elseList, ok = in.tailForm(elseList)
			if !ok {
				return nil, false
			}
			c.Else = &ast.BlockStmt{Lbrace: t.End(), List: elseList, Rbrace: t.End()}
			return append(out, &c), true
		case *ast.BlockStmt:
			if !containsReturn(t) {
				out = append(out, t)
				continue
			}
			inner, ok := in.tailForm(append(append([]ast.Stmt(nil), t.List...), list[i+1:]...))
			if !ok {
				return nil, false
			}
			return append(out, &ast.BlockStmt{Lbrace: t.Lbrace, List: inner, Rbrace: t.Rbrace}), true
		case *ast.SwitchStmt:
			if !containsReturn(t) {
				out = append(out, t)
				continue
			}
			// a tagless switch whose arms return reads as the if/else chain it stands for
			if chain, isIf := switchToIfStmt(t).(*ast.IfStmt); isIf {
				rest, ok := in.tailForm(append([]ast.Stmt{chain}, list[i+1:]...))
				if !ok {
					return nil, false
				}
				return append(out, rest...), true
			}
			return nil, false
		default:
			if containsReturn(st) {
				return nil, false // return inside a loop, switch, select or labelled statement
			}
			out = append(out, st)
		}
	}
	return out, true
}

// substituteReturns replaces, in a tail-form list, every return by k(return) and appends k(nil) where the list falls
// off its end.
func substituteReturns(list []ast.Stmt, k func(rs *ast.ReturnStmt) []ast.Stmt) []ast.Stmt {
	if len(list) == 0 {
		return k(nil)
	}
	out := append([]ast.Stmt(nil), list[:len(list)-1]...)
	switch last := list[len(list)-1].(type) {
	case *ast.ReturnStmt:
		return append(out, k(last)...)
	case *ast.IfStmt:
		if containsReturn(last) {
			c := *last
			c.Body = &ast.BlockStmt{Lbrace: last.Body.Lbrace, List: substituteReturns(last.Body.List, k), Rbrace: last.Body.Rbrace}
			if eb, ok := last.Else.(*ast.BlockStmt); ok {
				c.Else = &ast.BlockStmt{Lbrace: eb.Lbrace, List: substituteReturns(eb.List, k), Rbrace: eb.Rbrace}
			}
			return append(out, &c)
		}
	case *ast.BlockStmt:
		if containsReturn(last) {
			return append(out, &ast.BlockStmt{Lbrace: last.Lbrace, List: substituteReturns(last.List, k), Rbrace: last.Rbrace})
		}
	}
	out = append(out, list[len(list)-1])
	return append(out, k(nil)...)
}

// errNilness classifies the error expression of a helper's return: +1 known non-nil, -1 the literal nil, 0 unknown.
func (in *callInliner) errNilness(fd *ast.FuncDecl, rs *ast.ReturnStmt, e ast.Expr) int {
	e = ast.Unparen(e)
	if isNilIdent(in.info, e) {
		return -1
	}
	switch x := e.(type) {
	case *ast.CallExpr:
		if fn := calleeOf(in.info, x); fn != nil && fn.Pkg() != nil {
			full := fn.Pkg().Path() + "." + fn.Name()
			if full == "fmt.Errorf" || full == "errors.New" {
				return 1
			}
		}
	case *ast.Ident:
		obj := in.info.Uses[x]
		for _, l := range controlConds(fd.Body, rs) {
			if be, ok := ast.Unparen(l.Expr).(*ast.BinaryExpr); ok && !l.Neg && be.Op == token.NEQ {
				if id, ok := ast.Unparen(be.X).(*ast.Ident); ok && in.info.Uses[id] == obj && isNilIdent(in.info, be.Y) {
					return 1
				}
			}
		}
	}
	return 0
}

func (in *callInliner) bindArgs(fd *ast.FuncDecl, call *ast.CallExpr, subst map[types.Object]ast.Expr) []ast.Stmt {
	var pre []ast.Stmt
	// a parameter that the helper assigns to (or takes the address of) is a variable of its own and cannot be replaced by
	// the argument expression
	written := map[types.Object]bool{}
	ast.Inspect(fd.Body, func(n ast.Node) bool {
		switch x := n.(type) {
		case *ast.AssignStmt:
			for _, l := range x.Lhs {
				if id, ok := ast.Unparen(l).(*ast.Ident); ok {
					written[in.info.Uses[id]] = true
				}
			}
		case *ast.IncDecStmt:
			if id, ok := ast.Unparen(x.X).(*ast.Ident); ok {
				written[in.info.Uses[id]] = true
			}
		case *ast.UnaryExpr:
			if x.Op == token.AND {
				if id, ok := ast.Unparen(x.X).(*ast.Ident); ok {
					written[in.info.Uses[id]] = true
				}
			}
		case *ast.RangeStmt:
			for _, e := range []ast.Expr{x.Key, x.Value} {
				if id, ok := e.(*ast.Ident); ok && x.Tok == token.ASSIGN {
					written[in.info.Uses[id]] = true
				}
			}
		}
		return true
	})
	simple := func(e ast.Expr) bool {
		ok := true
		ast.Inspect(e, func(n ast.Node) bool {
			switch x := n.(type) {
			case *ast.Ident, *ast.SelectorExpr, *ast.BasicLit, *ast.ParenExpr, *ast.StarExpr:
			case *ast.UnaryExpr:
				if x.Op != token.AND && x.Op != token.SUB && x.Op != token.NOT {
					ok = false
				}
			case nil:
			default:
				ok = false
			}
			return ok
		})
		return ok
	}
	var params []*ast.Ident
	if fd.Type.Params != nil {
		for _, pl := range fd.Type.Params.List {
			if len(pl.Names) == 0 {
				params = append(params, nil)
			}
			params = append(params, pl.Names...)
		}
	}
	if fd.Recv != nil && len(fd.Recv.List) == 1 && len(fd.Recv.List[0].Names) == 1 {
		if sel, ok := ast.Unparen(call.Fun).(*ast.SelectorExpr); ok {
			if id, ok := ast.Unparen(sel.X).(*ast.Ident); ok {
				recvObj := in.info.Defs[fd.Recv.List[0].Names[0]]
				in.aliases.bind(recvObj, in.info.Uses[id])
				if subst != nil && recvObj != nil && !written[recvObj] {
					subst[recvObj] = id
				}
			} else if isFieldPath(in.info, sel.X) {
				// a method of a field (`s.listeners.push(v)`): the receiver stands for that field path
				recvObj := in.info.Defs[fd.Recv.List[0].Names[0]]
				if subst != nil && recvObj != nil && !written[recvObj] {
					subst[recvObj] = sel.X
				}
			}
		}
	}
	for i, a := range call.Args {
		if i >= len(params) || params[i] == nil {
			continue
		}
		pobj := in.info.Defs[params[i]]
		if id, ok := ast.Unparen(a).(*ast.Ident); ok {
			in.aliases.bind(pobj, in.info.Uses[id])
			if subst != nil && pobj != nil && !written[pobj] {
				subst[pobj] = id
			}
			continue
		}
		if subst != nil && pobj != nil && !written[pobj] && simple(a) {
			// a side-effect-free argument (a field, a literal, a method expression) stands in for the parameter
			if _, isFuncLit := ast.Unparen(a).(*ast.FuncLit); !isFuncLit {
				subst[pobj] = a
				continue
			}
		}
		// keep calls made while evaluating the argument in the flow graph
		hasCall := false
		ast.Inspect(a, func(n ast.Node) bool {
			if c, ok := n.(*ast.CallExpr); ok {
				if tv, ok := in.info.Types[c.Fun]; !ok || !tv.IsType() {
					hasCall = true
				}
			}
			return true
		})
		if hasCall {
			pre = append(pre, &ast.AssignStmt{Lhs: []ast.Expr{params[i]}, TokPos: a.Pos(), Tok: token.DEFINE, Rhs: []ast.Expr{a}})
		}
	}
	return pre
}

func assignOrNothing(lhs []ast.Expr, tok token.Token, rs *ast.ReturnStmt, pos token.Pos) []ast.Stmt {
	if len(lhs) == 0 || rs == nil || len(rs.Results) != len(lhs) {
		return nil
	}
	return []ast.Stmt{&ast.AssignStmt{Lhs: lhs, TokPos: rs.Pos(), Tok: tok, Rhs: rs.Results}}
}

// expand returns the replacement for one call statement, or nil when it is not inlined.
func (in *callInliner) expand(st ast.Stmt, depth int, active map[*ast.FuncDecl]bool) []ast.Stmt {
	if depth <= 0 {
		return nil
	}
	var call *ast.CallExpr
	var lhs []ast.Expr
	tok := token.ASSIGN
	var ifs *ast.IfStmt
	isReturn := false
	condCall, condNegated := false, false
	switch t := st.(type) {
	case *ast.ExprStmt:
		call, _ = ast.Unparen(t.X).(*ast.CallExpr)
	case *ast.AssignStmt:
		if len(t.Rhs) == 1 && (t.Tok == token.ASSIGN || t.Tok == token.DEFINE) {
			call, _ = ast.Unparen(t.Rhs[0]).(*ast.CallExpr)
			lhs, tok = t.Lhs, t.Tok
		}
	case *ast.IfStmt:
		if as, ok := t.Init.(*ast.AssignStmt); ok && len(as.Rhs) == 1 && (as.Tok == token.ASSIGN || as.Tok == token.DEFINE) {
			call, _ = ast.Unparen(as.Rhs[0]).(*ast.CallExpr)
			lhs, tok = as.Lhs, as.Tok
			ifs = t
		} else if t.Init == nil {
			// `if h(args) { A } else { B }` / `if !h(args) { … }` with a helper that returns one boolean
			cond := ast.Unparen(t.Cond)
			if u, ok := cond.(*ast.UnaryExpr); ok && u.Op == token.NOT {
				cond = ast.Unparen(u.X)
				condNegated = true
			}
			if c, ok := cond.(*ast.CallExpr); ok {
				if fd := in.helperFor(c, active); fd != nil && fd.Type.Results != nil && len(fd.Type.Results.List) == 1 && len(fd.Type.Results.List[0].Names) == 0 {
					if b, ok := in.info.TypeOf(fd.Type.Results.List[0].Type).Underlying().(*types.Basic); ok && b.Kind() == types.Bool {
						call = c
						ifs = t
						condCall = true
					}
				}
			}
		}
	case *ast.ReturnStmt:
		if len(t.Results) == 1 {
			call, _ = ast.Unparen(t.Results[0]).(*ast.CallExpr)
			isReturn = true
		}
	}
	fd := in.helperFor(call, active)
	if os.Getenv("DAWGSVET_INLDBG") != "" && call != nil {
		fmt.Printf("INLDBG call %s helper=%v depth=%d\n", types.ExprString(call.Fun), fd != nil, depth)
	}
	if fd == nil {
		return nil
	}
	nres := 0
	if fd.Type.Results != nil {
		for _, rl := range fd.Type.Results.List {
			if len(rl.Names) > 0 {
				return nil // named results: a bare return cannot be rewritten as an assignment
			}
			nres++
		}
	}
	if len(lhs) > 0 && len(lhs) != nres {
		return nil
	}
	saved := in.budget
	list, ok := in.tailForm(fd.Body.List)
	if !ok {
		if os.Getenv("DAWGSVET_INLDBG") != "" {
			fmt.Printf("INLDBG tailForm failed for %s\n", fd.Name.Name)
		}
		in.budget = saved
		return nil
	}
	if ifs != nil {
		// the arms of the if are rewritten as well: they may call helpers of their own
		c := *ifs
		c.Body = in.rewriteBlock(ifs.Body, depth, active)
		if ifs.Else != nil {
			out := in.rewriteStmt(ifs.Else, depth, active)
			switch {
			case len(out) == 1:
				switch out[0].(type) {
				case *ast.BlockStmt, *ast.IfStmt:
					c.Else = out[0]
				default:
					c.Else = &ast.BlockStmt{Lbrace: ifs.Else.Pos(), List: out, Rbrace: ifs.Else.End()}
				}
			case len(out) > 1:
				c.Else = &ast.BlockStmt{Lbrace: ifs.Else.Pos(), List: out, Rbrace: ifs.Else.End()}
			}
		}
		ifs = &c
	}
	subst := map[types.Object]ast.Expr{}
	pre := in.bindArgs(fd, call, subst)
	// every expansion works on its own copy of the helper's statements, with the parameters replaced by this call's
	// arguments (the copy keeps the type information of the original nodes)
	cloner := newASTCloner(in.info, subst)
	list = cloner.Stmts(list)
	// what follows a return of the helper
	var errVar types.Object
	condWhenNonNil := 0 // +1: cond is `x != nil`, -1: `x == nil`
	if ifs != nil && nres > 0 {
		if be, ok := ast.Unparen(ifs.Cond).(*ast.BinaryExpr); ok && (be.Op == token.NEQ || be.Op == token.EQL) && isNilIdent(in.info, be.Y) {
			if id, ok := ast.Unparen(be.X).(*ast.Ident); ok {
				if last, ok := lhs[len(lhs)-1].(*ast.Ident); ok {
					lo := in.info.Defs[last]
					if lo == nil {
						lo = in.info.Uses[last]
					}
					if lo != nil && in.info.Uses[id] == lo {
						errVar = lo
						condWhenNonNil = 1
						if be.Op == token.EQL {
							condWhenNonNil = -1
						}
					}
				}
			}
		}
	}
	armList := func(s ast.Stmt) []ast.Stmt {
		switch e := s.(type) {
		case nil:
			return nil
		case *ast.BlockStmt:
			return e.List
		default:
			return []ast.Stmt{e}
		}
	}
	k := func(rs *ast.ReturnStmt) []ast.Stmt {
		switch {
		case isReturn:
			if rs == nil {
				return []ast.Stmt{&ast.ReturnStmt{Return: st.Pos()}}
			}
			return []ast.Stmt{rs}
		case condCall:
			if rs == nil || len(rs.Results) != 1 {
				return []ast.Stmt{ifs}
			}
			e := rs.Results[0]
			if tv, ok := in.info.Types[e]; ok && tv.Value != nil {
				switch tv.Value.ExactString() {
				case "true", "false":
					if (tv.Value.ExactString() == "true") != condNegated {
						return append([]ast.Stmt(nil), armList(ifs.Body)...)
					}
					return append([]ast.Stmt(nil), armList(ifs.Else)...)
				}
			}
			c := *ifs
			c.Cond = e
			if condNegated {
				c.Cond = &ast.UnaryExpr{OpPos: e.Pos(), Op: token.NOT, X: e}
			}
			return []ast.Stmt{&c}
		case ifs != nil:
			out := assignOrNothing(lhs, tok, rs, ifs.Pos())
			nilness := 0
			if errVar != nil && rs != nil && len(rs.Results) == nres {
				if orig, ok := cloner.Origin(rs).(*ast.ReturnStmt); ok && len(orig.Results) == nres {
					nilness = in.errNilness(fd, orig, orig.Results[nres-1])
				}
			}
			switch nilness * condWhenNonNil {
			case 1: // the condition holds
				return append(out, armList(ifs.Body)...)
			case -1:
				return append(out, armList(ifs.Else)...)
			}
			c := *ifs
			c.Init = nil
			return append(out, &c)
		default:
			return assignOrNothing(lhs, tok, rs, st.Pos())
		}
	}
	in.Inlined(fd)
	active[fd] = true
	inner := in.rewriteList(list, depth-1, active)
	delete(active, fd)
	body := substituteReturns(inner, k)
	return []ast.Stmt{&ast.BlockStmt{Lbrace: st.Pos(), List: append(pre, body...), Rbrace: st.End()}}
}

func (in *callInliner) Inlined(fd *ast.FuncDecl) {
	name := funcDeclName(fd)
	for _, n := range in.aliases.Inlined {
		if n == name {
			return
		}
	}
	in.aliases.Inlined = append(in.aliases.Inlined, name)
}

func (in *callInliner) rewriteBlock(b *ast.BlockStmt, depth int, active map[*ast.FuncDecl]bool) *ast.BlockStmt {
	if b == nil {
		return nil
	}
	return &ast.BlockStmt{Lbrace: b.Lbrace, List: in.rewriteList(b.List, depth, active), Rbrace: b.Rbrace}
}

func (in *callInliner) rewriteStmt(st ast.Stmt, depth int, active map[*ast.FuncDecl]bool) []ast.Stmt {
	if rep := in.expand(st, depth, active); rep != nil {
		return rep
	}
	// `var ( a = f(x); b = g(a) )`: a spec whose single value is a helper call is read as `a := f(x)` (the other specs
	// stay declarations, each on its own, in the original order). The inlined helper's statements are not wrapped in a
	// block here, so that the declared name stays visible to what follows.
	if ds, ok := st.(*ast.DeclStmt); ok {
		if gd, ok := ds.Decl.(*ast.GenDecl); ok && gd.Tok == token.VAR {
			any := false
			for _, sp := range gd.Specs {
				if vs, ok := sp.(*ast.ValueSpec); ok && len(vs.Names) == 1 && len(vs.Values) == 1 {
					if call, ok := ast.Unparen(vs.Values[0]).(*ast.CallExpr); ok && in.helperFor(call, active) != nil {
						any = true
					}
				}
			}
			if any && depth > 0 {
				var out []ast.Stmt
				for _, sp := range gd.Specs {
					vs, ok := sp.(*ast.ValueSpec)
					if ok && len(vs.Names) == 1 && len(vs.Values) == 1 {
						if call, ok := ast.Unparen(vs.Values[0]).(*ast.CallExpr); ok && in.helperFor(call, active) != nil {
							as := &ast.AssignStmt{Lhs: []ast.Expr{vs.Names[0]}, TokPos: vs.Pos(), Tok: token.DEFINE, Rhs: []ast.Expr{vs.Values[0]}}
							if rep := in.expand(as, depth, active); rep != nil {
								for _, rs := range rep {
									if b, ok := rs.(*ast.BlockStmt); ok {
										out = append(out, b.List...)
									} else {
										out = append(out, rs)
									}
								}
								continue
							}
						}
					}
					out = append(out, &ast.DeclStmt{Decl: &ast.GenDecl{TokPos: sp.Pos(), Tok: token.VAR, Specs: []ast.Spec{sp}}})
				}
				return out
			}
		}
	}
	switch t := st.(type) {
	case *ast.BlockStmt:
		return []ast.Stmt{in.rewriteBlock(t, depth, active)}
	case *ast.IfStmt:
		c := *t
		c.Body = in.rewriteBlock(t.Body, depth, active)
		if t.Else != nil {
			out := in.rewriteStmt(t.Else, depth, active)
			switch {
			case len(out) == 1:
				switch out[0].(type) {
				case *ast.BlockStmt, *ast.IfStmt:
					c.Else = out[0]
				default:
					c.Else = &ast.BlockStmt{Lbrace: t.Else.Pos(), List: out, Rbrace: t.Else.End()}
				}
			case len(out) > 1:
				// `else if v, err := h(x); …` with h inlined: the helper's statements and the if that follows them
				c.Else = &ast.BlockStmt{Lbrace: t.Else.Pos(), List: out, Rbrace: t.Else.End()}
			}
		}
		return []ast.Stmt{&c}
	case *ast.ForStmt:
		c := *t
		c.Body = in.rewriteBlock(t.Body, depth, active)
		return []ast.Stmt{&c}
	case *ast.RangeStmt:
		if out := in.unrollLiteralRange(t, depth, active); out != nil {
			return out
		}
		c := *t
		c.Body = in.rewriteBlock(t.Body, depth, active)
		return []ast.Stmt{&c}
	case *ast.LabeledStmt:
		if out := in.rewriteStmt(t.Stmt, depth, active); len(out) == 1 {
			c := *t
			c.Stmt = out[0]
			return []ast.Stmt{&c}
		}
	case *ast.SwitchStmt:
		c := *t
		c.Body = in.rewriteClauses(t.Body, depth, active)
		return []ast.Stmt{&c}
	case *ast.TypeSwitchStmt:
		c := *t
		c.Body = in.rewriteClauses(t.Body, depth, active)
		return []ast.Stmt{&c}
	case *ast.SelectStmt:
		c := *t
		c.Body = in.rewriteClauses(t.Body, depth, active)
		return []ast.Stmt{&c}
	}
	return []ast.Stmt{st}
}

func (in *callInliner) rewriteClauses(b *ast.BlockStmt, depth int, active map[*ast.FuncDecl]bool) *ast.BlockStmt {
	out := &ast.BlockStmt{Lbrace: b.Lbrace, Rbrace: b.Rbrace}
	for _, cl := range b.List {
		switch c := cl.(type) {
		case *ast.CaseClause:
			cc := *c
			cc.Body = in.rewriteList(c.Body, depth, active)
			out.List = append(out.List, &cc)
		case *ast.CommClause:
			cc := *c
			cc.Body = in.rewriteList(c.Body, depth, active)
			out.List = append(out.List, &cc)
		default:
			out.List = append(out.List, cl)
		}
	}
	return out
}

func (in *callInliner) rewriteList(list []ast.Stmt, depth int, active map[*ast.FuncDecl]bool) []ast.Stmt {
	var out []ast.Stmt
	for _, st := range list {
		out = append(out, in.rewriteStmt(st, depth, active)...)
	}
	return out
}

// inlinedFn is a function body with its same-package helpers inlined, for rules that speak about "the unconditional
// statements of f, in order" or "every return of f": the order of nodes is the order in the rewritten tree (Seq), not
// the source position, because statements that came from a helper keep the helper's positions.
type inlinedFn struct {
	Decl *ast.FuncDecl
	Body *ast.BlockStmt
	Top  []ast.Stmt // the unconditional statements, in order (blocks introduced by inlining are flattened)
	Al   *inlineAliases
	info *types.Info
	seq  map[ast.Node]int
}

func inlineFunc(p *packages.Package, fd *ast.FuncDecl, depth int) *inlinedFn {
	return inlineFuncWith(p, fd, depth, false)
}

// inlineFuncWith also inlines methods called on a plain identifier when methods is set.
func inlineFuncWith(p *packages.Package, fd *ast.FuncDecl, depth int, methods bool) *inlinedFn {
	body, al := inlineCallsOpt(p, fd, fd.Body, depth, nil, methods)
	f := &inlinedFn{Decl: fd, Body: body, Al: al, info: p.TypesInfo, seq: map[ast.Node]int{}}
	var flat func(list []ast.Stmt)
	flat = func(list []ast.Stmt) {
		for _, st := range list {
			if b, ok := st.(*ast.BlockStmt); ok {
				flat(b.List)
				continue
			}
			f.Top = append(f.Top, st)
		}
	}
	flat(body.List)
	n := 0
	ast.Inspect(body, func(nd ast.Node) bool {
		if nd != nil {
			n++
			if _, seen := f.seq[nd]; !seen {
				f.seq[nd] = n
			}
		}
		return true
	})
	return f
}

// Seq is the position of a node in the rewritten body (0 when the node is not part of it).
func (f *inlinedFn) Seq(n ast.Node) int { return f.seq[n] }

// Obj resolves an identifier to the object of the analysed function it stands for.
func (f *inlinedFn) Obj(id *ast.Ident) types.Object {
	if o := f.info.Uses[id]; o != nil {
		return f.Al.Root(o)
	}
	return f.Al.Root(f.info.Defs[id])
}

// isFieldPath: e is `x.f.g…` — field selections only, rooted at an identifier.
func isFieldPath(info *types.Info, e ast.Expr) bool {
	sel, ok := ast.Unparen(e).(*ast.SelectorExpr)
	if !ok {
		return false
	}
	if s := info.Selections[sel]; s == nil || s.Kind() != types.FieldVal {
		return false
	}
	switch x := ast.Unparen(sel.X).(type) {
	case *ast.Ident:
		_, isVar := info.Uses[x].(*types.Var)
		return isVar
	case *ast.SelectorExpr:
		return isFieldPath(info, x)
	}
	return false
}

// unrollLiteralRange: `for _, x := range []T{a, b} { body }` is the statements of body once with x = a and once with
// x = b. Only loops whose body neither breaks nor continues nor returns, and whose elements are plain names or field
// paths, are unrolled; anything else stays a loop.
func (in *callInliner) unrollLiteralRange(t *ast.RangeStmt, depth int, active map[*ast.FuncDecl]bool) []ast.Stmt {
	info := in.p.TypesInfo
	lit, ok := ast.Unparen(t.X).(*ast.CompositeLit)
	if !ok || len(lit.Elts) == 0 || len(lit.Elts) > 8 || t.Tok != token.DEFINE {
		return nil
	}
	if k, isId := t.Key.(*ast.Ident); t.Key != nil && (!isId || k.Name != "_") {
		return nil
	}
	val, ok := t.Value.(*ast.Ident)
	if !ok || info.Defs[val] == nil {
		return nil
	}
	for _, el := range lit.Elts {
		switch e := ast.Unparen(el).(type) {
		case *ast.Ident:
		case *ast.SelectorExpr:
			if !isFieldPath(info, e) {
				return nil
			}
		default:
			return nil
		}
	}
	leaves := false
	ast.Inspect(t.Body, func(n ast.Node) bool {
		switch n.(type) {
		case *ast.BranchStmt, *ast.ReturnStmt:
			leaves = true
		case *ast.FuncLit:
			return false
		}
		return !leaves
	})
	if leaves {
		return nil
	}
	var out []ast.Stmt
	for _, el := range lit.Elts {
		cl := newASTCloner(info, map[types.Object]ast.Expr{info.Defs[val]: el})
		body := cl.Stmts(t.Body.List)
		out = append(out, &ast.BlockStmt{Lbrace: t.Body.Lbrace, List: in.rewriteList(body, depth, active), Rbrace: t.Body.Rbrace})
	}
	return out
}
