package main

// C06-R9 variable-symbols-raw: the translator keeps variables and parameters in one table and tells them apart by
// spelling — a parameter p is keyed "$p", a variable by its symbol. That is injective only while no variable symbol can
// begin with '$'. The grammar guarantees it for bare names, and an escaped name keeps its backticks in the model, so it
// begins with '`'. If the front end ever strips the backticks of a variable, the variable `$p` and the parameter $p share
// a key. Every place of the front end that gives a cypher.Variable its symbol must therefore use the token text as it
// is, never the result of an unescaping function.

import (
	"go/ast"
	"go/token"
	"go/types"
	"strings"

	"golang.org/x/tools/go/packages"
)

func checkVariableSymbolsRaw(r *Run, fp *packages.Package) {
	const rule = "C06-R9-variable-symbols-raw"
	info := fp.TypesInfo
	decls := map[*types.Func]*ast.FuncDecl{}
	for _, f := range fp.Syntax {
		for _, d := range f.Decls {
			if fd, ok := d.(*ast.FuncDecl); ok && fd.Body != nil {
				if fn, ok := info.Defs[fd.Name].(*types.Func); ok {
					decls[fn] = fd
				}
			}
		}
	}
	// does the expression (through locals of fd and same-package helpers, depth 2) involve an unescaping call?
	var unescapes func(fd *ast.FuncDecl, e ast.Expr, depth int) string
	unescapes = func(fd *ast.FuncDecl, e ast.Expr, depth int) string {
		found := ""
		ast.Inspect(e, func(x ast.Node) bool {
			if found != "" {
				return false
			}
			switch t := x.(type) {
			case *ast.CallExpr:
				fn := calleeOf(info, t)
				if fn == nil {
					return true
				}
				lower := strings.ToLower(fn.Name())
				if strings.Contains(lower, "unescape") || strings.Contains(lower, "unquote") {
					found = fn.Name()
					return false
				}
				if fn.Pkg() == fp.Types && depth < 2 {
					if d := decls[fn]; d != nil {
						ast.Inspect(d.Body, func(y ast.Node) bool {
							if rs, ok := y.(*ast.ReturnStmt); ok {
								for _, res := range rs.Results {
									if u := unescapes(d, res, depth+1); u != "" && found == "" {
										found = u
									}
								}
							}
							return true
						})
					}
				}
			case *ast.Ident:
				if v, ok := info.Uses[t].(*types.Var); ok && fd != nil && depth < 2 && !v.IsField() {
					ast.Inspect(fd.Body, func(y ast.Node) bool {
						if as, ok := y.(*ast.AssignStmt); ok && len(as.Lhs) == len(as.Rhs) {
							for i, l := range as.Lhs {
								if id, ok := l.(*ast.Ident); ok && info.ObjectOf(id) == v {
									if u := unescapes(fd, as.Rhs[i], depth+1); u != "" && found == "" {
										found = u
									}
								}
							}
						}
						return true
					})
				}
			}
			return true
		})
		return found
	}
	isVariable := func(t types.Type) bool { return namedName(t) == "Variable" }
	n := 0
	for _, f := range fp.Syntax {
		for _, d := range f.Decls {
			fd, ok := d.(*ast.FuncDecl)
			if !ok || fd.Body == nil {
				continue
			}
			judge := func(value ast.Expr, at token.Pos, how string) {
				n++
				construct := funcDisplayName(fd) + ":" + how
				if u := unescapes(fd, value, 0); u != "" {
					r.Fail(rule, construct, at, "a variable's symbol is taken from %s: with the backticks gone the variable `$p` has the symbol \"$p\", which is the key the translator's binding table gives the parameter $p — the two are then one entry, and a query that uses both panics or joins on the wrong binding", u)
				} else {
					r.Pass(rule, construct, at, "the symbol is the token text as written")
				}
			}
			ast.Inspect(fd.Body, func(x ast.Node) bool {
				switch t := x.(type) {
				case *ast.CompositeLit:
					if !isVariable(info.TypeOf(t)) {
						return true
					}
					for _, el := range t.Elts {
						if kv, ok := el.(*ast.KeyValueExpr); ok {
							if k, ok := kv.Key.(*ast.Ident); ok && k.Name == "Symbol" {
								judge(kv.Value, kv.Pos(), "Variable{Symbol}")
							}
						}
					}
				case *ast.AssignStmt:
					for i, lhs := range t.Lhs {
						sel, ok := ast.Unparen(lhs).(*ast.SelectorExpr)
						if !ok || sel.Sel.Name != "Symbol" || i >= len(t.Rhs) || !isVariable(info.TypeOf(sel.X)) {
							continue
						}
						judge(t.Rhs[i], t.Pos(), exprString(r.Fset, lhs))
					}
				case *ast.CallExpr:
					if fn := calleeOf(info, t); fn != nil && fn.Name() == "NewVariableWithSymbol" && len(t.Args) == 1 {
						judge(t.Args[0], t.Pos(), "NewVariableWithSymbol")
					}
				}
				return true
			})
		}
	}
	if n < 2 {
		r.Undecide("C06-R9: fewer than two places of the front end give a variable its symbol (%d)", n)
	}
}

// checkNoCrossNamespaceComparison (R10): a projection item pairs an expression with the alias the user gave it. After
// frame rewriting the expression of a carried variable is the identifier the translator generated for it, so comparing
// an item's alias with the same item's expression compares a user spelling with a generated name: `with x as n0` then
// takes a different path than `with x as y`.
func checkNoCrossNamespaceComparison(r *Run, tp *packages.Package) {
	const rule = "C06-R10-cross-namespace-comparison"
	info := tp.TypesInfo
	n := 0
	for _, f := range tp.Syntax {
		for _, d := range f.Decls {
			fd, ok := d.(*ast.FuncDecl)
			if !ok || fd.Body == nil {
				continue
			}
			// type-switch bindings: `switch v := X.SelectItem.(type)` makes v an alias of X.SelectItem
			selectItemOf := map[types.Object]string{}
			ast.Inspect(fd.Body, func(x ast.Node) bool {
				ts, ok := x.(*ast.TypeSwitchStmt)
				if !ok {
					return true
				}
				as, ok := ts.Assign.(*ast.AssignStmt)
				if !ok || len(as.Lhs) != 1 || len(as.Rhs) != 1 {
					return true
				}
				ta, ok := as.Rhs[0].(*ast.TypeAssertExpr)
				if !ok {
					return true
				}
				sel, ok := ast.Unparen(ta.X).(*ast.SelectorExpr)
				if !ok || sel.Sel.Name != "SelectItem" {
					return true
				}
				owner := exprString(r.Fset, sel.X)
				for _, c := range ts.Body.List {
					if obj := info.Implicits[c]; obj != nil {
						selectItemOf[obj] = owner
					}
				}
				return true
			})
			ownerOfAlias := func(e ast.Expr) string {
				sel, ok := ast.Unparen(e).(*ast.SelectorExpr)
				if !ok || sel.Sel.Name != "Value" {
					return ""
				}
				inner, ok := ast.Unparen(sel.X).(*ast.SelectorExpr)
				if !ok || inner.Sel.Name != "Alias" {
					return ""
				}
				return exprString(r.Fset, inner.X)
			}
			ownerOfItem := func(e ast.Expr) string {
				e = ast.Unparen(e)
				if id, ok := e.(*ast.Ident); ok {
					return selectItemOf[info.Uses[id]]
				}
				if sel, ok := e.(*ast.SelectorExpr); ok && sel.Sel.Name == "SelectItem" {
					return exprString(r.Fset, sel.X)
				}
				return ""
			}
			ast.Inspect(fd.Body, func(x ast.Node) bool {
				be, ok := x.(*ast.BinaryExpr)
				if !ok || (be.Op != token.EQL && be.Op != token.NEQ) {
					return true
				}
				for _, pr := range [][2]ast.Expr{{be.X, be.Y}, {be.Y, be.X}} {
					a, b := ownerOfAlias(pr[0]), ownerOfItem(pr[1])
					if a != "" && a == b {
						n++
						r.Fail(rule, funcDeclName(fd)+":"+exprString(r.Fset, be), be.Pos(), "the alias of %s is compared with the same item's select expression, which for a carried variable is the identifier the translator generated: a query that spells its alias like that generated name (with x as n0) is translated differently from the same query with any other alias", a)
					}
				}
				return true
			})
		}
	}
	r.Ob(rule, "translate:scanned", token.NoPos, true, "no projection item's alias is compared with its own select expression (%d such comparisons)", n)
}
