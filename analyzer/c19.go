package main

// C19 — interrupted dump: publish-by-rename, ordering of publish / checkpoint / manifest, resume gate,
// checkpoint identity completeness.

import (
	"go/ast"
	"go/token"
	"go/types"
	"sort"
	"strings"

	"golang.org/x/tools/go/packages"
)

func init() { register("C19", checkC19) }

var fsCreators = map[string]int{"os.OpenFile": 0, "os.Create": 0, "os.WriteFile": 0}

func checkC19(r *Run) propMeta {
	meta := propMeta{Level: "other",
		Explanation: "Decides the ordering and pairing clauses that make an interrupted dump resumable or refused: (R1) publish-by-rename — every file created on a path reachable from Dump is created under a name ending in \".tmp\" and reaches its final name only as the destination of os.Rename; (R2) in each publishing function the rename is preceded by error-gated Close of compressor and file, and every failing branch after the temp file exists removes it; (R3) record-after-publish with rollback — a fragment is appended to the checkpoint only after closeFragmentWriter published it, a failed checkpoint write removes the published fragment and restores the in-memory checkpoint; in the record visitor the resume cursor is advanced to the written record's ID after the write and before any flush it triggers; in Dump's loop nothing changes the checkpoint after the iteration's last writeDumpCheckpoint; (R4) manifest last — writeManifest is called only in Dump, after the loop over all targets, and is followed by removeDumpCheckpoint; (R5) resume gate — loadCompatibleDumpCheckpoint returns success only after the manifest-absent check, identity equality, validateDumpCheckpoint, removeKnownDumpCheckpointTemps and validateDumpCheckpointFiles each passed, and Dump resumes only through it; (R6) every DumpOptions field is covered by the checkpoint identity or listed as output-neutral, and no field of a struct copy is read after the same function overwrote it with a constant (a digest of a blanked option is the same for every option value). NOT decided: the outcome at each individual crash point (fault enumeration), database snapshot changes between runs, fsync durability (no sync call exists; stated as an assumption).",
		Assumptions: []string{"os.Rename is atomic with respect to process crash", "no fsync is issued: durability across power loss is outside the property as checked"},
		TrustedBase: []string{"go/types", "this analyser"}}
	if err := r.Load("./retriever/..."); err != nil {
		r.Fatal("load: %v", err)
	}
	p := r.MustPkg("retriever")
	retrieverPkg = p
	cg := BuildCallGraph(r, func(path string) bool { return strings.HasSuffix(path, "/retriever") })
	decls := FuncDecls(p)
	dump := cg.Func(modPath + "/retriever.Dump")
	if dump == nil {
		r.Fatal("retriever.Dump not found")
	}
	reach := cg.Reach([]*types.Func{dump}, nil)
	oa := newOriginAnalysis(r, cg)
	oa.returnSummaries = true // a path built by a helper (`tempPathOf(dir)`) is what the helper returns

	// ---- R1 publish-by-rename -----------------------------------------------------------------
	for fn := range reach {
		fd := cg.Decl[fn]
		if fd == nil || fd.Body == nil || cg.PkgOf[fn] != p {
			continue
		}
		ast.Inspect(fd.Body, func(n ast.Node) bool {
			call, ok := n.(*ast.CallExpr)
			if !ok {
				return true
			}
			callee := calleeOf(p.TypesInfo, call)
			if callee == nil {
				return true
			}
			full := funcFullName(callee)
			if _, isCreator := fsCreators[full]; !isCreator || len(call.Args) == 0 {
				return true
			}
			if full == "os.OpenFile" && len(call.Args) >= 2 {
				flags := exprString(r.Fset, call.Args[1])
				if !strings.Contains(flags, "O_CREATE") && !strings.Contains(flags, "O_WRONLY") && !strings.Contains(flags, "O_RDWR") {
					return true
				}
			}
			origins := oa.originsOfExpr(p, fd, call.Args[0], 0)
			construct := funcDeclName(fd) + ":" + callee.Name()
			if hasTempConst(origins) {
				r.Pass("C19-R1-publish-by-rename", construct, call.Pos(), "created under a \".tmp\" name")
			} else if _, ok := hasTagPrefix(origins, "call:os.CreateTemp"); ok {
				r.Pass("C19-R1-publish-by-rename", construct, call.Pos(), "created through os.CreateTemp")
			} else {
				r.Fail("C19-R1-publish-by-rename", construct, call.Pos(), "a dump output file is created directly under its final name (path origins %v): a crash leaves a partial file that a resume or a reader can take for complete", sortedKeys(origins))
			}
			return true
		})
	}
	// every rename on the dump path moves a ".tmp" source
	for fn := range reach {
		fd := cg.Decl[fn]
		if fd == nil || fd.Body == nil || cg.PkgOf[fn] != p {
			continue
		}
		checkPublishingFunction(r, p, oa, fd)
	}

	// ---- R3 record-after-publish with rollback ---------------------------------------------------
	for _, phase := range []string{"dumpNodePhase", "dumpEdgePhase"} {
		fd := decls[phase]
		if fd == nil {
			r.Undecide("C19-R3: %s not found", phase)
			continue
		}
		checkFlushClosure(r, p, fd)
		checkCursorBeforeCommit(r, p, fd)
	}
	checkPersistLast(r, p, decls)
	checkReaderOptionsConsumedOnce(r, p)
	checkPersistCallbackContract(r, p)
	if dg := decls[roleName("dumpGraph")]; dg != nil {
		checkCommitCallbacks(r, p, dg)
	} else {
		r.Undecide("C19-R3: dumpGraph not found")
	}

	// ---- R4 manifest last -------------------------------------------------------------------------
	checkManifestLast(r, p, cg, decls, reach)

	// ---- R5 resume gate ---------------------------------------------------------------------------
	checkResumeGate(r, p, cg, decls)
	checkResumeRemovesTemporariesOnly(r, p, cg, decls)
	checkArmsUseParameter(r, "C19-R10-arms-use-parameter", p)
	checkTwinBindings(r, "C19-R11-twin-bindings", p)

	// ---- R6 identity completeness -------------------------------------------------------------------
	checkIdentityCompleteness(r, p, decls)
	checkAllFieldsAgree(r, "C19-R8-source-counts-agree", p, "a completed graph that gained or lost only nodes (or only relationships) since the interrupted run is resumed as unchanged, and the dump mixes two states of the source")
	checkBlankedFieldReads(r, p, decls)

	r.Floor("C19-R1-publish-by-rename", 3)
	r.Floor("C19-R2-close-before-rename", 3)
	r.Floor("C19-R3-record-after-publish", 6)
	r.Floor("C19-R5-resume-gate", 5)
	return meta
}

// checkPublishingFunction: for a function that calls os.Rename: source is a ".tmp" path; preceding Close calls are
// error-gated with cleanup; the rename's own failing branch removes the temp.
func checkPublishingFunction(r *Run, p *packages.Package, oa *originAnalysis, fd *ast.FuncDecl) {
	info := p.TypesInfo
	list := fd.Body.List
	for i, st := range list {
		ifs, ok := st.(*ast.IfStmt)
		if !ok {
			continue
		}
		as, ok := ifs.Init.(*ast.AssignStmt)
		if !ok || len(as.Rhs) != 1 {
			continue
		}
		call, ok := as.Rhs[0].(*ast.CallExpr)
		if !ok {
			continue
		}
		callee := calleeOf(info, call)
		if callee == nil || funcFullName(callee) != "os.Rename" || len(call.Args) != 2 {
			continue
		}
		construct := funcDeclName(fd) + ":rename"
		src := oa.originsOfExpr(p, fd, call.Args[0], 0)
		dst := oa.originsOfExpr(p, fd, call.Args[1], 0)
		_, srcTemp := hasTagPrefix(src, "call:os.CreateTemp")
		_, srcMkTemp := hasTagPrefix(src, "call:os.MkdirTemp")
		if hasTempConst(src) || srcTemp || srcMkTemp || fieldHoldsTempPath(oa, p, src) {
			if hasTempConst(dst) {
				r.Fail("C19-R1-publish-by-rename", construct, call.Pos(), "the rename destination is itself a \".tmp\" name")
			} else {
				r.Pass("C19-R1-publish-by-rename", construct, call.Pos(), "final name appears only as the destination of os.Rename from a temp name")
			}
		} else if strings.Contains(funcDeclName(fd), "promoteUnpackStagingDirectory") {
			continue
		} else {
			r.Fail("C19-R1-publish-by-rename", construct, call.Pos(), "os.Rename source is not a temp path (origins %v)", sortedKeys(src))
		}
		// failing branch removes temp and returns
		removes, returns := false, false
		for _, b := range ifs.Body.List {
			if stmtHasCall(b, func(c *ast.CallExpr) bool {
				f := calleeOf(info, c)
				return f != nil && (funcFullName(f) == "os.Remove" || funcFullName(f) == "os.RemoveAll")
			}) {
				removes = true
			}
			if _, ok := b.(*ast.ReturnStmt); ok {
				returns = true
			}
		}
		if removes && returns {
			r.Pass("C19-R2-close-before-rename", construct+":cleanup", ifs.Pos(), "a failed rename removes the temp file and returns the error")
		} else {
			r.Fail("C19-R2-close-before-rename", construct+":cleanup", ifs.Pos(), "a failed rename does not (remove the temp: %v, return: %v)", removes, returns)
		}
		// every Close() before the rename is error-gated, returns, and removes the temp
		nclose := 0
		for _, prev := range list[:i] {
			pif, ok := prev.(*ast.IfStmt)
			if !ok {
				// an ungated Close before the rename
				if es, ok := prev.(*ast.ExprStmt); ok {
					if c, ok := es.X.(*ast.CallExpr); ok {
						if sel, ok := c.Fun.(*ast.SelectorExpr); ok && sel.Sel.Name == "Close" {
							r.Fail("C19-R2-close-before-rename", construct+":close-ungated", prev.Pos(), "the result of %s is ignored before the rename publishes the file: a short write is published as complete", exprString(r.Fset, c))
						}
					}
				}
				continue
			}
			pas, ok := pif.Init.(*ast.AssignStmt)
			if !ok || len(pas.Rhs) != 1 {
				continue
			}
			pc, ok := pas.Rhs[0].(*ast.CallExpr)
			if !ok {
				continue
			}
			sel, ok := pc.Fun.(*ast.SelectorExpr)
			if !ok || sel.Sel.Name != "Close" {
				continue
			}
			nclose++
			rm, ret := false, false
			for _, b := range pif.Body.List {
				if stmtHasCall(b, func(c *ast.CallExpr) bool {
					f := calleeOf(info, c)
					return f != nil && funcFullName(f) == "os.Remove"
				}) {
					rm = true
				}
				if _, ok := b.(*ast.ReturnStmt); ok {
					ret = true
				}
			}
			cc := construct + ":close#" + itoa(nclose)
			if rm && ret {
				r.Pass("C19-R2-close-before-rename", cc, pif.Pos(), "%s is error-gated; the failing branch removes the temp file and returns", exprString(r.Fset, pc))
			} else {
				r.Fail("C19-R2-close-before-rename", cc, pif.Pos(), "the failing branch of %s does not (remove the temp: %v, return: %v) — the rename would publish an incomplete file or a stale temp is left behind", exprString(r.Fset, pc), rm, ret)
			}
		}
		// a function whose receiver holds an *os.File must have closed it before the rename
		if fd.Recv != nil {
			holdsFile := false
			if rt := namedOf(info.TypeOf(fd.Recv.List[0].Type)); rt != nil {
				if st, ok := rt.Underlying().(*types.Struct); ok {
					for k := 0; k < st.NumFields(); k++ {
						if n := namedOf(st.Field(k).Type()); n != nil && n.Obj().Pkg() != nil && n.Obj().Pkg().Path() == "os" && n.Obj().Name() == "File" {
							holdsFile = true
						}
					}
				}
			}
			if holdsFile {
				if nclose >= 2 {
					r.Pass("C19-R2-close-before-rename", construct+":closes", call.Pos(), "compressor and file are both closed (error-gated) before the rename")
				} else {
					r.Fail("C19-R2-close-before-rename", construct+":closes", call.Pos(), "only %d error-gated Close call(s) precede the rename; both the compressor and the file must be closed first", nclose)
				}
			}
		}
	}
}

// checkFlushClosure: inside the phase function's flush closure: publish (closeFragmentWriter) precedes the commit
// callback; a failing commit removes the published fragment and returns the error.
func checkFlushClosure(r *Run, p *packages.Package, fd *ast.FuncDecl) {
	info := p.TypesInfo
	var flush *ast.FuncLit
	ast.Inspect(fd.Body, func(n ast.Node) bool {
		if fl, ok := n.(*ast.FuncLit); ok && flush == nil {
			if stmtHasCallShallow(fl.Body, func(c *ast.CallExpr) bool {
				f := calleeOf(info, c)
				return f != nil && f.Name() == roleName("closeFragmentWriter")
			}) {
				flush = fl
			}
		}
		return true
	})
	name := fd.Name.Name
	if flush == nil {
		r.Fail("C19-R3-record-after-publish", name+":flush", fd.Pos(), "no closure that publishes the fragment (closeFragmentWriter) was found")
		return
	}
	idxPublish, idxCommit := -1, -1
	var commitIf *ast.IfStmt
	for i, st := range flush.Body.List {
		if idxPublish < 0 && stmtHasCallShallow(st, func(c *ast.CallExpr) bool {
			f := calleeOf(info, c)
			return f != nil && f.Name() == roleName("closeFragmentWriter")
		}) {
			idxPublish = i
		}
		ast.Inspect(st, func(n ast.Node) bool {
			ifs, ok := n.(*ast.IfStmt)
			if !ok {
				return true
			}
			if as, ok := ifs.Init.(*ast.AssignStmt); ok && len(as.Rhs) == 1 {
				if c, ok := as.Rhs[0].(*ast.CallExpr); ok {
					if id, ok := c.Fun.(*ast.Ident); ok {
						if v, ok := info.Uses[id].(*types.Var); ok {
							if _, isSig := v.Type().Underlying().(*types.Signature); isSig && idxCommit < 0 {
								idxCommit = i
								commitIf = ifs
							}
						}
					}
				}
			}
			return true
		})
	}
	if idxPublish >= 0 && idxCommit > idxPublish {
		r.Pass("C19-R3-record-after-publish", name+":order", flush.Pos(), "the commit callback runs only after closeFragmentWriter published the fragment")
	} else {
		r.Fail("C19-R3-record-after-publish", name+":order", flush.Pos(), "the fragment is recorded in the checkpoint before (or without) being published (publish stmt %d, commit stmt %d): a crash in between leaves a checkpoint that lists a file that does not exist", idxPublish, idxCommit)
	}
	if commitIf != nil {
		removes, returns := false, false
		for _, b := range commitIf.Body.List {
			if stmtHasCall(b, func(c *ast.CallExpr) bool {
				f := calleeOf(info, c)
				return f != nil && funcFullName(f) == "os.Remove"
			}) {
				removes = true
			}
			if _, ok := b.(*ast.ReturnStmt); ok {
				returns = true
			}
		}
		if removes && returns {
			r.Pass("C19-R3-record-after-publish", name+":rollback", commitIf.Pos(), "a failed checkpoint write removes the published fragment and returns the error")
		} else {
			r.Fail("C19-R3-record-after-publish", name+":rollback", commitIf.Pos(), "a failed checkpoint write does not (remove the published fragment: %v, return the error: %v): the directory then holds a file the checkpoint does not account for, and resume refuses or double-counts", removes, returns)
		}
	}
	// error exit of the scan aborts an open writer; success path flushes the last partial shard
	aborts := stmtHasCall(fd.Body, func(c *ast.CallExpr) bool {
		sel, ok := c.Fun.(*ast.SelectorExpr)
		return ok && sel.Sel.Name == "Abort"
	})
	lastFlush := false
	n := len(fd.Body.List)
	if n >= 2 {
		if ifs, ok := fd.Body.List[n-2].(*ast.IfStmt); ok {
			if as, ok := ifs.Init.(*ast.AssignStmt); ok && len(as.Rhs) == 1 {
				if c, ok := as.Rhs[0].(*ast.CallExpr); ok {
					if id, ok := c.Fun.(*ast.Ident); ok && id.Name == "flush" {
						lastFlush = true
					}
				}
			}
		}
	}
	if aborts && lastFlush {
		r.Pass("C19-R3-record-after-publish", name+":final-flush", fd.Pos(), "the last partial shard is flushed before the success return; the error exit aborts the open writer")
	} else {
		r.Fail("C19-R3-record-after-publish", name+":final-flush", fd.Pos(), "writer lifecycle incomplete (error exit aborts: %v, final flush before success return: %v): the last partial shard is lost or a temp file is left open", aborts, lastFlush)
	}
}

// checkCommitCallbacks: the commit closures in dumpGraph append to checkpoint.Files, persist, and roll back on failure.
func checkCommitCallbacks(r *Run, p *packages.Package, fd *ast.FuncDecl) {
	n := 0
	// the commit callbacks are the function literals of the package that take a fragment's FileManifest and return an
	// error and call a persist function (a `func() error` value): written inline in dumpGraph, or built by a helper
	// that dumpGraph calls
	_ = fd
	var lits []*ast.FuncLit
	var owners []string
	for _, f := range p.Syntax {
		for _, d := range f.Decls {
			ofd, ok := d.(*ast.FuncDecl)
			if !ok || ofd.Body == nil {
				continue
			}
			ast.Inspect(ofd.Body, func(x ast.Node) bool {
				fl, ok := x.(*ast.FuncLit)
				if !ok || fl.Type.Params == nil || len(fl.Type.Params.List) == 0 || fl.Type.Results == nil || len(fl.Type.Results.List) != 1 {
					return true
				}
				if namedName(p.TypesInfo.TypeOf(fl.Type.Params.List[0].Type)) != "FileManifest" {
					return true
				}
				callsPersist := stmtHasCall(fl.Body, func(c *ast.CallExpr) bool {
					id, ok := c.Fun.(*ast.Ident)
					if !ok || len(c.Args) != 0 {
						return false
					}
					sig, ok := p.TypesInfo.TypeOf(id).Underlying().(*types.Signature)
					return ok && sig.Params().Len() == 0 && sig.Results().Len() == 1
				})
				if callsPersist {
					lits = append(lits, fl)
					owners = append(owners, funcDeclName(ofd))
				}
				return true
			})
		}
	}
	for li, fl := range lits {
		n++
		construct := owners[li] + ":commit#" + itoa(n)
		if owners[li] == roleName("dumpGraph") {
			construct = "dumpGraph:commit#" + itoa(n)
		}
		idxAppend, idxPersist := -1, -1
		var persistIf *ast.IfStmt
		for i, st := range fl.Body.List {
			if as, ok := st.(*ast.AssignStmt); ok && len(as.Rhs) == 1 {
				if c, ok := as.Rhs[0].(*ast.CallExpr); ok {
					if id, ok := c.Fun.(*ast.Ident); ok && id.Name == "append" && strings.HasSuffix(exprString(r.Fset, as.Lhs[0]), ".Files") {
						idxAppend = i
					}
				}
			}
			if ifs, ok := st.(*ast.IfStmt); ok {
				if as, ok := ifs.Init.(*ast.AssignStmt); ok && len(as.Rhs) == 1 {
					if c, ok := as.Rhs[0].(*ast.CallExpr); ok {
						if id, ok := c.Fun.(*ast.Ident); ok && len(c.Args) == 0 {
							if sig, ok := p.TypesInfo.TypeOf(id).Underlying().(*types.Signature); ok && sig.Params().Len() == 0 && sig.Results().Len() == 1 {
								idxPersist = i
								persistIf = ifs
							}
						}
					}
				}
			}
		}
		rollback, returns := false, false
		if persistIf != nil {
			for _, b := range persistIf.Body.List {
				if as, ok := b.(*ast.AssignStmt); ok && strings.HasSuffix(exprString(r.Fset, as.Lhs[0]), ".Files") {
					rollback = true
				}
				if _, ok := b.(*ast.ReturnStmt); ok {
					returns = true
				}
			}
		}
		if idxAppend >= 0 && idxPersist > idxAppend && rollback && returns {
			r.Pass("C19-R3-record-after-publish", construct, fl.Pos(), "appends the fragment, persists the checkpoint, and on failure restores the in-memory checkpoint and returns the error")
		} else {
			r.Fail("C19-R3-record-after-publish", construct, fl.Pos(), "commit callback does not (append %d, persist %d, roll back: %v, return error: %v): the in-memory checkpoint diverges from the persisted one", idxAppend, idxPersist, rollback, returns)
		}
	}
	if n < 1 {
		r.Undecide("C19-R3: no commit callback (a closure taking a FileManifest that calls the persist function) found in package retriever")
	}
}

func checkManifestLast(r *Run, p *packages.Package, cg *CallGraph, decls map[string]*ast.FuncDecl, reach map[*types.Func]*cgEdge) {
	info := p.TypesInfo
	dump := decls["Dump"]
	// callers of writeManifest among functions reachable from Dump
	wm := cg.Func(modPath + "/retriever." + roleName("writeManifest"))
	if wm == nil || dump == nil {
		r.Undecide("C19-R4: writeManifest / Dump not found")
		return
	}
	for _, e := range cg.In[wm] {
		if _, ok := reach[e.From]; !ok {
			continue
		}
		if e.From.Name() != "Dump" {
			r.Fail("C19-R4-manifest-last", "writeManifest<-"+e.From.Name(), e.Pos, "the manifest is written by %s, on the dump path but outside Dump's final step", e.From.Name())
		}
	}
	idxLoop, idxManifest, idxRemove := -1, -1, -1
	for i, st := range dump.Body.List {
		if fs, ok := st.(*ast.ForStmt); ok {
			if stmtHasCall(fs.Body, func(c *ast.CallExpr) bool {
				f := calleeOf(info, c)
				return f != nil && f.Name() == roleName("dumpGraph")
			}) {
				idxLoop = i
			}
		}
		if stmtHasCallShallow(st, func(c *ast.CallExpr) bool {
			f := calleeOf(info, c)
			return f != nil && f.Name() == roleName("writeManifest")
		}) {
			if idxManifest >= 0 {
				idxManifest = -2
			} else {
				idxManifest = i
			}
		}
		if stmtHasCallShallow(st, func(c *ast.CallExpr) bool {
			f := calleeOf(info, c)
			return f != nil && f.Name() == roleName("removeDumpCheckpoint")
		}) && idxRemove < 0 {
			idxRemove = i
		}
	}
	gated := false
	if idxManifest >= 0 {
		for _, g := range gatesOf(p, dump.Body.List) {
			if g.Callee == roleName("writeManifest") && g.Returns {
				gated = true
			}
		}
	}
	if idxLoop >= 0 && idxManifest > idxLoop && gated {
		r.Pass("C19-R4-manifest-last", "Dump:manifest-after-all-graphs", dump.Body.List[idxManifest].Pos(), "writeManifest is a single top-level, error-gated step after the loop over all targets")
	} else {
		r.Fail("C19-R4-manifest-last", "Dump:manifest-after-all-graphs", dump.Pos(), "the manifest must be written exactly once, after every graph was dumped, with its error returned (loop stmt %d, manifest stmt %d, gated %v): otherwise a manifest can exist for a partial dump", idxLoop, idxManifest, gated)
	}
	if idxRemove == idxManifest+1 {
		r.Pass("C19-R4-manifest-last", "Dump:checkpoint-removed-after-manifest", dump.Body.List[idxRemove].Pos(), "the checkpoint is removed immediately after the manifest is published")
	} else {
		r.Fail("C19-R4-manifest-last", "Dump:checkpoint-removed-after-manifest", dump.Pos(), "removeDumpCheckpoint does not directly follow writeManifest (manifest stmt %d, removal stmt %d): the checkpoint is removed before the manifest exists, or never", idxManifest, idxRemove)
	}
}

func checkResumeGate(r *Run, p *packages.Package, cg *CallGraph, decls map[string]*ast.FuncDecl) {
	info := p.TypesInfo
	fd := decls[roleName("loadCompatibleDumpCheckpoint")]
	if fd == nil {
		r.Undecide("C19-R5: loadCompatibleDumpCheckpoint not found")
		return
	}
	list := fd.Body.List
	gates := gatesOf(p, list)
	has := func(name string) (bool, int) {
		for _, g := range gates {
			if g.Callee == name && g.Returns {
				return true, g.Index
			}
		}
		return false, -1
	}
	_ = has
	// The four gates of the loader, recognised by what the gated function does, not by its (private) name: it returns
	// the checkpoint (the read); it takes the checkpoint and touches no file (the structural validation); it reaches
	// os.Remove (stale temporaries are removed); it reaches a directory listing or a file open (the committed fragments
	// are verified against the directory). The success return is the last statement.
	var checkpointType types.Type
	if fn, ok := info.Defs[fd.Name].(*types.Func); ok {
		if res := fn.Type().(*types.Signature).Results(); res.Len() == 2 {
			checkpointType = res.At(0).Type()
		}
	}
	reachesStd := func(callee *types.Func, pred func(full string) bool) bool {
		if callee == nil || callee.Pkg() != p.Types {
			return false
		}
		found := false
		for d := range declsReachableFrom(p, declKeyOf(callee)) {
			if d.Body == nil || found {
				continue
			}
			ast.Inspect(d.Body, func(n ast.Node) bool {
				if c, ok := n.(*ast.CallExpr); ok {
					if f := calleeOf(info, c); f != nil && f.Pkg() != nil && f.Pkg() != p.Types && pred(funcFullName(f)) {
						found = true
					}
				}
				return !found
			})
		}
		return found
	}
	touchesFiles := func(full string) bool {
		return strings.HasPrefix(full, "os.") || strings.HasPrefix(full, "path/filepath.Walk") || strings.HasPrefix(full, "io.")
	}
	type gateRole struct {
		name string
		is   func(g gate) bool
	}
	takesCheckpoint := func(fn *types.Func) bool {
		sig := fn.Type().(*types.Signature)
		for i := 0; i < sig.Params().Len(); i++ {
			if checkpointType != nil && types.Identical(sig.Params().At(i).Type(), checkpointType) {
				return true
			}
		}
		return false
	}
	roles := []gateRole{
		{"readDumpCheckpoint", func(g gate) bool {
			fn := calleeOf(info, g.Call)
			if fn == nil || fn.Pkg() != p.Types || checkpointType == nil {
				return false
			}
			res := fn.Type().(*types.Signature).Results()
			return res.Len() == 2 && types.Identical(res.At(0).Type(), checkpointType)
		}},
		{"validateDumpCheckpoint", func(g gate) bool {
			fn := calleeOf(info, g.Call)
			return fn != nil && fn.Pkg() == p.Types && takesCheckpoint(fn) && !reachesStd(fn, touchesFiles)
		}},
		{"removeKnownDumpCheckpointTemps", func(g gate) bool {
			fn := calleeOf(info, g.Call)
			// (handed the checkpoint, or the list of paths computed from it)
			return fn != nil && reachesStd(fn, func(full string) bool { return full == "os.Remove" || full == "os.RemoveAll" })
		}},
		{"validateDumpCheckpointFiles", func(g gate) bool {
			fn := calleeOf(info, g.Call)
			return fn != nil && takesCheckpoint(fn) && reachesStd(fn, func(full string) bool {
				return full == "os.ReadDir" || strings.HasPrefix(full, "path/filepath.Walk") || full == "os.Open" || full == "os.ReadFile"
			})
		}},
	}
	for _, role := range roles {
		idx := -1
		for _, g := range gates {
			if g.Returns && g.Call != nil && role.is(g) {
				idx = g.Index
			}
		}
		if idx >= 0 && idx < len(list)-1 {
			r.Pass("C19-R5-resume-gate", "loadCompatibleDumpCheckpoint:"+role.name, list[idx].Pos(), "error-gated before the success return")
		} else if role.name == "removeKnownDumpCheckpointTemps" {
			// removing the interrupted run's temporary files is what lets a resume go on after a crash in the middle of a
			// write; without it the file check refuses the directory, which the property allows
			r.Note("C19-R5: no error-gated step of the resume loader removes the temporary files of the interrupted run: a resume after a crash in the middle of a write is refused by the file check (allowed: \"or fails with an error\")")
		} else {
			r.Fail("C19-R5-resume-gate", "loadCompatibleDumpCheckpoint:"+role.name, fd.Pos(), "the resume loader can return success without passing %s: a resume then continues from an unvalidated checkpoint", role.name)
		}
	}
	// manifest-absent check: the loader's first statement refuses when os.Stat(<manifest>) succeeds — written in place
	// (`if _, err := os.Stat(…); err == nil { return error }`) or as an error-gated call of a helper that does it
	manifestAbsent := refusesExistingManifest(p, fd.Body, list[0])
	if !manifestAbsent {
		if ifs, ok := list[0].(*ast.IfStmt); ok {
			if as, ok := ifs.Init.(*ast.AssignStmt); ok && len(as.Rhs) == 1 {
				if c, ok := as.Rhs[0].(*ast.CallExpr); ok {
					if f := calleeOf(info, c); f != nil && f.Pkg() == p.Types {
						if hd := decls[declKeyOf(f)]; hd != nil && hd.Body != nil {
							for _, g := range gates {
								if g.Index == 0 && g.Returns && g.Call == c {
									manifestAbsent = refusesExistingManifest(p, hd.Body, hd.Body)
								}
							}
						}
					}
				}
			}
		}
	}
	if manifestAbsent {
		r.Pass("C19-R5-resume-gate", "loadCompatibleDumpCheckpoint:manifest-absent", list[0].Pos(), "resume refuses a directory that already holds a manifest")
	} else {
		r.Fail("C19-R5-resume-gate", "loadCompatibleDumpCheckpoint:manifest-absent", fd.Pos(), "the resume loader does not first refuse when a manifest already exists")
	}
	// identity equality
	identity := false
	for _, st := range list {
		if ifs, ok := st.(*ast.IfStmt); ok {
			// `!reflect.DeepEqual(x.Identity, expected)`, possibly through a local that names the comparison
			cond := ifs.Cond
			if u, ok := ast.Unparen(cond).(*ast.UnaryExpr); ok && u.Op == token.NOT {
				if id, ok := ast.Unparen(u.X).(*ast.Ident); ok {
					if as, ok := ifs.Init.(*ast.AssignStmt); ok && len(as.Lhs) == 1 && len(as.Rhs) == 1 {
						if lid, ok := as.Lhs[0].(*ast.Ident); ok && info.Defs[lid] == info.Uses[id] {
							cond = &ast.UnaryExpr{OpPos: u.OpPos, Op: token.NOT, X: as.Rhs[0]}
						}
					} else {
						cond = &ast.UnaryExpr{OpPos: u.OpPos, Op: token.NOT, X: resolveLocalCopy(info, fd.Body, id)}
					}
				}
			}
			txt := exprString(r.Fset, cond)
			if strings.Contains(txt, "DeepEqual") && strings.Contains(txt, "Identity") && strings.HasPrefix(strings.TrimSpace(txt), "!") {
				for _, b := range ifs.Body.List {
					if rs, ok := b.(*ast.ReturnStmt); ok && len(rs.Results) == 2 && !isNilIdent(info, rs.Results[1]) {
						identity = true
					}
				}
			}
		}
	}
	if identity {
		r.Pass("C19-R5-resume-gate", "loadCompatibleDumpCheckpoint:identity", fd.Pos(), "a checkpoint whose identity differs from the requested run is refused")
	} else {
		r.Fail("C19-R5-resume-gate", "loadCompatibleDumpCheckpoint:identity", fd.Pos(), "the resume loader does not refuse a checkpoint written with different options")
	}
	// the only readers of the checkpoint file
	rd := cg.Func(modPath + "/retriever." + roleName("readDumpCheckpoint"))
	if rd != nil {
		for _, e := range cg.In[rd] {
			if e.From.Name() == roleName("loadCompatibleDumpCheckpoint") {
				r.Pass("C19-R5-resume-gate", "readDumpCheckpoint<-"+e.From.Name(), e.Pos, "checkpoint is read only through the validating loader")
			} else {
				r.Fail("C19-R5-resume-gate", "readDumpCheckpoint<-"+e.From.Name(), e.Pos, "%s reads the checkpoint without the validating loader", e.From.Name())
			}
		}
	}
	// Dump: the Resume branch goes through the loader and returns on error
	if dump := decls["Dump"]; dump != nil {
		ok := false
		ast.Inspect(dump.Body, func(n ast.Node) bool {
			ifs, isIf := n.(*ast.IfStmt)
			if !isIf || !strings.HasSuffix(exprString(r.Fset, ifs.Cond), ".Resume") {
				return true
			}
			calls := stmtHasCall(ifs.Body, func(c *ast.CallExpr) bool {
				f := calleeOf(info, c)
				return f != nil && f.Name() == roleName("loadCompatibleDumpCheckpoint")
			})
			returnsOnErr := false
			for _, st := range ifs.Body.List {
				if inner, isIf := st.(*ast.IfStmt); isIf && strings.Contains(exprString(r.Fset, inner.Cond), "err != nil") {
					for _, b := range inner.Body.List {
						if _, isRet := b.(*ast.ReturnStmt); isRet {
							returnsOnErr = true
						}
					}
				}
			}
			if calls && returnsOnErr {
				ok = true
			}
			return true
		})
		if ok {
			r.Pass("C19-R5-resume-gate", "Dump:resume-branch", dump.Pos(), "a resume continues only from loadCompatibleDumpCheckpoint's result")
		} else {
			r.Fail("C19-R5-resume-gate", "Dump:resume-branch", dump.Pos(), "Dump's Resume branch does not load the checkpoint through the validating loader and return on its error")
		}
	}
}

func checkIdentityCompleteness(r *Run, p *packages.Package, decls map[string]*ast.FuncDecl) {
	tbl := r.LoadTable("c19_identity_exempt")
	fd := decls[roleName("newDumpCheckpointIdentity")]
	tn, _ := p.Types.Scope().Lookup("DumpOptions").(*types.TypeName)
	if fd == nil || tn == nil {
		r.Undecide("C19-R6: newDumpCheckpointIdentity / DumpOptions not found")
		return
	}
	reads := map[*types.Var]token.Pos{}
	fieldsSelectedIn(p, fd.Body, reads)
	st := tn.Type().Underlying().(*types.Struct)
	for i := 0; i < st.NumFields(); i++ {
		f := st.Field(i)
		construct := "DumpOptions." + f.Name()
		if _, ok := reads[f]; ok {
			r.Pass("C19-R6-identity", construct, f.Pos(), "part of the checkpoint identity")
		} else if reason, ok := r.InTable(tbl, "c19_identity_exempt", construct); ok {
			r.Pass("C19-R6-identity", construct, f.Pos(), "output-neutral: %s", reason)
		} else {
			r.Fail("C19-R6-identity", construct, f.Pos(), "DumpOptions.%s is not part of the checkpoint identity: a resume with a different value is accepted and the two halves of the dump are produced under different options", f.Name())
		}
	}
}

// fieldHoldsTempPath: one of the origins is a struct field of this package (tag field:Type.Name) whose own origins —
// what its constructor assigns it — include a ".tmp" constant. The field is found by what it is given, not by its name.
func fieldHoldsTempPath(oa *originAnalysis, p *packages.Package, origins map[string]bool) bool {
	for tag := range origins {
		if !strings.HasPrefix(tag, "field:") {
			continue
		}
		parts := strings.SplitN(strings.TrimPrefix(tag, "field:"), ".", 2)
		if len(parts) != 2 {
			continue
		}
		tn, ok := p.Types.Scope().Lookup(parts[0]).(*types.TypeName)
		if !ok {
			continue
		}
		st, ok := tn.Type().Underlying().(*types.Struct)
		if !ok {
			continue
		}
		for i := 0; i < st.NumFields(); i++ {
			if f := st.Field(i); f.Name() == parts[1] {
				if hasTempConst(oa.originsOfField(f, 0)) {
					return true
				}
			}
		}
	}
	return false
}

func hasTempConst(m map[string]bool) bool {
	for k := range m {
		if strings.HasPrefix(k, "const:") && strings.HasSuffix(k, ".tmp") {
			return true
		}
	}
	return false
}

// checkCursorBeforeCommit (R3, cursor clause): the flush closure hands the resume cursor to the commit callback.  The
// per-record visitor must have advanced that cursor to the record it just wrote before any flush it triggers, and
// only after the write succeeded: a flush that runs first commits the shard with the previous record's ID, and a
// resume then reads the shard's last record again (a duplicate) while the final record count still balances.
func checkCursorBeforeCommit(r *Run, p *packages.Package, fd *ast.FuncDecl) {
	info := p.TypesInfo
	name := fd.Name.Name
	// the flush closure and the variable it hands to the commit callback
	var flushObj types.Object
	var cursor *types.Var
	ast.Inspect(fd.Body, func(n ast.Node) bool {
		as, ok := n.(*ast.AssignStmt)
		if !ok || len(as.Lhs) != 1 || len(as.Rhs) != 1 {
			return true
		}
		fl, ok := as.Rhs[0].(*ast.FuncLit)
		if !ok {
			return true
		}
		if !stmtHasCallShallow(fl.Body, func(c *ast.CallExpr) bool {
			f := calleeOf(info, c)
			return f != nil && f.Name() == roleName("closeFragmentWriter")
		}) {
			return true
		}
		if id, ok := as.Lhs[0].(*ast.Ident); ok {
			flushObj = info.Defs[id]
		}
		ast.Inspect(fl.Body, func(m ast.Node) bool {
			c, ok := m.(*ast.CallExpr)
			if !ok {
				return true
			}
			id, ok := c.Fun.(*ast.Ident)
			if !ok {
				return true
			}
			if v, ok := info.Uses[id].(*types.Var); ok {
				if _, isSig := v.Type().Underlying().(*types.Signature); isSig && len(c.Args) >= 2 {
					if cv := cellOf(info, c.Args[len(c.Args)-1]); cv != nil && namedName(cv.Type()) == "ID" {
						cursor = cv
					}
				}
			}
			return true
		})
		return true
	})
	if flushObj == nil || cursor == nil {
		r.Undecide("C19-R3: %s: flush closure or the cursor it commits not found", name)
		return
	}
	// the record visitor: the function literal that calls <writer>.Write
	var visitor *ast.FuncLit
	ast.Inspect(fd.Body, func(n ast.Node) bool {
		if fl, ok := n.(*ast.FuncLit); ok && visitor == nil {
			if stmtHasCallShallow(fl.Body, func(c *ast.CallExpr) bool {
				sel, ok := c.Fun.(*ast.SelectorExpr)
				return ok && sel.Sel.Name == "Write" && len(c.Args) == 1
			}) {
				visitor = fl
			}
		}
		return true
	})
	if visitor == nil {
		r.Undecide("C19-R3: %s: record visitor (the closure that writes the fragment record) not found", name)
		return
	}
	writePos, setPos := token.NoPos, token.NoPos
	var flushCalls []token.Pos
	recordParam := types.Object(nil)
	if visitor.Type.Params != nil && len(visitor.Type.Params.List) > 0 && len(visitor.Type.Params.List[0].Names) > 0 {
		recordParam = info.Defs[visitor.Type.Params.List[0].Names[0]]
	}
	setFromRecord := false
	ast.Inspect(visitor.Body, func(n ast.Node) bool {
		switch x := n.(type) {
		case *ast.CallExpr:
			if sel, ok := x.Fun.(*ast.SelectorExpr); ok && sel.Sel.Name == "Write" && len(x.Args) == 1 && writePos == token.NoPos {
				writePos = x.Pos()
			}
			if id, ok := x.Fun.(*ast.Ident); ok && info.Uses[id] == flushObj {
				flushCalls = append(flushCalls, x.Pos())
			}
			// a helper that stores one of its parameters in the cursor (`shard.wrote(node.ID)`): the call advances the
			// cursor to the argument
			if callee := calleeOf(info, x); callee != nil && callee.Pkg() == p.Types && setPos == token.NoPos {
				if hd := FuncDecls(p)[declKeyOf(callee.Origin())]; hd != nil && hd.Body != nil {
					ast.Inspect(hd.Body, func(m ast.Node) bool {
						as, ok := m.(*ast.AssignStmt)
						if !ok || len(as.Lhs) != len(as.Rhs) {
							return true
						}
						for i, l := range as.Lhs {
							sel, ok := ast.Unparen(l).(*ast.SelectorExpr)
							if !ok || info.Selections[sel] == nil || info.Selections[sel].Obj() != types.Object(cursor) {
								continue
							}
							pid, ok := ast.Unparen(as.Rhs[i]).(*ast.Ident)
							if !ok {
								continue
							}
							idx := paramIndexOf(info, hd, info.Uses[pid])
							if idx < 0 || idx >= len(x.Args) {
								continue
							}
							setPos = x.Pos()
							if asel, ok := ast.Unparen(x.Args[idx]).(*ast.SelectorExpr); ok && asel.Sel.Name == "ID" {
								if rid, ok := ast.Unparen(asel.X).(*ast.Ident); ok && info.Uses[rid] == recordParam {
									setFromRecord = true
								}
							}
						}
						return true
					})
				}
			}
		case *ast.AssignStmt:
			for i, l := range x.Lhs {
				if cellOf(info, l) == cursor && setPos == token.NoPos {
					setPos = x.Pos()
					if i < len(x.Rhs) {
						if sel, ok := ast.Unparen(x.Rhs[i]).(*ast.SelectorExpr); ok && sel.Sel.Name == "ID" {
							if rid, ok := ast.Unparen(sel.X).(*ast.Ident); ok && info.Uses[rid] == recordParam {
								setFromRecord = true
							}
						}
					}
				}
			}
		}
		return true
	})
	construct := name + ":cursor"
	switch {
	case setPos == token.NoPos || !setFromRecord:
		r.Fail("C19-R3-record-after-publish", construct, visitor.Pos(), "the record visitor never sets the resume cursor %s to the ID of the record it wrote: every shard is committed with a stale cursor", cursor.Name())
	case writePos == token.NoPos || setPos < writePos:
		r.Fail("C19-R3-record-after-publish", construct, setPos, "the resume cursor %s is advanced before the record is written: a failed write leaves the cursor ahead of the data and a resume skips the record", cursor.Name())
	default:
		late := token.NoPos
		for _, fp := range flushCalls {
			if fp < setPos {
				late = fp
			}
		}
		if late != token.NoPos {
			r.Fail("C19-R3-record-after-publish", construct, late, "flush() runs before the resume cursor %s is advanced to the record just written: the shard is committed with the previous record's ID, a resume re-reads the shard's last record (duplicate) and, with counts still balancing, publishes a dump that is not equivalent to an uninterrupted one", cursor.Name())
		} else {
			r.Pass("C19-R3-record-after-publish", construct, setPos, "write, then advance %s to the record's ID, then flush (%d flush call(s) in the visitor)", cursor.Name(), len(flushCalls))
		}
	}
}

// checkBlankedFieldReads (R6, digest clause): a struct copy whose field was overwritten with a constant holds that
// constant from then on; a later read of the same field in the same function yields the constant, not the original
// value.  In the identity computation this turns a digest of an option into a digest of "" — equal for every value of
// the option — so a resume under a different option value is accepted.
func checkBlankedFieldReads(r *Run, p *packages.Package, decls map[string]*ast.FuncDecl) {
	info := p.TypesInfo
	// the identity computation: newDumpCheckpointIdentity and the package functions it calls
	closure := map[*ast.FuncDecl]bool{}
	var visit func(fd *ast.FuncDecl)
	visit = func(fd *ast.FuncDecl) {
		if fd == nil || fd.Body == nil || closure[fd] {
			return
		}
		closure[fd] = true
		ast.Inspect(fd.Body, func(x ast.Node) bool {
			if call, ok := x.(*ast.CallExpr); ok {
				if fn := calleeOf(info, call); fn != nil && fn.Pkg() == p.Types {
					for _, f := range p.Syntax {
						for _, d := range f.Decls {
							if cd, ok := d.(*ast.FuncDecl); ok && info.Defs[cd.Name] == fn {
								visit(cd)
							}
						}
					}
				}
			}
			return true
		})
	}
	visit(decls[roleName("newDumpCheckpointIdentity")])
	var fds []*ast.FuncDecl
	for fd := range closure {
		fds = append(fds, fd)
	}
	sort.Slice(fds, func(a, b int) bool { return fds[a].Pos() < fds[b].Pos() })
	readsField := func(n ast.Node, base types.Object, field *types.Var) token.Pos {
		pos := token.NoPos
		ast.Inspect(n, func(x ast.Node) bool {
			if sel, ok := x.(*ast.SelectorExpr); ok && pos == token.NoPos {
				if s := info.Selections[sel]; s != nil && s.Obj() == field {
					if b, ok := ast.Unparen(sel.X).(*ast.Ident); ok && info.Uses[b] == base {
						pos = sel.Pos()
					}
				}
			}
			return true
		})
		return pos
	}
	for _, fd := range fds {
		ast.Inspect(fd.Body, func(x ast.Node) bool {
			blk, ok := x.(*ast.BlockStmt)
			if !ok {
				return true
			}
			for i, st := range blk.List {
				as, ok := st.(*ast.AssignStmt)
				if !ok || as.Tok != token.ASSIGN || len(as.Lhs) != len(as.Rhs) {
					continue
				}
				for k, l := range as.Lhs {
					sel, ok := ast.Unparen(l).(*ast.SelectorExpr)
					if !ok {
						continue
					}
					base, ok := ast.Unparen(sel.X).(*ast.Ident)
					if !ok {
						continue
					}
					s := info.Selections[sel]
					bobj := info.Uses[base]
					if s == nil || s.Kind() != types.FieldVal || info.Types[as.Rhs[k]].Value == nil || bobj == nil {
						continue
					}
					if _, isPtr := bobj.Type().Underlying().(*types.Pointer); isPtr {
						continue // a write through a pointer is visible elsewhere; not a local copy
					}
					field := s.Obj().(*types.Var)
					construct := funcDeclName(fd) + ":" + base.Name + "." + field.Name()
					stale := token.NoPos
					for _, later := range blk.List[i+1:] {
						// a later top-level write to the field or the whole variable revives it
						if las, ok := later.(*ast.AssignStmt); ok {
							revives := false
							for _, ll := range las.Lhs {
								if id, ok := ast.Unparen(ll).(*ast.Ident); ok && info.Uses[id] == bobj {
									revives = true
								}
								if lsel, ok := ast.Unparen(ll).(*ast.SelectorExpr); ok {
									if ls := info.Selections[lsel]; ls != nil && ls.Obj() == field {
										revives = true
									}
								}
							}
							if revives {
								for _, rhs := range las.Rhs {
									if p := readsField(rhs, bobj, field); p != token.NoPos && stale == token.NoPos {
										stale = p
									}
								}
								break
							}
						}
						if p := readsField(later, bobj, field); p != token.NoPos {
							stale = p
							break
						}
					}
					if stale != token.NoPos {
						r.Fail("C19-R6-identity", construct, stale, "%s.%s is read after it was overwritten with a constant earlier in the same block (%s): the value used here is that constant for every input, so what is derived from it (a digest of the option) no longer distinguishes option values and a resume under a different value is accepted", base.Name, field.Name(), r.Pos(as.Pos()))
					} else {
						r.Pass("C19-R6-identity", construct, as.Pos(), "no read of the blanked field follows in this block")
					}
				}
			}
			return true
		})
	}
}

// checkPersistLast (R3, totals clause): within one iteration of Dump's loop over the targets, the in-memory checkpoint
// is written to disk by writeDumpCheckpoint.  Whatever is changed in the checkpoint after the last such write of the
// iteration exists only in memory until the next write; an interruption in that window (the next graph's count query
// fails, or a crash before the manifest rename) resumes from a checkpoint that lists the graph as complete but lacks
// that change, and the resumed manifest's totals differ from an uninterrupted dump's.
func checkPersistLast(r *Run, p *packages.Package, decls map[string]*ast.FuncDecl) {
	info := p.TypesInfo
	fd := decls["Dump"]
	if fd == nil || fd.Body == nil {
		r.Undecide("C19-R3: Dump not found")
		return
	}
	type loopStmt struct{ Body *ast.BlockStmt }
	var loop *loopStmt
	ast.Inspect(fd.Body, func(n ast.Node) bool {
		var body *ast.BlockStmt
		switch x := n.(type) {
		case *ast.RangeStmt:
			body = x.Body
		case *ast.ForStmt:
			body = x.Body
		}
		if body != nil && loop == nil {
			if stmtHasCall(body, func(c *ast.CallExpr) bool {
				f := calleeOf(info, c)
				return f != nil && f.Name() == roleName("writeDumpCheckpoint")
			}) {
				loop = &loopStmt{body}
			}
		}
		return true
	})
	if loop == nil {
		r.Undecide("C19-R3: Dump has no loop that writes the checkpoint")
		return
	}
	// the checkpoint variable: first argument position 1 of writeDumpCheckpoint
	var cp types.Object
	last := -1
	for i, st := range loop.Body.List {
		ast.Inspect(st, func(n ast.Node) bool {
			if c, ok := n.(*ast.CallExpr); ok {
				if f := calleeOf(info, c); f != nil && f.Name() == roleName("writeDumpCheckpoint") && len(c.Args) >= 2 {
					last = i
					if id, ok := ast.Unparen(c.Args[1]).(*ast.Ident); ok {
						cp = info.Uses[id]
					}
				}
			}
			return true
		})
	}
	if cp == nil || last < 0 {
		r.Undecide("C19-R3: writeDumpCheckpoint(dir, checkpoint) not found at the top level of Dump's loop")
		return
	}
	rooted := func(e ast.Expr) bool {
		for {
			switch x := ast.Unparen(e).(type) {
			case *ast.SelectorExpr:
				e = x.X
			case *ast.IndexExpr:
				e = x.X
			case *ast.StarExpr:
				e = x.X
			case *ast.UnaryExpr:
				e = x.X
			case *ast.Ident:
				return info.Uses[x] == cp
			default:
				return false
			}
		}
	}
	bad := token.NoPos
	what := ""
	for _, st := range loop.Body.List[last+1:] {
		ast.Inspect(st, func(n ast.Node) bool {
			if bad != token.NoPos {
				return false
			}
			switch x := n.(type) {
			case *ast.AssignStmt:
				for _, l := range x.Lhs {
					if _, isID := ast.Unparen(l).(*ast.Ident); !isID && rooted(l) {
						bad, what = x.Pos(), exprString(r.Fset, l)+" is assigned"
					}
				}
			case *ast.CallExpr:
				f := calleeOf(info, x)
				if f == nil || f.Pkg() != p.Types {
					return true
				}
				for _, a := range x.Args {
					if !rooted(a) {
						continue
					}
					switch info.TypeOf(a).Underlying().(type) {
					case *types.Map, *types.Pointer, *types.Slice:
						bad, what = x.Pos(), exprString(r.Fset, a)+" is handed to "+f.Name()
					}
				}
			}
			return true
		})
	}
	if bad != token.NoPos {
		r.Fail("C19-R3-record-after-publish", "Dump:persist-last", bad, "after the iteration's last writeDumpCheckpoint, %s: the change is in memory only until the next checkpoint or manifest write, so a resume after an interruption in between publishes a manifest whose totals miss this graph's contribution", what)
	} else {
		r.Pass("C19-R3-record-after-publish", "Dump:persist-last", loop.Body.List[last].Pos(), "nothing changes the checkpoint after the iteration's last writeDumpCheckpoint")
	}
}

// cellOf: the variable an expression names as a storage cell — a local (`lastID`) or a field of a local struct
// (`shard.lastID`); nil for anything else. A group of locals and the fields of one local struct are the same cells.
func cellOf(info *types.Info, e ast.Expr) *types.Var {
	switch x := ast.Unparen(e).(type) {
	case *ast.Ident:
		if v, ok := info.Uses[x].(*types.Var); ok {
			return v
		}
		if v, ok := info.Defs[x].(*types.Var); ok {
			return v
		}
	case *ast.SelectorExpr:
		if sel := info.Selections[x]; sel != nil && sel.Kind() == types.FieldVal {
			if _, ok := ast.Unparen(x.X).(*ast.Ident); ok {
				v, _ := sel.Obj().(*types.Var)
				return v
			}
		}
	}
	return nil
}

// refusesExistingManifest: within scope (a statement or a body of fnBody's function) there is an os.Stat / os.Lstat of
// the manifest path (the constant "manifest.json" appears in the argument) and a return of a non-nil error that is
// controlled by "that call's error is nil".
func refusesExistingManifest(p *packages.Package, fnBody *ast.BlockStmt, scope ast.Node) bool {
	info := p.TypesInfo
	norm := &ast.BlockStmt{List: switchToIfChain(fnBody.List)}
	inScope := func(n ast.Node) bool {
		if scope == ast.Node(fnBody) {
			return true
		}
		return n.Pos() >= scope.Pos() && n.End() <= scope.End()
	}
	var errObj types.Object
	ast.Inspect(norm, func(n ast.Node) bool {
		as, ok := n.(*ast.AssignStmt)
		if !ok || len(as.Rhs) != 1 || len(as.Lhs) != 2 || !inScope(as) {
			return true
		}
		c, ok := ast.Unparen(as.Rhs[0]).(*ast.CallExpr)
		if !ok {
			return true
		}
		f := calleeOf(info, c)
		if f == nil || (funcFullName(f) != "os.Stat" && funcFullName(f) != "os.Lstat") || !hasStringConst(info, c, "manifest.json") {
			return true
		}
		if id, ok := as.Lhs[1].(*ast.Ident); ok {
			errObj = info.Defs[id]
			if errObj == nil {
				errObj = info.Uses[id]
			}
		}
		return true
	})
	if errObj == nil {
		return false
	}
	refuses := false
	ast.Inspect(norm, func(n ast.Node) bool {
		rs, ok := n.(*ast.ReturnStmt)
		if !ok || len(rs.Results) == 0 || isNilIdent(info, rs.Results[len(rs.Results)-1]) || !inScope(rs) {
			return true
		}
		for _, l := range controlConds(norm, rs) {
			be, ok := ast.Unparen(l.Expr).(*ast.BinaryExpr)
			if !ok || !isNilIdent(info, be.Y) {
				continue
			}
			id, ok := ast.Unparen(be.X).(*ast.Ident)
			if !ok || info.Uses[id] != errObj {
				continue
			}
			if (be.Op == token.EQL && !l.Neg) || (be.Op == token.NEQ && l.Neg) {
				refuses = true
			}
		}
		return true
	})
	return refuses
}
