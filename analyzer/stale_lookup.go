package main

// stale-lookup: `v, ok := m[k]` answers for the moment it runs. When the map is written between the lookup and the test of
// ok — because two keys are looked up first and registered afterwards — the second answer is out of date as soon as the
// first registration happens to use the same key (an edge from a new node to itself): the key is registered twice. The
// rule asks that no write to the same map field stands between a comma-ok lookup and the statement that tests its flag,
// other than inside that statement.

import (
	"go/ast"
	"go/token"
	"go/types"

	"golang.org/x/tools/go/packages"
)

func checkStaleLookups(r *Run, rule string, p *packages.Package) {
	info := p.TypesInfo
	decls := FuncDecls(p)
	// methods that write a map field of their receiver, by field
	writesField := func(fd *ast.FuncDecl, field *types.Var) bool {
		found := false
		ast.Inspect(fd.Body, func(n ast.Node) bool {
			if as, ok := n.(*ast.AssignStmt); ok {
				for _, l := range as.Lhs {
					if ix, ok := ast.Unparen(l).(*ast.IndexExpr); ok {
						if sel, ok := ast.Unparen(ix.X).(*ast.SelectorExpr); ok && info.Uses[sel.Sel] == types.Object(field) {
							found = true
						}
					}
				}
			}
			return !found
		})
		return found
	}
	var writes func(n ast.Node, field *types.Var, depth int) bool
	writes = func(n ast.Node, field *types.Var, depth int) bool {
		found := false
		ast.Inspect(n, func(m ast.Node) bool {
			if found {
				return false
			}
			switch x := m.(type) {
			case *ast.AssignStmt:
				for _, l := range x.Lhs {
					if ix, ok := ast.Unparen(l).(*ast.IndexExpr); ok {
						if sel, ok := ast.Unparen(ix.X).(*ast.SelectorExpr); ok && info.Uses[sel.Sel] == types.Object(field) {
							found = true
						}
					}
				}
			case *ast.CallExpr:
				if fn := calleeOf(info, x); fn != nil && fn.Pkg() == p.Types && depth < 2 {
					if hd := decls[declKeyOf(fn.Origin())]; hd != nil && hd.Body != nil {
						if writesField(hd, field) || writes(hd.Body, field, depth+1) {
							found = true
						}
					}
				}
			}
			return true
		})
		return found
	}
	n := 0
	for _, name := range sortedKeys(decls) {
		fd := decls[name]
		if fd.Body == nil {
			continue
		}
		// lookups: flag object -> (field, position, statement)
		type lookup struct {
			field *types.Var
			pos   token.Pos
			key   string
		}
		lookups := map[types.Object]lookup{}
		record := func(lhs []ast.Expr, rhs ast.Expr, at token.Pos) {
			if len(lhs) != 2 {
				return
			}
			ix, ok := ast.Unparen(rhs).(*ast.IndexExpr)
			if !ok {
				return
			}
			sel, ok := ast.Unparen(ix.X).(*ast.SelectorExpr)
			if !ok {
				return
			}
			fv, ok := info.Uses[sel.Sel].(*types.Var)
			if !ok || !fv.IsField() {
				return
			}
			if _, isMap := fv.Type().Underlying().(*types.Map); !isMap {
				return
			}
			if id, ok := lhs[1].(*ast.Ident); ok && id.Name != "_" {
				if o := info.ObjectOf(id); o != nil {
					lookups[o] = lookup{fv, at, exprString(r.Fset, ix.Index)}
				}
			}
		}
		ast.Inspect(fd.Body, func(m ast.Node) bool {
			switch x := m.(type) {
			case *ast.AssignStmt:
				if len(x.Rhs) == 1 {
					record(x.Lhs, x.Rhs[0], x.Pos())
				}
			case *ast.ValueSpec:
				if len(x.Values) == 1 && len(x.Names) == 2 {
					record([]ast.Expr{x.Names[0], x.Names[1]}, x.Values[0], x.Pos())
				}
			}
			return true
		})
		if len(lookups) == 0 {
			continue
		}
		// the top-level statements, in order: a write in a statement between the lookup's and the one that tests the flag
		var flat []ast.Stmt
		var flatten func(list []ast.Stmt)
		flatten = func(list []ast.Stmt) {
			for _, st := range list {
				if b, ok := st.(*ast.BlockStmt); ok {
					flatten(b.List)
				} else {
					flat = append(flat, st)
				}
			}
		}
		flatten(fd.Body.List)
		stmtOf := func(pos token.Pos) int {
			for i, st := range flat {
				if st.Pos() <= pos && pos < st.End() {
					return i
				}
			}
			return -1
		}
		for flag, lk := range lookups {
			li := stmtOf(lk.pos)
			if li < 0 {
				continue
			}
			// the first later top-level statement that mentions the flag
			ui := -1
			for i := li + 1; i < len(flat) && ui < 0; i++ {
				ast.Inspect(flat[i], func(m ast.Node) bool {
					if id, ok := m.(*ast.Ident); ok && info.Uses[id] == flag {
						ui = i
					}
					return ui < 0
				})
			}
			// a lookup in an if's init tested by that if is its own statement: nothing in between
			if ui < 0 {
				continue
			}
			n++
			construct := funcDeclName(fd) + ":" + lk.field.Name() + "[" + lk.key + "]"
			stale := -1
			for i := li + 1; i < ui; i++ {
				if writes(flat[i], lk.field, 0) {
					stale = i
				}
			}
			if stale >= 0 {
				r.Fail(rule, construct, flat[stale].Pos(), "%s is written between the lookup of %s (%s) and the statement that acts on its answer: when the key written in between is the same key the answer is out of date and the key is registered a second time", lk.field.Name(), lk.key, r.Pos(lk.pos))
			} else {
				r.Pass(rule, construct, lk.pos, "nothing writes %s between the lookup and the statement that acts on its answer", lk.field.Name())
			}
		}
	}
	r.Counts[rule+":lookups"] = n
}
