package main

// C10-R4 — rendering is a function of the model.
//
// QueryBuilder.Render must produce the text of the query as it is now.  A Render that keeps state between calls
// (a memoised text) is a function of the model only if every method that can change the model also drops that state.
// Rule: if Render both reads and assigns a receiver field (a memo), every other method of the builder that touches the
// query model (assigns another receiver field, or uses s.query at all) assigns the memo field too; a Render without
// such a field is stateless and passes.

import (
	"go/ast"
	"go/token"
	"go/types"
	"sort"
	"strings"
)

func checkRenderStateless(r *Run) {
	const rule = "C10-R4-render-function-of-model"
	n := 0
	for _, rel := range []string{"query/neo4j"} {
		p := r.Pkg(rel)
		if p == nil {
			continue
		}
		info := p.TypesInfo
		type method struct {
			fd      *ast.FuncDecl
			reads   map[*types.Var]token.Pos
			assigns map[*types.Var]token.Pos
		}
		byType := map[string]map[string]*method{}
		for _, f := range p.Syntax {
			for _, d := range f.Decls {
				fd, ok := d.(*ast.FuncDecl)
				if !ok || fd.Recv == nil || fd.Body == nil || len(fd.Recv.List) == 0 || len(fd.Recv.List[0].Names) == 0 {
					continue
				}
				recvObj := info.Defs[fd.Recv.List[0].Names[0]]
				tname := recvTypeName(fd.Recv.List[0].Type)
				m := &method{fd: fd, reads: map[*types.Var]token.Pos{}, assigns: map[*types.Var]token.Pos{}}
				lhs := map[*ast.SelectorExpr]bool{}
				ast.Inspect(fd.Body, func(x ast.Node) bool {
					if as, ok := x.(*ast.AssignStmt); ok {
						for _, l := range as.Lhs {
							if sel, ok := ast.Unparen(l).(*ast.SelectorExpr); ok {
								if id, ok := ast.Unparen(sel.X).(*ast.Ident); ok && info.Uses[id] == recvObj {
									if s := info.Selections[sel]; s != nil && s.Kind() == types.FieldVal {
										m.assigns[s.Obj().(*types.Var)] = as.Pos()
										if as.Tok == token.ASSIGN || as.Tok == token.DEFINE {
											lhs[sel] = true
										}
									}
								}
							}
						}
					}
					return true
				})
				ast.Inspect(fd.Body, func(x ast.Node) bool {
					if sel, ok := x.(*ast.SelectorExpr); ok && !lhs[sel] {
						if id, ok := ast.Unparen(sel.X).(*ast.Ident); ok && info.Uses[id] == recvObj {
							if s := info.Selections[sel]; s != nil && s.Kind() == types.FieldVal {
								m.reads[s.Obj().(*types.Var)] = sel.Pos()
							}
						}
					}
					return true
				})
				if byType[tname] == nil {
					byType[tname] = map[string]*method{}
				}
				byType[tname][fd.Name.Name] = m
			}
		}
		for _, tname := range sortedKeys(byType) {
			ms := byType[tname]
			render := ms["Render"]
			if render == nil {
				continue
			}
			n++
			var memo []*types.Var
			for f := range render.assigns {
				if _, read := render.reads[f]; read {
					memo = append(memo, f)
				}
			}
			sort.Slice(memo, func(i, j int) bool { return memo[i].Name() < memo[j].Name() })
			if len(render.assigns) == 0 {
				r.Pass(rule, tname+".Render", render.fd.Pos(), "Render assigns no receiver field: the text is computed from the model on every call")
				continue
			}
			if len(memo) == 0 {
				var names []string
				for f := range render.assigns {
					names = append(names, f.Name())
				}
				r.Fail(rule, tname+".Render", render.fd.Pos(), "Render writes builder state (%s) that it does not read back; rendering must not change the builder", strings.Join(names, ", "))
				continue
			}
			// same-receiver calls, to attribute what unexported helpers touch to the exported operations that call them
			callees := map[string][]string{}
			for mname, m := range ms {
				ast.Inspect(m.fd.Body, func(x ast.Node) bool {
					if call, ok := x.(*ast.CallExpr); ok {
						if sel, ok := ast.Unparen(call.Fun).(*ast.SelectorExpr); ok {
							if _, isMethod := ms[sel.Sel.Name]; isMethod {
								if id, ok := ast.Unparen(sel.X).(*ast.Ident); ok && len(m.fd.Recv.List[0].Names) > 0 && info.Uses[id] == info.Defs[m.fd.Recv.List[0].Names[0]] {
									callees[mname] = append(callees[mname], sel.Sel.Name)
								}
							}
						}
					}
					return true
				})
			}
			for _, mname := range sortedKeys(ms) {
				if mname == "Render" || !ast.IsExported(mname) {
					continue
				}
				// union of the method and the helpers it reaches
				m := &method{fd: ms[mname].fd, reads: map[*types.Var]token.Pos{}, assigns: map[*types.Var]token.Pos{}}
				seen := map[string]bool{}
				var visit func(name string)
				visit = func(name string) {
					if seen[name] || name == "Render" {
						return
					}
					seen[name] = true
					for f, p := range ms[name].reads {
						m.reads[f] = p
					}
					for f, p := range ms[name].assigns {
						m.assigns[f] = p
					}
					for _, c := range callees[name] {
						visit(c)
					}
				}
				visit(mname)
				touches := false
				for f := range m.assigns {
					isMemo := false
					for _, mf := range memo {
						if mf == f {
							isMemo = true
						}
					}
					if !isMemo {
						touches = true
					}
				}
				for f := range m.reads {
					if f.Name() == "query" {
						touches = true
					}
				}
				if !touches {
					continue
				}
				for _, mf := range memo {
					construct := tname + "." + mname + ":" + mf.Name()
					if _, ok := m.assigns[mf]; ok {
						r.Pass(rule, construct, m.fd.Pos(), "drops the memoised %s", mf.Name())
					} else {
						r.Fail(rule, construct, m.fd.Pos(), "Render memoises its text in %s.%s, and %s changes or reaches the query model without dropping it: a Render before %s pins text that no longer denotes the model (pattern, parameters or shortest-path form are stale)", tname, mf.Name(), mname, mname)
					}
				}
			}
		}
	}
	r.Ob("C10-R4-renderers-found", "query/neo4j", token.NoPos, n >= 1, "%d builder types with a Render method", n)
	r.Floor(rule, 1)
}
