package main

// C10-R4 — rendering is a function of the model.
//
// QueryBuilder.Render must produce the text of the query as it is now.  A Render that keeps state between calls
// (a memoised text) is a function of the model only if every method that can change the model also drops that state.
// Rule: if Render both reads and assigns a receiver field (a memo), every other method of the builder that touches the
// query model (assigns another receiver field, or uses s.query at all) assigns the memo field too; a Render without
// such a field is stateless and passes.

import (
	"go/ast"
	"go/token"
	"go/types"
	"sort"
	"strings"
)

func checkRenderStateless(r *Run) {
	const rule = "C10-R4-render-function-of-model"
	n := 0
	for _, rel := range []string{"query/neo4j"} {
		p := r.Pkg(rel)
		if p == nil {
			continue
		}
		info := p.TypesInfo
		type method struct {
			fd      *ast.FuncDecl
			reads   map[*types.Var]token.Pos
			assigns map[*types.Var]token.Pos
		}
		byType := map[string]map[string]*method{}
		for _, f := range p.Syntax {
			for _, d := range f.Decls {
				fd, ok := d.(*ast.FuncDecl)
				if !ok || fd.Recv == nil || fd.Body == nil || len(fd.Recv.List) == 0 || len(fd.Recv.List[0].Names) == 0 {
					continue
				}
				recvObj := info.Defs[fd.Recv.List[0].Names[0]]
				tname := recvTypeName(fd.Recv.List[0].Type)
				m := &method{fd: fd, reads: map[*types.Var]token.Pos{}, assigns: map[*types.Var]token.Pos{}}
				lhs := map[*ast.SelectorExpr]bool{}
				ast.Inspect(fd.Body, func(x ast.Node) bool {
					if as, ok := x.(*ast.AssignStmt); ok {
						for _, l := range as.Lhs {
							if sel, ok := ast.Unparen(l).(*ast.SelectorExpr); ok {
								if id, ok := ast.Unparen(sel.X).(*ast.Ident); ok && info.Uses[id] == recvObj {
									if s := info.Selections[sel]; s != nil && s.Kind() == types.FieldVal {
										m.assigns[s.Obj().(*types.Var)] = as.Pos()
										if as.Tok == token.ASSIGN || as.Tok == token.DEFINE {
											lhs[sel] = true
										}
									}
								}
							}
						}
					}
					return true
				})
				ast.Inspect(fd.Body, func(x ast.Node) bool {
					if sel, ok := x.(*ast.SelectorExpr); ok && !lhs[sel] {
						if id, ok := ast.Unparen(sel.X).(*ast.Ident); ok && info.Uses[id] == recvObj {
							if s := info.Selections[sel]; s != nil && s.Kind() == types.FieldVal {
								m.reads[s.Obj().(*types.Var)] = sel.Pos()
							}
						}
					}
					return true
				})
				if byType[tname] == nil {
					byType[tname] = map[string]*method{}
				}
				byType[tname][fd.Name.Name] = m
			}
		}
		for _, tname := range sortedKeys(byType) {
			ms := byType[tname]
			render := ms["Render"]
			if render == nil {
				continue
			}
			n++
			var memo []*types.Var
			for f := range render.assigns {
				if _, read := render.reads[f]; read {
					memo = append(memo, f)
				}
			}
			sort.Slice(memo, func(i, j int) bool { return memo[i].Name() < memo[j].Name() })
			if len(render.assigns) == 0 {
				r.Pass(rule, tname+".Render", render.fd.Pos(), "Render assigns no receiver field: the text is computed from the model on every call")
				continue
			}
			if len(memo) == 0 {
				var names []string
				for f := range render.assigns {
					names = append(names, f.Name())
				}
				r.Fail(rule, tname+".Render", render.fd.Pos(), "Render writes builder state (%s) that it does not read back; rendering must not change the builder", strings.Join(names, ", "))
				continue
			}
			// same-receiver calls, to attribute what unexported helpers touch to the exported operations that call them
			callees := map[string][]string{}
			for mname, m := range ms {
				ast.Inspect(m.fd.Body, func(x ast.Node) bool {
					if call, ok := x.(*ast.CallExpr); ok {
						if sel, ok := ast.Unparen(call.Fun).(*ast.SelectorExpr); ok {
							if _, isMethod := ms[sel.Sel.Name]; isMethod {
								if id, ok := ast.Unparen(sel.X).(*ast.Ident); ok && len(m.fd.Recv.List[0].Names) > 0 && info.Uses[id] == info.Defs[m.fd.Recv.List[0].Names[0]] {
									callees[mname] = append(callees[mname], sel.Sel.Name)
								}
							}
						}
					}
					return true
				})
			}
			for _, mname := range sortedKeys(ms) {
				if mname == "Render" || !ast.IsExported(mname) {
					continue
				}
				// union of the method and the helpers it reaches
				m := &method{fd: ms[mname].fd, reads: map[*types.Var]token.Pos{}, assigns: map[*types.Var]token.Pos{}}
				seen := map[string]bool{}
				var visit func(name string)
				visit = func(name string) {
					if seen[name] || name == "Render" {
						return
					}
					seen[name] = true
					for f, p := range ms[name].reads {
						m.reads[f] = p
					}
					for f, p := range ms[name].assigns {
						m.assigns[f] = p
					}
					for _, c := range callees[name] {
						visit(c)
					}
				}
				visit(mname)
				touches := false
				for f := range m.assigns {
					isMemo := false
					for _, mf := range memo {
						if mf == f {
							isMemo = true
						}
					}
					if !isMemo {
						touches = true
					}
				}
				for f := range m.reads {
					if f.Name() == "query" {
						touches = true
					}
				}
				if !touches {
					continue
				}
				for _, mf := range memo {
					construct := tname + "." + mname + ":" + mf.Name()
					if _, ok := m.assigns[mf]; ok {
						r.Pass(rule, construct, m.fd.Pos(), "drops the memoised %s", mf.Name())
					} else {
						r.Fail(rule, construct, m.fd.Pos(), "Render memoises its text in %s.%s, and %s changes or reaches the query model without dropping it: a Render before %s pins text that no longer denotes the model (pattern, parameters or shortest-path form are stale)", tname, mf.Name(), mname, mname)
					}
				}
			}
		}
	}
	r.Ob("C10-R4-renderers-found", "query/neo4j", token.NoPos, n >= 1, "%d builder types with a Render method", n)
	r.Floor(rule, 1)
}

// checkNamespaceSeparator (R5): the grammar writes a qualified function name as ( SymbolicName '.' )* FunctionName —
// every namespace component is followed by a dot, including the last.  An emitter that only joins the components with
// dots and then writes the name runs the last component and the name together (apoc.coll.sum → apoc.collsum), which
// parses back as a different function.  The FunctionInvocation case must write a "." that is not merely the
// separator argument of strings.Join.
func checkNamespaceSeparator(r *Run) {
	const rule = "C10-R5-namespace-separator"
	p := r.MustPkg("cypher/models/cypher/format")
	info := p.TypesInfo
	found := false
	for _, f := range p.Syntax {
		ast.Inspect(f, func(n ast.Node) bool {
			cc, ok := n.(*ast.CaseClause)
			if !ok || len(cc.List) != 1 || namedName(info.TypeOf(cc.List[0])) != "FunctionInvocation" {
				return true
			}
			usesNamespace := false
			for _, st := range cc.Body {
				ast.Inspect(st, func(m ast.Node) bool {
					if sel, ok := m.(*ast.SelectorExpr); ok && sel.Sel.Name == "Namespace" {
						usesNamespace = true
					}
					return true
				})
			}
			if !usesNamespace {
				return true
			}
			found = true
			joinArgs := map[ast.Expr]bool{}
			dots := 0
			for _, st := range cc.Body {
				ast.Inspect(st, func(m ast.Node) bool {
					if call, ok := m.(*ast.CallExpr); ok {
						if fn := calleeOf(info, call); fn != nil && funcFullName(fn) == "strings.Join" && len(call.Args) == 2 {
							joinArgs[call.Args[1]] = true
						}
					}
					return true
				})
				ast.Inspect(st, func(m ast.Node) bool {
					if e, ok := m.(ast.Expr); ok && !joinArgs[e] && constStringArg(info, e, ".") {
						dots++
					}
					return true
				})
			}
			if dots > 0 {
				r.Pass(rule, "WriteExpression:FunctionInvocation", cc.Pos(), "a dot is written after the namespace components, not only between them")
			} else {
				r.Fail(rule, "WriteExpression:FunctionInvocation", cc.Pos(), "the namespace components are only joined with dots and the function name follows directly: a.b.c(n) is emitted as a.bc(n), which names a different function")
			}
			return true
		})
	}
	if !found {
		r.Undecide("C10-R5: the emitter's FunctionInvocation case was not found")
	}
}

// checkHoistUnderConjunctionOnly (R6): the Neo4j builder moves relationship kind tests out of WHERE into the match
// pattern.  A predicate may leave the WHERE tree only if every operator above it is a conjunction; under NOT, OR or XOR
// it is one alternative (or the opposite) of what the query asks, and in the pattern it would constrain every row.
// The function that performs the move must be guarded by ancestor tests that together name Negation, Disjunction and
// ExclusiveDisjunction.
func checkHoistUnderConjunctionOnly(r *Run) {
	const rule = "C10-R6-hoist-under-and-only"
	p := r.Pkg("query/neo4j")
	if p == nil {
		r.Undecide("C10-R6: package query/neo4j not loaded")
		return
	}
	info := p.TypesInfo
	decls := map[*types.Func]*ast.FuncDecl{}
	for _, f := range p.Syntax {
		for _, d := range f.Decls {
			if fd, ok := d.(*ast.FuncDecl); ok {
				if fn, ok := info.Defs[fd.Name].(*types.Func); ok {
					decls[fn] = fd
				}
			}
		}
	}
	typesNamedIn := func(fd *ast.FuncDecl) map[string]bool {
		out := map[string]bool{}
		ast.Inspect(fd.Body, func(n ast.Node) bool {
			switch x := n.(type) {
			case *ast.TypeAssertExpr:
				if x.Type != nil {
					out[namedName(info.TypeOf(x.Type))] = true
				}
			case *ast.CaseClause:
				for _, e := range x.List {
					if tv, ok := info.Types[e]; ok && tv.IsType() {
						out[namedName(tv.Type)] = true
					}
				}
			case *ast.Ident:
				// hasAncestor[*cypher.Negation](…): the type a generic helper is instantiated with
				if inst, has := info.Instances[x]; has && inst.TypeArgs != nil {
					for i := 0; i < inst.TypeArgs.Len(); i++ {
						out[namedName(inst.TypeArgs.At(i))] = true
					}
				}
			}
			return true
		})
		return out
	}
	n := 0
	for fn, fd := range decls {
		if fd.Body == nil {
			continue
		}
		// hoisting site: a case clause (or function) that appends to a pattern's Kinds and removes the node from a list
		// the unit that does both: a case clause, or — when the clause hands the node to a method — that method's body
		hoistsIn := func(list []ast.Stmt) bool {
			appendsKinds, removes := false, false
			for _, st := range list {
				ast.Inspect(st, func(m ast.Node) bool {
					switch y := m.(type) {
					case *ast.AssignStmt:
						for _, l := range y.Lhs {
							if sel, ok := ast.Unparen(l).(*ast.SelectorExpr); ok && sel.Sel.Name == "Kinds" {
								appendsKinds = true
							}
						}
					case *ast.CallExpr:
						if sel, ok := y.Fun.(*ast.SelectorExpr); ok && sel.Sel.Name == "Remove" {
							removes = true
						}
					}
					return true
				})
			}
			return appendsKinds && removes
		}
		inClause := false
		ast.Inspect(fd.Body, func(x ast.Node) bool {
			if cc, ok := x.(*ast.CaseClause); ok && hoistsIn(cc.Body) {
				inClause = true
			}
			return true
		})
		var units []*ast.CaseClause
		if !inClause && hoistsIn(fd.Body.List) {
			units = append(units, &ast.CaseClause{Case: fd.Body.Lbrace, Colon: fd.Body.Lbrace, Body: fd.Body.List})
		}
		ast.Inspect(fd.Body, func(x ast.Node) bool {
			if cc, ok := x.(*ast.CaseClause); ok && hoistsIn(cc.Body) {
				units = append(units, cc)
			}
			return true
		})
		for _, cc := range units {
			func(x ast.Node) bool {
				appendsKinds, removes := false, false
				for _, st := range cc.Body {
					ast.Inspect(st, func(m ast.Node) bool {
						switch y := m.(type) {
						case *ast.AssignStmt:
							for _, l := range y.Lhs {
								if sel, ok := ast.Unparen(l).(*ast.SelectorExpr); ok && sel.Sel.Name == "Kinds" {
									appendsKinds = true
								}
							}
						case *ast.CallExpr:
							if sel, ok := y.Fun.(*ast.SelectorExpr); ok && sel.Sel.Name == "Remove" {
								removes = true
							}
						}
						return true
					})
				}
				if !appendsKinds || !removes {
					return true
				}
				n++
				// guards: bool-returning methods called in conditions of `if … { return }` inside the clause
				guarded := map[string]bool{}
				for _, st := range cc.Body {
					ast.Inspect(st, func(m ast.Node) bool {
						ifs, ok := m.(*ast.IfStmt)
						if !ok {
							return true
						}
						returns := false
						for _, b := range ifs.Body.List {
							if _, isRet := b.(*ast.ReturnStmt); isRet {
								returns = true
							}
						}
						if !returns {
							return true
						}
						ast.Inspect(ifs.Cond, func(k ast.Node) bool {
							if call, ok := k.(*ast.CallExpr); ok {
								if callee := calleeOf(info, call); callee != nil && decls[callee] != nil {
									for t := range typesNamedIn(decls[callee]) {
										guarded[t] = true
									}
								}
							}
							return true
						})
						return true
					})
				}
				var missing []string
				for _, t := range []string{"Negation", "Disjunction", "ExclusiveDisjunction"} {
					if !guarded[t] {
						missing = append(missing, t)
					}
				}
				construct := shortFuncName(fn) + ":kind-matcher-hoist"
				if len(missing) == 0 {
					r.Pass(rule, construct, cc.Pos(), "the move is skipped under NOT, OR and XOR ancestors")
				} else {
					r.Fail(rule, construct, cc.Pos(), "a relationship kind test is moved from WHERE into the match pattern without checking for %v ancestors: Or(KindIn(r, A), r.x = 1) renders as `match ()-[r:A]->() where r.x = $p0`, the conjunction of the two", missing)
				}
				// hoist-once: the pattern's kinds are alternatives, so the append must be conditional on the pattern having none
				for _, st := range cc.Body {
					ast.Inspect(st, func(m ast.Node) bool {
						as, ok := m.(*ast.AssignStmt)
						if !ok || len(as.Lhs) != 1 {
							return true
						}
						sel, ok := ast.Unparen(as.Lhs[0]).(*ast.SelectorExpr)
						if !ok || sel.Sel.Name != "Kinds" {
							return true
						}
						emptyGuard := false
						var impliesEmpty func(e ast.Expr, neg bool) bool
						impliesEmpty = func(e ast.Expr, neg bool) bool {
							e = ast.Unparen(e)
							switch t := e.(type) {
							case *ast.UnaryExpr:
								if t.Op == token.NOT {
									return impliesEmpty(t.X, !neg)
								}
							case *ast.BinaryExpr:
								if t.Op == token.LAND && !neg {
									return impliesEmpty(t.X, false) || impliesEmpty(t.Y, false)
								}
								if t.Op == token.LOR && neg {
									return impliesEmpty(t.X, true) || impliesEmpty(t.Y, true)
								}
								if call, ok := ast.Unparen(t.X).(*ast.CallExpr); ok && len(call.Args) == 1 {
									if id, ok := call.Fun.(*ast.Ident); ok && id.Name == "len" {
										if s2, ok := ast.Unparen(call.Args[0]).(*ast.SelectorExpr); ok && s2.Sel.Name == "Kinds" {
											if tv, has := info.Types[t.Y]; has && tv.Value != nil && tv.Value.String() == "0" {
												return (t.Op == token.EQL && !neg) || ((t.Op == token.NEQ || t.Op == token.GTR) && neg)
											}
										}
									}
								}
							}
							return false
						}
						for _, l := range controlConds(fd.Body, as) {
							if impliesEmpty(l.Expr, l.Neg) {
								emptyGuard = true
							}
						}
						c2 := shortFuncName(fn) + ":kind-matcher-hoist-once"
						if emptyGuard {
							r.Pass(rule, c2, as.Pos(), "a kind test is moved into the pattern only while the pattern has no kinds yet")
						} else {
							r.Fail(rule, c2, as.Pos(), "every relationship kind test is appended to the pattern's kinds, which are alternatives: And(KindIn(r, A, B), KindIn(r, B, C)) renders as [r:A|B|B|C], any of the three, instead of the intersection")
						}
						return true
					})
				}
				return true
			}(cc)
		}
	}
	if n == 0 {
		r.Undecide("C10-R6: no kind-matcher hoisting site found in query/neo4j")
	}
}

// checkBuilderCopiesCriteria (R7): Prepare rewrites the builder's model in place (it moves kind tests into the pattern
// and removes them from the where list).  Criteria objects belong to the caller, who may use one filter for a count
// query and again for the fetch; the builder may therefore keep a criteria node only as cypher.Copy(node).
func checkBuilderCopiesCriteria(r *Run) {
	const rule = "C10-R7-builder-copies-criteria"
	p := r.Pkg("query/neo4j")
	if p == nil {
		r.Undecide("C10-R7: package query/neo4j not loaded")
		return
	}
	info := p.TypesInfo
	var apply *ast.FuncDecl
	for _, f := range p.Syntax {
		for _, d := range f.Decls {
			if fd, ok := d.(*ast.FuncDecl); ok && fd.Name.Name == "Apply" && fd.Recv != nil && recvTypeName(fd.Recv.List[0].Type) == "QueryBuilder" {
				apply = fd
			}
		}
	}
	if apply == nil || apply.Body == nil {
		r.Undecide("C10-R7: QueryBuilder.Apply not found")
		return
	}
	n := 0
	ast.Inspect(apply.Body, func(x ast.Node) bool {
		ts, ok := x.(*ast.TypeSwitchStmt)
		if !ok {
			return true
		}
		for _, c := range ts.Body.List {
			cc := c.(*ast.CaseClause)
			bound := info.Implicits[cc]
			if bound == nil || len(cc.List) != 1 {
				continue
			}
			if _, isPtr := bound.Type().(*types.Pointer); !isPtr {
				continue
			}
			// every use of the bound criteria value must be the argument of cypher.Copy
			var stack []ast.Node
			for _, st := range cc.Body {
				ast.Inspect(st, func(m ast.Node) bool {
					if m == nil {
						stack = stack[:len(stack)-1]
						return true
					}
					stack = append(stack, m)
					id, ok := m.(*ast.Ident)
					if !ok || info.Uses[id] != bound {
						return true
					}
					n++
					construct := "QueryBuilder.Apply:" + namedName(bound.Type()) + "@" + r.Pos(id.Pos())
					construct = "QueryBuilder.Apply:" + namedName(bound.Type())
					okUse := false
					if len(stack) >= 2 {
						if call, isCall := stack[len(stack)-2].(*ast.CallExpr); isCall {
							if fn := calleeOf(info, call); fn != nil && (fn.Name() == "Copy" || fn.Name() == "Apply") {
								okUse = true
							}
						}
						// reading a field or ranging over it is not keeping it
						switch stack[len(stack)-2].(type) {
						case *ast.SelectorExpr, *ast.RangeStmt:
							okUse = true
						}
					}
					if okUse {
						r.Pass(rule, construct, id.Pos(), "kept only as cypher.Copy of the caller's node")
					} else {
						r.Fail(rule, construct, id.Pos(), "Apply keeps the caller's %s itself instead of a copy: Prepare then rewrites the caller's criteria in place (kind tests are moved out of the where list), so the same filter applied to a second query silently loses them", namedName(bound.Type()))
					}
					return true
				})
			}
		}
		return false
	})
	if n < 4 {
		r.Undecide("C10-R7: expected Apply to adopt several criteria types, found %d uses", n)
	}
}

// checkEscapeOnce (R8): property keys and map keys are held raw in the model and escaped exactly once, by the emitter.
// A caller elsewhere that stores an already escaped key in the model gets it escaped again on output: the key
// `object-id` is sent as ```object-id``` , which names a different property.  Only the emitter package (and the
// function's own package) may call cypher.EscapePropertyKeyName.
func checkEscapeOnce(r *Run) {
	const rule = "C10-R8-escape-once"
	n := 0
	for path, p := range r.ByPath {
		if !strings.HasPrefix(path, modPath) {
			continue
		}
		for _, f := range p.Syntax {
			if strings.HasSuffix(r.Fset.Position(f.Pos()).Filename, "_test.go") {
				continue
			}
			ast.Inspect(f, func(x ast.Node) bool {
				call, ok := x.(*ast.CallExpr)
				if !ok {
					return true
				}
				fn := calleeOf(p.TypesInfo, call)
				if fn == nil || fn.Name() != "EscapePropertyKeyName" || fn.Pkg() == nil || !strings.HasSuffix(fn.Pkg().Path(), "/cypher/models/cypher") {
					return true
				}
				n++
				fd := enclosingFuncDecl(p, call.Pos())
				where := shortPkg(path)
				if fd != nil {
					where += "." + funcDeclName(fd)
				}
				if strings.HasSuffix(path, "/cypher/models/cypher/format") || strings.HasSuffix(path, "/cypher/models/cypher") {
					r.Pass(rule, where, call.Pos(), "the emitter escapes the key on output")
				} else {
					r.Fail(rule, where, call.Pos(), "%s escapes a property key before it goes into the model; the emitter escapes every key again on output, so a key that is not a plain identifier is sent with two layers of backticks and names a different property", where)
				}
				return true
			})
		}
	}
	if n == 0 {
		r.Undecide("C10-R8: no call of cypher.EscapePropertyKeyName found (the emitter's calls were confirmed by reading)")
	}
}
