package main

// E4 — field-coverage engine: which fields of which struct types does a consumer read?

import (
	"go/ast"
	"go/token"
	"go/types"
	"strings"

	"golang.org/x/tools/go/packages"
)

// fieldsSelected collects, for the given function bodies, every struct field that is selected
// (read or written) keyed by the *types.Var of the field.
func fieldsSelectedIn(p *packages.Package, node ast.Node, into map[*types.Var]token.Pos) {
	// selections that merely propagate a field into the same field of another value (copy) are not reads
	skip := map[*ast.SelectorExpr]bool{}
	fieldOfSel := func(e ast.Expr) *types.Var {
		if sel, ok := ast.Unparen(e).(*ast.SelectorExpr); ok {
			if s := p.TypesInfo.Selections[sel]; s != nil && s.Kind() == types.FieldVal {
				v, _ := s.Obj().(*types.Var)
				return v
			}
		}
		return nil
	}
	markProp := func(target *types.Var, value ast.Expr) {
		value = ast.Unparen(value)
		if call, ok := value.(*ast.CallExpr); ok && len(call.Args) == 1 {
			value = ast.Unparen(call.Args[0]) // Copy(s.F)
		}
		if sel, ok := value.(*ast.SelectorExpr); ok && target != nil && fieldOfSel(sel) == target {
			skip[sel] = true
		}
	}
	ast.Inspect(node, func(n ast.Node) bool {
		switch x := n.(type) {
		case *ast.KeyValueExpr:
			if k, ok := x.Key.(*ast.Ident); ok {
				if v, ok := p.TypesInfo.Uses[k].(*types.Var); ok && v.IsField() {
					markProp(v, x.Value)
				}
			}
		case *ast.AssignStmt:
			if len(x.Lhs) == len(x.Rhs) {
				for i := range x.Lhs {
					markProp(fieldOfSel(x.Lhs[i]), x.Rhs[i])
				}
			}
		}
		return true
	})
	lhs := map[*ast.SelectorExpr]bool{}
	ast.Inspect(node, func(n ast.Node) bool {
		if as, ok := n.(*ast.AssignStmt); ok && as.Tok == token.ASSIGN {
			for _, l := range as.Lhs {
				if sel, ok := ast.Unparen(l).(*ast.SelectorExpr); ok {
					lhs[sel] = true // pure write
				}
			}
		}
		return true
	})
	ast.Inspect(node, func(n ast.Node) bool {
		if x, ok := n.(*ast.SelectorExpr); ok && !skip[x] && !lhs[x] {
			if s := p.TypesInfo.Selections[x]; s != nil && s.Kind() == types.FieldVal {
				if v, ok := s.Obj().(*types.Var); ok {
					if _, seen := into[v]; !seen {
						into[v] = x.Pos()
					}
				}
			}
		}
		return true
	})
}

// structTypesOf returns the named struct types declared in a package.
func structTypesOf(p *packages.Package) []*types.Named {
	var out []*types.Named
	for _, name := range p.Types.Scope().Names() {
		tn, ok := p.Types.Scope().Lookup(name).(*types.TypeName)
		if !ok || tn.IsAlias() {
			continue
		}
		if n, ok := tn.Type().(*types.Named); ok {
			if _, ok := n.Underlying().(*types.Struct); ok {
				out = append(out, n)
			}
		}
	}
	return out
}

// typesMentioned: named types of package `of` that appear as type expressions (type-switch cases,
// parameter types, assertions, conversions) inside package p's non-test syntax.
func typesMentioned(p *packages.Package, of *types.Package) map[*types.TypeName]token.Pos {
	out := map[*types.TypeName]token.Pos{}
	for _, f := range p.Syntax {
		ast.Inspect(f, func(n ast.Node) bool {
			id, ok := n.(*ast.Ident)
			if !ok {
				return true
			}
			if tn, ok := p.TypesInfo.Uses[id].(*types.TypeName); ok && tn.Pkg() == of {
				if _, seen := out[tn]; !seen {
					out[tn] = id.Pos()
				}
			}
			return true
		})
	}
	return out
}

func isAnyType(t types.Type) bool {
	if i, ok := t.Underlying().(*types.Interface); ok && i.NumMethods() == 0 {
		if _, named := t.(*types.Named); !named {
			return true
		}
	}
	return false
}

// consumerReads: fields selected in any function of the consumer packages or in module functions
// reachable from them through the static call graph.
func consumerReads(r *Run, cg *CallGraph, consumers []*packages.Package) map[*types.Var]token.Pos {
	reads := map[*types.Var]token.Pos{}
	var roots []*types.Func
	for fn := range cg.Decl {
		for _, c := range consumers {
			if cg.PkgOf[fn] == c {
				roots = append(roots, fn)
			}
		}
	}
	reach := cg.Reach(roots, nil)
	for fn := range reach {
		if fd := cg.Decl[fn]; fd != nil && fd.Body != nil {
			fieldsSelectedIn(cg.PkgOf[fn], fd.Body, reads)
		}
	}
	// package-level initialisers of the consumers
	for _, c := range consumers {
		for _, f := range c.Syntax {
			for _, d := range f.Decls {
				if gd, ok := d.(*ast.GenDecl); ok {
					fieldsSelectedIn(c, gd, reads)
				}
			}
		}
	}
	return reads
}

func checkEmitterCoverage(r *Run, rule string) {
	model := r.MustPkg("cypher/models/cypher")
	emit := r.MustPkg("cypher/models/cypher/format")
	cg := BuildCallGraph(r, func(p string) bool {
		return strings.Contains(p, "/cypher/models/cypher") || strings.HasSuffix(p, "/graph")
	})
	reads := consumerReads(r, cg, []*packages.Package{emit})
	mentioned := typesMentioned(emit, model.Types)
	exempt := r.LoadTable("c07_emitter_exempt")
	structs := structTypesOf(model)
	// a type is also handled when the emitter selects any of its fields (e.g. readingClause.Match.Where)
	for _, nt := range structs {
		st := nt.Underlying().(*types.Struct)
		for i := 0; i < st.NumFields(); i++ {
			if pos, ok := reads[st.Field(i)]; ok {
				if _, m := mentioned[nt.Obj()]; !m {
					mentioned[nt.Obj()] = pos
				}
			}
		}
	}
	for pass := 0; pass < 2; pass++ {
		// first pass only discovers embedded struct types of mentioned types
		for _, nt := range structs {
			if _, ok := mentioned[nt.Obj()]; !ok {
				continue
			}
			st := nt.Underlying().(*types.Struct)
			for i := 0; i < st.NumFields(); i++ {
				if f := st.Field(i); f.Embedded() {
					if en := namedOf(f.Type()); en != nil && en.Obj().Pkg() == model.Types {
						mentioned[en.Obj()] = f.Pos()
					}
				}
			}
		}
	}
	for _, nt := range structs {
		if _, ok := mentioned[nt.Obj()]; !ok {
			continue
		}
		st := nt.Underlying().(*types.Struct)
		for i := 0; i < st.NumFields(); i++ {
			f := st.Field(i)
			construct := nt.Obj().Name() + "." + f.Name()
			if f.Embedded() {
				if en := namedOf(f.Type()); en != nil && en.Obj().Pkg() == model.Types {
					if _, isStruct := en.Underlying().(*types.Struct); isStruct {
						mentioned[en.Obj()] = f.Pos() // judged as a type of its own (fields are promoted)
						continue
					}
				}
			}
			if len(fieldIntroductions(r, f)) == 0 {
				r.Pass(rule, construct, f.Pos(), "never given a non-zero value anywhere in the module (nothing to emit)")
				continue
			}
			if _, ok := reads[f]; ok {
				r.Pass(rule, construct, f.Pos(), "read by the emitter (or a model method it calls)")
				continue
			}
			if reason, ok := r.InTable(exempt, "c07_emitter_exempt", construct); ok {
				r.Pass(rule, construct, f.Pos(), "exempt: %s", reason)
				continue
			}
			r.Fail(rule, construct, f.Pos(), "the Cypher emitter handles %s but never reads field %s: two models that differ only there emit the same text", nt.Obj().Name(), f.Name())
		}
	}
}

// fieldIntroductions: sites in the loaded module packages that give the field a value that is not
// merely propagated from the same field (copy) or the zero value.
func fieldIntroductions(r *Run, field *types.Var) []token.Pos {
	var out []token.Pos
	for path, p := range r.ByPath {
		if !strings.HasPrefix(path, modPath) {
			continue
		}
		info := p.TypesInfo
		propagates := func(e ast.Expr) bool {
			// a value computed from the same field (rewrite(x.F, …), Copy(x.F)) propagates, it does not introduce
			selfDerived := false
			ast.Inspect(e, func(n ast.Node) bool {
				if x, isSel := n.(*ast.SelectorExpr); isSel {
					if s := info.Selections[x]; s != nil && s.Obj() == field {
						if _, isCall := ast.Unparen(e).(*ast.CallExpr); isCall {
							selfDerived = true
						}
					}
				}
				return true
			})
			if selfDerived {
				return true
			}
			// a local defined from a call that takes the same field: `v, err := rewrite(x.F); …; x.F = v`
			if id, isId := ast.Unparen(e).(*ast.Ident); isId {
				if obj := info.Uses[id]; obj != nil {
					derived := false
					for _, f := range p.Syntax {
						if f.Pos() > id.Pos() || id.Pos() > f.End() {
							continue
						}
						ast.Inspect(f, func(n ast.Node) bool {
							as, ok := n.(*ast.AssignStmt)
							if !ok || len(as.Rhs) != 1 {
								return true
							}
							defines := false
							for _, l := range as.Lhs {
								if lid, ok := l.(*ast.Ident); ok && info.Defs[lid] == obj {
									defines = true
								}
							}
							if !defines {
								return true
							}
							if _, isCall := ast.Unparen(as.Rhs[0]).(*ast.CallExpr); !isCall {
								return true
							}
							ast.Inspect(as.Rhs[0], func(m ast.Node) bool {
								if x, isSel := m.(*ast.SelectorExpr); isSel {
									if s := info.Selections[x]; s != nil && s.Obj() == field {
										derived = true
									}
								}
								return true
							})
							return true
						})
					}
					if derived {
						return true
					}
				}
			}
			// true when every leaf of e is a selection of the same field or a zero constant
			ok := true
			leaf := false
			ast.Inspect(e, func(n ast.Node) bool {
				switch x := n.(type) {
				case *ast.SelectorExpr:
					if s := info.Selections[x]; s != nil && s.Obj() == field {
						leaf = true
						return false
					}
					ok = false
					return false
				case *ast.Ident:
					if tv, has := info.Types[x]; has && tv.Value != nil {
						v := tv.Value.ExactString()
						if v == "false" || v == "0" || v == `""` {
							leaf = true
							return true
						}
					}
					if _, isNil := info.Uses[x].(*types.Nil); isNil {
						leaf = true
						return true
					}
					ok = false
				case *ast.BasicLit:
					if x.Value == "0" || x.Value == `""` {
						leaf = true
					} else {
						ok = false
					}
				case *ast.CallExpr:
					// Copy(s.F) style propagation
					if len(x.Args) == 1 {
						return true
					}
					ok = false
				}
				return true
			})
			return ok && leaf
		}
		for _, f := range p.Syntax {
			ast.Inspect(f, func(n ast.Node) bool {
				switch x := n.(type) {
				case *ast.AssignStmt:
					for i, l := range x.Lhs {
						if sel, ok := ast.Unparen(l).(*ast.SelectorExpr); ok {
							if s := info.Selections[sel]; s != nil && s.Obj() == field {
								if len(x.Rhs) == len(x.Lhs) && propagates(x.Rhs[i]) {
									continue
								}
								out = append(out, x.Pos())
							}
						}
					}
				case *ast.KeyValueExpr:
					if k, ok := x.Key.(*ast.Ident); ok && info.Uses[k] == field {
						if !propagates(x.Value) {
							out = append(out, x.Pos())
						}
					}
				case *ast.CompositeLit:
					// unkeyed literal of the owning struct
					if tv, ok := info.Types[x]; ok && len(x.Elts) > 0 {
						if _, keyed := x.Elts[0].(*ast.KeyValueExpr); !keyed {
							if st, ok := tv.Type.Underlying().(*types.Struct); ok {
								for i := 0; i < st.NumFields() && i < len(x.Elts); i++ {
									if st.Field(i) == field && !propagates(x.Elts[i]) {
										out = append(out, x.Pos())
									}
								}
							}
						}
					}
				case *ast.UnaryExpr:
					if x.Op == token.AND {
						if sel, ok := ast.Unparen(x.X).(*ast.SelectorExpr); ok {
							if s := info.Selections[sel]; s != nil && s.Obj() == field {
								out = append(out, x.Pos())
							}
						}
					}
				}
				return true
			})
		}
	}
	return out
}
