package main

// Path conditions as propositional formulas: the conjunction of the conditions of every enclosing if statement of a
// construct (negated for else arms), with && || ! and parentheses interpreted and everything else an atom keyed by its
// printed form. A rule fixes some atoms (a premise) and asks whether the path condition then holds under every
// assignment of the remaining atoms (at most 2^12 assignments; more atoms make the rule undecided).

import (
	"go/ast"
	"go/token"
	"go/types"
	"sort"

	"golang.org/x/tools/go/packages"
)

type condLit struct {
	Expr ast.Expr
	Neg  bool
}

// pathConditions returns the conditions that control target inside root, outermost first. Function literals between
// root and target are transparent (a closure body runs under the conditions of the place that calls it only if it is
// called there; the callers of this helper use it for bodies executed in place).
func pathConditions(root ast.Node, target ast.Node) []condLit {
	var out []condLit
	var stack []ast.Node
	found := false
	ast.Inspect(root, func(n ast.Node) bool {
		if found {
			return false
		}
		if n == nil {
			stack = stack[:len(stack)-1]
			return false
		}
		stack = append(stack, n)
		if n == target {
			found = true
			for i := 0; i+1 < len(stack); i++ {
				ifs, ok := stack[i].(*ast.IfStmt)
				if !ok {
					continue
				}
				next := stack[i+1]
				switch {
				case next == ast.Node(ifs.Body):
					out = append(out, condLit{ifs.Cond, false})
				case ifs.Else != nil && next == ifs.Else:
					out = append(out, condLit{ifs.Cond, true})
				}
			}
			return false
		}
		return true
	})
	return out
}

type atomClass int

const (
	atomFree atomClass = iota
	atomErrNonNil
	atomCtxAlive
)

// classifyAtom recognises `<error> != nil` / `== nil` and `<context>.Err() == nil` / `!= nil`; the returned bool says
// the expression is the negation of the class's atom.
func classifyAtom(info *types.Info, e ast.Expr) (atomClass, bool) {
	be, ok := ast.Unparen(e).(*ast.BinaryExpr)
	if !ok || (be.Op != token.EQL && be.Op != token.NEQ) {
		return atomFree, false
	}
	x, y := ast.Unparen(be.X), ast.Unparen(be.Y)
	if isNilIdent(info, x) {
		x, y = y, x
	}
	if !isNilIdent(info, y) {
		return atomFree, false
	}
	if call, isCall := x.(*ast.CallExpr); isCall {
		if sel, isSel := call.Fun.(*ast.SelectorExpr); isSel && sel.Sel.Name == "Err" && len(call.Args) == 0 {
			if tv, has := info.Types[sel.X]; has && isContextType(tv.Type) {
				return atomCtxAlive, be.Op == token.NEQ
			}
		}
		return atomFree, false
	}
	if tv, has := info.Types[x]; has && tv.Type != nil && types.Identical(tv.Type, types.Universe.Lookup("error").Type()) {
		return atomErrNonNil, be.Op == token.EQL
	}
	return atomFree, false
}

func isContextType(t types.Type) bool {
	n := namedOf(t)
	return n != nil && n.Obj().Pkg() != nil && n.Obj().Pkg().Path() == "context" && n.Obj().Name() == "Context"
}

// impliedUnder reports whether the conjunction of lits holds under every assignment in which the error atoms are
// "non-nil" and the context atoms "alive"; free atoms range over both values. ok=false: too many atoms.
// boolHelpers lets impliedUnder look through calls of same-package functions whose body is a single `return <bool
// expression>`: the call is replaced by that expression (the classification of atoms is by type, so the callee's own
// parameter names do not matter). Set by the rule that uses impliedUnder; nil means calls stay opaque atoms.
var boolHelpers func(call *ast.CallExpr) ast.Expr

// packageBoolHelpers resolves calls of package-level functions (no receiver) of p whose body is one `return <expr>`
// with a single boolean result.
func packageBoolHelpers(p *packages.Package) func(call *ast.CallExpr) ast.Expr {
	decls := FuncDecls(p)
	return func(call *ast.CallExpr) ast.Expr {
		fn := calleeOf(p.TypesInfo, call)
		if fn == nil || fn.Pkg() != p.Types {
			return nil
		}
		sig, _ := fn.Type().(*types.Signature)
		if sig == nil || sig.Recv() != nil || sig.Results().Len() != 1 {
			return nil
		}
		if b, ok := sig.Results().At(0).Type().Underlying().(*types.Basic); !ok || b.Kind() != types.Bool {
			return nil
		}
		fd := decls[fn.Name()]
		if fd == nil || fd.Body == nil || len(fd.Body.List) != 1 {
			return nil
		}
		if rs, ok := fd.Body.List[0].(*ast.ReturnStmt); ok && len(rs.Results) == 1 {
			return rs.Results[0]
		}
		return nil
	}
}

func expandBoolHelper(e ast.Expr) ast.Expr {
	if boolHelpers == nil {
		return e
	}
	if call, ok := ast.Unparen(e).(*ast.CallExpr); ok {
		if body := boolHelpers(call); body != nil {
			return body
		}
	}
	return e
}

func impliedUnder(fset *token.FileSet, info *types.Info, lits []condLit) (holds bool, counter string, ok bool) {
	free := map[string]int{}
	var names []string
	var collect func(e ast.Expr)
	collect = func(e ast.Expr) {
		e = ast.Unparen(expandBoolHelper(e))
		switch x := e.(type) {
		case *ast.UnaryExpr:
			if x.Op == token.NOT {
				collect(x.X)
				return
			}
		case *ast.BinaryExpr:
			if x.Op == token.LAND || x.Op == token.LOR {
				collect(x.X)
				collect(x.Y)
				return
			}
		}
		if cls, _ := classifyAtom(info, e); cls != atomFree {
			return
		}
		k := exprString(fset, e)
		if _, seen := free[k]; !seen {
			free[k] = len(names)
			names = append(names, k)
		}
	}
	for _, l := range lits {
		collect(l.Expr)
	}
	if len(names) > 12 {
		return false, "", false
	}
	var eval func(e ast.Expr, asg int) bool
	eval = func(e ast.Expr, asg int) bool {
		e = ast.Unparen(expandBoolHelper(e))
		switch x := e.(type) {
		case *ast.UnaryExpr:
			if x.Op == token.NOT {
				return !eval(x.X, asg)
			}
		case *ast.BinaryExpr:
			if x.Op == token.LAND {
				return eval(x.X, asg) && eval(x.Y, asg)
			}
			if x.Op == token.LOR {
				return eval(x.X, asg) || eval(x.Y, asg)
			}
		}
		if cls, neg := classifyAtom(info, e); cls != atomFree {
			return !neg
		}
		return asg&(1<<free[exprString(fset, e)]) != 0
	}
	for asg := 0; asg < 1<<len(names); asg++ {
		all := true
		for _, l := range lits {
			v := eval(l.Expr, asg)
			if l.Neg {
				v = !v
			}
			if !v {
				all = false
				break
			}
		}
		if !all {
			var trueAtoms []string
			for i, n := range names {
				if asg&(1<<i) != 0 {
					trueAtoms = append(trueAtoms, n)
				}
			}
			sort.Strings(trueAtoms)
			c := "no free condition true"
			if len(trueAtoms) > 0 {
				c = "with " + joinStrings(trueAtoms, " and ") + " true"
			}
			return false, c, true
		}
	}
	return true, "", true
}

func joinStrings(xs []string, sep string) string {
	out := ""
	for i, x := range xs {
		if i > 0 {
			out += sep
		}
		out += x
	}
	return out
}

// controlConds returns what is known to hold when control reaches target inside root: the conditions of the enclosing if
// statements (pathConditions) and, for every block on the way down, the negated conditions of earlier statements of that
// block that are if statements without an else whose body always leaves (return, continue, break, goto, panic). The two
// spellings of a guard — `if c { … target … }` and `if !c { return }; … target …` — give the same answer.
func controlConds(root ast.Node, target ast.Node) []condLit {
	out := pathConditions(root, target)
	var stack []ast.Node
	found := false
	ast.Inspect(root, func(n ast.Node) bool {
		if found {
			return false
		}
		if n == nil {
			stack = stack[:len(stack)-1]
			return false
		}
		stack = append(stack, n)
		if n != target {
			return true
		}
		found = true
		for i := 0; i+1 < len(stack); i++ {
			var list []ast.Stmt
			switch b := stack[i].(type) {
			case *ast.BlockStmt:
				list = b.List
			case *ast.CaseClause:
				list = b.Body
			case *ast.CommClause:
				list = b.Body
			default:
				continue
			}
			for _, st := range list {
				if st.Pos() <= stack[i+1].Pos() && stack[i+1].End() <= st.End() {
					break // reached the statement that contains the target
				}
				ifs, ok := st.(*ast.IfStmt)
				if !ok || ifs.Else != nil || !alwaysLeaves(ifs.Body) {
					continue
				}
				out = append(out, condLit{ifs.Cond, true})
			}
		}
		return false
	})
	return out
}

// alwaysLeaves: the block's last statement transfers control out of the enclosing statement list.
func alwaysLeaves(b *ast.BlockStmt) bool {
	if b == nil || len(b.List) == 0 {
		return false
	}
	switch last := b.List[len(b.List)-1].(type) {
	case *ast.ReturnStmt, *ast.BranchStmt:
		return true
	case *ast.ExprStmt:
		if call, ok := last.X.(*ast.CallExpr); ok {
			if id, ok := call.Fun.(*ast.Ident); ok && id.Name == "panic" {
				return true
			}
		}
	case *ast.IfStmt:
		if last.Else == nil {
			return false
		}
		if eb, ok := last.Else.(*ast.BlockStmt); ok {
			return alwaysLeaves(last.Body) && alwaysLeaves(eb)
		}
	}
	return false
}

// dominatingLeavingIfs returns, outermost first, the if statements without an else whose body always leaves and which
// precede target in one of the blocks that enclose it: control reaches target only after each of them declined to leave.
func dominatingLeavingIfs(root ast.Node, target ast.Node) []*ast.IfStmt {
	var out []*ast.IfStmt
	var stack []ast.Node
	found := false
	ast.Inspect(root, func(n ast.Node) bool {
		if found {
			return false
		}
		if n == nil {
			stack = stack[:len(stack)-1]
			return false
		}
		stack = append(stack, n)
		if n != target {
			return true
		}
		found = true
		for i := 0; i+1 < len(stack); i++ {
			var list []ast.Stmt
			switch b := stack[i].(type) {
			case *ast.BlockStmt:
				list = b.List
			case *ast.CaseClause:
				list = b.Body
			case *ast.CommClause:
				list = b.Body
			default:
				continue
			}
			for _, st := range list {
				if st.Pos() <= stack[i+1].Pos() && stack[i+1].End() <= st.End() {
					break
				}
				if ifs, ok := st.(*ast.IfStmt); ok && ifs.Else == nil && alwaysLeaves(ifs.Body) {
					out = append(out, ifs)
				}
			}
		}
		return false
	})
	return out
}
