package main

// C03-m with-path-alias-agreement: a WITH item that is a plain variable is projected either as a reference to an
// earlier frame's column or, for a path that has not been materialised yet, as the expression that assembles the path
// (buildProjection), which carries its own alias. The projection entry must be given the target alias in exactly the
// other cases: aliased twice the item declares a column the body does not produce, not aliased at all the next frame
// refers to a column that does not exist. The rule compares the two conditions — the one under which the assembling
// expression is used and the one under which the alias is assigned — as boolean formulas over the same atoms (a nil test
// or an equality, on the same variable's same field) and requires each to be the negation of the other.

import (
	"fmt"
	"go/ast"
	"go/printer"
	"go/token"
	"go/types"
	"os"
	"strings"

	"golang.org/x/tools/go/packages"
)

// condFormula turns the conditions controlling a node into one formula. Atoms are `nil(<expr>)` and `eq(<a>,<b>)` with
// locals resolved to their definitions; one-expression predicates of the package are expanded.
func condFormula(r *Run, p *packages.Package, body *ast.BlockStmt, lits []condLit) *bexpr {
	info := p.TypesInfo
	canon := func(e ast.Expr) string {
		return exprString(r.Fset, resolveLocalCopy(info, body, e))
	}
	var conv func(e ast.Expr, depth int) *bexpr
	conv = func(e ast.Expr, depth int) *bexpr {
		e = ast.Unparen(e)
		switch t := e.(type) {
		case *ast.UnaryExpr:
			if t.Op == token.NOT {
				return bNot(conv(t.X, depth))
			}
		case *ast.BinaryExpr:
			switch t.Op {
			case token.LAND:
				return bAnd(conv(t.X, depth), conv(t.Y, depth))
			case token.LOR:
				return bOr(conv(t.X, depth), conv(t.Y, depth))
			case token.EQL, token.NEQ:
				var a *bexpr
				switch {
				case isNilIdent(info, ast.Unparen(t.Y)):
					a = bAtom("nil(" + canon(t.X) + ")")
				case isNilIdent(info, ast.Unparen(t.X)):
					a = bAtom("nil(" + canon(t.Y) + ")")
				default:
					x, y := canon(t.X), canon(t.Y)
					if y < x {
						x, y = y, x
					}
					a = bAtom("eq(" + x + "," + y + ")")
				}
				if t.Op == token.NEQ {
					return bNot(a)
				}
				return a
			}
		case *ast.CallExpr:
			if depth < 3 {
				if pb := predicateBody(p, t); pb != nil {
					return conv(pb, depth+1)
				}
			}
		case *ast.Ident:
			if def := resolveLocalCopy(info, body, t); def != ast.Expr(t) {
				return conv(def, depth+1)
			}
		}
		return bAtom(canon(e))
	}
	out := bTrue
	for _, l := range lits {
		f := conv(l.Expr, 0)
		if l.Neg {
			f = bNot(f)
		}
		out = bAnd(out, f)
	}
	return out
}

func checkWithPathAliasAgreement(r *Run, tp *packages.Package) {
	const rule = "C03-m-with-path-alias-agreement"
	info := tp.TypesInfo
	n := 0
	for _, f := range tp.Syntax {
		for _, d := range f.Decls {
			fd, ok := d.(*ast.FuncDecl)
			if !ok || fd.Body == nil {
				continue
			}
			// cheap pre-filter: the function (or what it calls) mentions buildProjection
			mentions := false
			for _, b := range bodyWithHelpers(tp, fd) {
				ast.Inspect(b, func(x ast.Node) bool {
					if c, ok := x.(*ast.CallExpr); ok {
						if fn := calleeOf(info, c); fn != nil && fn.Name() == "buildProjection" {
							mentions = true
						}
					}
					return !mentions
				})
			}
			if !mentions {
				continue
			}
			inl := inlineFuncWith(tp, fd, 2, true)
			// the two sites, in the same innermost case clause / block
			var build *ast.CallExpr
			var alias *ast.AssignStmt
			ast.Inspect(inl.Body, func(x ast.Node) bool {
				switch t := x.(type) {
				case *ast.CallExpr:
					if fn := calleeOf(info, t); fn != nil && fn.Name() == "buildProjection" && build == nil {
						build = t
					}
				case *ast.AssignStmt:
					for _, l := range t.Lhs {
						if sel, ok := ast.Unparen(l).(*ast.SelectorExpr); ok && sel.Sel.Name == "Alias" && alias == nil {
							if nt := namedOf(info.TypeOf(sel.X)); nt != nil && nt.Obj().Name() == "Projection" {
								alias = t
							}
						}
					}
				}
				return true
			})
			if os.Getenv("DAWGSVET_DUMP") != "" && (build == nil || alias == nil) {
				var sb strings.Builder
				printer.Fprint(&sb, token.NewFileSet(), inl.Body)
				fmt.Println("DUMP", funcDeclName(fd), build != nil, alias != nil)
				fmt.Println(sb.String())
			}
			if build == nil || alias == nil {
				continue
			}
			// every way through the item's clause that ends well either uses the assembly or assigns the alias, not both
			// and not neither. Paths are those of the clause with the helpers inlined; a path whose conditions contradict
			// each other (the same test taken both ways) is not a path.
			var root []ast.Stmt
			ast.Inspect(inl.Body, func(x ast.Node) bool {
				if cc, ok := x.(*ast.CaseClause); ok && nodeContains(cc, build) {
					root = cc.Body
				}
				return true
			})
			if root == nil {
				if b, ok := commonBlock(inl.Body, build, alias).(*ast.BlockStmt); ok {
					root = b.List
				}
			}
			if root == nil {
				continue
			}
			isAlias := func(m ast.Node) bool {
				t, ok := m.(*ast.AssignStmt)
				if !ok {
					return false
				}
				for _, l := range t.Lhs {
					if sel, ok := ast.Unparen(l).(*ast.SelectorExpr); ok && sel.Sel.Name == "Alias" {
						if nt := namedOf(info.TypeOf(sel.X)); nt != nil && nt.Obj().Name() == "Projection" {
							return true
						}
					}
				}
				return false
			}
			paths, complete := structuredPaths(info, r.Fset, root, 512)
			if !complete {
				r.Note("C03-m: too many paths through the WITH item clause of %s (not decided)", funcDeclName(fd))
				continue
			}
			n++
			construct := funcDeclName(fd) + ":path-item"
			bad, badCond := "", ""
			judged := 0
			for _, pth := range paths {
				// paths that end in an error return are not the item's outcome
				if pth.Leaving && len(pth.Leaves) > 0 {
					if rs, ok := pth.Leaves[len(pth.Leaves)-1].(*ast.ReturnStmt); ok && len(rs.Results) > 0 && !isNilIdent(info, ast.Unparen(rs.Results[len(rs.Results)-1])) {
						continue
					}
				}
				f := dropErrAtoms(condFormula(r, tp, inl.Body, pth.Conds))
				if !satisfiable(f) {
					continue
				}
				usesBuild, aliased := false, false
				for _, leaf := range pth.Leaves {
					ast.Inspect(leaf, func(m ast.Node) bool {
						if _, isLit := m.(*ast.FuncLit); isLit {
							return false
						}
						if c, ok := m.(*ast.CallExpr); ok {
							if fn := calleeOf(info, c); fn != nil && fn.Name() == "buildProjection" {
								usesBuild = true
							}
						}
						if isAlias(m) {
							aliased = true
						}
						return true
					})
				}
				judged++
				if usesBuild == aliased && bad == "" {
					bad = "neither the path assembly nor the target alias"
					if usesBuild {
						bad = "the self-aliased path assembly and the target alias on top of it"
					}
					badCond = f.String()
				}
			}
			switch {
			case judged == 0:
				r.Note("C03-m: no feasible path through the WITH item clause of %s (not decided)", funcDeclName(fd))
			case bad == "":
				r.Pass(rule, construct, alias.Pos(), "on each of the %d feasible ways through the item, the projection is the self-aliased path assembly or is given the target alias, never both, never neither", judged)
			default:
				r.Fail(rule, construct, alias.Pos(), "a WITH item that is a plain variable gets %s when %s: the frame then declares a column its body does not produce, or the next frame reads a column that does not exist", bad, badCond)
			}
		}
	}
	if n == 0 {
		r.Undecide("C03-m: no function of package translate both assembles a path projection and aliases projection entries")
	}
}

// commonBlock: the innermost case clause or block of body that contains both nodes.
func commonBlock(body *ast.BlockStmt, a, b ast.Node) ast.Node {
	var out ast.Node = body
	ast.Inspect(body, func(n ast.Node) bool {
		switch n.(type) {
		case *ast.BlockStmt, *ast.CaseClause:
			if nodeContains(n, a) && nodeContains(n, b) {
				out = n
			}
		}
		return true
	})
	return out
}

// controlCondsWithin: controlConds relative to a block or a case clause.
func controlCondsWithin(root ast.Node, target ast.Node) []condLit {
	switch t := root.(type) {
	case *ast.BlockStmt:
		return controlConds(t, target)
	case *ast.CaseClause:
		return controlConds(&ast.BlockStmt{List: t.Body}, target)
	}
	return nil
}

// dropErrAtoms replaces atoms about an error value (`nil(err)`) by true/false so that they do not take part: on the
// paths of interest no error has occurred.
func dropErrAtoms(b *bexpr) *bexpr {
	switch b.Op {
	case "atom":
		if strings.HasPrefix(b.Atom, "nil(err") || b.Atom == "nil(err)" {
			return bTrue
		}
		return b
	case "not":
		return bNot(dropErrAtoms(b.Kids[0]))
	case "and":
		return bAnd(dropErrAtoms(b.Kids[0]), dropErrAtoms(b.Kids[1]))
	case "or":
		return bOr(dropErrAtoms(b.Kids[0]), dropErrAtoms(b.Kids[1]))
	}
	return b
}

var _ = types.Universe

// satisfiable: some assignment of the formula's atoms makes it true (≤ 14 atoms; more counts as satisfiable).
func satisfiable(b *bexpr) bool {
	set := map[string]bool{}
	b.atoms(set)
	names := sortedKeys(set)
	if len(names) > 14 {
		return true
	}
	for m := 0; m < 1<<len(names); m++ {
		env := map[string]bool{}
		for i, n := range names {
			env[n] = m&(1<<i) != 0
		}
		if b.eval(env) {
			return true
		}
	}
	return false
}
