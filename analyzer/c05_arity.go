package main

// C05-R12 pop-within-arity: the translator of a function call takes the call's arguments off the operand stack, one
// PopOperand per argument. The stack holds what the arguments pushed, so a pop is backed only by an argument that is
// known to exist: at the k-th pop of a path the conditions that control it have to imply NumArguments() ≥ k. A guard that
// only bounds the count from above (`> 1` refused) lets a call with no argument through, and the pop takes an operand
// that belongs to something else — or indexes an empty stack.

import (
	"go/ast"
	"go/constant"
	"go/token"
	"go/types"

	"golang.org/x/tools/go/packages"
)

func checkPopWithinArity(r *Run, tp *packages.Package) {
	const rule = "C05-R12-pop-within-arity"
	info := tp.TypesInfo
	isArityCall := func(fd *ast.FuncDecl, e ast.Expr) bool {
		e = ast.Unparen(e)
		if id, ok := e.(*ast.Ident); ok {
			e = ast.Unparen(resolveLocalCopy(info, fd.Body, id))
			if e == ast.Expr(id) {
				// a local defined in an if's init
				found := false
				ast.Inspect(fd.Body, func(n ast.Node) bool {
					if as, ok := n.(*ast.AssignStmt); ok && as.Tok == token.DEFINE && len(as.Lhs) == 1 && len(as.Rhs) == 1 {
						if l, ok := as.Lhs[0].(*ast.Ident); ok && info.Defs[l] == info.Uses[id] {
							if c, ok := ast.Unparen(as.Rhs[0]).(*ast.CallExpr); ok {
								if sel, ok := c.Fun.(*ast.SelectorExpr); ok && sel.Sel.Name == "NumArguments" {
									found = true
								}
							}
						}
					}
					return !found
				})
				return found
			}
		}
		call, ok := e.(*ast.CallExpr)
		if !ok || len(call.Args) != 0 {
			return false
		}
		sel, ok := call.Fun.(*ast.SelectorExpr)
		return ok && sel.Sel.Name == "NumArguments"
	}
	isPop := func(n ast.Node) bool {
		call, ok := n.(*ast.CallExpr)
		if !ok {
			return false
		}
		sel, ok := call.Fun.(*ast.SelectorExpr)
		return ok && sel.Sel.Name == "PopOperand" && len(call.Args) == 0
	}
	containsPop := func(n ast.Node) bool {
		found := false
		if n == nil {
			return false
		}
		ast.Inspect(n, func(m ast.Node) bool {
			if _, isLit := m.(*ast.FuncLit); isLit {
				return false
			}
			if isPop(m) {
				found = true
			}
			return !found
		})
		return found
	}
	// lower bound on the arity that a condition (holding, or failing when neg) establishes
	var lowerBound func(fd *ast.FuncDecl, e ast.Expr, neg bool) int64
	lowerBound = func(fd *ast.FuncDecl, e ast.Expr, neg bool) int64 {
		e = ast.Unparen(e)
		switch x := e.(type) {
		case *ast.UnaryExpr:
			if x.Op == token.NOT {
				return lowerBound(fd, x.X, !neg)
			}
		case *ast.CallExpr:
			// HasArguments(): the model's own "at least one"
			if sel, ok := x.Fun.(*ast.SelectorExpr); ok && sel.Sel.Name == "HasArguments" && len(x.Args) == 0 && !neg {
				return 1
			}
		case *ast.BinaryExpr:
			if x.Op == token.LAND && !neg || x.Op == token.LOR && neg {
				a, b := lowerBound(fd, x.X, neg), lowerBound(fd, x.Y, neg)
				if a > b {
					return a
				}
				return b
			}
			op, l, rr := x.Op, x.X, x.Y
			if !isArityCall(fd, l) && isArityCall(fd, rr) {
				l, rr = rr, l
				switch op {
				case token.LSS:
					op = token.GTR
				case token.LEQ:
					op = token.GEQ
				case token.GTR:
					op = token.LSS
				case token.GEQ:
					op = token.LEQ
				}
			}
			if !isArityCall(fd, l) {
				return 0
			}
			tv, has := info.Types[rr]
			if !has || tv.Value == nil || tv.Value.Kind() != constant.Int {
				return 0
			}
			c, _ := constant.Int64Val(tv.Value)
			if neg {
				switch op {
				case token.EQL:
					op = token.NEQ
				case token.NEQ:
					op = token.EQL
				case token.LSS:
					op = token.GEQ
				case token.LEQ:
					op = token.GTR
				case token.GTR:
					op = token.LEQ
				case token.GEQ:
					op = token.LSS
				}
			}
			switch op {
			case token.EQL, token.GEQ:
				return c
			case token.GTR:
				return c + 1
			case token.NEQ:
				if c == 0 {
					return 1
				}
			}
		}
		return 0
	}
	n := 0
	for _, name := range sortedKeys(FuncDecls(tp)) {
		fd := FuncDecls(tp)[name]
		if fd.Body == nil {
			continue
		}
		mentionsArity := false
		ast.Inspect(fd.Body, func(m ast.Node) bool {
			if call, ok := m.(*ast.CallExpr); ok {
				if sel, ok := call.Fun.(*ast.SelectorExpr); ok && sel.Sel.Name == "NumArguments" {
					mentionsArity = true
				}
			}
			return !mentionsArity
		})
		if !mentionsArity {
			continue
		}
		var stack []ast.Node
		ordinal := 0
		ast.Inspect(fd.Body, func(m ast.Node) bool {
			if m == nil {
				stack = stack[:len(stack)-1]
				return false
			}
			stack = append(stack, m)
			if _, isLit := m.(*ast.FuncLit); isLit {
				return true
			}
			if !isPop(m) {
				return true
			}
			inLoop := false
			k := int64(1)
			for i := 0; i+1 < len(stack); i++ {
				switch t := stack[i].(type) {
				case *ast.ForStmt, *ast.RangeStmt:
					inLoop = true
				case *ast.IfStmt:
					// reached through the else of an if whose init popped
					if t.Else != nil && stack[i+1] == ast.Node(t.Else) && containsPop(t.Init) {
						k++
					}
				case *ast.BlockStmt:
					for _, st := range t.List {
						if st.Pos() <= stack[i+1].Pos() && stack[i+1].End() <= st.End() {
							break
						}
						switch s := st.(type) {
						case *ast.AssignStmt:
							if containsPop(s) {
								k++
							}
						case *ast.IfStmt:
							if containsPop(s.Init) && s.Else == nil && alwaysLeaves(s.Body) {
								k++
							}
						}
					}
				}
			}
			n++
			ordinal++
			construct := funcDeclName(fd) + ":pop#" + itoa(int(k)) + " (" + itoa(ordinal) + ". in the function)"
			if inLoop {
				r.Pass(rule, construct, m.Pos(), "inside a loop (one pop per turn; the loop's bound is another rule's business)")
				return true
			}
			lb := int64(0)
			for _, lit := range controlConds(fd.Body, m) {
				if b := lowerBound(fd, lit.Expr, lit.Neg); b > lb {
					lb = b
				}
			}
			if lb >= k {
				r.Pass(rule, construct, m.Pos(), "the conditions in front of pop number %d imply NumArguments() ≥ %d", k, lb)
			} else {
				r.Fail(rule, construct, m.Pos(), "pop number %d of this path is reached with NumArguments() known to be at least %d only: a call with fewer arguments passes the guard and the pop takes an operand that belongs to an enclosing expression, or indexes an empty stack", k, lb)
			}
			return true
		})
	}
	r.Counts[rule+":pops"] = n
	_ = types.Typ
}
