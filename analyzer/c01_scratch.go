package main

// C01-R11 decoder-scratch-fresh: the PostgreSQL driver decodes composite columns (node, edge, path) through scratch
// values whose FromMap/TryMap methods append to their own fields. Such a value must be created for each decode. One
// that outlives a call — a variable captured by a returned closure, a struct field, a package variable — carries the
// nodes and edges of the previous column into the next: the second path of `RETURN p1, p2` comes back holding both.

import (
	"go/ast"
	"go/token"
	"go/types"

	"golang.org/x/tools/go/packages"
)

func checkDecoderScratchFresh(r *Run, p *packages.Package) {
	const rule = "C01-R11-decoder-scratch-fresh"
	info := p.TypesInfo
	// methods that append to a field of their receiver, directly or through another method of the receiver
	type mkey struct {
		recv *types.TypeName
		name string
	}
	accum := map[mkey]bool{}
	methods := map[mkey]*ast.FuncDecl{}
	recvName := func(fd *ast.FuncDecl) (*types.TypeName, types.Object) {
		if fd.Recv == nil || len(fd.Recv.List) != 1 || len(fd.Recv.List[0].Names) != 1 {
			return nil, nil
		}
		obj := info.Defs[fd.Recv.List[0].Names[0]]
		if obj == nil {
			return nil, nil
		}
		if n := namedOf(obj.Type()); n != nil {
			return n.Obj(), obj
		}
		return nil, nil
	}
	for _, f := range p.Syntax {
		for _, d := range f.Decls {
			if fd, ok := d.(*ast.FuncDecl); ok && fd.Body != nil {
				if tn, _ := recvName(fd); tn != nil {
					methods[mkey{tn, fd.Name.Name}] = fd
				}
			}
		}
	}
	// only decoders: methods that take the raw composite (a map[string]any)
	takesRawComposite := func(fd *ast.FuncDecl) bool {
		if fd.Type.Params == nil {
			return false
		}
		for _, pl := range fd.Type.Params.List {
			if m, ok := info.TypeOf(pl.Type).Underlying().(*types.Map); ok {
				if i, ok := m.Elem().Underlying().(*types.Interface); ok && i.NumMethods() == 0 {
					return true
				}
			}
		}
		return false
	}
	for changed := true; changed; {
		changed = false
		for k, fd := range methods {
			if accum[k] || !takesRawComposite(fd) {
				continue
			}
			_, recv := recvName(fd)
			found := false
			ast.Inspect(fd.Body, func(x ast.Node) bool {
				switch t := x.(type) {
				case *ast.AssignStmt:
					for i, lhs := range t.Lhs {
						sel, ok := ast.Unparen(lhs).(*ast.SelectorExpr)
						if !ok || i >= len(t.Rhs) {
							continue
						}
						if id, ok := ast.Unparen(sel.X).(*ast.Ident); !ok || info.Uses[id] != recv {
							continue
						}
						if call, ok := ast.Unparen(t.Rhs[i]).(*ast.CallExpr); ok && len(call.Args) > 0 {
							if fid, ok := call.Fun.(*ast.Ident); ok && fid.Name == "append" {
								if a0, ok := ast.Unparen(call.Args[0]).(*ast.SelectorExpr); ok && a0.Sel.Name == sel.Sel.Name {
									found = true
								}
							}
						}
					}
				case *ast.CallExpr:
					if sel, ok := t.Fun.(*ast.SelectorExpr); ok {
						if id, ok := ast.Unparen(sel.X).(*ast.Ident); ok && info.Uses[id] == recv && accum[mkey{k.recv, sel.Sel.Name}] {
							found = true
						}
					}
				}
				return true
			})
			if found {
				accum[k] = true
				changed = true
			}
		}
	}
	if len(accum) == 0 {
		r.Undecide("C01-R11: no accumulating decode method found in package %s", p.Name)
		return
	}
	// every call of an accumulating method: the receiver variable must be declared in the innermost function (literal)
	// that contains the call
	n := 0
	for _, f := range p.Syntax {
		for _, d := range f.Decls {
			fd, ok := d.(*ast.FuncDecl)
			if !ok || fd.Body == nil {
				continue
			}
			var lits []*ast.FuncLit
			ast.Inspect(fd.Body, func(x ast.Node) bool {
				if fl, ok := x.(*ast.FuncLit); ok {
					lits = append(lits, fl)
				}
				return true
			})
			ast.Inspect(fd.Body, func(x ast.Node) bool {
				call, ok := x.(*ast.CallExpr)
				if !ok {
					return true
				}
				sel, ok := call.Fun.(*ast.SelectorExpr)
				if !ok {
					return true
				}
				base := ast.Unparen(sel.X)
				tn := namedOf(info.TypeOf(base))
				if tn == nil || !accum[mkey{tn.Obj(), sel.Sel.Name}] {
					return true
				}
				// calls on the receiver inside the type's own methods are the accumulation itself
				if rt, recv := recvName(fd); rt == tn.Obj() {
					if id, ok := base.(*ast.Ident); ok && info.Uses[id] == recv {
						return true
					}
				}
				n++
				construct := funcDeclName(fd) + ":" + exprString(r.Fset, base) + "." + sel.Sel.Name
				switch b := base.(type) {
				case *ast.Ident:
					v, _ := info.Uses[b].(*types.Var)
					if v == nil {
						return true
					}
					// innermost literal containing the call
					var inner *ast.FuncLit
					for _, fl := range lits {
						if fl.Pos() <= call.Pos() && call.End() <= fl.End() && (inner == nil || fl.Pos() > inner.Pos()) {
							inner = fl
						}
					}
					lo, hi := fd.Body.Pos(), fd.Body.End()
					if inner != nil {
						lo, hi = inner.Body.Pos(), inner.Body.End()
					}
					switch {
					case v.Parent() == p.Types.Scope():
						r.Fail(rule, construct, call.Pos(), "the decode scratch %s is a package variable: what one decode appended is still there for the next", b.Name)
					case v.Pos() < lo || v.Pos() > hi:
						r.Fail(rule, construct, call.Pos(), "the decode scratch %s is declared outside the function literal that fills it, so it lives as long as the closure: the second composite decoded by the same mapper (the second path column of a row) still holds the nodes and edges of the first", b.Name)
					default:
						r.Pass(rule, construct, call.Pos(), "the scratch value is created for this decode")
					}
				default:
					r.Fail(rule, construct, call.Pos(), "the decode scratch %s is not a local variable: a field or element outlives the decode and accumulates", exprString(r.Fset, base))
				}
				return true
			})
		}
	}
	if n < 1 {
		r.Undecide("C01-R11: fewer than one decode call found in package %s (%d)", p.Name, n)
	}
	_ = token.NoPos
}
