package main

// C04-R6 escaped-text-final: the escaping step (every quote doubled) is the last thing that happens to a piece of user
// text before the delimiters go around it. Anything applied to the escaped text afterwards — a cut to a maximum length,
// a case conversion, a trim — can split a doubled quote or remove one half of it, and the remaining single quote ends
// the literal or identifier. In every function of the SQL formatters that doubles quotes, the result of the doubling
// call must go straight into a concatenation, a write or a return.

import (
	"go/ast"
	"go/token"

	"golang.org/x/tools/go/packages"
)

func checkEscapedTextFinal(r *Run, pkgs ...*packages.Package) {
	const rule = "C04-R6-escaped-text-final"
	n := 0
	for _, p := range pkgs {
		info := p.TypesInfo
		for _, f := range p.Syntax {
			for _, d := range f.Decls {
				fd, ok := d.(*ast.FuncDecl)
				if !ok || fd.Body == nil {
					continue
				}
				var stack []ast.Node
				ast.Inspect(fd.Body, func(x ast.Node) bool {
					if x == nil {
						stack = stack[:len(stack)-1]
						return true
					}
					stack = append(stack, x)
					call, ok := x.(*ast.CallExpr)
					if !ok || len(call.Args) != 3 {
						return true
					}
					fn := calleeOf(info, call)
					if fn == nil || funcFullName(fn) != "strings.ReplaceAll" {
						return true
					}
					quote := ""
					for _, q := range []string{"'", `"`, "`"} {
						if constStringArg(info, call.Args[1], q) && constStringArg(info, call.Args[2], q+q) {
							quote = q
						}
					}
					if quote == "" {
						return true
					}
					n++
					construct := funcDeclName(fd) + ":doubling(" + quote + ")"
					// the nearest enclosing node that is not a parenthesis
					var parent ast.Node
					for i := len(stack) - 2; i >= 0; i-- {
						if _, isParen := stack[i].(*ast.ParenExpr); !isParen {
							parent = stack[i]
							break
						}
					}
					why := ""
					switch pt := parent.(type) {
					case *ast.BinaryExpr:
						if pt.Op != token.ADD {
							why = "is an operand of " + pt.Op.String()
						}
					case *ast.ReturnStmt, *ast.AssignStmt, *ast.ValueSpec:
					case *ast.CallExpr:
						// allowed: writing it out (Write/WriteString/Fprint…), or being the text argument of another doubling
						ok := false
						if sel, isSel := pt.Fun.(*ast.SelectorExpr); isSel {
							switch sel.Sel.Name {
							case "Write", "WriteString", "Fprint", "Fprintf":
								ok = true
							}
						}
						if fn2 := calleeOf(info, pt); fn2 != nil && funcFullName(fn2) == "strings.ReplaceAll" && len(pt.Args) == 3 && pt.Args[0] == ast.Expr(call) {
							ok = true
						}
						if !ok {
							why = "is handed to " + exprString(r.Fset, pt.Fun)
						}
					case *ast.SliceExpr:
						why = "is sliced"
					case *ast.IndexExpr:
						why = "is indexed"
					default:
						why = "is used in an unrecognised way"
					}
					// a local that holds the escaped text must not be sliced or passed on either
					if as, ok := parent.(*ast.AssignStmt); ok && why == "" && len(as.Lhs) == 1 {
						if id, ok := as.Lhs[0].(*ast.Ident); ok {
							obj := info.ObjectOf(id)
							ast.Inspect(fd.Body, func(y ast.Node) bool {
								switch t := y.(type) {
								case *ast.SliceExpr:
									if b, ok := ast.Unparen(t.X).(*ast.Ident); ok && info.Uses[b] == obj {
										why = "is sliced through " + id.Name
									}
								}
								return true
							})
						}
					}
					if why == "" {
						r.Pass(rule, construct, call.Pos(), "the escaped text goes straight between its delimiters")
					} else {
						r.Fail(rule, construct, call.Pos(), "the text with every %s doubled %s before it is delimited: a cut or rewrite of escaped text can split a doubled quote, and the single quote that is left ends the quoted token so that the rest of the user's text is read as SQL", quote, why)
					}
					return true
				})
			}
		}
	}
	if n < 2 {
		r.Undecide("C04-R6: fewer than two quote-doubling calls found in the SQL formatters (%d)", n)
	}
}
