package main

// C07-R11 token-multiplicity: `oC_NotExpression : ( NOT SP? )* oC_ComparisonExpression` — a query may stack NOT tokens,
// and the model keeps one Negation per token (`not not a` is not `not a`). The handlers of the rule hand the parent one
// expression; how many Negation nodes it is wrapped in is a small computation over N = len(ctx.AllNOT()): one Negation
// made when the rule is entered, plus one per turn of a counting loop. The rule follows that computation symbolically —
// values are a·N + b — through locals, parameters, fields filled once, and one helper, and requires the total to be N.
// What it cannot follow it reports as not decided (a note), not as a violation.

import (
	"go/ast"
	"go/token"
	"go/types"
	"strconv"
	"strings"
)

type linN struct {
	a, b int64
	ok   bool
}

type multiplicityEval struct {
	vm    *VisitorModel
	decls map[string]*ast.FuncDecl
	tok   string // accessor name: AllNOT
}

// lin evaluates an integer expression of fd as a·N + b. env binds parameters of fd.
func (m *multiplicityEval) lin(fd *ast.FuncDecl, e ast.Expr, env map[types.Object]linN, depth int) linN {
	info := m.vm.pkg.TypesInfo
	if depth > 6 {
		return linN{}
	}
	e = ast.Unparen(e)
	if tv, has := info.Types[e]; has && tv.Value != nil {
		if v, exact := constantInt64(tv); exact {
			return linN{0, v, true}
		}
	}
	switch x := e.(type) {
	case *ast.CallExpr:
		// len(ctx.AllNOT())
		if id, ok := ast.Unparen(x.Fun).(*ast.Ident); ok && id.Name == "len" && len(x.Args) == 1 {
			if c, ok := ast.Unparen(x.Args[0]).(*ast.CallExpr); ok {
				if sel, ok := c.Fun.(*ast.SelectorExpr); ok && sel.Sel.Name == m.tok {
					return linN{1, 0, true}
				}
			}
		}
		if tv, has := info.Types[x.Fun]; has && tv.IsType() && len(x.Args) == 1 {
			return m.lin(fd, x.Args[0], env, depth+1)
		}
	case *ast.BinaryExpr:
		l, r := m.lin(fd, x.X, env, depth+1), m.lin(fd, x.Y, env, depth+1)
		if !l.ok || !r.ok {
			return linN{}
		}
		switch x.Op {
		case token.ADD:
			return linN{l.a + r.a, l.b + r.b, true}
		case token.SUB:
			return linN{l.a - r.a, l.b - r.b, true}
		}
	case *ast.Ident:
		obj := info.Uses[x]
		if v, has := env[obj]; has {
			return v
		}
		if def := resolveLocalCopy(info, fd.Body, x); def != ast.Expr(x) {
			return m.lin(fd, def, env, depth+1)
		}
		// the ok-less first result of a two-value if-init etc. is not followed
	case *ast.SelectorExpr:
		// a field filled once in the package (a composite literal key or an assignment) from an expression over N
		fv, ok := info.Uses[x.Sel].(*types.Var)
		if !ok || !fv.IsField() || fv.Pkg() != m.vm.pkg.Types {
			return linN{}
		}
		var src ast.Expr
		var srcFd *ast.FuncDecl
		count := 0
		for _, d := range m.decls {
			if d.Body == nil {
				continue
			}
			ast.Inspect(d.Body, func(n ast.Node) bool {
				switch t := n.(type) {
				case *ast.KeyValueExpr:
					if k, ok := t.Key.(*ast.Ident); ok && info.Uses[k] == types.Object(fv) {
						src, srcFd = t.Value, d
						count++
					}
				case *ast.AssignStmt:
					for i, l := range t.Lhs {
						if sel, ok := ast.Unparen(l).(*ast.SelectorExpr); ok && info.Uses[sel.Sel] == types.Object(fv) && i < len(t.Rhs) {
							src, srcFd = t.Rhs[i], d
							count++
						}
					}
				case *ast.IncDecStmt:
					if sel, ok := ast.Unparen(t.X).(*ast.SelectorExpr); ok && info.Uses[sel.Sel] == types.Object(fv) {
						count += 2
					}
				}
				return true
			})
		}
		if count == 1 && src != nil {
			return m.lin(srcFd, src, nil, depth+1)
		}
	}
	return linN{}
}

// wraps: how many Negation nodes the expression e of fd is wrapped in, as a·N + b. isBase recognises the Negation the
// visitor was created with.
func (m *multiplicityEval) wraps(fd *ast.FuncDecl, e ast.Expr, env map[types.Object]linN, wrapEnv map[types.Object]linN, model *types.Named, depth int) linN {
	info := m.vm.pkg.TypesInfo
	if depth > 4 {
		return linN{}
	}
	e = ast.Unparen(e)
	switch x := e.(type) {
	case *ast.Ident:
		if v, has := wrapEnv[info.Uses[x]]; has {
			return v
		}
		if def := resolveLocalCopy(info, fd.Body, x); def != ast.Expr(x) {
			return m.wraps(fd, def, env, wrapEnv, model, depth+1)
		}
	case *ast.SelectorExpr:
		// the visitor's own Negation: one node (made when the visitor was created)
		if nt := namedOf(info.TypeOf(x)); nt != nil && nt == model {
			if fv, ok := info.Uses[x.Sel].(*types.Var); ok && fv.IsField() && fv.Pkg() == m.vm.pkg.Types {
				if v, followed := m.fieldChain(fv, model, depth); followed {
					return v
				}
				return linN{0, 1, true}
			}
		}
	case *ast.UnaryExpr:
		if x.Op == token.AND {
			if cl, ok := ast.Unparen(x.X).(*ast.CompositeLit); ok && namedOf(info.TypeOf(cl)) == model {
				inner := linN{0, 0, true}
				for _, el := range cl.Elts {
					if kv, ok := el.(*ast.KeyValueExpr); ok {
						if nt := namedOf(info.TypeOf(kv.Value)); nt != nil && nt == model {
							inner = m.wraps(fd, kv.Value, env, wrapEnv, model, depth+1)
						}
					}
				}
				if !inner.ok {
					return linN{}
				}
				return linN{inner.a, inner.b + 1, true}
			}
		}
	case *ast.CallExpr:
		fn := calleeOf(info, x)
		if fn == nil || fn.Pkg() != m.vm.pkg.Types {
			return linN{}
		}
		hd := m.vm.decls[fn]
		if hd == nil || hd.Body == nil {
			return linN{}
		}
		// bind parameters: integers as a·N+b, model values as wrap counts
		subEnv, subWrap := map[types.Object]linN{}, map[types.Object]linN{}
		i := 0
		if hd.Type.Params != nil {
			for _, pl := range hd.Type.Params.List {
				for _, nm := range pl.Names {
					if i < len(x.Args) {
						po := info.Defs[nm]
						if nt := namedOf(po.Type()); nt != nil && nt == model {
							subWrap[po] = m.wraps(fd, x.Args[i], env, wrapEnv, model, depth+1)
						} else if v := m.lin(fd, x.Args[i], env, depth+1); v.ok {
							subEnv[po] = v
						}
					}
					i++
				}
			}
		}
		return m.helperWraps(hd, subEnv, subWrap, model, depth+1)
	}
	return linN{}
}

// fieldChain: the visitor's field is filled in a constructor function from a local; the number of model nodes chained
// below that local when the constructor returns: the root node, plus one per turn of a loop that appends below a tail
// variable (`n := &Model{}; tail.F = n; tail = n`). The constructor's integer parameter is bound from its call sites,
// which have to agree. followed is false when the field is not filled that way (the caller then counts one node).
func (m *multiplicityEval) fieldChain(fv *types.Var, model *types.Named, depth int) (linN, bool) {
	info := m.vm.pkg.TypesInfo
	var src ast.Expr
	var srcFd *ast.FuncDecl
	count := 0
	for _, d := range m.decls {
		if d.Body == nil {
			continue
		}
		ast.Inspect(d.Body, func(n ast.Node) bool {
			if kv, ok := n.(*ast.KeyValueExpr); ok {
				if k, ok := kv.Key.(*ast.Ident); ok && info.Uses[k] == types.Object(fv) {
					src, srcFd = kv.Value, d
					count++
				}
			}
			return true
		})
	}
	if count != 1 {
		return linN{}, false
	}
	root, ok := ast.Unparen(src).(*ast.Ident)
	if !ok {
		return linN{}, false
	}
	rootObj := info.Uses[root]
	def := resolveLocalCopyIgnoringLoops(info, srcFd, root)
	if def == nil {
		return linN{}, true
	}
	// bind the constructor's parameters from its call sites
	env := map[types.Object]linN{}
	fnObj, _ := info.Defs[srcFd.Name].(*types.Func)
	sites := 0
	agree := true
	for _, d := range m.decls {
		if d.Body == nil || fnObj == nil {
			continue
		}
		ast.Inspect(d.Body, func(n ast.Node) bool {
			call, ok := n.(*ast.CallExpr)
			if !ok || calleeOf(info, call) != fnObj {
				return true
			}
			sites++
			i := 0
			if srcFd.Type.Params != nil {
				for _, pl := range srcFd.Type.Params.List {
					for _, nm := range pl.Names {
						if i < len(call.Args) {
							if v := m.lin(d, call.Args[i], nil, depth+1); v.ok {
								po := info.Defs[nm]
								if prev, has := env[po]; has && prev != v {
									agree = false
								}
								env[po] = v
							}
						}
						i++
					}
				}
			}
			return true
		})
	}
	if sites == 0 || !agree {
		return linN{}, true
	}
	total := m.wraps(srcFd, def, env, nil, model, depth+1)
	if !total.ok {
		return linN{}, true
	}
	// tails: locals that start as the root
	tails := map[types.Object]bool{}
	ast.Inspect(srcFd.Body, func(n ast.Node) bool {
		if id, ok := n.(*ast.Ident); ok {
			if o := info.Defs[id]; o != nil && o != rootObj {
				if d := resolveLocalCopyIgnoringLoops(info, srcFd, id); d != nil {
					if rid, ok := ast.Unparen(d).(*ast.Ident); ok && info.Uses[rid] == rootObj {
						tails[o] = true
					}
				}
			}
		}
		return true
	})
	for _, st := range srcFd.Body.List {
		loop, ok := st.(*ast.ForStmt)
		if !ok {
			continue
		}
		// body: n := &Model{}; tail.F = n; tail = n
		var fresh, tail types.Object
		linked, advanced := false, false
		var linkField types.Object
		for _, bs := range loop.Body.List {
			as, ok := bs.(*ast.AssignStmt)
			if !ok || len(as.Lhs) != 1 || len(as.Rhs) != 1 {
				return linN{}, true
			}
			switch l := ast.Unparen(as.Lhs[0]).(type) {
			case *ast.Ident:
				if as.Tok == token.DEFINE {
					if one := m.wraps(srcFd, as.Rhs[0], env, nil, model, depth+1); one.ok && one.a == 0 && one.b == 1 {
						fresh = info.Defs[l]
						continue
					}
					return linN{}, true
				}
				if rid, ok := ast.Unparen(as.Rhs[0]).(*ast.Ident); ok && fresh != nil && info.Uses[rid] == fresh && tails[info.Uses[l]] && linked {
					tail, advanced = info.Uses[l], true
					continue
				}
				return linN{}, true
			case *ast.SelectorExpr:
				base, ok := ast.Unparen(l.X).(*ast.Ident)
				rid, ok2 := ast.Unparen(as.Rhs[0]).(*ast.Ident)
				if ok && ok2 && tails[info.Uses[base]] && fresh != nil && info.Uses[rid] == fresh && !advanced {
					linked = true
					linkField = info.Uses[l.Sel]
					continue
				}
				return linN{}, true
			default:
				return linN{}, true
			}
		}
		_ = tail
		if !linked || !advanced {
			return linN{}, true
		}
		trips := m.tripCount(srcFd, loop, env)
		if !trips.ok {
			return linN{}, true
		}
		total = linN{total.a + trips.a, total.b + trips.b, true}
		// a later store into the root's own link field replaces the first link of the chain: the nodes below are lost
		for _, d := range m.decls {
			if d.Body == nil || d == srcFd || linkField == nil {
				continue
			}
			cut := false
			ast.Inspect(d.Body, func(n ast.Node) bool {
				as, ok := n.(*ast.AssignStmt)
				if !ok {
					return true
				}
				for _, l := range as.Lhs {
					if sel, ok := ast.Unparen(l).(*ast.SelectorExpr); ok && info.Uses[sel.Sel] == linkField {
						if inner, ok := ast.Unparen(sel.X).(*ast.SelectorExpr); ok && info.Uses[inner.Sel] == types.Object(fv) {
							cut = true
						}
					}
				}
				return true
			})
			if cut {
				return linN{0, 1, true}, true
			}
		}
	}
	return total, true
}

// helperWraps: the wrap count of what hd returns. Shape: optional definitions, one counting loop whose body is
// `v = &Model{…: v}`, `return v`.
func (m *multiplicityEval) helperWraps(hd *ast.FuncDecl, env, wrapEnv map[types.Object]linN, model *types.Named, depth int) linN {
	info := m.vm.pkg.TypesInfo
	var ret *ast.ReturnStmt
	var loops []*ast.ForStmt
	for _, st := range hd.Body.List {
		switch t := st.(type) {
		case *ast.ReturnStmt:
			ret = t
		case *ast.ForStmt:
			loops = append(loops, t)
		case *ast.AssignStmt, *ast.DeclStmt:
		default:
			return linN{}
		}
	}
	if ret == nil || len(ret.Results) != 1 || len(loops) > 1 {
		return linN{}
	}
	rid, ok := ast.Unparen(ret.Results[0]).(*ast.Ident)
	if !ok {
		return m.wraps(hd, ret.Results[0], env, wrapEnv, model, depth)
	}
	acc := info.Uses[rid]
	// initial value of the accumulator
	cur, has := wrapEnv[acc]
	if !has {
		def := resolveLocalCopyIgnoringLoops(info, hd, rid)
		if def == nil {
			return linN{}
		}
		cur = m.wraps(hd, def, env, wrapEnv, model, depth+1)
	}
	if !cur.ok {
		return linN{}
	}
	if len(loops) == 0 {
		return cur
	}
	loop := loops[0]
	// body: acc = &Model{Expression: acc}
	if len(loop.Body.List) != 1 {
		return linN{}
	}
	as, ok := loop.Body.List[0].(*ast.AssignStmt)
	if !ok || len(as.Lhs) != 1 || len(as.Rhs) != 1 {
		return linN{}
	}
	if lid, ok := as.Lhs[0].(*ast.Ident); !ok || info.Uses[lid] != acc {
		return linN{}
	}
	one := m.wraps(hd, as.Rhs[0], env, map[types.Object]linN{acc: {0, 0, true}}, model, depth+1)
	if !one.ok || one.a != 0 || one.b != 1 {
		return linN{}
	}
	trips := m.tripCount(hd, loop, env)
	if !trips.ok {
		return linN{}
	}
	return linN{cur.a + trips.a, cur.b + trips.b, true}
}

// tripCount of `for i := E; i > 0; i--`, `for i := 0; i < E; i++`, `for i := 1; i < E; i++`, `for range E`.
func (m *multiplicityEval) tripCount(fd *ast.FuncDecl, loop *ast.ForStmt, env map[types.Object]linN) linN {
	info := m.vm.pkg.TypesInfo
	init, ok := loop.Init.(*ast.AssignStmt)
	if !ok || len(init.Lhs) != 1 || len(init.Rhs) != 1 {
		return linN{}
	}
	iv, ok := init.Lhs[0].(*ast.Ident)
	if !ok {
		return linN{}
	}
	ivObj := info.Defs[iv]
	cond, ok := ast.Unparen(loop.Cond).(*ast.BinaryExpr)
	post, ok2 := loop.Post.(*ast.IncDecStmt)
	if !ok || !ok2 {
		return linN{}
	}
	isIV := func(e ast.Expr) bool {
		id, ok := ast.Unparen(e).(*ast.Ident)
		return ok && info.Uses[id] == ivObj
	}
	start := m.lin(fd, init.Rhs[0], env, 0)
	if !start.ok || !isIV(post.X) {
		return linN{}
	}
	switch {
	case post.Tok == token.DEC && isIV(cond.X):
		bound := m.lin(fd, cond.Y, env, 0)
		if !bound.ok || bound.a != 0 {
			return linN{}
		}
		switch cond.Op {
		case token.GTR: // i > c: start - c turns
			return linN{start.a, start.b - bound.b, true}
		case token.GEQ:
			return linN{start.a, start.b - bound.b + 1, true}
		}
	case post.Tok == token.INC && isIV(cond.X):
		bound := m.lin(fd, cond.Y, env, 0)
		if !bound.ok || start.a != 0 {
			return linN{}
		}
		switch cond.Op {
		case token.LSS:
			return linN{bound.a, bound.b - start.b, true}
		case token.LEQ:
			return linN{bound.a, bound.b - start.b + 1, true}
		}
	}
	return linN{}
}

// resolveLocalCopyIgnoringLoops: the defining expression of a local that is defined once outside any loop (writes
// inside loops are the accumulation).
func resolveLocalCopyIgnoringLoops(info *types.Info, fd *ast.FuncDecl, id *ast.Ident) ast.Expr {
	obj := info.ObjectOf(id)
	var def ast.Expr
	n := 0
	for _, st := range fd.Body.List {
		switch t := st.(type) {
		case *ast.AssignStmt:
			for i, l := range t.Lhs {
				if lid, ok := l.(*ast.Ident); ok && info.ObjectOf(lid) == obj && len(t.Lhs) == len(t.Rhs) {
					def = t.Rhs[i]
					n++
				}
			}
		case *ast.DeclStmt:
			if gd, ok := t.Decl.(*ast.GenDecl); ok {
				for _, sp := range gd.Specs {
					if vs, ok := sp.(*ast.ValueSpec); ok {
						for i, nm := range vs.Names {
							if info.Defs[nm] == obj && i < len(vs.Values) {
								def = vs.Values[i]
								n++
							}
						}
					}
				}
			}
		}
	}
	if n == 1 {
		return def
	}
	return nil
}

func checkTokenMultiplicity(r *Run, vm *VisitorModel) {
	const rule = "C07-R11-token-multiplicity"
	info := vm.pkg.TypesInfo
	cp := r.MustPkg("cypher/models/cypher")
	ntn, _ := cp.Types.Scope().Lookup("Negation").(*types.TypeName)
	if ntn == nil {
		r.Note("C07-R11: cypher.Negation not found")
		return
	}
	model, _ := ntn.Type().(*types.Named)
	ev := &multiplicityEval{vm: vm, decls: FuncDecls(vm.pkg), tok: "AllNOT"}
	n := 0
	for _, vname := range sortedKeys(vm.Types) {
		vt := vm.Types[vname]
		h := vt.Exit["oC_NotExpression"]
		if h == nil || h.Decl == nil || h.Decl.Body == nil {
			continue
		}
		fd := h.Decl
		// the expression handed to the parent: the value assigned to a field of the receiver or passed to a method of one
		var handed []ast.Expr
		ast.Inspect(fd.Body, func(x ast.Node) bool {
			switch t := x.(type) {
			case *ast.AssignStmt:
				for i, l := range t.Lhs {
					if _, isSel := ast.Unparen(l).(*ast.SelectorExpr); isSel && i < len(t.Rhs) {
						if isExpressionish(info.TypeOf(t.Rhs[i]), model) {
							handed = append(handed, t.Rhs[i])
						}
					}
				}
			case *ast.CallExpr:
				if sel, ok := t.Fun.(*ast.SelectorExpr); ok && strings.HasPrefix(sel.Sel.Name, "Add") && len(t.Args) == 1 && isExpressionish(info.TypeOf(t.Args[0]), model) {
					handed = append(handed, t.Args[0])
				}
			}
			return true
		})
		for i, e := range handed {
			construct := vname + ".ExitOC_NotExpression"
			if i > 0 {
				construct += "#" + itoa(i+1)
			}
			got := ev.wraps(fd, e, nil, nil, model, 0)
			if !got.ok {
				r.Note("C07-R11: the number of Negation nodes %s builds for %s could not be followed (not decided)", construct, exprString(r.Fset, e))
				continue
			}
			n++
			if got.a == 1 && got.b == 0 {
				r.Pass(rule, construct, e.Pos(), "one Negation per NOT token: the handler hands on N nested negations for N tokens")
			} else {
				r.Fail(rule, construct, e.Pos(), "for N stacked NOT tokens the handler hands on %s nested Negation nodes, not N: `not not a` is modelled as %s, so the parser accepts text whose meaning it changes (the emitter writes a double negation back as `not not x`, which then parses to something else)", linText(got), example(got))
			}
		}
	}
	if n == 0 {
		r.Note("C07-R11: no oC_NotExpression exit handler whose Negation count could be followed")
	}
}

func isExpressionish(t types.Type, model *types.Named) bool {
	if t == nil {
		return false
	}
	if nt := namedOf(t); nt != nil && nt == model {
		return true
	}
	return false
}

func linText(v linN) string {
	switch {
	case v.a == 0:
		return strconv.FormatInt(v.b, 10)
	case v.a == 1 && v.b < 0:
		return "N" + strconv.FormatInt(v.b, 10)
	case v.a == 1 && v.b > 0:
		return "N+" + strconv.FormatInt(v.b, 10)
	}
	return strconv.FormatInt(v.a, 10) + "·N+" + strconv.FormatInt(v.b, 10)
}

func example(v linN) string {
	k := v.a*2 + v.b
	switch {
	case k <= 0:
		return "`a`"
	case k == 1:
		return "`not a`"
	}
	return itoa(int(k)) + " negations"
}
