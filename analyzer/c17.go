package main

// C17 — parallel traversal and buffered pipe: termination protocol, join/cancel, pipe structure,
// and a shared-type write lint for the trunk chain.

import (
	"fmt"
	"go/ast"
	"go/token"
	"go/types"
	"strings"

	"golang.org/x/tools/go/packages"
)

func init() { register("C17", checkC17) }

func checkC17(r *Run) propMeta {
	meta := propMeta{Level: "other",
		Explanation: "Decides the structural part of the traversal's termination and delivery protocol: (R1) increment-before-submit — every submit of a segment to the pipe is immediately preceded by descentCount.Add(1); the decrement is an unconditional statement of the worker loop after the driver call and before the completion signal; the coordinator leaves its loop only on a closed/cancelled completion channel or a zero count; (R2) every goroutine is counted by the WaitGroup before it starts, signals Done by defer, and is joined on every path to return; the traversal context is cancelled on every return; a failing worker cancels it and records the error, and the function returns the collector's combination; (R3) pipe structure — one FIFO discipline (enqueue/peek/dequeue on consistent deque ends), the send case dequeues exactly once and nothing else dequeues in the main loop, the reader channel is nil exactly when the buffer is empty, the writer receive case is unconditional, both loops honour ctx.Done(), the reader channel is closed by defer; (R4) shared-type lint — a field of a type that travels through the pipe must not be written on the ancestor (trunk) chain without an atomic or a lock while another worker can read it. NOT decided: exactly-once delivery and promptness under all interleavings (schedule-quantified), goroutine leaks inside caller-supplied drivers, the sequential helpers' path sets (value-level).",
		Assumptions: []string{"channels.Submit/Receive return false on context cancellation (checked structurally: both select on ctx.Done())", "sync.WaitGroup / atomic / context semantics"},
		TrustedBase: []string{"go/types", "this analyser"}}
	if err := r.Load("./traversal/...", "./util/channels/...", "./graph/...", "./ops"); err != nil {
		r.Fatal("load: %v", err)
	}
	checkBreadthFirst(r)
	checkPipe(r)
	checkSubmitReceive(r)
	checkTrunkWrites(r)
	checkTerminalAfterFilter(r, r.Pkg("ops"))
	checkTrackerAfterFilter(r, r.Pkg("ops"))
	checkEntityPointerIdentity(r, "C17-R7-entity-identity", r.Pkg("graph"), r.Pkg("ops"), r.Pkg("traversal"))
	r.Floor("C17-R1-termination", 4)
	r.Floor("C17-R2-join-cancel", 5)
	r.Floor("C17-R3-pipe", 9)
	return meta
}

// stmtCalls: does the statement contain a call satisfying pred?
// stmtHasCallShallow: like stmtHasCall but does not look inside function literals.
func stmtHasCallShallow(n ast.Node, pred func(*ast.CallExpr) bool) bool {
	found := false
	ast.Inspect(n, func(x ast.Node) bool {
		if _, ok := x.(*ast.FuncLit); ok {
			return false
		}
		if c, ok := x.(*ast.CallExpr); ok && pred(c) {
			found = true
		}
		return !found
	})
	return found
}

func stmtHasCall(n ast.Node, pred func(*ast.CallExpr) bool) bool {
	found := false
	ast.Inspect(n, func(x ast.Node) bool {
		if c, ok := x.(*ast.CallExpr); ok && pred(c) {
			found = true
		}
		return !found
	})
	return found
}

func checkBreadthFirst(r *Run) {
	p := r.MustPkg("traversal")
	info := p.TypesInfo
	fd := findMethod(p, "Traversal", "BreadthFirst")
	if fd == nil {
		r.Fatal("traversal.Traversal.BreadthFirst not found")
	}
	checkWorkerContext(r, p, fd)
	// roles
	var counter, wg, cancel, writerC, completionC types.Object
	ast.Inspect(fd.Body, func(n ast.Node) bool {
		vs, ok := n.(*ast.ValueSpec)
		if !ok {
			return true
		}
		for i, nm := range vs.Names {
			obj := info.Defs[nm]
			if obj == nil {
				continue
			}
			t := obj.Type()
			if n := namedOf(t); n != nil && n.Obj().Pkg() != nil {
				if n.Obj().Pkg().Path() == "sync/atomic" && strings.HasPrefix(n.Obj().Name(), "Int") {
					counter = obj
				}
				if n.Obj().Pkg().Path() == "sync" && n.Obj().Name() == "WaitGroup" {
					wg = obj
				}
			}
			if len(vs.Values) == 1 {
				if call, ok := vs.Values[0].(*ast.CallExpr); ok {
					if fn := calleeOf(info, call); fn != nil {
						if funcFullName(fn) == "context.WithCancel" && i == 1 {
							cancel = obj
						}
						if fn.Name() == "BufferedPipe" && i == 0 {
							writerC = obj
						}
					}
				}
			}
			if ch, ok := t.Underlying().(*types.Chan); ok && i < len(vs.Values) {
				if st, ok := ch.Elem().Underlying().(*types.Struct); ok && st.NumFields() == 0 {
					completionC = obj
				}
			}
		}
		return true
	})
	if counter == nil || wg == nil || cancel == nil || writerC == nil || completionC == nil {
		r.Undecide("C17: BreadthFirst roles not identified (counter=%v wg=%v cancel=%v writer=%v completion=%v)", counter != nil, wg != nil, cancel != nil, writerC != nil, completionC != nil)
		return
	}
	isIdent := func(e ast.Expr, obj types.Object) bool {
		id, ok := ast.Unparen(e).(*ast.Ident)
		return ok && info.Uses[id] == obj
	}
	isCounterAdd := func(st ast.Stmt, want string) bool {
		es, ok := st.(*ast.ExprStmt)
		if !ok {
			return false
		}
		call, ok := es.X.(*ast.CallExpr)
		if !ok || len(call.Args) != 1 {
			return false
		}
		sel, ok := call.Fun.(*ast.SelectorExpr)
		if !ok || sel.Sel.Name != "Add" || !isIdent(sel.X, counter) {
			return false
		}
		tv, ok := info.Types[call.Args[0]]
		return ok && tv.Value != nil && tv.Value.ExactString() == want
	}
	isSubmitTo := func(c *ast.CallExpr, ch types.Object) bool {
		fn := calleeOf(info, c)
		return fn != nil && fn.Name() == "Submit" && len(c.Args) == 3 && isIdent(c.Args[1], ch)
	}
	isReceiveFrom := func(c *ast.CallExpr, ch types.Object) bool {
		fn := calleeOf(info, c)
		return fn != nil && fn.Name() == "Receive" && len(c.Args) == 2 && isIdent(c.Args[1], ch)
	}
	// ---- R1a increment-before-submit: for every block, each statement containing Submit(writerC) is preceded by Add(1)
	nsub := 0
	var visitBlocks func(n ast.Node)
	visitBlocks = func(n ast.Node) {
		ast.Inspect(n, func(x ast.Node) bool {
			var list []ast.Stmt
			switch b := x.(type) {
			case *ast.BlockStmt:
				list = b.List
			case *ast.CaseClause:
				list = b.Body
			case *ast.CommClause:
				list = b.Body
			default:
				return true
			}
			for i, st := range list {
				// only statements whose *own* top level (not nested blocks) performs the submit
				direct := false
				switch s := st.(type) {
				case *ast.ExprStmt:
					direct = stmtHasCallShallow(s, func(c *ast.CallExpr) bool { return isSubmitTo(c, writerC) })
				case *ast.IfStmt:
					direct = stmtHasCallShallow(s.Cond, func(c *ast.CallExpr) bool { return isSubmitTo(c, writerC) }) ||
						(s.Init != nil && stmtHasCallShallow(s.Init, func(c *ast.CallExpr) bool { return isSubmitTo(c, writerC) }))
				case *ast.AssignStmt:
					direct = stmtHasCallShallow(s, func(c *ast.CallExpr) bool { return isSubmitTo(c, writerC) })
				case *ast.ForStmt:
					// `for inFlight := Submit(root); inFlight; { … }`
					direct = (s.Init != nil && stmtHasCallShallow(s.Init, func(c *ast.CallExpr) bool { return isSubmitTo(c, writerC) })) ||
						(s.Cond != nil && stmtHasCallShallow(s.Cond, func(c *ast.CallExpr) bool { return isSubmitTo(c, writerC) }))
				}
				if !direct {
					continue
				}
				nsub++
				construct := fmt.Sprintf("BreadthFirst:submit#%d", nsub)
				if i > 0 && isCounterAdd(list[i-1], "1") {
					r.Pass("C17-R1-termination", construct, st.Pos(), "descentCount.Add(1) immediately precedes the submit")
				} else {
					r.Fail("C17-R1-termination", construct, st.Pos(), "a segment is submitted to the pipe without descentCount.Add(1) immediately before it: the coordinator can observe a zero count while work is still queued and return early (lost results)")
				}
			}
			return true
		})
	}
	visitBlocks(fd.Body)
	if nsub < 2 {
		r.Undecide("C17-R1: expected the root submit and the worker submit, found %d", nsub)
	}
	// ---- R1b decrement placement in the worker loop
	var workerLoop *ast.ForStmt
	ast.Inspect(fd.Body, func(n ast.Node) bool {
		if fs, ok := n.(*ast.ForStmt); ok && fs.Cond == nil && workerLoop == nil {
			if stmtHasCall(fs.Body, func(c *ast.CallExpr) bool { return isSubmitTo(c, completionC) }) {
				workerLoop = fs
			}
		}
		return true
	})
	if workerLoop == nil {
		r.Undecide("C17-R1: worker loop not found")
	} else {
		idxDriver, idxDec, idxSignal := -1, -1, -1
		// closures of BreadthFirst that the loop calls (`expand := func(…) error { … plan.Driver(…) … }`) are read as
		// part of the statement that calls them
		closures := map[types.Object]*ast.FuncLit{}
		ast.Inspect(fd.Body, func(n ast.Node) bool {
			if as, ok := n.(*ast.AssignStmt); ok && len(as.Lhs) == len(as.Rhs) {
				for i, l := range as.Lhs {
					if id, ok := l.(*ast.Ident); ok {
						if fl, ok := ast.Unparen(as.Rhs[i]).(*ast.FuncLit); ok {
							closures[info.ObjectOf(id)] = fl
						}
					}
				}
			}
			return true
		})
		var callsThrough func(n ast.Node, pred func(c *ast.CallExpr) bool, depth int) bool
		callsThrough = func(n ast.Node, pred func(c *ast.CallExpr) bool, depth int) bool {
			found := false
			ast.Inspect(n, func(m ast.Node) bool {
				c, ok := m.(*ast.CallExpr)
				if !ok || found {
					return !found
				}
				if pred(c) {
					found = true
					return false
				}
				if id, ok := ast.Unparen(c.Fun).(*ast.Ident); ok && depth < 2 {
					if fl := closures[info.Uses[id]]; fl != nil && callsThrough(fl.Body, pred, depth+1) {
						found = true
					}
				}
				return !found
			})
			return found
		}
		for i, st := range workerLoop.Body.List {
			if callsThrough(st, func(c *ast.CallExpr) bool {
				sel, ok := c.Fun.(*ast.SelectorExpr)
				return ok && sel.Sel.Name == "Driver"
			}, 0) && idxDriver < 0 {
				idxDriver = i
			}
			if isCounterAdd(st, "-1") {
				if idxDec >= 0 {
					idxDec = -2 // more than one
				} else {
					idxDec = i
				}
			}
			if stmtHasCall(st, func(c *ast.CallExpr) bool { return isSubmitTo(c, completionC) }) && idxSignal < 0 {
				idxSignal = i
			}
		}
		// decrements nested in conditionals are not unconditional
		nested := 0
		ast.Inspect(workerLoop.Body, func(n ast.Node) bool {
			if es, ok := n.(*ast.ExprStmt); ok && isCounterAdd(es, "-1") {
				nested++
			}
			return true
		})
		if idxDriver >= 0 && idxDec > idxDriver && idxSignal > idxDec && nested == 1 {
			r.Pass("C17-R1-termination", "BreadthFirst:decrement", workerLoop.Body.List[idxDec].Pos(), "exactly one unconditional descentCount.Add(-1) per iteration, after the driver call and before the completion signal")
		} else {
			r.Fail("C17-R1-termination", "BreadthFirst:decrement", workerLoop.Pos(), "the worker loop must decrement the descent count exactly once per iteration, unconditionally, after expanding the segment and before signalling completion (driver stmt %d, decrement stmt %d, signal stmt %d, decrements found %d): otherwise the count never reaches zero (hang) or reaches it early (lost results)", idxDriver, idxDec, idxSignal, nested)
		}
	}
	// ---- R1c coordinator loop exit condition
	var coord *ast.ForStmt
	ast.Inspect(fd.Body, func(n ast.Node) bool {
		if fs, ok := n.(*ast.ForStmt); ok && fs != workerLoop && coord == nil {
			if stmtHasCall(fs.Body, func(c *ast.CallExpr) bool { return isReceiveFrom(c, completionC) }) {
				coord = fs
			}
		}
		return true
	})
	if coord == nil {
		// the wait loop may live in a helper that is handed the completion channel
		pdecls := FuncDecls(p)
		ast.Inspect(fd.Body, func(n ast.Node) bool {
			call, ok := n.(*ast.CallExpr)
			if !ok || coord != nil {
				return true
			}
			callee := calleeOf(info, call)
			if callee == nil || callee.Pkg() != p.Types {
				return true
			}
			hd := pdecls[callee.Name()]
			if hd == nil || hd.Body == nil || hd.Type.Params == nil {
				return true
			}
			var params []types.Object
			for _, pl := range hd.Type.Params.List {
				for _, nm := range pl.Names {
					params = append(params, info.Defs[nm])
				}
			}
			for i, a := range call.Args {
				if isIdent(a, completionC) && i < len(params) {
					ast.Inspect(hd.Body, func(m ast.Node) bool {
						if fs, ok := m.(*ast.ForStmt); ok && coord == nil {
							if stmtHasCall(fs.Body, func(c *ast.CallExpr) bool { return isReceiveFrom(c, params[i]) }) {
								coord = fs
							}
						}
						return true
					})
				}
			}
			return true
		})
	}
	if coord == nil {
		r.Undecide("C17-R1: coordinator loop not found")
	} else {
		// The loop's continue condition, as a function of (received-ok, count == 0), must be `ok && count != 0`. Two
		// spellings: `for { …; if X { break } }` (continue = !X) and `for v := …; v; { …; v = E }` (continue = E).
		var okObj types.Object
		ast.Inspect(coord, func(n ast.Node) bool {
			if as, ok := n.(*ast.AssignStmt); ok && len(as.Lhs) == 2 && len(as.Rhs) == 1 {
				if call, ok := ast.Unparen(as.Rhs[0]).(*ast.CallExpr); ok && strings.HasSuffix(exprString(r.Fset, call.Fun), "Receive") {
					if id, ok := as.Lhs[1].(*ast.Ident); ok {
						okObj = info.Defs[id]
						if okObj == nil {
							okObj = info.Uses[id]
						}
					}
				}
			}
			return true
		})
		var evalCoord func(e ast.Expr, okVal, zeroVal bool) (bool, bool)
		evalCoord = func(e ast.Expr, okVal, zeroVal bool) (bool, bool) {
			switch x := ast.Unparen(e).(type) {
			case *ast.Ident:
				if okObj != nil && info.Uses[x] == okObj {
					return okVal, true
				}
			case *ast.UnaryExpr:
				if x.Op == token.NOT {
					v, known := evalCoord(x.X, okVal, zeroVal)
					return !v, known
				}
			case *ast.BinaryExpr:
				switch x.Op {
				case token.LAND, token.LOR:
					a, ka := evalCoord(x.X, okVal, zeroVal)
					b, kb := evalCoord(x.Y, okVal, zeroVal)
					if x.Op == token.LAND {
						return a && b, ka && kb
					}
					return a || b, ka && kb
				case token.EQL, token.NEQ, token.GTR, token.LEQ:
					for _, pair := range [][2]ast.Expr{{x.X, x.Y}, {x.Y, x.X}} {
						if call, isCall := ast.Unparen(pair[0]).(*ast.CallExpr); isCall {
							if sel, isSel := call.Fun.(*ast.SelectorExpr); isSel && sel.Sel.Name == "Load" {
								if tv, has := info.Types[pair[1]]; has && tv.Value != nil && tv.Value.ExactString() == "0" {
									switch {
									case x.Op == token.EQL:
										return zeroVal, true
									case x.Op == token.NEQ:
										return !zeroVal, true
									case x.Op == token.GTR && pair[0] == x.X: // count > 0 (the count is never negative)
										return !zeroVal, true
									case x.Op == token.LEQ && pair[0] == x.X:
										return zeroVal, true
									}
								}
							}
						}
					}
				}
			}
			return false, false
		}
		var cont ast.Expr
		contNeg := false
		leaves := 0
		ast.Inspect(coord.Body, func(n ast.Node) bool {
			switch n.(type) {
			case *ast.FuncLit:
				return false
			case *ast.BranchStmt, *ast.ReturnStmt:
				leaves++
			}
			return true
		})
		switch {
		case coord.Cond == nil && leaves == 1:
			for _, st := range coord.Body.List {
				if ifs, ok := st.(*ast.IfStmt); ok && ifs.Else == nil && len(ifs.Body.List) == 1 {
					if b, ok := ifs.Body.List[0].(*ast.BranchStmt); ok && b.Tok == token.BREAK && b.Label == nil {
						cont, contNeg = ifs.Cond, true
					}
					if _, ok := ifs.Body.List[0].(*ast.ReturnStmt); ok {
						cont, contNeg = ifs.Cond, true
					}
				}
			}
		case coord.Cond != nil && leaves == 0:
			if id, ok := ast.Unparen(coord.Cond).(*ast.Ident); ok {
				vobj := info.Uses[id]
				nassign := 0
				for _, st := range coord.Body.List {
					if as, ok := st.(*ast.AssignStmt); ok && len(as.Lhs) == 1 && len(as.Rhs) == 1 && as.Tok == token.ASSIGN {
						if lid, ok := as.Lhs[0].(*ast.Ident); ok && info.Uses[lid] == vobj {
							cont = as.Rhs[0]
							nassign++
						}
					}
				}
				if nassign != 1 {
					cont = nil
				}
			}
		}
		okCond := cont != nil
		if cont != nil {
			for _, okVal := range []bool{false, true} {
				for _, zeroVal := range []bool{false, true} {
					v, known := evalCoord(cont, okVal, zeroVal)
					if contNeg {
						v = !v
					}
					if !known || v != (okVal && !zeroVal) {
						okCond = false
					}
				}
			}
		}
		if okCond {
			leaves = 1
		}
		if okCond && leaves == 1 {
			r.Pass("C17-R1-termination", "BreadthFirst:coordinator-exit", coord.Pos(), "the coordinator leaves only when the completion channel is closed/cancelled or the count is zero")
		} else {
			r.Fail("C17-R1-termination", "BreadthFirst:coordinator-exit", coord.Pos(), "the coordinator loop must leave exactly when `!ok || descentCount.Load() == 0` (found matching condition: %v, exits: %d)", okCond, leaves)
		}
	}
	// ---- R2 join and cancel
	var goStmts []*ast.GoStmt
	var stack []ast.Node
	parentList := map[*ast.GoStmt][]ast.Stmt{}
	ast.Inspect(fd.Body, func(n ast.Node) bool {
		if n == nil {
			stack = stack[:len(stack)-1]
			return true
		}
		stack = append(stack, n)
		if g, ok := n.(*ast.GoStmt); ok {
			goStmts = append(goStmts, g)
			for i := len(stack) - 2; i >= 0; i-- {
				if b, ok := stack[i].(*ast.BlockStmt); ok {
					parentList[g] = b.List
					break
				}
			}
		}
		return true
	})
	if len(goStmts) == 0 {
		r.Undecide("C17-R2: no goroutine launch found in BreadthFirst")
	}
	for gi, g := range goStmts {
		construct := fmt.Sprintf("BreadthFirst:go#%d", gi+1)
		list := parentList[g]
		added := false
		for i, st := range list {
			if st == ast.Stmt(g) && i > 0 {
				if es, ok := list[i-1].(*ast.ExprStmt); ok {
					if call, ok := es.X.(*ast.CallExpr); ok {
						if sel, ok := call.Fun.(*ast.SelectorExpr); ok && sel.Sel.Name == "Add" && isIdent(sel.X, wg) {
							added = true
						}
					}
				}
			}
		}
		doneFirst := false
		if fl, ok := g.Call.Fun.(*ast.FuncLit); ok && len(fl.Body.List) > 0 {
			if ds, ok := fl.Body.List[0].(*ast.DeferStmt); ok {
				if sel, ok := ds.Call.Fun.(*ast.SelectorExpr); ok && sel.Sel.Name == "Done" && isIdent(sel.X, wg) {
					doneFirst = true
				}
			}
		}
		if added && doneFirst {
			r.Pass("C17-R2-join-cancel", construct+":counted", g.Pos(), "wg.Add(1) precedes the launch and the body starts with defer wg.Done()")
		} else {
			r.Fail("C17-R2-join-cancel", construct+":counted", g.Pos(), "goroutine is not (wg.Add(1) before launch: %v, defer wg.Done() first: %v): Wait can return before it finishes or never return", added, doneFirst)
		}
		// worker error branch cancels and records: the path condition of the cancel call and of the collector call must hold
		// whenever the worker's function returned an error while the traversal context was still alive — whatever the kind
		// of the error (an error-identity filter on that path leaves the coordinator waiting for a segment that is never
		// marked complete)
		if fl, ok := g.Call.Fun.(*ast.FuncLit); ok {
			var cancelCall, recordCall *ast.CallExpr
			ast.Inspect(fl.Body, func(n ast.Node) bool {
				es, ok := n.(*ast.ExprStmt)
				if !ok {
					return true
				}
				if call, ok := es.X.(*ast.CallExpr); ok {
					if isIdent(call.Fun, cancel) && cancelCall == nil {
						cancelCall = call
					}
					if sel, ok := call.Fun.(*ast.SelectorExpr); ok && sel.Sel.Name == "Add" && !isIdent(sel.X, wg) && !isIdent(sel.X, counter) && recordCall == nil {
						if n := namedOf(info.TypeOf(sel.X)); n != nil && strings.Contains(n.Obj().Name(), "ErrorCollector") {
							recordCall = call
						}
					}
				}
				return true
			})
			if cancelCall == nil || recordCall == nil {
				r.Fail("C17-R2-join-cancel", construct+":error-path", g.Pos(), "a failing worker must cancel the traversal context (%v) and record the error (%v): otherwise the coordinator waits forever or the error is lost", cancelCall != nil, recordCall != nil)
			} else {
				bad := ""
				for _, c := range []struct {
					what string
					call *ast.CallExpr
				}{{"the cancellation of the traversal context", cancelCall}, {"the recording of the error", recordCall}} {
					lits := controlConds(fl.Body, c.call)
					hasErr := false
					for _, l := range lits {
						ast.Inspect(l.Expr, func(n ast.Node) bool {
							if e, ok := n.(ast.Expr); ok {
								if cls, _ := classifyAtom(info, e); cls == atomErrNonNil {
									hasErr = true
								}
							}
							return true
						})
					}
					boolHelpers = packageBoolHelpers(p)
					holds, counter, decided := impliedUnder(r.Fset, info, lits)
					boolHelpers = nil
					if !decided {
						r.Undecide("C17-R2: the path condition of %s in the worker has too many atoms", c.what)
						return
					}
					if !hasErr {
						bad = c.what + " is not on the worker's error path"
					} else if !holds {
						bad = c.what + " is skipped for an error returned while the traversal context is still alive (" + counter + ")"
					}
					if bad != "" {
						break
					}
				}
				if bad == "" {
					r.Pass("C17-R2-join-cancel", construct+":error-path", g.Pos(), "every error a worker returns while the traversal context is alive cancels the traversal and is recorded")
				} else {
					r.Fail("C17-R2-join-cancel", construct+":error-path", g.Pos(), "%s: the segment being expanded is never marked complete, so the coordinator waits forever, or the error is lost", bad)
				}
			}
		}
	}
	// top-level: defer cancel(); after the launch loop: wg.Wait() at top level, no return between first go and Wait; return collector
	top := fd.Body.List
	deferCancel, waitIdx, firstGoIdx, cancelBeforeWait := false, -1, -1, false
	for i, st := range top {
		if ds, ok := st.(*ast.DeferStmt); ok && isIdent(ds.Call.Fun, cancel) {
			deferCancel = true
		}
		if stmtHasCall(st, func(c *ast.CallExpr) bool { return false }) {
		}
		hasGo := false
		ast.Inspect(st, func(n ast.Node) bool {
			if _, ok := n.(*ast.GoStmt); ok {
				hasGo = true
			}
			return true
		})
		if hasGo && firstGoIdx < 0 {
			firstGoIdx = i
		}
		if es, ok := st.(*ast.ExprStmt); ok {
			if call, ok := es.X.(*ast.CallExpr); ok {
				if sel, ok := call.Fun.(*ast.SelectorExpr); ok && sel.Sel.Name == "Wait" && isIdent(sel.X, wg) {
					waitIdx = i
				}
				if isIdent(call.Fun, cancel) && waitIdx < 0 && firstGoIdx >= 0 {
					cancelBeforeWait = true
				}
			}
		}
	}
	if deferCancel {
		r.Pass("C17-R2-join-cancel", "BreadthFirst:defer-cancel", fd.Pos(), "the traversal context is cancelled on every return")
	} else {
		r.Fail("C17-R2-join-cancel", "BreadthFirst:defer-cancel", fd.Pos(), "no `defer cancel()` for the traversal context: an early return leaves the pipe goroutine and idle workers running")
	}
	returnsBetween := false
	if firstGoIdx >= 0 && waitIdx > firstGoIdx {
		for _, st := range top[firstGoIdx+1 : waitIdx] {
			ast.Inspect(st, func(n ast.Node) bool {
				if _, ok := n.(*ast.FuncLit); ok {
					return false
				}
				if _, ok := n.(*ast.ReturnStmt); ok {
					returnsBetween = true
				}
				return true
			})
		}
	}
	if waitIdx > firstGoIdx && firstGoIdx >= 0 && !returnsBetween && cancelBeforeWait {
		r.Pass("C17-R2-join-cancel", "BreadthFirst:join", top[waitIdx].Pos(), "cancel() then wg.Wait() on the only path from the launch loop to return")
	} else {
		r.Fail("C17-R2-join-cancel", "BreadthFirst:join", fd.Pos(), "every path from the first goroutine launch to a return must cancel the context and then pass wg.Wait() (wait stmt %d after launch %d, return in between: %v, cancel before wait: %v): goroutines are left behind", waitIdx, firstGoIdx, returnsBetween, cancelBeforeWait)
	}
	if rs, ok := top[len(top)-1].(*ast.ReturnStmt); ok && len(rs.Results) == 1 && strings.Contains(exprString(r.Fset, rs.Results[0]), "Combined()") && waitIdx >= 0 && waitIdx < len(top)-1 {
		r.Pass("C17-R2-join-cancel", "BreadthFirst:returns-errors", rs.Pos(), "returns the error collector's combination after the join")
	} else {
		r.Fail("C17-R2-join-cancel", "BreadthFirst:returns-errors", fd.Pos(), "BreadthFirst does not return the collected worker errors after joining")
	}
}

func checkPipe(r *Run) {
	p := r.MustPkg("util/channels")
	info := p.TypesInfo
	fd := FuncDecls(p)["BufferedPipe"]
	if fd == nil {
		r.Fatal("channels.BufferedPipe not found")
	}
	// The pipe's code: BufferedPipe itself plus the same-package functions and methods it reaches (the closures of the
	// original may equally be methods of a small state struct); the goroutine body is the launched literal or the body of
	// the launched same-package function.
	pdecls := FuncDecls(p)
	declOf := func(call *ast.CallExpr) *ast.FuncDecl {
		fn := calleeOf(info, call)
		if fn == nil || fn.Pkg() != p.Types {
			return nil
		}
		for _, d := range pdecls {
			if info.Defs[d.Name] == types.Object(fn.Origin()) {
				return d
			}
		}
		return nil
	}
	helperDecls := []*ast.FuncDecl{}
	{
		seen := map[*ast.FuncDecl]bool{fd: true}
		work := []*ast.FuncDecl{fd}
		for len(work) > 0 {
			cur := work[0]
			work = work[1:]
			ast.Inspect(cur.Body, func(n ast.Node) bool {
				if call, ok := n.(*ast.CallExpr); ok {
					if d := declOf(call); d != nil && d.Body != nil && !seen[d] && d.Name.Name != "Submit" && d.Name.Name != "Receive" {
						seen[d] = true
						helperDecls = append(helperDecls, d)
						work = append(work, d)
					}
				}
				return true
			})
		}
	}
	type goBody struct {
		Body *ast.BlockStmt
		Pos  token.Pos
	}
	var goLit *goBody
	ast.Inspect(fd.Body, func(n ast.Node) bool {
		if g, ok := n.(*ast.GoStmt); ok {
			if fl, ok := g.Call.Fun.(*ast.FuncLit); ok {
				goLit = &goBody{fl.Body, fl.Pos()}
			} else if d := declOf(g.Call); d != nil && d.Body != nil {
				goLit = &goBody{d.Body, d.Pos()}
			}
		}
		return true
	})
	if goLit == nil {
		r.Undecide("C17-R3: pipe goroutine not found")
		return
	}
	inspectPipe := func(f func(n ast.Node) bool) {
		ast.Inspect(fd.Body, f)
		for _, d := range helperDecls {
			ast.Inspect(d.Body, f)
		}
	}
	// deque method usage
	use := map[string]int{}
	inspectPipe(func(n ast.Node) bool {
		if call, ok := n.(*ast.CallExpr); ok {
			if sel, ok := call.Fun.(*ast.SelectorExpr); ok {
				if tv, ok := info.Types[sel.X]; ok {
					if nt := namedOf(tv.Type); nt != nil && nt.Obj().Name() == "Deque" {
						use[sel.Sel.Name]++
					}
				}
			}
		}
		return true
	})
	fifoA := use["PushBack"] > 0 && use["Front"] > 0 && use["PopFront"] > 0 && use["PushFront"] == 0 && use["Back"] == 0 && use["PopBack"] == 0
	fifoB := use["PushFront"] > 0 && use["Back"] > 0 && use["PopBack"] > 0 && use["PushBack"] == 0 && use["Front"] == 0 && use["PopFront"] == 0
	if fifoA || fifoB {
		r.Pass("C17-R3-pipe", "BufferedPipe:fifo-ends", fd.Pos(), "enqueue, peek and dequeue use consistent deque ends (%v)", use)
	} else {
		r.Fail("C17-R3-pipe", "BufferedPipe:fifo-ends", fd.Pos(), "deque ends are mixed (%v): values are peeked/sent from one end and removed from another, so a value is delivered twice and another lost, or order is reversed", use)
	}
	// defer close(readerC) first
	closed := false
	if len(goLit.Body.List) > 0 {
		if ds, ok := goLit.Body.List[0].(*ast.DeferStmt); ok {
			if id, ok := ds.Call.Fun.(*ast.Ident); ok && id.Name == "close" {
				closed = true
			}
		}
	}
	if closed {
		r.Pass("C17-R3-pipe", "BufferedPipe:close-reader", goLit.Pos, "defer close(readerC) is the goroutine's first statement")
	} else {
		r.Fail("C17-R3-pipe", "BufferedPipe:close-reader", goLit.Pos, "the reader channel is not closed by defer on every exit of the pipe goroutine: readers block forever")
	}
	// select statements
	var selects []*ast.SelectStmt
	ast.Inspect(goLit.Body, func(n ast.Node) bool {
		if s, ok := n.(*ast.SelectStmt); ok {
			selects = append(selects, s)
			return false // selects nested inside a case body are judged by the send-source rule below
		}
		return true
	})
	// send-source: every value sent to the reader is the buffer's head (peeked), unless the send is guarded by an
	// emptiness test of the buffer; a value that bypasses a non-empty buffer overtakes the buffered ones.
	{
		peekFuncs := map[types.Object]bool{} // local closures or helper methods that return the peeked head (getNext)
		callsPeek := func(body ast.Node) bool {
			peeks := false
			ast.Inspect(body, func(m ast.Node) bool {
				if call, ok := m.(*ast.CallExpr); ok {
					if sel, ok := call.Fun.(*ast.SelectorExpr); ok && (sel.Sel.Name == "Front" || sel.Sel.Name == "Back") {
						peeks = true
					}
				}
				return true
			})
			return peeks
		}
		for _, d := range helperDecls {
			if d.Body != goLit.Body && d.Type.Results != nil && len(d.Type.Results.List) == 1 && callsPeek(d.Body) {
				peekFuncs[info.Defs[d.Name]] = true
			}
		}
		ast.Inspect(fd.Body, func(n ast.Node) bool {
			spec, ok := n.(*ast.ValueSpec)
			if !ok {
				return true
			}
			for i, name := range spec.Names {
				if i < len(spec.Values) {
					if fl, ok := spec.Values[i].(*ast.FuncLit); ok {
						peeks := false
						ast.Inspect(fl.Body, func(m ast.Node) bool {
							if call, ok := m.(*ast.CallExpr); ok {
								if sel, ok := call.Fun.(*ast.SelectorExpr); ok && (sel.Sel.Name == "Front" || sel.Sel.Name == "Back") {
									peeks = true
								}
							}
							return true
						})
						if peeks {
							peekFuncs[info.Defs[name]] = true
						}
					}
				}
			}
			return true
		})
		isPeek := func(e ast.Expr) bool {
			call, ok := ast.Unparen(e).(*ast.CallExpr)
			if !ok {
				return false
			}
			switch f := call.Fun.(type) {
			case *ast.SelectorExpr:
				if tv, ok := info.Types[f.X]; ok {
					if nt := namedOf(tv.Type); nt != nil && nt.Obj().Name() == "Deque" && (f.Sel.Name == "Front" || f.Sel.Name == "Back") {
						return true
					}
				}
				if fn := calleeOf(info, call); fn != nil && peekFuncs[fn.Origin()] {
					return true
				}
			case *ast.Ident:
				return peekFuncs[info.Uses[f]]
			}
			return false
		}
		var stack []ast.Node
		sends := 0
		ast.Inspect(goLit.Body, func(n ast.Node) bool {
			if n == nil {
				stack = stack[:len(stack)-1]
				return true
			}
			stack = append(stack, n)
			send, ok := n.(*ast.SendStmt)
			if !ok {
				return true
			}
			sends++
			construct := "BufferedPipe:send-source:" + exprString(r.Fset, send.Value)
			if isPeek(send.Value) {
				r.Pass("C17-R3-pipe", construct, send.Pos(), "the value sent to the reader is the buffer's head")
				return true
			}
			guarded := false
			for _, anc := range stack {
				if ifs, ok := anc.(*ast.IfStmt); ok && send.Pos() >= ifs.Body.Pos() && send.End() <= ifs.Body.End() {
					c := exprString(r.Fset, ifs.Cond)
					if strings.Contains(c, ".Len() == 0") || strings.Contains(c, ".Len() < 1") {
						guarded = true
					}
				}
			}
			if guarded {
				r.Pass("C17-R3-pipe", construct, send.Pos(), "direct hand-off guarded by an empty-buffer test")
			} else {
				r.Fail("C17-R3-pipe", construct, send.Pos(), "a value other than the buffer's head is sent to the reader without a test that the buffer is empty: it overtakes every buffered value, so submission order is lost")
			}
			return true
		})
		if sends == 0 {
			r.Undecide("C17-R3: no send to the reader channel found in the pipe goroutine")
		}
	}
	if len(selects) != 2 {
		r.Undecide("C17-R3: expected the main and the flush select, found %d", len(selects))
		return
	}
	isPop := func(n ast.Node) int {
		c := 0
		ast.Inspect(n, func(x ast.Node) bool {
			if call, ok := x.(*ast.CallExpr); ok {
				if sel, ok := call.Fun.(*ast.SelectorExpr); ok && (sel.Sel.Name == "PopFront" || sel.Sel.Name == "PopBack") {
					c++
				}
			}
			return true
		})
		return c
	}
	for si, s := range selects {
		name := []string{"main", "flush"}[si]
		hasDone, sendPops, otherPops, recvUncond := false, -1, 0, false
		for _, c := range s.Body.List {
			cc := c.(*ast.CommClause)
			switch comm := cc.Comm.(type) {
			case *ast.ExprStmt:
				// <-ctx.Done()
				if u, ok := comm.X.(*ast.UnaryExpr); ok && u.Op == token.ARROW && strings.Contains(exprString(r.Fset, u.X), "Done()") {
					rets := false
					for _, st := range cc.Body {
						if _, ok := st.(*ast.ReturnStmt); ok {
							rets = true
						}
					}
					hasDone = rets
				}
				otherPops += isPop(&ast.BlockStmt{List: cc.Body})
			case *ast.SendStmt:
				sendPops = isPop(&ast.BlockStmt{List: cc.Body})
			case *ast.AssignStmt:
				// next, ok := <-writerC
				if len(comm.Rhs) == 1 {
					if u, ok := comm.Rhs[0].(*ast.UnaryExpr); ok && u.Op == token.ARROW {
						switch ast.Unparen(u.X).(type) {
						case *ast.Ident, *ast.SelectorExpr: // a channel variable or field, not a computed (possibly nil) channel
							recvUncond = true
						}
					}
				}
				otherPops += isPop(&ast.BlockStmt{List: cc.Body})
			}
		}
		construct := "BufferedPipe:" + name
		if hasDone {
			r.Pass("C17-R3-pipe", construct+":ctx-done", s.Pos(), "the loop returns when the context is done")
		} else {
			r.Fail("C17-R3-pipe", construct+":ctx-done", s.Pos(), "the %s loop has no `case <-ctx.Done(): return`: the pipe goroutine outlives a cancelled traversal", name)
		}
		if sendPops == 1 && otherPops == 0 {
			r.Pass("C17-R3-pipe", construct+":pop-after-send", s.Pos(), "exactly one dequeue, in the body of the send case")
		} else {
			r.Fail("C17-R3-pipe", construct+":pop-after-send", s.Pos(), "the send case must dequeue exactly once and nothing else may dequeue (send-case pops %d, other pops %d): values are duplicated or lost", sendPops, otherPops)
		}
		if name == "main" {
			if recvUncond {
				r.Pass("C17-R3-pipe", construct+":writer-never-blocked", s.Pos(), "the receive from the writer channel is an unconditional select case")
			} else {
				r.Fail("C17-R3-pipe", construct+":writer-never-blocked", s.Pos(), "the writer receive is not an unconditional select case: a slow reader blocks writers")
			}
		}
	}
	// nil-channel trick: getReaderC returns readerC iff buffer non-empty
	trick := false
	chanSelector := func(ft *ast.FuncType, body *ast.BlockStmt) {
		if ft.Results == nil || len(ft.Results.List) != 1 || body == nil {
			return
		}
		if _, isChan := ft.Results.List[0].Type.(*ast.ChanType); !isChan {
			return
		}
		if len(body.List) == 2 {
			if ifs, ok := body.List[0].(*ast.IfStmt); ok {
				c := strings.ReplaceAll(exprString(r.Fset, ifs.Cond), " ", "")
				if strings.HasSuffix(c, ".Len()>0") || strings.HasSuffix(c, ".Len()!=0") {
					if rs, ok := body.List[1].(*ast.ReturnStmt); ok && len(rs.Results) == 1 && isNilIdent(info, rs.Results[0]) {
						trick = true
					}
				}
			}
		}
	}
	for _, d := range helperDecls {
		chanSelector(d.Type, d.Body)
	}
	ast.Inspect(fd.Body, func(n ast.Node) bool {
		if fl, ok := n.(*ast.FuncLit); ok {
			chanSelector(fl.Type, fl.Body)
		}
		return true
	})
	if trick {
		r.Pass("C17-R3-pipe", "BufferedPipe:nil-channel", fd.Pos(), "the send case is disabled (nil channel) exactly when the buffer is empty")
	} else {
		r.Fail("C17-R3-pipe", "BufferedPipe:nil-channel", fd.Pos(), "the reader channel is not nil exactly when the buffer is empty: a zero value is sent (phantom delivery) or buffered values are never sent")
	}
}

// checkSubmitReceive: both helpers select on ctx.Done() and report it with false.
func checkSubmitReceive(r *Run) {
	p := r.MustPkg("util/channels")
	for _, name := range []string{"Submit", "Receive"} {
		fd := FuncDecls(p)[name]
		if fd == nil {
			r.Undecide("C17: channels.%s not found", name)
			continue
		}
		done := false
		ast.Inspect(fd.Body, func(n ast.Node) bool {
			if cc, ok := n.(*ast.CommClause); ok {
				if es, ok := cc.Comm.(*ast.ExprStmt); ok && strings.Contains(exprString(r.Fset, es.X), "Done()") {
					done = true
				}
			}
			return true
		})
		if done {
			r.Pass("C17-R3-pipe", "channels."+name+":ctx-done", fd.Pos(), "selects on ctx.Done()")
		} else {
			r.Fail("C17-R3-pipe", "channels."+name+":ctx-done", fd.Pos(), "channels.%s does not select on ctx.Done(): a cancelled traversal blocks forever", name)
		}
	}
}

// checkTrunkWrites: R4 — writes to a field of an ancestor reached through a self-typed pointer field, in a type that
// travels through the traversal pipe, without atomic or lock.
func checkTrunkWrites(r *Run) {
	gp := r.MustPkg("graph")
	tbl := r.LoadTable("c17_shared_writes")
	tn, ok := gp.Types.Scope().Lookup("PathSegment").(*types.TypeName)
	if !ok {
		r.Undecide("C17-R4: graph.PathSegment not found")
		return
	}
	named := tn.Type().(*types.Named)
	st := named.Underlying().(*types.Struct)
	// self-typed pointer fields (the trunk link)
	links := map[*types.Var]bool{}
	for i := 0; i < st.NumFields(); i++ {
		if pt, ok := st.Field(i).Type().(*types.Pointer); ok && namedOf(pt.Elem()) == named {
			links[st.Field(i)] = true
		}
	}
	hasSync := false
	for i := 0; i < st.NumFields(); i++ {
		if is, _ := isMutexType(st.Field(i).Type()); is {
			hasSync = true
		}
	}
	checkFile := func(p *packages.Package) {
		info := p.TypesInfo
		for _, f := range p.Syntax {
			for _, d := range f.Decls {
				fd, ok := d.(*ast.FuncDecl)
				if !ok || fd.Body == nil {
					continue
				}
				recv := recvObj(p, fd)
				// cursor variables: assigned from recv or from <x>.<link>
				cursors := map[types.Object]bool{}
				ast.Inspect(fd.Body, func(n ast.Node) bool {
					as, ok := n.(*ast.AssignStmt)
					if !ok || len(as.Lhs) != len(as.Rhs) {
						return true
					}
					for i, rhs := range as.Rhs {
						if sel, ok := ast.Unparen(rhs).(*ast.SelectorExpr); ok {
							if s := info.Selections[sel]; s != nil {
								if v, ok := s.Obj().(*types.Var); ok && links[v] {
									if id, ok := as.Lhs[i].(*ast.Ident); ok {
										obj := info.Defs[id]
										if obj == nil {
											obj = info.Uses[id]
										}
										if obj != nil {
											cursors[obj] = true
										}
									}
								}
							}
						}
					}
					return true
				})
				ast.Inspect(fd.Body, func(n ast.Node) bool {
					var lhs []ast.Expr
					how := ""
					switch x := n.(type) {
					case *ast.AssignStmt:
						lhs = x.Lhs
						how = x.Tok.String()
					case *ast.IncDecStmt:
						lhs = []ast.Expr{x.X}
						how = x.Tok.String()
					default:
						return true
					}
					for _, l := range lhs {
						sel, ok := ast.Unparen(l).(*ast.SelectorExpr)
						if !ok {
							continue
						}
						s := info.Selections[sel]
						if s == nil || s.Kind() != types.FieldVal {
							continue
						}
						fv, _ := s.Obj().(*types.Var)
						if fv == nil || namedOf(s.Recv()) != named || links[fv] {
							continue
						}
						// base: a cursor that walks the link chain, or <x>.<link> directly
						viaAncestor := false
						switch b := ast.Unparen(sel.X).(type) {
						case *ast.Ident:
							if cursors[info.Uses[b]] {
								viaAncestor = true
							}
						case *ast.SelectorExpr:
							if bs := info.Selections[b]; bs != nil {
								if v, ok := bs.Obj().(*types.Var); ok && links[v] {
									viaAncestor = true
								}
							}
						}
						_ = recv
						if !viaAncestor {
							continue
						}
						// keyed by what is done to the ancestors' field, not by the private function that does it
						construct := "PathSegment." + fv.Name() + "@trunk" + how
						if isAtomicType(fv.Type()) || hasSync {
							r.Pass("C17-R4-shared-write", construct, l.Pos(), "ancestor field is atomic or the type carries a lock")
						} else if reason, ok := r.InTable(tbl, "c17_shared_writes", construct); ok {
							r.Pass("C17-R4-shared-write", construct, l.Pos(), "table: %s", reason)
						} else {
							r.Fail("C17-R4-shared-write", construct, l.Pos(), "%s writes field %s of ancestor segments along the trunk chain with a plain store; ancestors are shared by every worker expanding a descendant and the field is read concurrently (Tree.SizeOf for the memory limit): data race", funcDeclName(fd), fv.Name())
						}
					}
					return true
				})
			}
		}
	}
	checkFile(gp)
}

// checkWorkerContext (R2, cancellation clause): a failing worker cancels the traversal context so that its siblings
// stop.  That only works if everything a worker blocks in — the caller-supplied driver and the channel helpers — is
// given that derived context, not the caller's own: a driver that honours its context keeps running on the parent
// context after a sibling failed, and BreadthFirst hangs in Wait instead of returning the first error.
func checkWorkerContext(r *Run, p *packages.Package, fd *ast.FuncDecl) {
	info := p.TypesInfo
	var derived types.Object
	ast.Inspect(fd.Body, func(n ast.Node) bool {
		spec, ok := n.(*ast.ValueSpec)
		if ok && len(spec.Values) == 1 && len(spec.Names) == 2 {
			if call, ok := spec.Values[0].(*ast.CallExpr); ok {
				if fn := calleeOf(info, call); fn != nil && funcFullName(fn) == "context.WithCancel" {
					derived = info.Defs[spec.Names[0]]
				}
			}
		}
		if as, ok := n.(*ast.AssignStmt); ok && len(as.Rhs) == 1 && len(as.Lhs) == 2 {
			if call, ok := as.Rhs[0].(*ast.CallExpr); ok {
				if fn := calleeOf(info, call); fn != nil && funcFullName(fn) == "context.WithCancel" {
					if id, ok := as.Lhs[0].(*ast.Ident); ok {
						derived = info.Defs[id]
					}
				}
			}
		}
		return true
	})
	if derived == nil {
		r.Undecide("C17-R2: BreadthFirst derives no cancelable context (context.WithCancel)")
		return
	}
	n := 0
	ast.Inspect(fd.Body, func(x ast.Node) bool {
		call, ok := x.(*ast.CallExpr)
		if !ok || len(call.Args) == 0 {
			return true
		}
		// first argument is a context.Context
		if t := info.TypeOf(call.Args[0]); t == nil || namedName(t) != "Context" {
			return true
		}
		what := ""
		if sel, ok := ast.Unparen(call.Fun).(*ast.SelectorExpr); ok {
			if s := info.Selections[sel]; s != nil && s.Kind() == types.FieldVal {
				if _, isFunc := s.Obj().Type().Underlying().(*types.Signature); isFunc {
					what = "the plan's " + sel.Sel.Name
				}
			}
		}
		if fn := calleeOf(info, call); fn != nil && fn.Pkg() != nil && strings.HasSuffix(fn.Pkg().Path(), "/util/channels") {
			what = "channels." + fn.Name()
		}
		if what == "" {
			return true
		}
		n++
		construct := "BreadthFirst:" + what + "#" + itoa(n)
		if id, ok := ast.Unparen(call.Args[0]).(*ast.Ident); ok && info.Uses[id] == derived {
			r.Pass("C17-R2-join-cancel", construct, call.Pos(), "runs on the cancelable traversal context")
		} else {
			r.Fail("C17-R2-join-cancel", construct, call.Pos(), "%s is called with %s instead of the traversal context that a failing worker cancels: after a sibling's failure this call keeps running (or blocking) on the caller's context, and BreadthFirst waits for it instead of returning the error promptly", what, exprString(r.Fset, call.Args[0]))
		}
		return true
	})
	if n < 4 {
		r.Undecide("C17-R2: expected the driver call and the channel helpers in BreadthFirst, found %d context-taking calls", n)
	}
}
