package main

// C08-R8 — visitor state is initialised before it is dereferenced, on every walk.
//
// An ANTLR walk never stops early: after a rule was reported as unsupported its subtree is still walked and the
// handlers of the visitor on top of the stack still run.  A handler that dereferences a pointer (or writes into a
// map) held in a visitor field is safe only if, on every path of grammar rules from the point where that visitor
// instance became active, a handler that assigns the field has run first — or the field is set wherever the visitor
// is constructed.  The rule walks the same (visitor, rule) graph as the activity analysis, but THROUGH rejected and
// dropped rules, and looks for a path from an activation of the visitor to the dereferencing handler that avoids
// every initialising handler.

import (
	"go/ast"
	"go/token"
	"go/types"
	"sort"
	"strings"
)

type walkEdge struct {
	to     string
	push   bool
	before map[string]bool // rules that are earlier siblings of the child in this derivation (their handlers have run)
}

func (vm *VisitorModel) walkGraph(r *Run, g *Grammar) (edges map[string][]walkEdge, activations map[string][]walkEdge) {
	edges = map[string][]walkEdge{}
	activations = map[string][]walkEdge{} // visitor type -> nodes where a fresh instance is on top (with the siblings already walked)
	root := vm.rootVisitor(r)
	type item struct{ V, R string }
	queue := []item{{root, "oC_Cypher"}}
	activations[root] = append(activations[root], walkEdge{to: root + "×oC_Cypher"})
	seen := map[string]bool{}
	for len(queue) > 0 {
		it := queue[0]
		queue = queue[1:]
		key := it.V + "×" + it.R
		if seen[key] {
			continue
		}
		seen[key] = true
		vt := vm.Types[it.V]
		var enter *handlerInfo
		if vt != nil {
			enter = vt.Enter[it.R]
		}
		added := map[string]bool{}
		for _, d := range g.Derivations(it.R) {
			tops, _, _ := pushOutcome(enter, d)
			var earlier []string
			for _, s := range d {
				if !strings.HasPrefix(s, "R:") {
					continue
				}
				for _, t := range tops {
					v, push := it.V, false
					if t != "" {
						v, push = t, true
					}
					ck := v + "×" + s[2:]
					ek := ck + map[bool]string{true: "!", false: ""}[push] + "<" + strings.Join(earlier, ",")
					if !added[ek] {
						added[ek] = true
						before := map[string]bool{}
						for _, e := range earlier {
							before[e] = true
						}
						edges[key] = append(edges[key], walkEdge{ck, push, before})
						if push {
							activations[v] = append(activations[v], walkEdge{ck, true, before})
						}
					}
					queue = append(queue, item{v, s[2:]})
				}
				earlier = append(earlier, s[2:])
			}
		}
	}
	return
}

func checkVisitorFieldInit(r *Run, vm *VisitorModel, g *Grammar) {
	const rule = "C08-R8-field-initialised"
	info := vm.pkg.TypesInfo
	edges, activations := vm.walkGraph(r, g)
	tbl := r.LoadTable("c08_field_init")
	// fields set wherever the visitor is constructed (composite literals of the type anywhere in the package)
	constructed := map[*types.Var]int{}
	literals := map[*types.Named]int{}
	for _, f := range vm.pkg.Syntax {
		ast.Inspect(f, func(n ast.Node) bool {
			cl, ok := n.(*ast.CompositeLit)
			if !ok {
				return true
			}
			nt := namedOf(info.TypeOf(cl))
			if nt == nil {
				return true
			}
			literals[nt]++
			for _, el := range cl.Elts {
				if kv, ok := el.(*ast.KeyValueExpr); ok {
					if k, ok := kv.Key.(*ast.Ident); ok {
						if fv, ok := info.Uses[k].(*types.Var); ok && fv.IsField() {
							if id, isID := ast.Unparen(kv.Value).(*ast.Ident); !isID || id.Name != "nil" {
								constructed[fv]++
							}
						}
					}
				}
			}
			return true
		})
	}
	vnames := sortedKeys(vm.Types)
	checked := 0
	for _, vn := range vnames {
		vt := vm.Types[vn]
		st, ok := vt.Named.Underlying().(*types.Struct)
		if !ok {
			continue
		}
		// candidate fields: pointer- or map-typed, not set at every construction site
		cands := map[*types.Var]bool{}
		for i := 0; i < st.NumFields(); i++ {
			fld := st.Field(i)
			if fld.Embedded() || fld.Name() == "ctx" {
				continue
			}
			switch fld.Type().Underlying().(type) {
			case *types.Pointer, *types.Map:
				if constructed[fld] < literals[vt.Named] || literals[vt.Named] == 0 {
					cands[fld] = true
				}
			}
		}
		if len(cands) == 0 {
			continue
		}
		// per handler: fields assigned at top level (Enter/Exit), fields dereferenced
		type use struct {
			rule string
			exit bool
			pos  token.Pos
		}
		initEnter := map[*types.Var]map[string]bool{}
		initExit := map[*types.Var]map[string]bool{}
		derefs := map[*types.Var][]use{}
		scan := func(ruleName string, h *handlerInfo, isExit bool) {
			if h == nil || h.Decl.Body == nil || h.Decl.Recv == nil || len(h.Decl.Recv.List[0].Names) == 0 {
				return
			}
			recv := info.Defs[h.Decl.Recv.List[0].Names[0]]
			fieldOf := func(e ast.Expr) *types.Var {
				sel, ok := ast.Unparen(e).(*ast.SelectorExpr)
				if !ok {
					return nil
				}
				id, ok := ast.Unparen(sel.X).(*ast.Ident)
				if !ok || info.Uses[id] != recv {
					return nil
				}
				if s := info.Selections[sel]; s != nil && s.Kind() == types.FieldVal {
					if fv, ok := s.Obj().(*types.Var); ok && cands[fv] {
						return fv
					}
				}
				return nil
			}
			assignedHere := map[*types.Var]token.Pos{}
			// fields assigned on every path through a statement list
			var mustAssign func(list []ast.Stmt) map[*types.Var]token.Pos
			mustAssign = func(list []ast.Stmt) map[*types.Var]token.Pos {
				out := map[*types.Var]token.Pos{}
				for _, st := range list {
					switch x := st.(type) {
					case *ast.AssignStmt:
						for _, l := range x.Lhs {
							if fv := fieldOf(l); fv != nil {
								if _, seen := out[fv]; !seen {
									out[fv] = x.Pos()
								}
							}
						}
					case *ast.IfStmt:
						var arms []map[*types.Var]token.Pos
						complete := false
						cur := x
						for cur != nil {
							arms = append(arms, mustAssign(cur.Body.List))
							switch e := cur.Else.(type) {
							case *ast.IfStmt:
								cur = e
							case *ast.BlockStmt:
								arms = append(arms, mustAssign(e.List))
								complete = true
								cur = nil
							default:
								cur = nil
							}
						}
						if !complete && len(arms) == 1 {
							// lazy initialisation: `if s.F == nil { s.F = … }` leaves F non-nil afterwards
							if be, ok := ast.Unparen(x.Cond).(*ast.BinaryExpr); ok && be.Op == token.EQL {
								for _, pr := range [][2]ast.Expr{{be.X, be.Y}, {be.Y, be.X}} {
									if id, ok := ast.Unparen(pr[1]).(*ast.Ident); ok && id.Name == "nil" {
										if fv := fieldOf(pr[0]); fv != nil {
											if p, assigned := arms[0][fv]; assigned {
												if _, seen := out[fv]; !seen {
													out[fv] = p
												}
											}
										}
									}
								}
							}
						}
						if complete {
							for fv, p := range arms[0] {
								all := true
								for _, a := range arms[1:] {
									if _, ok := a[fv]; !ok {
										all = false
									}
								}
								if all {
									if _, seen := out[fv]; !seen {
										out[fv] = p
									}
								}
							}
						}
					}
				}
				return out
			}
			for fv, p := range mustAssign(h.Decl.Body.List) {
				assignedHere[fv] = p
				m := initEnter
				if isExit {
					m = initExit
				}
				if m[fv] == nil {
					m[fv] = map[string]bool{}
				}
				m[fv][ruleName] = true
			}
			ast.Inspect(h.Decl.Body, func(n ast.Node) bool {
				var base ast.Expr
				switch x := n.(type) {
				case *ast.SelectorExpr:
					base = x.X // s.F.G or s.F.M()
				case *ast.IndexExpr:
					// writing into a nil map panics; reading does not
					base = nil
				case *ast.AssignStmt:
					for _, l := range x.Lhs {
						if ix, ok := ast.Unparen(l).(*ast.IndexExpr); ok {
							if fv := fieldOf(ix.X); fv != nil {
								if _, isMap := fv.Type().Underlying().(*types.Map); isMap {
									if p, ok := assignedHere[fv]; !ok || p > x.Pos() {
										derefs[fv] = append(derefs[fv], use{ruleName, isExit, x.Pos()})
									}
								}
							}
						}
					}
					return true
				case *ast.StarExpr:
					base = x.X
				}
				if base == nil {
					return true
				}
				if fv := fieldOf(base); fv != nil {
					if _, isPtr := fv.Type().Underlying().(*types.Pointer); isPtr {
						if p, ok := assignedHere[fv]; !ok || p > n.Pos() {
							derefs[fv] = append(derefs[fv], use{ruleName, isExit, n.Pos()})
						}
					}
				}
				return true
			})
		}
		for rn, h := range vt.Enter {
			scan(rn, h, false)
		}
		for rn, h := range vt.Exit {
			scan(rn, h, true)
		}
		var flds []*types.Var
		for fv := range derefs {
			flds = append(flds, fv)
		}
		sort.Slice(flds, func(i, j int) bool { return flds[i].Name() < flds[j].Name() })
		for _, fv := range flds {
			byRule := map[string]use{}
			for _, u := range derefs[fv] {
				k := u.rule + map[bool]string{true: ":Exit", false: ":Enter"}[u.exit]
				if _, seen := byRule[k]; !seen {
					byRule[k] = u
				}
			}
			for _, k := range sortedKeys(byRule) {
				u := byRule[k]
				checked++
				construct := vn + "." + fv.Name() + "@" + k
				// a path from an activation of vn to (vn, u.rule), along stay edges, avoiding Enter-initialisers
				target := vn + "×" + u.rule
				prev := map[string]string{}
				var queue []string
				for _, a := range activations[vn] {
					protected := false
					for sib := range a.before {
						if initEnter[fv][sib] || initExit[fv][sib] {
							protected = true
						}
					}
					if protected {
						continue
					}
					if _, ok := prev[a.to]; !ok {
						prev[a.to] = ""
						queue = append(queue, a.to)
					}
				}
				found := ""
				for len(queue) > 0 && found == "" {
					n := queue[0]
					queue = queue[1:]
					rn := n[strings.Index(n, "×")+len("×"):]
					if n == target {
						// reaching the target's own Enter-initialiser first is fine for its Exit and later Enter statements
						if initEnter[fv][rn] {
							continue
						}
						found = n
						break
					}
					if initEnter[fv][rn] {
						continue
					}
					for _, e := range edges[n] {
						if e.push {
							continue
						}
						// an earlier sibling whose Enter or Exit handler assigns the field protects this child
						protected := false
						for sib := range e.before {
							if initEnter[fv][sib] || initExit[fv][sib] {
								protected = true
							}
						}
						if protected {
							continue
						}
						if _, ok := prev[e.to]; !ok {
							prev[e.to] = n
							queue = append(queue, e.to)
						}
					}
				}
				if found == "" {
					r.Pass(rule, construct, u.pos, "every walk that reaches this handler with a %s on top has passed a handler that assigns %s", vn, fv.Name())
					continue
				}
				var path []string
				for n := found; n != ""; n = prev[n] {
					path = append([]string{n[strings.Index(n, "×")+len("×"):]}, path...)
				}
				if reason, ok := r.InTable(tbl, "c08_field_init", construct); ok {
					r.Pass(rule, construct, u.pos, "table: %s", reason)
					continue
				}
				inits := append(sortedKeys(initEnter[fv]), sortedKeys(initExit[fv])...)
				r.Fail(rule, construct, u.pos, "%s dereferences %s.%s, which only %v assign, but the walk can reach it through %s without passing any of them (the walk continues below rules that were reported as unsupported): nil pointer dereference, the parser panics instead of returning an error", k, vn, fv.Name(), inits, strings.Join(path, " > "))
			}
		}
	}
	if checked == 0 {
		r.Undecide("C08-R8: no visitor handler dereferences handler-initialised state (QueryVisitor.Query confirmed by reading)")
	}
}
