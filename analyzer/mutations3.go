package main

// Self-test mutations for the rules added after the second seeding round (seeded/r2-*), and reverts of the repairs that
// round led to: each must make the named rule fire.

func init() {
	add := func(prop string, ms ...Mutation) { mutations[prop] = append(mutations[prop], ms...) }
	add("C01",
		Mutation{Name: "aggregate-lowering-accepts-cycle", File: "cypher/models/pgsql/optimize/lowering_plan.go",
			Old: "\tif !ok || terminalSymbol == sourceSymbol {", New: "\tif !ok {", Expect: "C01-R5-recogniser-symbols"},
	)
	add("C02",
		Mutation{Name: "reversal-forgets-earlier-pattern-parts", File: "cypher/models/pgsql/optimize/direction.go",
			Old: "\t\t\t\t\tdeclarePatternSymbols(declaredSymbols, patternPart)\n", New: "", Expect: "C02-R5-reversal-bindings|reverseInboundTraversalReadingClauses"},
	)
	add("C04",
		Mutation{Name: "compound-identifier-written-raw", File: "cypher/models/pgsql/format/format.go",
			Old: "\t\t\tfor idx := len(typedNextExpr) - 1; idx >= 0; idx-- {\n\t\t\t\texprStack = append(exprStack, typedNextExpr[idx])\n\n\t\t\t\tif idx > 0 {\n\t\t\t\t\texprStack = append(exprStack, pgsql.FormattingLiteral(\".\"))\n\t\t\t\t}\n\t\t\t}\n",
			New: "\t\t\tbuilder.Write(typedNextExpr.String())\n", Expect: "C04-R1-raw-write|formatNode"},
		Mutation{Name: "comment-echo-skips-replacer", File: "cypher/models/pgsql/translate/format.go",
			Old: "\tif _, err := newlineToCommentReplacer.WriteString(output, raw); err != nil {",
			New: "\tif strings.IndexByte(raw, '\\n') == -1 {\n\t\toutput.WriteString(raw)\n\t} else if _, err := newlineToCommentReplacer.WriteString(output, raw); err != nil {", Expect: "C04-R5-comment-echo"},
	)
	add("C05",
		Mutation{Name: "sentinel-index-unchecked", File: "cypher/models/pgsql/optimize/reordering.go",
			Old: "\t\tif nextIndex < 0 {\n\t\t\treordered = append(reordered, remaining...)\n\t\t\tbreak\n\t\t}\n", New: "", Expect: "C05-R5-sentinel-index"},
	)
	add("C06",
		Mutation{Name: "alias-collision-guard-removed", File: "cypher/models/pgsql/translate/aggregate_traversal_count.go",
			Old: "\tif pgsql.Identifier(shape.CountAlias) == aggregateRootID {\n\t\treturn false, nil\n\t}\n", New: "", Expect: "C06-R6-alias-collision"},
	)
	add("C07",
		Mutation{Name: "exact-hops-lost", File: "cypher/frontend/pattern.go",
			Old: "\t\texactHops := *patternRange.StartIndex\n\t\tpatternRange.EndIndex = &exactHops\n", New: "\t\t_ = patternRange\n", Expect: "exact-hops"},
		Mutation{Name: "comments-taken-for-operators", File: "cypher/frontend/expression.go",
			Old: "\t\t\tif terminalNode.GetSymbol().GetTokenType() == parser.CypherLexerSP {\n\t\t\t\tcontinue\n\t\t\t}\n\n", New: "", Expect: "C07-R5-terminal-by-type|newTokenLiteralIterator"},
	)
	add("C08",
		Mutation{Name: "root-visitor-without-query", File: "cypher/frontend/parse.go",
			Old: "queryVisitor = &QueryVisitor{Query: cypher.NewRegularQuery()}", New: "queryVisitor = &QueryVisitor{}", Expect: "C08-R8-field-initialised|QueryVisitor.Query"},
	)
	add("C10",
		Mutation{Name: "namespace-dot-dropped", File: "cypher/models/cypher/format/format.go",
			Old: "\t\tfor _, namespaceComponent := range typedExpression.Namespace {\n\t\t\tif _, err := io.WriteString(output, namespaceComponent+\".\"); err != nil {\n\t\t\t\treturn err\n\t\t\t}\n\t\t}\n",
			New: "\t\tif _, err := io.WriteString(output, strings.Join(typedExpression.Namespace, \".\")); err != nil {\n\t\t\treturn err\n\t\t}\n", Expect: "C10-R5-namespace-separator"},
		Mutation{Name: "kind-hoisted-out-of-or", File: "query/neo4j/rewrite.go",
			Old: "if s.hasNegationAncestor() || s.hasDisjunctionAncestor() {", New: "if s.hasNegationAncestor() {", Expect: "C10-R6-hoist-under-and-only"},
		Mutation{Name: "builder-adopts-callers-where", File: "query/neo4j/neo4j.go",
			Old: "query.GetFirstReadingClause(s.query).Match.Where = cypher.Copy(typedCriteria)", New: "query.GetFirstReadingClause(s.query).Match.Where = typedCriteria", Expect: "C10-R7-builder-copies-criteria"},
		Mutation{Name: "driver-escapes-map-keys", File: "drivers/neo4j/query_rewrite.go",
			Old: "\t\tliteral[key] = &cypher.Parameter{Symbol: rewrittenParameter}", New: "\t\tliteral[cypher.EscapePropertyKeyName(key)] = &cypher.Parameter{Symbol: rewrittenParameter}", Expect: "C10-R8-escape-once"},
	)
	add("C11",
		Mutation{Name: "walker-visits-children-exclusively", File: "cypher/models/walk/walk_cypher.go",
			Old: "\t\tif typedNode.SinglePartQuery != nil {\n\t\t\tnextCursor.AddBranches(typedNode.SinglePartQuery)\n\t\t}\n\t\tif typedNode.MultiPartQuery != nil {",
			New: "\t\tif typedNode.SinglePartQuery != nil {\n\t\t\tnextCursor.AddBranches(typedNode.SinglePartQuery)\n\t\t} else if typedNode.MultiPartQuery != nil {", Expect: "SingleQuery.MultiPartQuery:exclusive"},
	)
	add("C12",
		Mutation{Name: "kinds-add-returns-argument", File: "graph/kind.go",
			Old: "func (s Kinds) Add(kinds ...Kind) Kinds {\n", New: "func (s Kinds) Add(kinds ...Kind) Kinds {\n\tif len(s) == 0 {\n\t\treturn kinds\n\t}\n\n", Expect: "C12-R6-kinds-alias|Kinds.Add"},
	)
	add("C13",
		Mutation{Name: "value-receiver-assigns-bitmap", File: "cardinality/roaring64.go",
			Old: "func (s bitmap64) Clear() {\n", New: "func (s bitmap64) Clear() {\n\ts.bitmap = roaring64.New()\n\treturn\n", Expect: "C13-R5-value-receiver-write|bitmap64.Clear"},
	)
	add("C14",
		Mutation{Name: "projection-merges-into-parent", File: "container/triplestore.go",
			Old: "\t\tallDeletedNodes = s.deletedNodes.Clone()\n", New: "\t\tallDeletedNodes = s.deletedNodes\n", Expect: "C14-R4-stored-set-readonly"},
		Mutation{Name: "normalize-drops-isolated-nodes", File: "container/adjacencymap.go",
			Old: "\t\tnewGraph.nodes.Add(normalID)\n", New: "", Expect: "C14-R5-derived-node-set|adjacencyMapDigraph.Normalize"},
	)
	add("C15",
		Mutation{Name: "helper-returns-csr-row", File: "container/digraph.go",
			Old: "func AdjacentNodes(digraph DirectedGraph, node uint64, direction graph.Direction) []uint64 {\n\tvar nodes []uint64\n",
			New: "func AdjacentNodes(digraph DirectedGraph, node uint64, direction graph.Direction) []uint64 {\n\tif lister, canList := digraph.(interface {\n\t\tAdjacentNodes(node uint64, direction graph.Direction) []uint64\n\t}); canList {\n\t\treturn lister.AdjacentNodes(node, direction)\n\t}\n\n\tvar nodes []uint64\n", Expect: "newReachCursor:append to adjacentComponents"},
		Mutation{Name: "xor-reach-without-clone", File: "algo/reach.go",
			Old: "\tcomponentMembers := cardinality.NewBitmap64()\n\n\tcomponentReach.Each(func(reachableComponent uint64) bool {",
			New: "\tif componentReach.Cardinality() == 1 {\n\t\tvar only cardinality.Duplex[uint64]\n\t\tcomponentReach.Each(func(c uint64) bool {\n\t\t\tonly = s.components.ComponentMembers(c)\n\t\t\treturn false\n\t\t})\n\t\treturn only\n\t}\n\n\tcomponentMembers := cardinality.NewBitmap64()\n\n\tcomponentReach.Each(func(reachableComponent uint64) bool {", Expect: "XorReach:reachBitmap.Remove",
			Also: []Edit{{"algo/reach.go", "reachBitmap := s.ReachOfComponentContainingMember(node, direction).Clone()", "reachBitmap := s.ReachOfComponentContainingMember(node, direction)"}}},
	)
	add("C17",
		Mutation{Name: "driver-on-callers-context", File: "traversal/traversal.go",
			Old: "plan.Driver(traversalCtx, tx, nextDescent)", New: "plan.Driver(ctx, tx, nextDescent)", Expect: "the plan's Driver"},
	)
	add("C18",
		Mutation{Name: "graph-directory-name-truncated", File: "retriever/graph.go",
			Old: "\treturn escaped\n", New: "\tif len(escaped) > 120 {\n\t\tescaped = escaped[:120]\n\t}\n\n\treturn escaped\n", Expect: "C18-R6-injective-naming"},
	)
	add("C19",
		Mutation{Name: "scrub-totals-after-checkpoint-write", File: "retriever/dump.go",
			Old: "\t\ttotalEdges += graphEntry.EdgeCount\n\n\t\tslog.Info(\"retriever dump graph completed\",", New: "\t\ttotalEdges += graphEntry.EdgeCount\n\t\taddActionCounts(checkpoint.Manifest.Scrub.NodeActionCounts, graphEntry.NodeActionCounts)\n\n\t\tslog.Info(\"retriever dump graph completed\",", Expect: "Dump:persist-last"},
	)
	add("C20",
		Mutation{Name: "manifest-read-with-one-decode", File: "retriever/manifest.go",
			Old: "\t} else if err := json.Unmarshal(contents, &value); err != nil {", New: "\t} else if err := json.NewDecoder(bytes.NewReader(contents)).Decode(&value); err != nil {", Expect: "C20-R6-strict-decoding|readManifest",
			Also: []Edit{{"retriever/manifest.go", "import (\n", "import (\n\t\"bytes\"\n"}}},
	)
}
