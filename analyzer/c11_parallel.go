package main

// C11 parallel-lists: a cursor that pairs the i-th element of one child list with the i-th element of another (the
// conditions and results of a CASE) visits every child only if the two lists have the same length. The constructor must
// refuse any other shape with an equality test; a one-sided test (>, <) leaves the longer list's tail unvisited without
// a word, and a rewriter that relies on the walk never sees those children.
//
// C11 receiver-copy: a Copy/Clone method of a slice type that the model copy delegates to (graph.Kinds.Copy) never
// returns its receiver, also not for the empty case: an empty slice with spare capacity shares its backing array.

import (
	"go/ast"
	"go/token"
	"go/types"

	"golang.org/x/tools/go/packages"
)

func checkParallelLists(r *Run, wp *packages.Package) {
	const rule = "C11-walk-parallel-lists"
	info := wp.TypesInfo
	n := 0
	for _, f := range wp.Syntax {
		for _, d := range f.Decls {
			fd, ok := d.(*ast.FuncDecl)
			if !ok || fd.Body == nil {
				continue
			}
			ast.Inspect(fd.Body, func(x ast.Node) bool {
				loop, ok := x.(ast.Stmt)
				if !ok {
					return true
				}
				it := fullIterationIn(info, fd.Body, loop)
				if it == nil || it.idx == nil {
					return true
				}
				rs := loop
				keyObj := it.idx
				ranged := exprString(r.Fset, it.Coll)
				others := map[string]bool{}
				ast.Inspect(it.Body, func(y ast.Node) bool {
					ix, ok := y.(*ast.IndexExpr)
					if !ok {
						return true
					}
					if id, ok := ast.Unparen(ix.Index).(*ast.Ident); ok && info.Uses[id] == keyObj {
						if _, isSlice := info.TypeOf(ix.X).Underlying().(*types.Slice); isSlice {
							if t := exprString(r.Fset, ix.X); t != ranged {
								others[t] = true
							}
						}
					}
					return true
				})
				for other := range others {
					n++
					construct := funcDeclName(fd) + ":" + ranged + "~" + other
					// an if that compares len(ranged) with len(other) by != (or ==) and whose unequal arm leaves
					equal := false
					var weak token.Pos
					ast.Inspect(fd.Body, func(y ast.Node) bool {
						ifs, ok := y.(*ast.IfStmt)
						if !ok {
							return true
						}
						ast.Inspect(ifs.Cond, func(z ast.Node) bool {
							be, ok := z.(*ast.BinaryExpr)
							if !ok {
								return true
							}
							lenOf := func(e ast.Expr) string {
								e = resolveLocalCopy(info, fd.Body, e)
								if call, ok := ast.Unparen(e).(*ast.CallExpr); ok && len(call.Args) == 1 {
									if id, ok := call.Fun.(*ast.Ident); ok && id.Name == "len" {
										return exprString(r.Fset, call.Args[0])
									}
								}
								return ""
							}
							a, b := lenOf(be.X), lenOf(be.Y)
							if (a == ranged && b == other) || (a == other && b == ranged) {
								switch be.Op {
								case token.NEQ, token.EQL:
									equal = true
								default:
									weak = be.Pos()
								}
							}
							return true
						})
						return true
					})
					switch {
					case equal:
						r.Pass(rule, construct, rs.Pos(), "the two lists are paired by index only after their lengths were found equal")
					case weak != token.NoPos:
						r.Fail(rule, construct, weak, "%s and %s are paired by index but their lengths are only compared one way: when the other list is longer its extra children are never visited and the malformed node is not reported", ranged, other)
					default:
						r.Fail(rule, construct, rs.Pos(), "%s and %s are paired by index without a test that they have the same length", ranged, other)
					}
				}
				return true
			})
		}
	}
	if n == 0 {
		r.Undecide("C11: no cursor constructor pairs two child lists by index (the CASE cursor changed?)")
	}
}

func checkReceiverCopies(r *Run, gp *packages.Package) {
	const rule = "C11-copy-helper-fresh"
	info := gp.TypesInfo
	n := 0
	for _, f := range gp.Syntax {
		for _, d := range f.Decls {
			fd, ok := d.(*ast.FuncDecl)
			if !ok || fd.Body == nil || fd.Recv == nil || len(fd.Recv.List[0].Names) != 1 || (fd.Name.Name != "Copy" && fd.Name.Name != "Clone") {
				continue
			}
			recv := info.Defs[fd.Recv.List[0].Names[0]]
			if recv == nil {
				continue
			}
			if _, isSlice := recv.Type().Underlying().(*types.Slice); !isSlice {
				continue
			}
			n++
			construct := "graph." + recvTypeName(fd.Recv.List[0].Type) + "." + fd.Name.Name
			var bad token.Pos
			ast.Inspect(fd.Body, func(x ast.Node) bool {
				rs, ok := x.(*ast.ReturnStmt)
				if !ok || len(rs.Results) != 1 {
					return true
				}
				if base := sliceBase(info, rs.Results[0]); base != nil && types.Object(base) == recv && bad == token.NoPos {
					bad = rs.Pos()
				}
				return true
			})
			if bad != token.NoPos {
				r.Fail(rule, construct, bad, "%s returns its receiver on some path: the model copy delegates to it for kind lists, so copy and original share the list — an empty list with spare capacity (after a Remove) is appended to through both, and each sees the other's kinds", construct)
			} else {
				r.Pass(rule, construct, fd.Pos(), "never returns the receiver")
			}
		}
	}
	if n == 0 {
		r.Undecide("C11: no Copy/Clone method of a slice type found in package graph")
	}
}
