package main

// C20-R2-sanitizer, decided on what the tests are applied to rather than on how they are spelled.
//
// The archive path sanitiser hands back path.Clean(S) for some string S derived from the entry name. The result stays
// below the directory it is joined to only if S — that very string, not another spelling of the name — is non-empty, has
// no backslash, is not absolute, and has no ".." component (tested on S before cleaning, or on the cleaned result by
// refusing ".." and the "../" prefix). The rule finds S from the successful return, collects the refusing tests of the
// function (if statements and tagless switch cases whose branch returns an error, loops over the components, one-line
// predicates expanded at their calls) and asks, for each of the four facts, for a refusing test whose operand is S.

import (
	"go/ast"
	"go/token"
	"go/types"

	"golang.org/x/tools/go/packages"
)

// guardClauseForm rewrites `if c { …leave } else if d { …leave } else { rest }` as `if c { …leave }; if d { …leave };
// rest…` (after tagless switches were turned into if chains), so that every refusing test is a statement of its own.
func guardClauseForm(list []ast.Stmt) []ast.Stmt {
	var out []ast.Stmt
	for _, st := range switchToIfChain(list) {
		ifs, ok := st.(*ast.IfStmt)
		if !ok || ifs.Else == nil || !alwaysLeaves(ifs.Body) {
			out = append(out, st)
			continue
		}
		head := *ifs
		head.Else = nil
		out = append(out, &head)
		switch e := ifs.Else.(type) {
		case *ast.BlockStmt:
			out = append(out, guardClauseForm(e.List)...)
		case *ast.IfStmt:
			out = append(out, guardClauseForm([]ast.Stmt{e})...)
		}
	}
	return out
}

func checkArchivePathSanitizer(r *Run, p *packages.Package, sp *ast.FuncDecl) {
	info := p.TypesInfo
	list := guardClauseForm(sp.Body.List)
	returnsError := func(body *ast.BlockStmt) bool {
		for _, st := range body.List {
			if rs, ok := st.(*ast.ReturnStmt); ok && len(rs.Results) == 2 && !isNilIdent(info, ast.Unparen(rs.Results[1])) {
				return true
			}
		}
		return false
	}
	// the successful return and the string it cleans
	var success *ast.ReturnStmt
	nilReturns, errReturns := 0, 0
	ast.Inspect(sp.Body, func(n ast.Node) bool {
		if _, isLit := n.(*ast.FuncLit); isLit {
			return false
		}
		if rs, ok := n.(*ast.ReturnStmt); ok && len(rs.Results) == 2 {
			if isNilIdent(info, ast.Unparen(rs.Results[1])) {
				nilReturns++
				success = rs
			} else {
				errReturns++
			}
		}
		return true
	})
	if success == nil || nilReturns != 1 {
		r.Fail("C20-R2-sanitizer", "sanitizeArchivePath:rejections-return-errors", sp.Pos(), "the sanitizer has %d returns with a nil error (one expected, the accepted path): a rejecting branch hands back a path", nilReturns)
		return
	}
	if len(sp.Body.List) == 0 || sp.Body.List[len(sp.Body.List)-1] != ast.Stmt(success) {
		r.Fail("C20-R2-sanitizer", "sanitizeArchivePath:rejections-return-errors", success.Pos(), "the sanitizer accepts a path before its last statement: the tests after that return do not apply to it")
		return
	}
	if errReturns >= 4 {
		r.Pass("C20-R2-sanitizer", "sanitizeArchivePath:rejections-return-errors", sp.Pos(), "%d rejecting branches, all return an error; the only accepted path is the last statement", errReturns)
	} else {
		r.Fail("C20-R2-sanitizer", "sanitizeArchivePath:rejections-return-errors", sp.Pos(), "only %d rejecting branches return an error (empty, backslash, absolute and parent-directory names are four)", errReturns)
	}
	objOf := func(e ast.Expr) types.Object {
		if id, ok := ast.Unparen(e).(*ast.Ident); ok {
			return info.Uses[id]
		}
		return nil
	}
	resObj := objOf(success.Results[0])
	var cleanedFrom types.Object // S
	res := ast.Unparen(success.Results[0])
	if id, ok := res.(*ast.Ident); ok {
		res = ast.Unparen(resolveLocalCopy(info, sp.Body, id))
	}
	if call, ok := res.(*ast.CallExpr); ok && len(call.Args) == 1 {
		if fn := calleeOf(info, call); fn != nil && (funcFullName(fn) == "path.Clean" || funcFullName(fn) == "path/filepath.Clean") {
			cleanedFrom = objOf(call.Args[0])
		}
	}
	if cleanedFrom == nil {
		cleanedFrom = resObj
	}
	if cleanedFrom == nil {
		r.Undecide("C20-R2: the string the sanitizer cleans and returns could not be identified")
		return
	}
	// the refusing tests
	facts := map[string]bool{}
	var postDotDot, postPrefix bool
	isStr := func(e ast.Expr, want string) bool {
		tv, has := info.Types[e]
		return has && tv.Value != nil && tv.Value.ExactString() == `"`+want+`"`
	}
	var atoms func(e ast.Expr, depth int)
	atoms = func(e ast.Expr, depth int) {
		e = ast.Unparen(e)
		switch x := e.(type) {
		case *ast.BinaryExpr:
			switch x.Op {
			case token.LOR:
				atoms(x.X, depth)
				atoms(x.Y, depth)
			case token.EQL:
				for _, pair := range [][2]ast.Expr{{x.X, x.Y}, {x.Y, x.X}} {
					o := objOf(pair[0])
					if o == cleanedFrom && isStr(pair[1], "") {
						facts["empty names"] = true
					}
					if o != nil && o == resObj && isStr(pair[1], "..") {
						postDotDot = true
					}
				}
			}
		case *ast.CallExpr:
			fn := calleeOf(info, x)
			if fn == nil {
				return
			}
			switch full := funcFullName(fn); {
			case full == "strings.Contains" && len(x.Args) == 2 && objOf(x.Args[0]) == cleanedFrom && isStr(x.Args[1], `\\`):
				facts["backslash separators"] = true
			case full == "strings.ContainsRune" && len(x.Args) == 2 && objOf(x.Args[0]) == cleanedFrom:
				if tv, has := info.Types[x.Args[1]]; has && tv.Value != nil && tv.Value.String() == "92" {
					facts["backslash separators"] = true
				}
			case full == "path.IsAbs" && len(x.Args) == 1 && objOf(x.Args[0]) == cleanedFrom:
				facts["absolute paths"] = true
			case full == "strings.HasPrefix" && len(x.Args) == 2 && objOf(x.Args[0]) == cleanedFrom && isStr(x.Args[1], "/"):
				facts["absolute paths"] = true
			case full == "strings.HasPrefix" && len(x.Args) == 2 && objOf(x.Args[0]) != nil && objOf(x.Args[0]) == resObj && isStr(x.Args[1], "../"):
				postPrefix = true
			case full == "slices.Contains" && len(x.Args) == 2 && isStr(x.Args[1], ".."):
				if sc, ok := ast.Unparen(x.Args[0]).(*ast.CallExpr); ok && len(sc.Args) == 2 {
					if sf := calleeOf(info, sc); sf != nil && funcFullName(sf) == "strings.Split" && objOf(sc.Args[0]) == cleanedFrom && isStr(sc.Args[1], "/") {
						facts["parent-directory components"] = true
					}
				}
			default:
				if depth < 3 {
					if body := predicateBody(p, x); body != nil {
						atoms(body, depth+1)
					}
				}
			}
		}
	}
	var scan func(list []ast.Stmt)
	scan = func(list []ast.Stmt) {
		for _, st := range list {
			switch t := st.(type) {
			case *ast.IfStmt:
				if returnsError(t.Body) {
					atoms(t.Cond, 0)
				}
			case *ast.RangeStmt:
				// for _, part := range strings.Split(S, "/") { if part == ".." { return error } }
				sc, ok := ast.Unparen(t.X).(*ast.CallExpr)
				if !ok || len(sc.Args) != 2 {
					continue
				}
				if sf := calleeOf(info, sc); sf == nil || funcFullName(sf) != "strings.Split" || objOf(sc.Args[0]) != cleanedFrom || !isStr(sc.Args[1], "/") {
					continue
				}
				val, _ := t.Value.(*ast.Ident)
				for _, bs := range guardClauseForm(t.Body.List) {
					ifs, ok := bs.(*ast.IfStmt)
					if !ok || !returnsError(ifs.Body) || val == nil {
						continue
					}
					if be, ok := ast.Unparen(ifs.Cond).(*ast.BinaryExpr); ok && be.Op == token.EQL {
						for _, pair := range [][2]ast.Expr{{be.X, be.Y}, {be.Y, be.X}} {
							if objOf(pair[0]) == info.Defs[val] && isStr(pair[1], "..") {
								facts["parent-directory components"] = true
							}
						}
					}
				}
			case *ast.BlockStmt:
				scan(guardClauseForm(t.List))
			}
		}
	}
	scan(list)
	if postDotDot && postPrefix {
		facts["parent-directory components"] = true
	}
	name := cleanedFrom.Name()
	for _, need := range []struct{ what, miss string }{
		{"absolute paths", "an absolute entry name is joined to the output directory as it is"},
		{"backslash separators", "a name with backslashes is one component here and a path on a host that reads them as separators"},
		{"empty names", "an empty name cleans to \".\""},
		{"parent-directory components", "an entry named a/../../x escapes the output directory"},
	} {
		if facts[need.what] {
			r.Pass("C20-R2-sanitizer", "sanitizeArchivePath:"+need.what, sp.Pos(), "a refusing test on %s, the string that is cleaned and returned, rejects %s", name, need.what)
		} else {
			r.Fail("C20-R2-sanitizer", "sanitizeArchivePath:"+need.what, sp.Pos(), "no refusing test of the sanitizer applies to %s, the string that is cleaned and returned, for %s (a test on another spelling of the name does not count: the two differ by what was trimmed): %s", name, need.what, need.miss)
		}
	}
}
