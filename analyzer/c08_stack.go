package main

// C08-R9 stack-primitive-total: every handler pairs ctx.Enter(visitor) with a later ctx.Exit(); the depth bookkeeping
// (and the type assertions on what Exit returns) hold only if Enter pushes and Exit pops every time they are called.
// An Enter that returns before the push under some condition — a depth limit, a nil visitor — leaves the pairs
// unbalanced from that point on: the next Exit pops the wrong visitor or panics on the depth assertion.
//
// C08-R10 child-accessor-guarded: after ANTLR error recovery a rule node can lack children its grammar rule requires,
// and the generated accessors return nil for them. Calling a method on an accessor's result without a nil test panics
// inside the walk. (The front end today reads child text through ctx.GetText() and visitors, never through a chained
// accessor.)

import (
	"go/ast"
	"go/token"
	"go/types"
	"strings"
)

func checkStackPrimitives(r *Run) {
	const rule = "C08-R9-stack-primitive-total"
	fp := r.MustPkg("cypher/frontend")
	info := fp.TypesInfo
	for _, name := range []string{"Enter", "Exit"} {
		fd := findMethod(fp, "Context", name)
		if fd == nil {
			r.Undecide("C08-R9: frontend.Context.%s not found", name)
			continue
		}
		recv := recvObj(fp, fd)
		// the statement that changes the visitor stack: s.visitorStack = append(…) / s.visitorStack = s.visitorStack[:…]
		var change *ast.AssignStmt
		ast.Inspect(fd.Body, func(x ast.Node) bool {
			as, ok := x.(*ast.AssignStmt)
			if !ok || change != nil {
				return true
			}
			for _, lhs := range as.Lhs {
				if sel, ok := ast.Unparen(lhs).(*ast.SelectorExpr); ok && strings.Contains(strings.ToLower(sel.Sel.Name), "stack") {
					if id, ok := ast.Unparen(sel.X).(*ast.Ident); ok && info.Uses[id] == recv {
						change = as
					}
				}
			}
			return true
		})
		construct := "Context." + name
		if change == nil {
			r.Undecide("C08-R9: Context.%s does not assign the visitor stack", name)
			continue
		}
		conditional := len(pathConditions(fd.Body, change)) > 0
		var earlyReturn token.Pos
		ast.Inspect(fd.Body, func(x ast.Node) bool {
			if rs, ok := x.(*ast.ReturnStmt); ok && rs.Pos() < change.Pos() && earlyReturn == token.NoPos {
				earlyReturn = rs.Pos()
			}
			return true
		})
		switch {
		case conditional:
			r.Fail(rule, construct, change.Pos(), "Context.%s changes the visitor stack only under a condition: a handler's Enter/Exit pair is then unbalanced for some inputs, and the next Exit pops another visitor or trips the depth assertion with a panic", name)
		case earlyReturn != token.NoPos:
			r.Fail(rule, construct, earlyReturn, "Context.%s can return before it changes the visitor stack: the handlers' Enter/Exit pairs stay balanced only if every call pushes (pops); past the early return the next Exit panics on the depth assertion", name)
		default:
			r.Pass(rule, construct, change.Pos(), "changes the visitor stack on every call")
		}
	}
}

func checkChildAccessorsGuarded(r *Run) {
	const rule = "C08-R10-child-accessor-guarded"
	fp := r.MustPkg("cypher/frontend")
	info := fp.TypesInfo
	isParserContext := func(t types.Type) bool {
		n := namedOf(t)
		return n != nil && n.Obj().Pkg() != nil && strings.HasSuffix(n.Obj().Pkg().Path(), "cypher/parser") && strings.HasSuffix(n.Obj().Name(), "Context")
	}
	// accessor call: a niladic method on a parser context whose result is an interface or a pointer
	isAccessor := func(e ast.Expr) bool {
		call, ok := ast.Unparen(e).(*ast.CallExpr)
		if !ok || len(call.Args) != 0 {
			return false
		}
		sel, ok := call.Fun.(*ast.SelectorExpr)
		if !ok || !isParserContext(info.TypeOf(sel.X)) {
			return false
		}
		switch sel.Sel.Name {
		case "GetText", "GetParser", "GetRuleContext", "GetStart", "GetStop", "GetParent", "GetChildCount", "GetChildren", "GetRuleIndex", "ToStringTree", "GetPayload", "GetSourceInterval":
			return false
		}
		switch info.TypeOf(call).Underlying().(type) {
		case *types.Interface, *types.Pointer:
			return true
		}
		return false
	}
	scanned, bad := 0, 0
	for _, f := range fp.Syntax {
		for _, d := range f.Decls {
			fd, ok := d.(*ast.FuncDecl)
			if !ok || fd.Body == nil {
				continue
			}
			// locals bound to an accessor result
			fromAccessor := map[types.Object]bool{}
			ast.Inspect(fd.Body, func(x ast.Node) bool {
				if as, ok := x.(*ast.AssignStmt); ok && len(as.Lhs) == len(as.Rhs) {
					for i, lhs := range as.Lhs {
						if id, ok := lhs.(*ast.Ident); ok && isAccessor(as.Rhs[i]) {
							fromAccessor[info.ObjectOf(id)] = true
						}
					}
				}
				return true
			})
			nilTested := func(at ast.Node, text string) bool {
				test := func(e ast.Expr, neg bool) bool {
					found := false
					ast.Inspect(e, func(y ast.Node) bool {
						if be, ok := y.(*ast.BinaryExpr); ok && (be.Op == token.NEQ || be.Op == token.EQL) {
							if exprString(r.Fset, be.X) == text && isNilIdent(info, ast.Unparen(be.Y)) {
								if (be.Op == token.NEQ && !neg) || (be.Op == token.EQL && neg) {
									found = true
								}
							}
						}
						return true
					})
					return found
				}
				for _, l := range pathConditions(fd.Body, at) {
					if test(l.Expr, l.Neg) {
						return true
					}
				}
				guarded := false
				ast.Inspect(fd.Body, func(y ast.Node) bool {
					ifs, ok := y.(*ast.IfStmt)
					if !ok || ifs.End() > at.Pos() || len(ifs.Body.List) == 0 {
						return true
					}
					if _, leaves := ifs.Body.List[len(ifs.Body.List)-1].(*ast.ReturnStmt); leaves && test(ifs.Cond, true) {
						guarded = true
					}
					return true
				})
				return guarded
			}
			ast.Inspect(fd.Body, func(x ast.Node) bool {
				call, ok := x.(*ast.CallExpr)
				if !ok {
					return true
				}
				sel, ok := call.Fun.(*ast.SelectorExpr)
				if !ok {
					return true
				}
				base := ast.Unparen(sel.X)
				isChain := isAccessor(base)
				isLocal := false
				if id, ok := base.(*ast.Ident); ok && fromAccessor[info.Uses[id]] {
					isLocal = true
				}
				if !isChain && !isLocal {
					return true
				}
				scanned++
				text := exprString(r.Fset, base)
				if nilTested(call, text) {
					return true
				}
				bad++
				r.Fail(rule, funcDisplayName(fd)+":"+exprString(r.Fset, call), call.Pos(), "%s is called on the result of a parse tree child accessor without a nil test: after error recovery the child can be missing (`… LIMIT $`), the accessor returns nil, and the walk panics inside EnterEveryRule instead of reporting the syntax error", sel.Sel.Name)
				return true
			})
		}
	}
	r.Ob(rule, "frontend:scanned", token.NoPos, true, "%d method calls on child accessor results examined, %d unguarded", scanned, bad)
}
