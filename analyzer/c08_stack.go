package main

// C08-R9 stack-primitive-total: every handler pairs ctx.Enter(visitor) with a later ctx.Exit(); the depth bookkeeping
// (and the type assertions on what Exit returns) hold only if Enter pushes and Exit pops every time they are called.
// An Enter that returns before the push under some condition — a depth limit, a nil visitor — leaves the pairs
// unbalanced from that point on: the next Exit pops the wrong visitor or panics on the depth assertion.
//
// C08-R10 child-accessor-guarded: after ANTLR error recovery a rule node can lack children its grammar rule requires,
// and the generated accessors return nil for them. Calling a method on an accessor's result without a nil test panics
// inside the walk. (The front end today reads child text through ctx.GetText() and visitors, never through a chained
// accessor.)

import (
	"go/ast"
	"go/token"
	"go/types"
	"strings"
)

func checkStackPrimitives(r *Run) {
	const rule = "C08-R9-stack-primitive-total"
	fp := r.MustPkg("cypher/frontend")
	info := fp.TypesInfo
	for _, name := range []string{"Enter", "Exit"} {
		fd := findMethod(fp, "Context", name)
		if fd == nil {
			r.Undecide("C08-R9: frontend.Context.%s not found", name)
			continue
		}
		recv := recvObj(fp, fd)
		// the statements that change the visitor stack: `s.F = append(s.F, …)` in Enter, `s.F = s.F[…]` in Exit, for a slice
		// field F of the context (the stack may be one slice of entries or parallel slices)
		var changes []*ast.AssignStmt
		// helper methods of the stack's own type are read in place (`s.listeners.push(v)`)
		inl := inlineFuncWith(fp, fd, 2, true)
		body := inl.Body
		ast.Inspect(body, func(x ast.Node) bool {
			as, ok := x.(*ast.AssignStmt)
			if !ok || len(as.Lhs) != len(as.Rhs) {
				return true
			}
			for i, lhs := range as.Lhs {
				sel, ok := ast.Unparen(lhs).(*ast.SelectorExpr)
				if !ok {
					continue
				}
				if id := rootIdent(sel.X); id == nil || info.Uses[id] != recv {
					continue
				}
				if _, isSlice := info.TypeOf(sel).Underlying().(*types.Slice); !isSlice {
					continue
				}
				sameField := func(e ast.Expr) bool {
					s2, ok := ast.Unparen(e).(*ast.SelectorExpr)
					return ok && info.Selections[s2] != nil && info.Selections[sel] != nil && info.Selections[s2].Obj() == info.Selections[sel].Obj()
				}
				switch rhs := ast.Unparen(as.Rhs[i]).(type) {
				case *ast.CallExpr:
					if fid, ok := rhs.Fun.(*ast.Ident); ok && fid.Name == "append" && len(rhs.Args) >= 2 && sameField(rhs.Args[0]) && name == "Enter" {
						changes = append(changes, as)
					}
				case *ast.SliceExpr:
					if sameField(rhs.X) && name == "Exit" {
						changes = append(changes, as)
					}
				}
			}
			return true
		})
		construct := "Context." + name
		if len(changes) == 0 {
			r.Undecide("C08-R9: Context.%s does not %s a slice field of the context", name, map[string]string{"Enter": "append to", "Exit": "shorten"}[name])
			continue
		}
		first := changes[0]
		conditional := false
		for _, ch := range changes {
			if len(pathConditions(body, ch)) > 0 {
				conditional = true
			}
			if ch.Pos() < first.Pos() {
				first = ch
			}
		}
		var earlyReturn token.Pos
		ast.Inspect(body, func(x ast.Node) bool {
			if rs, ok := x.(*ast.ReturnStmt); ok && earlyReturn == token.NoPos {
				for _, ch := range changes {
					if rs.Pos() < ch.Pos() {
						earlyReturn = rs.Pos()
					}
				}
			}
			return true
		})
		switch {
		case conditional:
			r.Fail(rule, construct, first.Pos(), "Context.%s changes the visitor stack only under a condition: a handler's Enter/Exit pair is then unbalanced for some inputs, and the next Exit pops another visitor or trips the depth assertion with a panic", name)
		case earlyReturn != token.NoPos:
			r.Fail(rule, construct, earlyReturn, "Context.%s can return before it changes the visitor stack: the handlers' Enter/Exit pairs stay balanced only if every call pushes (pops); past the early return the next Exit panics on the depth assertion", name)
		default:
			r.Pass(rule, construct, first.Pos(), "changes the visitor stack on every call")
		}
	}
}

func checkChildAccessorsGuarded(r *Run) {
	const rule = "C08-R10-child-accessor-guarded"
	fp := r.MustPkg("cypher/frontend")
	info := fp.TypesInfo
	isParserContext := func(t types.Type) bool {
		n := namedOf(t)
		return n != nil && n.Obj().Pkg() != nil && strings.HasSuffix(n.Obj().Pkg().Path(), "cypher/parser") && strings.HasSuffix(n.Obj().Name(), "Context")
	}
	// accessor call: a niladic method on a parser context whose result is an interface or a pointer
	isAccessor := func(e ast.Expr) bool {
		call, ok := ast.Unparen(e).(*ast.CallExpr)
		if !ok || len(call.Args) != 0 {
			return false
		}
		sel, ok := call.Fun.(*ast.SelectorExpr)
		if !ok || !isParserContext(info.TypeOf(sel.X)) {
			return false
		}
		switch sel.Sel.Name {
		case "GetText", "GetParser", "GetRuleContext", "GetStart", "GetStop", "GetParent", "GetChildCount", "GetChildren", "GetRuleIndex", "ToStringTree", "GetPayload", "GetSourceInterval":
			return false
		}
		switch info.TypeOf(call).Underlying().(type) {
		case *types.Interface, *types.Pointer:
			return true
		}
		return false
	}
	scanned, bad := 0, 0
	for _, f := range fp.Syntax {
		for _, d := range f.Decls {
			fd, ok := d.(*ast.FuncDecl)
			if !ok || fd.Body == nil {
				continue
			}
			// locals bound to an accessor result
			fromAccessor := map[types.Object]bool{}
			ast.Inspect(fd.Body, func(x ast.Node) bool {
				if as, ok := x.(*ast.AssignStmt); ok && len(as.Lhs) == len(as.Rhs) {
					for i, lhs := range as.Lhs {
						if id, ok := lhs.(*ast.Ident); ok && isAccessor(as.Rhs[i]) {
							fromAccessor[info.ObjectOf(id)] = true
						}
					}
				}
				return true
			})
			nilTested := func(at ast.Node, text string) bool {
				test := func(e ast.Expr, neg bool) bool {
					found := false
					ast.Inspect(e, func(y ast.Node) bool {
						if be, ok := y.(*ast.BinaryExpr); ok && (be.Op == token.NEQ || be.Op == token.EQL) {
							if exprString(r.Fset, be.X) == text && isNilIdent(info, ast.Unparen(be.Y)) {
								if (be.Op == token.NEQ && !neg) || (be.Op == token.EQL && neg) {
									found = true
								}
							}
						}
						return true
					})
					return found
				}
				for _, l := range controlConds(fd.Body, at) {
					if test(l.Expr, l.Neg) {
						return true
					}
				}
				guarded := false
				ast.Inspect(fd.Body, func(y ast.Node) bool {
					ifs, ok := y.(*ast.IfStmt)
					if !ok || ifs.End() > at.Pos() || len(ifs.Body.List) == 0 {
						return true
					}
					if _, leaves := ifs.Body.List[len(ifs.Body.List)-1].(*ast.ReturnStmt); leaves && test(ifs.Cond, true) {
						guarded = true
					}
					return true
				})
				return guarded
			}
			ast.Inspect(fd.Body, func(x ast.Node) bool {
				call, ok := x.(*ast.CallExpr)
				if !ok {
					return true
				}
				sel, ok := call.Fun.(*ast.SelectorExpr)
				if !ok {
					return true
				}
				base := ast.Unparen(sel.X)
				isChain := isAccessor(base)
				isLocal := false
				if id, ok := base.(*ast.Ident); ok && fromAccessor[info.Uses[id]] {
					isLocal = true
				}
				if !isChain && !isLocal {
					return true
				}
				scanned++
				text := exprString(r.Fset, base)
				if nilTested(call, text) {
					return true
				}
				bad++
				r.Fail(rule, funcDisplayName(fd)+":"+exprString(r.Fset, call), call.Pos(), "%s is called on the result of a parse tree child accessor without a nil test: after error recovery the child can be missing (`… LIMIT $`), the accessor returns nil, and the walk panics inside EnterEveryRule instead of reporting the syntax error", sel.Sel.Name)
				return true
			})
		}
	}
	r.Ob(rule, "frontend:scanned", token.NoPos, true, "%d method calls on child accessor results examined, %d unguarded", scanned, bad)
}

// checkDiscriminatorsNonNil (R11): a visitor that returns "whichever of my result fields is set" (`if s.F != nil
// { return s.F }` … `return s.G`) relies on every producer of F storing a non-nil value. A producer that copies the
// field of a child visitor is non-nil only if that child's constructor allocates the field: a child that allocates
// lazily, on the first element, hands over nil for the empty literal, the parent falls through to another field, and
// the model gets a typed nil where an empty map or list belongs.
func checkDiscriminatorsNonNil(r *Run) {
	const rule = "C08-R11-discriminator-non-nil"
	fp := r.MustPkg("cypher/frontend")
	info := fp.TypesInfo
	// constructors: functions returning &T{…}; allocated[T][field] = the literal sets the field to a composite literal / make / New…
	allocated := map[string]map[string]bool{}
	hasCtor := map[string]bool{}
	for _, fd := range FuncDecls(fp) {
		if fd.Body == nil || fd.Recv != nil {
			continue
		}
		ast.Inspect(fd.Body, func(x ast.Node) bool {
			rs, ok := x.(*ast.ReturnStmt)
			if !ok || len(rs.Results) != 1 {
				return true
			}
			u, ok := ast.Unparen(rs.Results[0]).(*ast.UnaryExpr)
			if !ok || u.Op != token.AND {
				return true
			}
			cl, ok := u.X.(*ast.CompositeLit)
			if !ok {
				return true
			}
			tn := namedName(info.TypeOf(cl))
			hasCtor[tn] = true
			if allocated[tn] == nil {
				allocated[tn] = map[string]bool{}
			}
			for _, el := range cl.Elts {
				kv, ok := el.(*ast.KeyValueExpr)
				if !ok {
					continue
				}
				k, ok := kv.Key.(*ast.Ident)
				if !ok {
					continue
				}
				switch v := ast.Unparen(kv.Value).(type) {
				case *ast.CompositeLit:
					allocated[tn][k.Name] = true
				case *ast.UnaryExpr:
					if v.Op == token.AND {
						allocated[tn][k.Name] = true
					}
				case *ast.CallExpr:
					if id, ok := v.Fun.(*ast.Ident); ok && id.Name == "make" {
						allocated[tn][k.Name] = true
					} else if fn := calleeOf(info, v); fn != nil && strings.HasPrefix(fn.Name(), "New") {
						allocated[tn][k.Name] = true
					}
				}
			}
			return true
		})
	}
	n := 0
	for _, f := range fp.Syntax {
		for _, d := range f.Decls {
			fd, ok := d.(*ast.FuncDecl)
			if !ok || fd.Body == nil || fd.Recv == nil || len(fd.Recv.List[0].Names) != 1 {
				continue
			}
			recv := info.Defs[fd.Recv.List[0].Names[0]]
			owner := recvTypeName(fd.Recv.List[0].Type)
			// discriminating getter: `if s.F != nil { return s.F }`
			var fields []string
			for _, st := range fd.Body.List {
				ifs, ok := st.(*ast.IfStmt)
				if !ok || len(ifs.Body.List) != 1 {
					continue
				}
				be, ok := ast.Unparen(ifs.Cond).(*ast.BinaryExpr)
				if !ok || be.Op != token.NEQ || !isNilIdent(info, ast.Unparen(be.Y)) {
					continue
				}
				sel, ok := ast.Unparen(be.X).(*ast.SelectorExpr)
				if !ok {
					continue
				}
				if id, ok := ast.Unparen(sel.X).(*ast.Ident); !ok || info.Uses[id] != recv {
					continue
				}
				if rs, ok := ifs.Body.List[0].(*ast.ReturnStmt); ok && len(rs.Results) == 1 && exprString(r.Fset, rs.Results[0]) == exprString(r.Fset, be.X) {
					fields = append(fields, sel.Sel.Name)
				}
			}
			for _, field := range fields {
				// producers: assignments owner.field = … anywhere in the package
				for _, m := range methodsOfType(fp, owner) {
					mrecv := recvObj(fp, m)
					ast.Inspect(m.Body, func(x ast.Node) bool {
						as, ok := x.(*ast.AssignStmt)
						if !ok || len(as.Lhs) != len(as.Rhs) {
							return true
						}
						for i, lhs := range as.Lhs {
							sel, ok := ast.Unparen(lhs).(*ast.SelectorExpr)
							if !ok || sel.Sel.Name != field {
								continue
							}
							if id, ok := ast.Unparen(sel.X).(*ast.Ident); !ok || info.Uses[id] != mrecv {
								continue
							}
							n++
							construct := owner + "." + field + "←" + m.Name.Name
							rhs := ast.Unparen(as.Rhs[i])
							// X.Exit().(*Child).G
							if csel, ok := rhs.(*ast.SelectorExpr); ok {
								if ta, ok := ast.Unparen(csel.X).(*ast.TypeAssertExpr); ok {
									child := namedName(info.TypeOf(ta.Type))
									if hasCtor[child] && allocated[child][csel.Sel.Name] {
										r.Pass(rule, construct, as.Pos(), "taken from %s.%s, which every constructor of %s allocates", child, csel.Sel.Name, child)
									} else {
										r.Fail(rule, construct, as.Pos(), "%s.%s selects its result by `%s != nil`, and this producer stores %s.%s, which the constructor of %s does not allocate: for an empty literal the child never allocates it, nil is stored, the getter falls through to another field and returns a typed nil — the parse succeeds with a hole in the model that the emitter dereferences", owner, fd.Name.Name, field, child, csel.Sel.Name, child)
									}
									continue
								}
							}
							r.Pass(rule, construct, as.Pos(), "assigned from a freshly built value")
						}
						return true
					})
				}
			}
		}
	}
	if n == 0 {
		r.Undecide("C08-R11: no visitor selects its result by a nil test on fields that other handlers assign")
	}
}
