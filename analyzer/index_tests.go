package main

// search-result-tests-agree: strings.Index and its relatives answer -1 for "not found" and 0 for "found at the start".
// A function that asks the same question twice — the same search for the same needle — and tests the answer once with
// `< 0` and once with `<= 0` believes two different things about position 0; one of the tests is wrong. In a loop that
// copies a string piece by piece the `<= 0` form stops at a match that directly follows the previous one and leaves the
// rest of the input uncopied or unconverted (adjacent doubled backticks of a property key stay doubled).

import (
	"go/ast"
	"go/token"
	"go/types"
	"strings"

	"golang.org/x/tools/go/packages"
)

func checkSearchResultTestsAgree(r *Run, rule string, consequence string, pkgs ...*packages.Package) {
	n := 0
	for _, p := range pkgs {
		info := p.TypesInfo
		for _, f := range p.Syntax {
			for _, d := range f.Decls {
				fd, ok := d.(*ast.FuncDecl)
				if !ok || fd.Body == nil {
					continue
				}
				// variables holding the answer of a search, with the text of the search
				searchOf := map[types.Object]string{}
				ast.Inspect(fd.Body, func(x ast.Node) bool {
					note := func(lhs ast.Expr, rhs ast.Expr) {
						call, ok := ast.Unparen(rhs).(*ast.CallExpr)
						if !ok || len(call.Args) < 2 {
							return
						}
						fn := calleeOf(info, call)
						if fn == nil || fn.Pkg() == nil || (fn.Pkg().Path() != "strings" && fn.Pkg().Path() != "bytes") || !strings.HasPrefix(fn.Name(), "Index") {
							return
						}
						if id, ok := ast.Unparen(lhs).(*ast.Ident); ok {
							key := fn.Name() + "(·," + exprString(r.Fset, call.Args[1]) + ")"
							if prev, has := searchOf[info.ObjectOf(id)]; has && prev != key {
								key = prev + "|" + key
							}
							searchOf[info.ObjectOf(id)] = key
						}
					}
					switch t := x.(type) {
					case *ast.AssignStmt:
						if len(t.Lhs) == len(t.Rhs) {
							for i := range t.Lhs {
								note(t.Lhs[i], t.Rhs[i])
							}
						}
					case *ast.ValueSpec:
						if len(t.Names) == len(t.Values) {
							for i := range t.Names {
								note(t.Names[i], t.Values[i])
							}
						}
					}
					return true
				})
				if len(searchOf) == 0 {
					continue
				}
				type test struct {
					pos      token.Pos
					text     string
					standard bool
				}
				tests := map[string][]test{}
				ast.Inspect(fd.Body, func(x ast.Node) bool {
					be, ok := x.(*ast.BinaryExpr)
					if !ok {
						return true
					}
					id, ok := ast.Unparen(be.X).(*ast.Ident)
					op, other := be.Op, be.Y
					if !ok {
						id, ok = ast.Unparen(be.Y).(*ast.Ident)
						other = be.X
						switch op {
						case token.LSS:
							op = token.GTR
						case token.LEQ:
							op = token.GEQ
						case token.GTR:
							op = token.LSS
						case token.GEQ:
							op = token.LEQ
						}
					}
					if !ok {
						return true
					}
					key, has := searchOf[info.Uses[id]]
					if !has {
						return true
					}
					tv, hasV := info.Types[other]
					if !hasV || tv.Value == nil {
						return true
					}
					c := tv.Value.ExactString()
					std, known := false, false
					switch {
					case c == "0" && (op == token.LSS || op == token.GEQ), c == "-1" && (op == token.EQL || op == token.NEQ || op == token.GTR || op == token.LEQ):
						std, known = true, true
					case c == "0" && (op == token.LEQ || op == token.GTR):
						std, known = false, true
					}
					if known {
						tests[key] = append(tests[key], test{be.Pos(), exprString(r.Fset, be), std})
					}
					return true
				})
				for key, ts := range tests {
					hasStd, hasOdd := false, false
					for _, t := range ts {
						if t.standard {
							hasStd = true
						} else {
							hasOdd = true
						}
					}
					if len(ts) < 2 {
						continue
					}
					n++
					construct := funcDeclName(fd) + ":" + key
					if hasStd && hasOdd {
						for _, t := range ts {
							if !t.standard {
								r.Fail(rule, construct, t.pos, "%s tests the answer of %s with `%s` although the same function tests the same search with `< 0` elsewhere: position 0 — a match right at the start of what is left — is taken for \"not found\"; %s", funcDeclName(fd), key, t.text, consequence)
							}
						}
					} else {
						r.Pass(rule, construct, ts[0].pos, "the %d tests of this search agree about position 0", len(ts))
					}
				}
			}
		}
	}
	r.Ob(rule, "scanned", token.NoPos, true, "%d searches tested more than once in one function", n)
}
