package main

// structuredPaths enumerates the paths through a list of structured statements (blocks and if/else; every other
// statement is a leaf), for rules of the form "on every way through this branch one of the effects E happens". Two tests
// of the same boolean variable on one path are correlated: after `if cached { … }` took the true arm, a later
// `if !cached { … }` takes its false arm — provided nothing assigned the variable in between. A path stops at a
// statement that leaves (return, break, continue, goto). Loops, switches and selects are leaves and their bodies are
// not entered: an effect that only happens inside one is not counted as happening on the path.

import (
	"go/ast"
	"go/token"
	"go/types"
)

type structuredPath struct {
	Leaves  []ast.Node // leaf statements, if-init statements and condition expressions, in order
	Taken   []string   // human-readable record of the arms taken
	Conds   []condLit  // the conditions along the path with the arm taken (Neg: the else arm)
	Leaving bool       // the path ends in a leaving statement
}

func structuredPaths(info *types.Info, fset *token.FileSet, list []ast.Stmt, limit int) ([]structuredPath, bool) {
	type state struct {
		path structuredPath
		env  map[types.Object]bool
		done bool
	}
	clone := func(s state) state {
		c := state{done: s.done, env: map[types.Object]bool{}}
		for k, v := range s.env {
			c.env[k] = v
		}
		c.path.Leaves = append([]ast.Node(nil), s.path.Leaves...)
		c.path.Taken = append([]string(nil), s.path.Taken...)
		c.path.Conds = append([]condLit(nil), s.path.Conds...)
		c.path.Leaving = s.path.Leaving
		return c
	}
	boolVar := func(e ast.Expr) (types.Object, bool, bool) {
		neg := false
		e = ast.Unparen(e)
		for {
			u, ok := e.(*ast.UnaryExpr)
			if !ok || u.Op != token.NOT {
				break
			}
			neg = !neg
			e = ast.Unparen(u.X)
		}
		id, ok := e.(*ast.Ident)
		if !ok {
			return nil, false, false
		}
		obj := info.Uses[id]
		if v, ok := obj.(*types.Var); ok {
			if b, ok := v.Type().Underlying().(*types.Basic); ok && b.Kind() == types.Bool {
				return obj, neg, true
			}
		}
		return nil, false, false
	}
	forget := func(s *state, n ast.Node) {
		ast.Inspect(n, func(m ast.Node) bool {
			switch x := m.(type) {
			case *ast.AssignStmt:
				for _, l := range x.Lhs {
					if id, ok := ast.Unparen(l).(*ast.Ident); ok {
						if o := info.Defs[id]; o != nil {
							delete(s.env, o)
						}
						if o := info.Uses[id]; o != nil {
							delete(s.env, o)
						}
					}
				}
			case *ast.UnaryExpr:
				if x.Op == token.AND {
					if id, ok := ast.Unparen(x.X).(*ast.Ident); ok {
						delete(s.env, info.Uses[id])
					}
				}
			}
			return true
		})
	}
	overflow := false
	var run func(states []state, list []ast.Stmt) []state
	run = func(states []state, list []ast.Stmt) []state {
		for _, st := range list {
			if len(states) > limit {
				overflow = true
				return states
			}
			var next []state
			for _, s := range states {
				if s.done {
					next = append(next, s)
					continue
				}
				switch t := st.(type) {
				case *ast.BlockStmt:
					next = append(next, run([]state{s}, t.List)...)
				case *ast.IfStmt:
					if t.Init != nil {
						s.path.Leaves = append(s.path.Leaves, t.Init)
						forget(&s, t.Init)
					}
					s.path.Leaves = append(s.path.Leaves, t.Cond)
					obj, neg, isVar := boolVar(t.Cond)
					arms := []bool{true, false}
					if isVar {
						if v, known := s.env[obj]; known {
							arms = []bool{v != neg}
						}
					}
					for _, arm := range arms {
						c := clone(s)
						if isVar {
							c.env[obj] = arm != neg
						}
						txt := types.ExprString(t.Cond)
						if arm {
							c.path.Taken = append(c.path.Taken, txt)
							c.path.Conds = append(c.path.Conds, condLit{Expr: t.Cond})
							next = append(next, run([]state{c}, t.Body.List)...)
						} else {
							c.path.Taken = append(c.path.Taken, "not("+txt+")")
							c.path.Conds = append(c.path.Conds, condLit{Expr: t.Cond, Neg: true})
							switch e := t.Else.(type) {
							case nil:
								next = append(next, c)
							case *ast.BlockStmt:
								next = append(next, run([]state{c}, e.List)...)
							default:
								next = append(next, run([]state{c}, []ast.Stmt{e})...)
							}
						}
					}
				case *ast.ReturnStmt:
					s.path.Leaves = append(s.path.Leaves, t)
					s.path.Leaving = true
					s.done = true
					next = append(next, s)
				case *ast.BranchStmt:
					s.path.Leaves = append(s.path.Leaves, t)
					s.path.Leaving = true
					s.done = true
					next = append(next, s)
				default:
					s.path.Leaves = append(s.path.Leaves, st)
					forget(&s, st)
					next = append(next, s)
				}
			}
			states = next
		}
		return states
	}
	final := run([]state{{env: map[types.Object]bool{}}}, list)
	out := make([]structuredPath, 0, len(final))
	for _, s := range final {
		out = append(out, s.path)
	}
	return out, !overflow
}

// leafEntersLoops reports whether n is a loop, switch or select (whose body structuredPaths does not enter).
func isCompoundLeaf(n ast.Node) bool {
	switch n.(type) {
	case *ast.ForStmt, *ast.RangeStmt, *ast.SwitchStmt, *ast.TypeSwitchStmt, *ast.SelectStmt:
		return true
	}
	return false
}

// nodeContains reports whether target occurs in the tree under root (identity, not source position: statements that
// came from an inlined helper keep the helper's positions).
func nodeContains(root, target ast.Node) bool {
	found := false
	ast.Inspect(root, func(n ast.Node) bool {
		if n == target {
			found = true
		}
		return !found
	})
	return found
}

func containsStr(list []string, s string) bool {
	for _, x := range list {
		if x == s {
			return true
		}
	}
	return false
}
