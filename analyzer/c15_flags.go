package main

// C15-R6 partial-flag-monotone: a reach cursor is marked partial when a component it depends on was skipped, and a
// partial cursor is not cached. The mark is a one-way latch: once something under the cursor was skipped, nothing that
// completes later can make its reach complete again. Every write of the flag outside the cursor's construction must
// therefore store the constant true; a write that can store false lets a later, complete child clear the mark, and an
// incomplete reach is cached.
//
// C15-R7 node-ids-not-narrowed: node and component IDs are uint64. A set keyed by a narrowed ID (Uint32(), uint32(x))
// merges IDs that differ by a multiple of 2^32: the strongly connected components come out wrong for such graphs only.

import (
	"go/ast"
	"go/token"
	"go/types"
	"strings"

	"golang.org/x/tools/go/packages"
)

func checkPartialFlagMonotone(r *Run, ap *packages.Package) {
	const rule = "C15-R6-partial-flag-monotone"
	info := ap.TypesInfo
	n := 0
	roles := findReachRoles(ap)
	if roles.cursor == nil {
		r.Undecide("C15-R6: the reach cursor type was not found")
		return
	}
	for _, f := range ap.Syntax {
		for _, d := range f.Decls {
			fd, ok := d.(*ast.FuncDecl)
			if !ok || fd.Body == nil {
				continue
			}
			ast.Inspect(fd.Body, func(x ast.Node) bool {
				as, ok := x.(*ast.AssignStmt)
				if !ok || len(as.Lhs) != len(as.Rhs) {
					return true
				}
				for i, lhs := range as.Lhs {
					sel, ok := ast.Unparen(lhs).(*ast.SelectorExpr)
					if !ok {
						continue
					}
					fv, ok := info.Uses[sel.Sel].(*types.Var)
					if !ok || !fv.IsField() || !roles.isCursor(info.TypeOf(sel.X)) {
						continue
					}
					if b, isBasic := fv.Type().Underlying().(*types.Basic); !isBasic || b.Kind() != types.Bool {
						continue
					}
					n++
					construct := funcDisplayName(fd) + ":" + exprString(r.Fset, lhs)
					tv, has := info.Types[as.Rhs[i]]
					if has && tv.Value != nil && tv.Value.String() == "true" {
						r.Pass(rule, construct, as.Pos(), "the mark is only ever set")
					} else {
						r.Fail(rule, construct, as.Pos(), "%s is assigned %s, which can be false: a cursor marked partial because a component under it was skipped is unmarked by a later child that completed, and its incomplete reach is then cached and returned for every later query", exprString(r.Fset, lhs), exprString(r.Fset, as.Rhs[i]))
					}
				}
				return true
			})
		}
	}
	if n < 2 {
		r.Undecide("C15-R6: fewer than two writes of a boolean mark of reachCursor found (%d)", n)
	}
}

func checkNodeIDsNotNarrowed(r *Run, rule string, pkgs ...*packages.Package) {
	scanned, bad := 0, 0
	for _, p := range pkgs {
		info := p.TypesInfo
		for _, f := range p.Syntax {
			if strings.HasSuffix(r.Fset.Position(f.Pos()).Filename, "_test.go") {
				continue
			}
			for _, d := range f.Decls {
				fd, ok := d.(*ast.FuncDecl)
				if !ok || fd.Body == nil {
					continue
				}
				ast.Inspect(fd.Body, func(x ast.Node) bool {
					call, ok := x.(*ast.CallExpr)
					if !ok {
						return true
					}
					narrowed := ""
					if sel, ok := call.Fun.(*ast.SelectorExpr); ok && sel.Sel.Name == "Uint32" && len(call.Args) == 0 {
						if namedName(info.TypeOf(sel.X)) == "ID" {
							narrowed = exprString(r.Fset, call)
						}
					}
					if tv, ok := info.Types[call.Fun]; ok && tv.IsType() && len(call.Args) == 1 {
						to, ok1 := tv.Type.Underlying().(*types.Basic)
						from, ok2 := info.TypeOf(call.Args[0]).Underlying().(*types.Basic)
						if ok1 && ok2 && from.Kind() == types.Uint64 && (to.Kind() == types.Uint32 || to.Kind() == types.Int32 || to.Kind() == types.Uint16 || to.Kind() == types.Int16) {
							narrowed = exprString(r.Fset, call)
						}
						if ok1 && ok2 && from.Kind() == types.Uint64 {
							scanned++
						}
					}
					if narrowed != "" {
						bad++
						r.Fail(rule, funcDisplayName(fd)+":"+narrowed, call.Pos(), "a 64-bit node or component ID is narrowed (%s): IDs that differ by a multiple of 2^32 become one key, so membership tests on the set keyed this way answer for the wrong node — components are split or nodes end up in none, for graphs with wide IDs only", narrowed)
					}
					return true
				})
			}
		}
	}
	r.Ob(rule, "scanned", token.NoPos, true, "%d conversions of 64-bit values examined, %d narrow an ID", scanned, bad)
}
