package main

// C02 — optimisation is result-preserving: guard-slice table (E5g) and private-copy rule.

import (
	"go/ast"
	"go/token"
	"go/types"
	"strings"

	"golang.org/x/tools/go/packages"
)

func init() { register("C02", checkC02) }

// guardTable: lowering decision type -> model fields whose value its soundness depends on (confirmed by reading).
var guardTable = map[string][]string{
	"LimitPushdownDecision": {"Projection.Limit", "Projection.Skip", "Projection.Order", "Projection.Distinct", "Match.Optional",
		"PatternPart.AllShortestPathsPattern", "SinglePartQuery.UpdatingClauses", "MultiPartQueryPart.UpdatingClauses"},
	"ExactRangeExpansionDecision": {"PatternPart.ShortestPathPattern", "PatternPart.AllShortestPathsPattern", "RelationshipPattern.Direction",
		"RelationshipPattern.Variable", "RelationshipPattern.Range", "Match.Optional"},
}

func checkC02(r *Run) propMeta {
	meta := propMeta{Level: "other",
		Explanation: "Decides two structural necessary conditions of result-preserving optimisation: (R1) guard slice — for each armed lowering decision type, the union of query-model fields read by the conditions that control its construction site (enclosing conditions, preceding exit guards, the functions those conditions call, and the same for callers up the call chain) contains every model fact the lowering's soundness depends on (LIMIT pushdown: limit/skip/order/distinct, single reading clause, no updating clause, not OPTIONAL, not allShortestPaths; exact-range expansion: not (all)shortestPath, direction not both, no relationship variable, range, not OPTIONAL); dropping one of these tests makes the lowering fire for queries whose result it changes; (R2) private copy — optimiser rules only ever see cypher.Copy(query) (shared with C05-R3). (R3) usage classifiers — in an eligibility collector that classifies every occurrence of a variable through an if/else chain of counters, the only branch allowed to count nothing is the one that matches the variable's declaration position (Alias/Variable field of its parent); a non-counting branch for an occurrence in an expression field exempts a read. (R4) set before toggle — a boolean field that is both set absolutely and toggled (TraversalStep.PathReversed: set by the optimiser's pattern reversal, toggled by each direction flip) is never set after a call that can reach a toggler, so a flip is never overwritten. (R5) reversal bindings — the pattern reversal sees, as bound, the symbols of earlier pattern parts of the same MATCH and the aliases of a preceding WITH. The other lowering decision types are listed as unarmed. NOT decided: equivalence of optimised and unoptimised SQL over all graphs — that is program equivalence and out of reach for this technique.",
		Assumptions: []string{"the guard table lists the facts confirmed by reading each eligibility predicate; it is a necessary, not sufficient, set"},
		TrustedBase: []string{"go/types", "this analyser"}}
	if err := r.Load("./cypher/...", "./graph/..."); err != nil {
		r.Fatal("load: %v", err)
	}
	op := r.MustPkg("cypher/models/pgsql/optimize")
	cg := BuildCallGraph(r, func(p string) bool { return strings.Contains(p, "/cypher/models") || strings.HasSuffix(p, "/graph") })
	info := op.TypesInfo
	// all decision types constructed in package optimize
	armed, unarmed := map[string]bool{}, map[string]bool{}
	for _, f := range op.Syntax {
		for _, d := range f.Decls {
			fd, ok := d.(*ast.FuncDecl)
			if !ok || fd.Body == nil {
				continue
			}
			fn, _ := info.Defs[fd.Name].(*types.Func)
			ast.Inspect(fd.Body, func(n ast.Node) bool {
				cl, ok := n.(*ast.CompositeLit)
				if !ok {
					return true
				}
				tv, ok := info.Types[cl]
				if !ok {
					return true
				}
				name := namedName(tv.Type)
				if !strings.HasSuffix(name, "Decision") || namedOf(tv.Type) == nil || namedOf(tv.Type).Obj().Pkg() != op.Types {
					return true
				}
				want, isArmed := guardTable[name]
				if !isArmed {
					unarmed[name] = true
					return true
				}
				armed[name] = true
				got := map[string]bool{}
				guardFieldsAt(op, cg, fn, fd, cl.Pos(), got, 0, map[*types.Func]bool{})
				for _, w := range want {
					construct := name + "@" + funcDeclName(fd) + ":" + w
					if got[w] {
						r.Pass("C02-R1-guard-slice", construct, cl.Pos(), "read on the control slice of the construction site")
					} else {
						// alternatives: UpdatingClauses may be read through either query-part type
						if strings.HasSuffix(w, ".UpdatingClauses") && (got["SinglePartQuery.UpdatingClauses"] || got["MultiPartQueryPart.UpdatingClauses"]) {
							r.Pass("C02-R1-guard-slice", construct, cl.Pos(), "read through the sibling query-part type")
							continue
						}
						r.Fail("C02-R1-guard-slice", construct, cl.Pos(), "the decision %s is constructed without any controlling condition reading %s: the lowering now also fires for queries where it changes the result", name, w)
					}
				}
				return true
			})
		}
	}
	r.Extra["armed_decisions"] = sortedKeys(armed)
	r.Extra["unarmed_decisions"] = sortedKeys(unarmed)
	for name := range guardTable {
		if !armed[name] {
			r.Undecide("C02-R1: no construction site of %s found", name)
		}
	}
	checkInputsUnchangedOptimizeOnly(r)
	checkUsageClassifiers(r)
	checkSetBeforeToggle(r, cg)
	checkReversalSeesEarlierParts(r, op, cg)
	checkWithCarryReadsAlias(r, op, cg)
	checkClauseSymbolsAlwaysDeclared(r, op)
	checkModelBoundsNotOverridden(r, op, r.MustPkg("cypher/models/pgsql/translate"))
	checkPlanBoundDomain(r, op, r.MustPkg("cypher/models/pgsql/translate"))
	checkReorderDependencyCoverage(r, op)
	checkPathOrderUnreversed(r, r.MustPkg("cypher/models/pgsql/translate"))
	checkSequentialSwap(r, "C02-R10-sequential-swap", "a lowering that mirrors start and end for the inbound direction walks from the wrong end, so the optimised statement returns other rows than the plain translation", r.MustPkg("cypher/models/pgsql/translate"), op, r.MustPkg("cypher/models/pgsql"))
	checkCollectorGrows(r, "C02-R11-collector-grows", r.MustPkg("cypher/models/pgsql/translate"), r.MustPkg("cypher/models/pgsql/optimize"))
	r.Floor("C02-R1-guard-slice", 12)
	return meta
}

// guardFieldsAt collects model fields read by the conditions controlling `pos` in fd, then climbs to callers.
func guardFieldsAt(p *packages.Package, cg *CallGraph, fn *types.Func, fd *ast.FuncDecl, pos token.Pos, out map[string]bool, depth int, seen map[*types.Func]bool) {
	if fd == nil || fd.Body == nil || depth > 2 {
		return
	}
	info := cg.PkgOf[fn].TypesInfo
	pk := cg.PkgOf[fn]
	addCond := func(e ast.Expr) {
		// the call we are climbing out of is not a guard of itself
		skip := map[*types.Func]bool{}
		if depth > 0 {
			ast.Inspect(e, func(m ast.Node) bool {
				if c, ok := m.(*ast.CallExpr); ok && c.Pos() == pos {
					if f := calleeOf(info, c); f != nil {
						skip[f.Origin()] = true
					}
				}
				return true
			})
		}
		fieldsOfExprDeep(pk, cg, e, out, 0, skip)
	}
	// path of nodes enclosing pos
	var path []ast.Node
	ast.Inspect(fd.Body, func(n ast.Node) bool {
		if n == nil {
			return false
		}
		if n.Pos() <= pos && pos < n.End() {
			path = append(path, n)
			return true
		}
		return false
	})
	for i, n := range path {
		switch s := n.(type) {
		case *ast.IfStmt:
			addCond(s.Cond)
			if s.Init != nil {
				ast.Inspect(s.Init, func(m ast.Node) bool {
					if e, ok := m.(ast.Expr); ok {
						addCond(e)
						return false
					}
					return true
				})
			}
		case *ast.ForStmt:
			if s.Cond != nil {
				addCond(s.Cond)
			}
		case *ast.SwitchStmt:
			if s.Tag != nil {
				addCond(s.Tag)
			}
		case *ast.CaseClause:
			for _, e := range s.List {
				addCond(e)
			}
		case *ast.BlockStmt:
			// preceding exit guards in this block
			var next ast.Node
			if i+1 < len(path) {
				next = path[i+1]
			}
			for _, st := range s.List {
				if next != nil && st.Pos() >= next.Pos() {
					break
				}
				if depth > 0 && s == fd.Body {
					break // in callers, exits at the top level of the function are unrelated to this call site's iteration
				}
				if ifs, ok := st.(*ast.IfStmt); ok && endsWithExit(ifs.Body) {
					addCond(ifs.Cond)
					if ifs.Init != nil {
						ast.Inspect(ifs.Init, func(m ast.Node) bool {
							if e, ok := m.(ast.Expr); ok {
								addCond(e)
								return false
							}
							return true
						})
					}
				}
				// assignments whose value later feeds a guard (x, ok := f(...); if !ok { return })
				if as, ok := st.(*ast.AssignStmt); ok {
					for _, rhs := range as.Rhs {
						if call, ok := rhs.(*ast.CallExpr); ok {
							// only when followed by an exit guard on one of the assigned variables
							_ = call
							addCondIfGuarded(info, s.List, as, rhs, addCond)
						}
					}
				}
			}
		}
	}
	// climb to callers
	if seen[fn] {
		return
	}
	seen[fn] = true
	for _, e := range cg.In[fn] {
		if e.Kind != "static" {
			continue
		}
		guardFieldsAt(p, cg, e.From, cg.Decl[e.From], e.Pos, out, depth+1, seen)
	}
}

func endsWithExit(b *ast.BlockStmt) bool {
	if len(b.List) == 0 {
		return false
	}
	switch s := b.List[len(b.List)-1].(type) {
	case *ast.ReturnStmt:
		return true
	case *ast.BranchStmt:
		return s.Tok == token.CONTINUE || s.Tok == token.BREAK
	}
	return false
}

// addCondIfGuarded: `v, ok := call(...)` followed in the same block by `if !ok { exit }` or `if v == … { exit }`.
func addCondIfGuarded(info *types.Info, list []ast.Stmt, as *ast.AssignStmt, rhs ast.Expr, addCond func(ast.Expr)) {
	defs := map[types.Object]bool{}
	for _, l := range as.Lhs {
		if id, ok := l.(*ast.Ident); ok {
			if o := info.Defs[id]; o != nil {
				defs[o] = true
			} else if o := info.Uses[id]; o != nil {
				defs[o] = true
			}
		}
	}
	after := false
	for _, st := range list {
		if st == ast.Stmt(as) {
			after = true
			continue
		}
		if !after {
			continue
		}
		if ifs, ok := st.(*ast.IfStmt); ok && endsWithExit(ifs.Body) {
			uses := false
			ast.Inspect(ifs.Cond, func(m ast.Node) bool {
				if id, ok := m.(*ast.Ident); ok && defs[info.Uses[id]] {
					uses = true
				}
				return true
			})
			if uses {
				addCond(rhs)
				return
			}
		}
	}
}

// fieldsOfExprDeep: model fields selected in e, and in the bodies of module functions it calls (depth ≤ 3).
func fieldsOfExprDeep(p *packages.Package, cg *CallGraph, e ast.Node, out map[string]bool, depth int, seen map[*types.Func]bool) {
	info := p.TypesInfo
	ast.Inspect(e, func(n ast.Node) bool {
		switch x := n.(type) {
		case *ast.SelectorExpr:
			if s := info.Selections[x]; s != nil && s.Kind() == types.FieldVal {
				out[namedName(s.Recv())+"."+s.Obj().Name()] = true
			}
		case *ast.CallExpr:
			if depth < 2 {
				if fn := calleeOf(info, x); fn != nil {
					fn = fn.Origin()
					if fd := cg.Decl[fn]; fd != nil && fd.Body != nil && !seen[fn] {
						seen[fn] = true
						fieldsOfExprDeep(cg.PkgOf[fn], cg, fd.Body, out, depth+1, seen)
					}
				}
			}
		}
		return true
	})
}

// checkInputsUnchangedOptimizeOnly: R2 private copy (same rule as C05-R3, reported under C02).
func checkInputsUnchangedOptimizeOnly(r *Run) {
	sub := NewRun("C05", r.Tier, r.RepoDir, r.VerifDir)
	sub.ByPath, sub.Pkgs, sub.Fset, sub.quiet = r.ByPath, r.Pkgs, r.Fset, true
	func() {
		defer func() {
			if p := recover(); p != nil {
				if _, ok := p.(undecidedPanic); !ok {
					panic(p)
				}
			}
		}()
		checkInputsUnchanged(sub, nil)
	}()
	for _, o := range sub.Obls {
		if strings.Contains(o.Construct, "Optimiz") || strings.Contains(o.Construct, "Translate:query") {
			o.Rule = "C02-R2-private-copy"
			r.Obls = append(r.Obls, o)
			r.Counts[o.Rule]++
		}
	}
	for _, u := range sub.Undecided {
		r.Undecide("C02-R2: %s", u)
	}
}
