package main

// Behaviour-preserving edits of the constructs repaired after the third seeding round: the new rules must accept each.

func init() {
	add := func(prop string, ms ...Mutation) {
		for i := range ms {
			ms[i].Benign = true
		}
		mutations[prop] = append(mutations[prop], ms...)
	}
	add("C01",
		Mutation{Name: "benign-with-window-in-helper", File: "cypher/models/pgsql/translate/query.go",
			Old:  "\t\tif len(part.SortItems) > 0 {\n\t\t\tnextCTE.Query.OrderBy = part.SortItems\n\t\t}\n\n\t\tif part.Skip != nil {\n\t\t\tnextCTE.Query.Offset = part.Skip\n\t\t}\n\n\t\tif part.Limit != nil {\n\t\t\tnextCTE.Query.Limit = part.Limit\n\t\t}\n",
			New:  "\t\tapplyPartWindow(&nextCTE.Query, part)\n",
			Also: []Edit{{"cypher/models/pgsql/translate/query.go", "func (s *Translator) buildMultiPartQuery(", "func applyPartWindow(query *pgsql.Query, part *QueryPart) {\n\tif len(part.SortItems) > 0 {\n\t\tquery.OrderBy = part.SortItems\n\t}\n\n\tif part.Skip != nil {\n\t\tquery.Offset = part.Skip\n\t}\n\n\tif part.Limit != nil {\n\t\tquery.Limit = part.Limit\n\t}\n}\n\nfunc (s *Translator) buildMultiPartQuery("}}},
		Mutation{Name: "benign-regex-exclusion-by-early-break", File: "cypher/models/pgsql/translate/expression.go",
			Old: "\t\t\t\tif expression.Operator != pgsql.OperatorRegexMatch {\n\t\t\t\t\tif rewrittenROperand, err := rewriteStringWildCardLiteral(expression.ROperand); err != nil {\n\t\t\t\t\t\treturn err\n\t\t\t\t\t} else {\n\t\t\t\t\t\texpression.ROperand = rewrittenROperand\n\t\t\t\t\t}\n\t\t\t\t}\n",
			New: "\t\t\t\tif expression.Operator == pgsql.OperatorRegexMatch {\n\t\t\t\t\t// a regular expression is not a like pattern\n\t\t\t\t} else if rewrittenROperand, err := rewriteStringWildCardLiteral(expression.ROperand); err != nil {\n\t\t\t\t\treturn err\n\t\t\t\t} else {\n\t\t\t\t\texpression.ROperand = rewrittenROperand\n\t\t\t\t}\n"},
	)
	add("C05",
		Mutation{Name: "benign-empty-steps-tested-on-len", File: "cypher/models/pgsql/translate/relationship.go",
			Old: "\tnumSteps := len(part.TraversalSteps)\n\n\tif numSteps == 0 {\n\t\treturn nil, fmt.Errorf(\"relationship pattern encountered before any left node in pattern\")\n\t}\n",
			New: "\tif len(part.TraversalSteps) == 0 {\n\t\treturn nil, fmt.Errorf(\"relationship pattern encountered before any left node in pattern\")\n\t}\n\n\tnumSteps := len(part.TraversalSteps)\n"},
	)
	add("C07",
		Mutation{Name: "benign-repeated-key-reported-via-nil-test", File: "cypher/frontend/literal.go",
			Old: "\tif _, isRepeated := s.Map[s.nextPropertyKey]; isRepeated {\n", New: "\tif s.Map[s.nextPropertyKey] != nil {\n"},
	)
	add("C10",
		Mutation{Name: "benign-tighter-by-one-written-first", File: "cypher/models/cypher/format/format.go",
			Old: "operatorPrecedence(typedExpression.Operator)+1, typedExpression.Right)", New: "1+operatorPrecedence(typedExpression.Operator), typedExpression.Right)"},
		Mutation{Name: "benign-hoist-guard-inverted", File: "query/neo4j/rewrite.go",
			Old: "len(firstRelationshipPattern.Kinds) == 0 {", New: "!(len(firstRelationshipPattern.Kinds) > 0) {"},
	)
	add("C12",
		Mutation{Name: "benign-remove-builds-copy-from-nil", File: "graph/kind.go",
			Old: "\t\t\tremaining := make(Kinds, 0, len(s)-1)\n\t\t\tremaining = append(remaining, s[:idx]...)\n", New: "\t\t\tremaining := append(Kinds(nil), s[:idx]...)\n"},
		Mutation{Name: "benign-merge-guard-early-return", File: "graph/relationships.go",
			Old: "\tif other.Properties != nil {\n\t\t// Entities may be created without properties\n\t\tif s.Properties == nil {\n\t\t\ts.Properties = NewProperties()\n\t\t}\n\n\t\ts.Properties.Merge(other.Properties)\n\t}\n",
			New: "\tif other.Properties == nil {\n\t\treturn\n\t}\n\n\tif s.Properties == nil {\n\t\ts.Properties = NewProperties()\n\t}\n\n\ts.Properties.Merge(other.Properties)\n"},
	)
	add("C13",
		Mutation{Name: "benign-rename-operand-local", File: "cardinality/lock.go",
			Old: "func (s threadSafeDuplex[T]) And(other Provider[T]) {\n\toperand := operandOf(other)\n\n\ts.lock.Lock()\n\tdefer s.lock.Unlock()\n\n\ts.provider.And(operand)",
			New: "func (s threadSafeDuplex[T]) And(other Provider[T]) {\n\tsnapshot := operandOf(other)\n\n\ts.lock.Lock()\n\tdefer s.lock.Unlock()\n\n\ts.provider.And(snapshot)"},
	)
	add("C14",
		Mutation{Name: "benign-to-segment-ranges", File: "container/segment.go",
			Old: "\tfor nodeIndex := 0; nodeIndex < len(s.Nodes); nodeIndex += 1 {\n\t\tcursor.Node = s.Nodes[nodeIndex]\n", New: "\tfor nodeIndex := range s.Nodes {\n\t\tcursor.Node = s.Nodes[nodeIndex]\n"},
	)
	add("C17",
		Mutation{Name: "benign-error-filter-de-morgan", File: "traversal/traversal.go",
			Old: "\t\t\t\tif traversalCtx.Err() == nil || (!errors.Is(err, graph.ErrContextTimedOut) && !errors.Is(err, context.Canceled)) {",
			New: "\t\t\t\tif traversalCtx.Err() == nil || !(errors.Is(err, graph.ErrContextTimedOut) || errors.Is(err, context.Canceled)) {"},
	)
	add("C18",
		Mutation{Name: "benign-use-number-first", File: "retriever/compression.go",
			Old: "\t\tdecoder.DisallowUnknownFields()\n", New: "\t\tdecoder.UseNumber()\n\t\tdecoder.DisallowUnknownFields()\n"},
	)
	add("C20",
		Mutation{Name: "benign-seen-paths-as-bool-map", File: "retriever/types.go",
			Old:  "\t\t\tif _, seen := seenPaths[cleanPath]; seen {\n\t\t\t\treturn fmt.Errorf(\"manifest lists file %q more than once\", fileEntry.Path)\n\t\t\t}\n\n\t\t\tseenPaths[cleanPath] = struct{}{}\n",
			New:  "\t\t\tif seenTwice[cleanPath] {\n\t\t\t\treturn fmt.Errorf(\"manifest lists file %q more than once\", fileEntry.Path)\n\t\t\t}\n\n\t\t\tseenTwice[cleanPath] = true\n",
			Also: []Edit{{"retriever/types.go", "\tseenPaths := map[string]struct{}{}\n", "\tseenTwice := map[string]bool{}\n"}}},
	)
}
