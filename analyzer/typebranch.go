package main

// typeBranches: the two spellings of "dispatch on the dynamic type of x" — a type switch with a bound variable, and a
// run of `if v, ok := x.(T); ok { … }` statements (separate statements whose every arm but the last leaves, or an
// else-if chain) — presented as one list of (type, bound variable, statements).

import (
	"go/ast"
	"go/token"
	"go/types"
)

type typeBranch struct {
	Type    types.Type
	Operand types.Object // the variable holding x with the branch's type
	Body    []ast.Stmt
	Pos     token.Pos
	Node    ast.Node
}

// typeBranchesOf returns the branches of the first type dispatch found at the top level of list (the statement lists
// of nested plain blocks included). exclusive=false means two branches may both run for one value (an if-run whose
// earlier arm does not leave).
func typeBranchesOf(info *types.Info, list []ast.Stmt) (branches []typeBranch, exclusive bool, found bool) {
	for i, st := range list {
		switch t := st.(type) {
		case *ast.TypeSwitchStmt:
			for _, c := range t.Body.List {
				cc := c.(*ast.CaseClause)
				if len(cc.List) != 1 {
					continue
				}
				tv, ok := info.Types[cc.List[0]]
				if !ok {
					continue
				}
				branches = append(branches, typeBranch{Type: tv.Type, Operand: info.Implicits[cc], Body: cc.Body, Pos: cc.Pos(), Node: cc})
			}
			return branches, true, true
		case *ast.IfStmt:
			if _, _, ok := assertInit(info, t); !ok {
				continue
			}
			exclusive = true
			rest := list[i:]
			for j, s := range rest {
				ifs, ok := s.(*ast.IfStmt)
				if !ok {
					break
				}
				// an else-if chain of assertions
				for cur := ifs; cur != nil; {
					typ, obj, ok := assertInit(info, cur)
					if !ok {
						break
					}
					branches = append(branches, typeBranch{Type: typ, Operand: obj, Body: cur.Body.List, Pos: cur.Pos(), Node: cur})
					next, _ := cur.Else.(*ast.IfStmt)
					cur = next
				}
				if _, _, ok := assertInit(info, ifs); !ok {
					break
				}
				// a following separate assertion also runs unless this arm leaves
				if j+1 < len(rest) {
					if nx, ok := rest[j+1].(*ast.IfStmt); ok {
						if _, _, isAssert := assertInit(info, nx); isAssert && ifs.Else == nil && !alwaysLeaves(ifs.Body) {
							exclusive = false
						}
					}
				}
			}
			return branches, exclusive, len(branches) > 0
		case *ast.BlockStmt:
			if b, e, f := typeBranchesOf(info, t.List); f {
				return b, e, f
			}
		}
	}
	return nil, true, false
}

// assertInit matches `if v, ok := x.(T); ok { … }`.
func assertInit(info *types.Info, ifs *ast.IfStmt) (types.Type, types.Object, bool) {
	as, ok := ifs.Init.(*ast.AssignStmt)
	if !ok || as.Tok != token.DEFINE || len(as.Lhs) != 2 || len(as.Rhs) != 1 {
		return nil, nil, false
	}
	ta, ok := ast.Unparen(as.Rhs[0]).(*ast.TypeAssertExpr)
	if !ok || ta.Type == nil {
		return nil, nil, false
	}
	v, ok1 := as.Lhs[0].(*ast.Ident)
	okID, ok2 := as.Lhs[1].(*ast.Ident)
	cond, ok3 := ast.Unparen(ifs.Cond).(*ast.Ident)
	if !ok1 || !ok2 || !ok3 || info.Uses[cond] == nil || info.Uses[cond] != info.Defs[okID] {
		return nil, nil, false
	}
	tv, ok := info.Types[ta.Type]
	if !ok {
		return nil, nil, false
	}
	return tv.Type, info.Defs[v], true
}
