package main

// typeBranches: the two spellings of "dispatch on the dynamic type of x" — a type switch with a bound variable, and a
// run of `if v, ok := x.(T); ok { … }` statements (separate statements whose every arm but the last leaves, or an
// else-if chain) — presented as one list of (type, bound variable, statements).

import (
	"go/ast"
	"go/token"
	"go/types"
)

type typeBranch struct {
	Type    types.Type
	Operand types.Object // the variable holding x with the branch's type
	Body    []ast.Stmt
	Pos     token.Pos
	Node    ast.Node
}

// typeBranchesOf returns the branches of the first type dispatch found at the top level of list (the statement lists
// of nested plain blocks included). exclusive=false means two branches may both run for one value (an if-run whose
// earlier arm does not leave).
func typeBranchesOf(info *types.Info, list []ast.Stmt) (branches []typeBranch, exclusive bool, found bool) {
	for i, st := range list {
		switch t := st.(type) {
		case *ast.TypeSwitchStmt:
			for _, c := range t.Body.List {
				cc := c.(*ast.CaseClause)
				if len(cc.List) != 1 {
					continue
				}
				tv, ok := info.Types[cc.List[0]]
				if !ok {
					continue
				}
				branches = append(branches, typeBranch{Type: tv.Type, Operand: info.Implicits[cc], Body: cc.Body, Pos: cc.Pos(), Node: cc})
			}
			return branches, true, true
		case *ast.IfStmt:
			if _, _, ok := assertInit(info, t); !ok {
				continue
			}
			exclusive = true
			rest := list[i:]
			for j, s := range rest {
				ifs, ok := s.(*ast.IfStmt)
				if !ok {
					break
				}
				// an else-if chain of assertions
				for cur := ifs; cur != nil; {
					typ, obj, ok := assertInit(info, cur)
					if !ok {
						break
					}
					branches = append(branches, typeBranch{Type: typ, Operand: obj, Body: cur.Body.List, Pos: cur.Pos(), Node: cur})
					next, _ := cur.Else.(*ast.IfStmt)
					cur = next
				}
				if _, _, ok := assertInit(info, ifs); !ok {
					break
				}
				// a following separate assertion also runs unless this arm leaves
				if j+1 < len(rest) {
					if nx, ok := rest[j+1].(*ast.IfStmt); ok {
						if _, _, isAssert := assertInit(info, nx); isAssert && ifs.Else == nil && !alwaysLeaves(ifs.Body) {
							exclusive = false
						}
					}
				}
			}
			return branches, exclusive, len(branches) > 0
		case *ast.BlockStmt:
			if b, e, f := typeBranchesOf(info, t.List); f {
				return b, e, f
			}
		}
	}
	return nil, true, false
}

// assertInit matches `if v, ok := x.(T); ok { … }`.
func assertInit(info *types.Info, ifs *ast.IfStmt) (types.Type, types.Object, bool) {
	as, ok := ifs.Init.(*ast.AssignStmt)
	if !ok || as.Tok != token.DEFINE || len(as.Lhs) != 2 || len(as.Rhs) != 1 {
		return nil, nil, false
	}
	ta, ok := ast.Unparen(as.Rhs[0]).(*ast.TypeAssertExpr)
	if !ok || ta.Type == nil {
		// `if v, ok := asT(x); ok`: a helper that is nothing but the assertion
		if call, isCall := ast.Unparen(as.Rhs[0]).(*ast.CallExpr); isCall && assertionHelperType != nil {
			if typ, is := assertionHelperType(info, call); is {
				v, ok1 := as.Lhs[0].(*ast.Ident)
				okID, ok2 := as.Lhs[1].(*ast.Ident)
				cond, ok3 := ast.Unparen(ifs.Cond).(*ast.Ident)
				if ok1 && ok2 && ok3 && info.Uses[cond] != nil && info.Uses[cond] == info.Defs[okID] {
					return typ, info.Defs[v], true
				}
			}
		}
		return nil, nil, false
	}
	v, ok1 := as.Lhs[0].(*ast.Ident)
	okID, ok2 := as.Lhs[1].(*ast.Ident)
	cond, ok3 := ast.Unparen(ifs.Cond).(*ast.Ident)
	if !ok1 || !ok2 || !ok3 || info.Uses[cond] == nil || info.Uses[cond] != info.Defs[okID] {
		return nil, nil, false
	}
	tv, ok := info.Types[ta.Type]
	if !ok {
		return nil, nil, false
	}
	return tv.Type, info.Defs[v], true
}

// assertionHelperType is set by a check that has the package at hand: for a call of a same-package function whose whole
// effect is `v, ok := param.(T)` handed back as (v, true) when it holds and (zero, false) when it does not, the type T.
var assertionHelperType func(info *types.Info, call *ast.CallExpr) (types.Type, bool)

// pureAssertionHelper builds that hook for the functions of one package.
func pureAssertionHelper(decls map[string]*ast.FuncDecl, pkg *types.Package) func(info *types.Info, call *ast.CallExpr) (types.Type, bool) {
	return func(info *types.Info, call *ast.CallExpr) (types.Type, bool) {
		fn := calleeOf(info, call)
		if fn == nil || fn.Pkg() != pkg || len(call.Args) != 1 {
			return nil, false
		}
		fd := decls[declKeyOf(fn)]
		if fd == nil || fd.Body == nil || fd.Recv != nil || fd.Type.Params == nil || len(fd.Type.Params.List) != 1 || len(fd.Type.Params.List[0].Names) != 1 {
			return nil, false
		}
		param := info.Defs[fd.Type.Params.List[0].Names[0]]
		var typ types.Type
		var bound, okVar types.Object
		good := true
		yes, no := 0, 0
		ast.Inspect(fd.Body, func(n ast.Node) bool {
			switch x := n.(type) {
			case *ast.AssignStmt:
				if len(x.Lhs) == 2 && len(x.Rhs) == 1 {
					if ta, ok := ast.Unparen(x.Rhs[0]).(*ast.TypeAssertExpr); ok && ta.Type != nil {
						if id, ok := ast.Unparen(ta.X).(*ast.Ident); ok && info.Uses[id] == param && typ == nil {
							if tv, has := info.Types[ta.Type]; has {
								typ = tv.Type
								if v, ok := x.Lhs[0].(*ast.Ident); ok {
									bound = info.ObjectOf(v)
								}
								if o, ok := x.Lhs[1].(*ast.Ident); ok {
									okVar = info.ObjectOf(o)
								}
								return true
							}
						}
					}
				}
				good = false
			case *ast.ReturnStmt:
				if len(x.Results) != 2 {
					good = false
					return true
				}
				tv, has := info.Types[x.Results[1]]
				switch {
				case has && tv.Value != nil && tv.Value.String() == "true":
					// (v, true) under the assertion's ok
					id, ok := ast.Unparen(x.Results[0]).(*ast.Ident)
					holds := false
					for _, lit := range controlConds(fd.Body, x) {
						if c, isId := ast.Unparen(lit.Expr).(*ast.Ident); isId && !lit.Neg && info.Uses[c] == okVar {
							holds = true
						}
					}
					if !ok || info.Uses[id] != bound || !holds {
						good = false
					}
					yes++
				case has && tv.Value != nil && tv.Value.String() == "false":
					no++
				default:
					// `return v, ok`
					id0, ok0 := ast.Unparen(x.Results[0]).(*ast.Ident)
					id1, ok1 := ast.Unparen(x.Results[1]).(*ast.Ident)
					if ok0 && ok1 && info.Uses[id0] == bound && info.Uses[id1] == okVar && bound != nil {
						yes++
						no++
					} else {
						good = false
					}
				}
			case *ast.ExprStmt, *ast.IncDecStmt, *ast.GoStmt, *ast.DeferStmt, *ast.SendStmt, *ast.ForStmt, *ast.RangeStmt:
				good = false
			}
			return true
		})
		if !good || typ == nil || yes == 0 || no == 0 {
			return nil, false
		}
		return typ, true
	}
}
