package main

// Behaviour-preserving refactorings kept as unified diffs under <verif>/benign/<id>/patch.diff are part of the
// checker's self-test: each is applied in memory (packages.Config.Overlay) and the check of the property it was written
// against — and of every property listed for it in benign/AFFECTS.json — must stay silent: no new failing obligation and
// no "undecided". A diff whose context no longer matches the tree (the tree has moved on) is reported as skipped.

import (
	"encoding/json"
	"fmt"
	"os"
	"path/filepath"
	"sort"
	"strconv"
	"strings"
)

type patchMutation struct {
	Name    string
	Overlay map[string][]byte
	Skip    string
}

func benignPatchesFor(prop, repo, verif string) []patchMutation {
	dirs, _ := filepath.Glob(filepath.Join(verif, "benign", "*", "patch.diff"))
	sort.Strings(dirs)
	affects := map[string][]string{}
	if b, err := os.ReadFile(filepath.Join(verif, "benign", "AFFECTS.json")); err == nil {
		_ = json.Unmarshal(b, &affects)
	}
	var out []patchMutation
	for _, pf := range dirs {
		id := filepath.Base(filepath.Dir(pf))
		var meta struct {
			Property string `json:"property"`
		}
		if b, err := os.ReadFile(filepath.Join(filepath.Dir(pf), "meta.json")); err == nil {
			_ = json.Unmarshal(b, &meta)
		}
		applies := meta.Property == prop
		for _, p := range affects[id] {
			if p == prop {
				applies = true
			}
		}
		if !applies {
			continue
		}
		text, err := os.ReadFile(pf)
		if err != nil {
			continue
		}
		ov, why := applyUnifiedDiff(repo, string(text))
		out = append(out, patchMutation{Name: "refactoring:" + id, Overlay: ov, Skip: why})
	}
	return out
}

// applyUnifiedDiff applies a git-style unified diff to the files under repo and returns the new contents keyed by
// absolute path. Only modifications and additions of files are supported.
func applyUnifiedDiff(repo, patch string) (map[string][]byte, string) {
	ov := map[string][]byte{}
	lines := strings.Split(patch, "\n")
	i := 0
	for i < len(lines) {
		if !strings.HasPrefix(lines[i], "--- ") {
			i++
			continue
		}
		if i+1 >= len(lines) || !strings.HasPrefix(lines[i+1], "+++ ") {
			return nil, "malformed diff header"
		}
		oldName := strings.TrimSpace(strings.TrimPrefix(lines[i], "--- "))
		newName := strings.TrimSpace(strings.TrimPrefix(lines[i+1], "+++ "))
		i += 2
		if newName == "/dev/null" {
			return nil, "file deletion not supported"
		}
		rel := strings.TrimPrefix(newName, "b/")
		path := filepath.Join(repo, rel)
		var src []string
		if oldName != "/dev/null" {
			b, have := ov[path]
			if !have {
				var err error
				b, err = os.ReadFile(path)
				if err != nil {
					return nil, err.Error()
				}
			}
			src = strings.Split(string(b), "\n")
		}
		var out []string
		cursor := 0 // next unread line of src
		for i < len(lines) && strings.HasPrefix(lines[i], "@@") {
			// @@ -a,b +c,d @@
			hdr := lines[i]
			i++
			fields := strings.Fields(hdr)
			if len(fields) < 3 {
				return nil, "malformed hunk header"
			}
			start, _ := strconv.Atoi(strings.SplitN(strings.TrimPrefix(fields[1], "-"), ",", 2)[0])
			var oldLines, newLines []string
			for i < len(lines) {
				l := lines[i]
				if strings.HasPrefix(l, "@@") || strings.HasPrefix(l, "diff ") || strings.HasPrefix(l, "--- ") {
					break
				}
				switch {
				case strings.HasPrefix(l, "+"):
					newLines = append(newLines, l[1:])
				case strings.HasPrefix(l, "-"):
					oldLines = append(oldLines, l[1:])
				case strings.HasPrefix(l, " "):
					oldLines = append(oldLines, l[1:])
					newLines = append(newLines, l[1:])
				case l == "" && i == len(lines)-1:
				case l == "":
					oldLines = append(oldLines, "")
					newLines = append(newLines, "")
				case strings.HasPrefix(l, "\\"):
				default:
					return nil, "unexpected line in hunk: " + l
				}
				i++
			}
			// locate the old lines at the stated position, or nearby
			at := -1
			want := start - 1
			if oldName == "/dev/null" {
				at = 0
			} else {
				for delta := 0; delta <= 400 && at < 0; delta++ {
					for _, cand := range []int{want + delta, want - delta} {
						if cand >= cursor && cand+len(oldLines) <= len(src) && matchLines(src[cand:cand+len(oldLines)], oldLines) {
							at = cand
							break
						}
					}
				}
			}
			if at < 0 {
				return nil, fmt.Sprintf("hunk at %s:%d does not match the tree", rel, start)
			}
			out = append(out, src[cursor:at]...)
			out = append(out, newLines...)
			cursor = at + len(oldLines)
		}
		if cursor < len(src) {
			out = append(out, src[cursor:]...)
		}
		ov[path] = []byte(strings.Join(out, "\n"))
	}
	if len(ov) == 0 {
		return nil, "no file changes found in diff"
	}
	return ov, ""
}

func matchLines(a, b []string) bool {
	for i := range a {
		if a[i] != b[i] {
			return false
		}
	}
	return true
}
