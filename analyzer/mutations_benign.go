package main

// Behaviour-preserving edits: renames, helper extraction, reordering of independent statements, consolidation of
// duplicated code. The property still holds after each of them, so the check must report nothing new and must not
// become undecided. They guard the rules against matching on incidental spelling or layout.

func init() {
	add := func(prop string, ms ...Mutation) {
		for i := range ms {
			ms[i].Benign = true
		}
		mutations[prop] = append(mutations[prop], ms...)
	}
	add("C01",
		Mutation{Name: "benign-rename-endpoint-parameter", File: "cypher/models/pgsql/translate/count_fast_path.go",
			Old: "func constrainedCountStoreEndpoint(nodePattern *cypher.NodePattern) bool {\n\treturn nodePattern == nil || nodePattern.Variable != nil || len(nodePattern.Kinds) > 0 || nodePattern.Properties != nil",
			New: "func constrainedCountStoreEndpoint(endpoint *cypher.NodePattern) bool {\n\treturn endpoint == nil || endpoint.Variable != nil || len(endpoint.Kinds) > 0 || endpoint.Properties != nil"},
		Mutation{Name: "benign-rename-path-binding", File: "cypher/models/pgsql/translate/path_functions.go",
			Old: "\tif pathBinding.PathDirectionReversed {\n\t\treversePathCompositeExpressions(edgeArrayReferences)\n\t}",
			New: "\tif reversed := pathBinding; reversed.PathDirectionReversed {\n\t\treversePathCompositeExpressions(edgeArrayReferences)\n\t}"},
	)
	add("C02",
		Mutation{Name: "benign-classifier-else-if-to-switchless", File: "cypher/models/pgsql/translate/collect_id_membership.go",
			Old: "\tprojectionItem, isProjectionItem := s.stack[len(s.stack)-1].(*cypher.ProjectionItem)\n\treturn isProjectionItem && projectionItem.Alias == variable",
			New: "\titem, isItem := s.stack[len(s.stack)-1].(*cypher.ProjectionItem)\n\tif !isItem {\n\t\treturn false\n\t}\n\treturn item.Alias == variable"},
	)
	add("C03",
		Mutation{Name: "benign-kind-expression-before-frame", File: "cypher/models/pgsql/translate/create.go",
			Old: "\t\tstartNode, endNode, err := resolveEdgeEndpoints(edgeCreate)\n\t\tif err != nil {\n\t\t\treturn err\n\t\t}\n\n\t\tkindIDExpr, err := s.buildEdgeKindIDExpression(edgeCreate)",
			New: "\t\tstartNode, endNode, endpointErr := resolveEdgeEndpoints(edgeCreate)\n\t\tif endpointErr != nil {\n\t\t\treturn endpointErr\n\t\t}\n\n\t\tkindIDExpr, err := s.buildEdgeKindIDExpression(edgeCreate)"},
	)
	add("C06",
		Mutation{Name: "benign-dual-lookup-helper-generated-first", File: "cypher/models/pgsql/translate/tracking.go",
			Old: "func (s *Scope) LookupDataType(identifier pgsql.Identifier) (pgsql.DataType, bool) {\n\tif binding, bound := s.Lookup(identifier); bound {\n\t\treturn binding.DataType, true\n\t}\n\n\tif binding, bound := s.AliasedLookup(identifier); bound {\n\t\treturn binding.DataType, true\n\t}\n\n\treturn \"\", false\n}",
			New: "func (s *Scope) resolveEither(identifier pgsql.Identifier) (*BoundIdentifier, bool) {\n\tif binding, bound := s.Lookup(identifier); bound {\n\t\treturn binding, true\n\t}\n\n\treturn s.AliasedLookup(identifier)\n}\n\nfunc (s *Scope) LookupDataType(identifier pgsql.Identifier) (pgsql.DataType, bool) {\n\tif binding, bound := s.resolveEither(identifier); bound {\n\t\treturn binding.DataType, true\n\t}\n\n\treturn \"\", false\n}"},
	)
	add("C07",
		Mutation{Name: "benign-float-format-via-constant", File: "cypher/models/cypher/format/format.go",
			Old: "formatted := strconv.FormatFloat(value, 'f', -1, 64)", New: "const plainDecimal = 'f'\n\tformatted := strconv.FormatFloat(value, plainDecimal, -1, 64)"},
	)
	add("C08",
		Mutation{Name: "benign-parser-listener-first", File: "cypher/frontend/parse.go",
			Old: "\tlexer.RemoveErrorListeners()\n\tlexer.AddErrorListener(ctx)\n\n\tparserInst.RemoveErrorListeners()\n\tparserInst.AddErrorListener(ctx)\n",
			New: "\tparserInst.RemoveErrorListeners()\n\tparserInst.AddErrorListener(ctx)\n\n\tlexer.RemoveErrorListeners()\n\tlexer.AddErrorListener(ctx)\n"},
		Mutation{Name: "benign-listener-builds-error-first", File: "cypher/frontend/context.go",
			Old: "e antlr.RecognitionException) {\n\ts.AddErrors(&SyntaxError{\n\t\tLine:            line,\n\t\tColumn:          column,\n\t\tOffendingSymbol: offendingSymbol,\n\t\tMessage:         msg,\n\t})\n}",
			New: "e antlr.RecognitionException) {\n\tposition := line\n\ts.AddErrors(&SyntaxError{\n\t\tLine:            position,\n\t\tColumn:          column,\n\t\tOffendingSymbol: offendingSymbol,\n\t\tMessage:         msg,\n\t})\n}"},
	)
	add("C11",
		Mutation{Name: "benign-rename-copy-buffer", File: "cypher/models/cypher/copy.go",
			Old: "valueCopy", New: "fresh", All: true},
	)
	add("C14",
		Mutation{Name: "benign-rename-combined-set", File: "container/adjacencymap.go",
			Old: "combinedAdjacent", New: "union", All: true},
	)
	add("C15",
		Mutation{Name: "benign-rename-cached-reach", File: "algo/reach.go",
			Old: "cachedReach", New: "known", All: true},
		Mutation{Name: "benign-rename-partial-flag", File: "algo/reach.go",
			Old: "partial", New: "incomplete", All: true},
	)
	add("C16",
		Mutation{Name: "benign-rename-exists", File: "cache/nemap.go",
			Old: "\t_, exists := s.store[key]\n\n\tif exists {\n\t\tdelete(s.store, key)", New: "\t_, present := s.store[key]\n\n\tif present {\n\t\tdelete(s.store, key)"},
	)
	add("C17",
		Mutation{Name: "benign-rename-next", File: "util/channels/pipe.go",
			Old: "\t\t\tcase next, ok := <-writerC:\n\t\t\t\tif !ok {\n\t\t\t\t\t// If the writer channel has been closed then we're done reading\n\t\t\t\t\tdoneReading = true\n\t\t\t\t} else {\n\t\t\t\t\tbuffer.PushBack(next)",
			New: "\t\t\tcase value, open := <-writerC:\n\t\t\t\tif !open {\n\t\t\t\t\t// If the writer channel has been closed then we're done reading\n\t\t\t\t\tdoneReading = true\n\t\t\t\t} else {\n\t\t\t\t\tbuffer.PushBack(value)"},
	)
	add("C18",
		Mutation{Name: "benign-rename-has-after-id", File: "retriever/scan.go",
			Old: "hasAfterID", New: "resumed", All: true},
	)
	add("C19",
		Mutation{Name: "benign-rename-salt", File: "retriever/dump_checkpoint.go",
			Old: "\t\tsalt := config.Salt\n\t\tconfig.Salt = \"\"\n", New: "\t\toriginalSalt := config.Salt\n\t\tconfig.Salt = \"\"\n",
			Also: []Edit{{"retriever/dump_checkpoint.go", "sha256Hex([]byte(salt))", "sha256Hex([]byte(originalSalt))"}}},
		Mutation{Name: "benign-rename-cursor", File: "retriever/dump.go",
			Old: "lastWrittenID", New: "cursorID", All: true},
	)
	add("C20",
		Mutation{Name: "benign-header-hash-helper", File: "retriever/archive_envelope.go",
			Old: "\t\trecipient:  recipient,\n\t\theaderHash: sha256.Sum256(headerBytes),", New: "\t\trecipient:  recipient,\n\t\theaderHash: digestOfHeaderBytes(headerBytes),",
			Also: []Edit{{"retriever/archive_envelope.go", "func readEncryptedArchiveHeader(reader io.Reader)", "func digestOfHeaderBytes(raw []byte) [sha256.Size]byte {\n\treturn sha256.Sum256(raw)\n}\n\nfunc readEncryptedArchiveHeader(reader io.Reader)"}}},
		Mutation{Name: "benign-rename-resolver", File: "retriever/load.go",
			Old: "\t\tnodeIDs := newNodeIDResolver(graphEntry.NodeCount)\n", New: "\t\tsourceIDs := newNodeIDResolver(graphEntry.NodeCount)\n\t\tnodeIDs := sourceIDs\n"},
	)
	add("C03",
		Mutation{Name: "benign-rename-clause-index", File: "cypher/models/pgsql/optimize/lowering.go",
			Old: "\tfor clauseIndex, readingClause := range readingClauses {\n\t\tif readingClause == nil || readingClause.Match == nil {\n\t\t\tcontinue\n\t\t}\n\n\t\tfor patternIndex, patternPart := range readingClause.Match.Pattern {\n\t\t\ttargets[patternPart] = PatternTarget{\n\t\t\t\tQueryPartIndex: queryPartIndex,\n\t\t\t\tClauseIndex:    clauseIndex,",
			New: "\tfor position, readingClause := range readingClauses {\n\t\tif readingClause == nil || readingClause.Match == nil {\n\t\t\tcontinue\n\t\t}\n\n\t\tfor patternIndex, patternPart := range readingClause.Match.Pattern {\n\t\t\ttargets[patternPart] = PatternTarget{\n\t\t\t\tQueryPartIndex: queryPartIndex,\n\t\t\t\tClauseIndex:    position,"},
	)
	add("C10",
		Mutation{Name: "benign-copy-into-local-first", File: "query/neo4j/neo4j.go",
			Old: "\t\tquery.GetFirstReadingClause(s.query).Match.Where = cypher.Copy(typedCriteria)\n",
			New: "\t\townWhere := cypher.Copy(typedCriteria)\n\t\tquery.GetFirstReadingClause(s.query).Match.Where = ownWhere\n"},
	)
	add("C19",
		Mutation{Name: "benign-log-after-checkpoint-write", File: "retriever/dump.go",
			Old: "\t\ttotalEdges += graphEntry.EdgeCount\n\n\t\tslog.Info(\"retriever dump graph completed\",", New: "\t\ttotalEdges += graphEntry.EdgeCount\n\t\tslog.Debug(\"retriever dump checkpoint written\", slog.Int(\"graphs\", len(checkpoint.Manifest.Graphs)))\n\n\t\tslog.Info(\"retriever dump graph completed\","},
	)
	add("C20",
		Mutation{Name: "benign-manifest-strict-decoder", File: "retriever/manifest.go",
			Old: "\t} else if err := json.Unmarshal(contents, &value); err != nil {\n\t\treturn value, fmt.Errorf(\"decode manifest: %w\", err)\n",
			New: "\t} else if err := decodeSingleJSONDocument(contents, &value); err != nil {\n\t\treturn value, fmt.Errorf(\"decode manifest: %w\", err)\n",
			Also: []Edit{
				{"retriever/manifest.go", "func readManifest(inputDir string) (Manifest, error) {", "func decodeSingleJSONDocument(contents []byte, into any) error {\n\tdecoder := json.NewDecoder(bytes.NewReader(contents))\n\tif err := decoder.Decode(into); err != nil {\n\t\treturn err\n\t}\n\tif err := decoder.Decode(&struct{}{}); err != io.EOF {\n\t\treturn fmt.Errorf(\"unexpected data after the document\")\n\t}\n\treturn nil\n}\n\nfunc readManifest(inputDir string) (Manifest, error) {"},
				{"retriever/manifest.go", "import (\n", "import (\n\t\"bytes\"\n\t\"io\"\n"},
			}},
	)
	add("C16",
		Mutation{Name: "benign-update-helper-under-callers-lock", File: "cache/sieve.go",
			Old: "\tif existingEntry, exists := s.store[key]; exists {\n\t\t// Update the entry values\n\t\texistingEntry.value = value\n\t\texistingEntry.visited.Store(true)\n\t} else {\n\t\ts.putEntry(key, value)\n\t}\n}",
			New: "\tif !s.refreshLocked(key, value) {\n\t\ts.putEntry(key, value)\n\t}\n}\n\n// refreshLocked assumes the caller holds the lock.\nfunc (s *Sieve[K, V]) refreshLocked(key K, value V) bool {\n\texistingEntry, exists := s.store[key]\n\tif exists {\n\t\texistingEntry.value = value\n\t\texistingEntry.visited.Store(true)\n\t}\n\treturn exists\n}"},
	)
}
