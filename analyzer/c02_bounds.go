package main

// C02-R6 model-bound-not-overridden: a lowering reads the bounds of a variable-length pattern from the model
// (`*Range.StartIndex`, `*Range.EndIndex`) into locals, with a default for an absent bound. When a bound is outside
// what the lowering can express it must refuse; assigning the local something else after it was read from the model
// (a clamp, a normalisation) makes the lowering answer a different question than the query asked — `*0..` counted as
// `*1..`.

import (
	"go/ast"
	"go/token"
	"go/types"
	"strings"

	"golang.org/x/tools/go/packages"
)

func checkModelBoundsNotOverridden(r *Run, pkgs ...*packages.Package) {
	const rule = "C02-R6-model-bound-not-overridden"
	n := 0
	for _, p := range pkgs {
		info := p.TypesInfo
		for _, f := range p.Syntax {
			for _, d := range f.Decls {
				fd, ok := d.(*ast.FuncDecl)
				if !ok || fd.Body == nil {
					continue
				}
				// locals assigned from a dereference of a numeric pointer field of a cypher model type
				fromModel := map[cellRef]token.Pos{}
				modelField := map[cellRef]string{}
				isModelDeref := func(e ast.Expr) (string, bool) {
					star, ok := ast.Unparen(e).(*ast.StarExpr)
					if !ok {
						return "", false
					}
					sel, ok := ast.Unparen(star.X).(*ast.SelectorExpr)
					if !ok {
						return "", false
					}
					fv, ok := info.Uses[sel.Sel].(*types.Var)
					if !ok || !fv.IsField() || fv.Pkg() == nil || !strings.HasSuffix(fv.Pkg().Path(), "cypher/models/cypher") {
						return "", false
					}
					if pt, ok := fv.Type().Underlying().(*types.Pointer); ok {
						if b, ok := pt.Elem().Underlying().(*types.Basic); ok && b.Info()&types.IsNumeric != 0 {
							return fv.Name(), true
						}
					}
					return "", false
				}
				ast.Inspect(fd.Body, func(x ast.Node) bool {
					as, ok := x.(*ast.AssignStmt)
					if !ok || len(as.Lhs) != len(as.Rhs) {
						return true
					}
					for i, lhs := range as.Lhs {
						if obj, ok := cellRefOf(info, lhs); ok {
							if name, is := isModelDeref(as.Rhs[i]); is {
								if _, seen := fromModel[obj]; !seen {
									fromModel[obj] = as.Pos()
									modelField[obj] = name
								}
							}
						}
					}
					return true
				})
				for obj, readAt := range fromModel {
					n++
					var bad token.Pos
					ast.Inspect(fd.Body, func(x ast.Node) bool {
						switch t := x.(type) {
						case *ast.AssignStmt:
							for i, lhs := range t.Lhs {
								cr, ok := cellRefOf(info, lhs)
								if !ok || !(cr == obj || (cr.base == obj.base && cr.field == nil)) || t.Pos() <= readAt {
									continue
								}
								if len(t.Lhs) == len(t.Rhs) {
									if _, is := isModelDeref(t.Rhs[i]); is {
										continue
									}
								}
								if bad == token.NoPos {
									bad = t.Pos()
								}
							}
						case *ast.IncDecStmt:
							if cr, ok := cellRefOf(info, t.X); ok && cr == obj && t.Pos() > readAt && bad == token.NoPos {
								bad = t.Pos()
							}
						}
						return true
					})
					construct := funcDeclName(fd) + ":" + obj.String() + "←" + modelField[obj]
					if bad != token.NoPos {
						r.Fail(rule, construct, bad, "%s holds the pattern's %s and is assigned again after it was read from the model: the lowering then runs with a bound the query did not state (a lower bound of 0 hops turned into 1 drops the zero-length match) instead of refusing the shape", obj.String(), modelField[obj])
					} else {
						r.Pass(rule, construct, readAt, "the bound read from the model is only tested, never replaced")
					}
				}
			}
		}
	}
	if n < 2 {
		r.Undecide("C02-R6: fewer than two locals read from a pattern range bound (%d)", n)
	}
}

// checkClauseSymbolsAlwaysDeclared (R5, clause level): a clause binds its symbols for everything after it whether or
// not the rule rewrites that clause. A declaration of a clause's symbols that is conditional on one of the clause's own
// flags (OPTIONAL, …) forgets bindings: a later pattern that starts from such a symbol is then reversed as if it
// started from nothing.
func checkClauseSymbolsAlwaysDeclared(r *Run, op *packages.Package) {
	const rule = "C02-R5-reversal-bindings"
	info := op.TypesInfo
	n := 0
	for _, f := range op.Syntax {
		for _, d := range f.Decls {
			fd, ok := d.(*ast.FuncDecl)
			if !ok || fd.Body == nil {
				continue
			}
			// per clause variable: under which polarities of which of its boolean flags are its symbols declared
			type polarity struct{ plain, whenSet, whenClear bool }
			byClause := map[types.Object]*polarity{}
			flagName := map[types.Object]string{}
			first := map[types.Object]token.Pos{}
			ast.Inspect(fd.Body, func(x ast.Node) bool {
				call, ok := x.(*ast.CallExpr)
				if !ok || len(call.Args) != 2 {
					return true
				}
				callee := calleeOf(info, call)
				if callee == nil || callee.Pkg() != op.Types || !strings.HasPrefix(callee.Name(), "declare") || !strings.HasSuffix(callee.Name(), "Symbols") {
					return true
				}
				clause, ok := ast.Unparen(call.Args[1]).(*ast.Ident)
				if !ok || namedName(info.TypeOf(clause)) != "Match" {
					return true
				}
				obj := info.Uses[clause]
				if byClause[obj] == nil {
					byClause[obj] = &polarity{}
					first[obj] = call.Pos()
				}
				// polarity of the clause's own boolean flags on the path to the call
				set, clear := false, false
				var walk func(e ast.Expr, neg bool)
				walk = func(e ast.Expr, neg bool) {
					e = ast.Unparen(e)
					switch t := e.(type) {
					case *ast.UnaryExpr:
						if t.Op == token.NOT {
							walk(t.X, !neg)
						}
					case *ast.BinaryExpr:
						if (t.Op == token.LAND && !neg) || (t.Op == token.LOR && neg) {
							walk(t.X, neg)
							walk(t.Y, neg)
						}
					case *ast.SelectorExpr:
						if id, ok := ast.Unparen(t.X).(*ast.Ident); ok && info.Uses[id] == obj {
							if fv, ok := info.Uses[t.Sel].(*types.Var); ok && fv.IsField() {
								if b, ok := fv.Type().Underlying().(*types.Basic); ok && b.Kind() == types.Bool {
									flagName[obj] = fv.Name()
									if neg {
										clear = true
									} else {
										set = true
									}
								}
							}
						}
					}
				}
				for _, l := range controlConds(fd.Body, call) {
					walk(l.Expr, l.Neg)
				}
				// an earlier `if clause.Flag { …; continue }` makes the rest of the loop body the flag-clear arm
				ast.Inspect(fd.Body, func(y ast.Node) bool {
					ifs, ok := y.(*ast.IfStmt)
					if !ok || ifs.End() > call.Pos() || len(ifs.Body.List) == 0 {
						return true
					}
					switch ifs.Body.List[len(ifs.Body.List)-1].(type) {
					case *ast.BranchStmt, *ast.ReturnStmt:
						before := len(flagName)
						s0, c0 := set, clear
						set, clear = false, false
						walk(ifs.Cond, true)
						set, clear = s0 || set, c0 || clear
						_ = before
					}
					return true
				})
				switch {
				case set && !clear:
					byClause[obj].whenSet = true
				case clear && !set:
					byClause[obj].whenClear = true
				case !set && !clear:
					byClause[obj].plain = true
				}
				return true
			})
			for obj, pol := range byClause {
				n++
				construct := funcDeclName(fd) + ":declares(" + obj.Name() + ")"
				if pol.plain || (pol.whenSet && pol.whenClear) {
					r.Pass(rule, construct, first[obj], "the clause's symbols are declared whatever its flags say")
				} else {
					which := "set"
					if pol.whenClear {
						which = "clear"
					}
					r.Fail(rule, construct, first[obj], "the symbols of a MATCH are declared only when its %s flag is %s: a later pattern that starts from a symbol bound by the other kind of clause is treated as unbound and reversed, and the reversed statement no longer ties it to the earlier binding", flagName[obj], which)
				}
			}
		}
	}
	if n == 0 {
		r.Undecide("C02-R5: no declare…Symbols(declared, match) call found in package optimize")
	}
}
