package main

// C05 — translation is total, deterministic and side-effect free (structural clauses).

import (
	"go/ast"
	"go/token"
	"go/types"
	"strings"

	"golang.org/x/tools/go/packages"
)

func init() { register("C05", checkC05) }

func translateRoots(cg *CallGraph) []*types.Func {
	var roots []*types.Func
	for _, n := range []string{
		modPath + "/cypher/models/pgsql/translate.Translate",
		modPath + "/cypher/models/pgsql/translate.FromCypher",
		modPath + "/cypher/models/pgsql/translate.Translated",
		modPath + "/cypher/models/pgsql/format.Statement",
		modPath + "/cypher/models/pgsql/optimize.Optimize",
	} {
		if fn := cg.Func(n); fn != nil {
			roots = append(roots, fn)
		}
	}
	return roots
}

func checkC05(r *Run) propMeta {
	meta := propMeta{Level: "other",
		Explanation: "Decides the structural clauses of determinism and side-effect freedom of translation: (R1) every `range` over a map (and maps.Keys/Values) in a function reachable from Translate/FromCypher/Translated/format.Statement/optimize.Optimize is order-insensitive by the E9 classifier (keyed inserts/deletes, commutative accumulation, collect-then-sort, existential tests, error returns) or listed with a reason; no reachable use of time.Now, math/rand, goroutines, select or %p formatting; (R2) no reachable function writes a package-level variable outside init/sync.Once; (R3) the caller's AST reaches only the optimiser's nil test and cypher.Copy, and the caller's parameter map is only read (copied into a fresh map); (R4) translator stack pops are error-gated. (R5) a value obtained from a function that can return a negative 'not found' sentinel is compared before it is used as a slice index. NOT decided: general panic freedom and bounded running time (runtime quantities); the C06 finding ($n with bound (n)) is reported there.",
		Assumptions: []string{"calls through the caller-supplied KindMapper and context.Context are the boundary and are not followed"},
		TrustedBase: []string{"go/types", "this analyser"}}
	if err := r.Load("./cypher/...", "./graph/...", "./drivers/pg/pgutil"); err != nil {
		r.Fatal("load: %v", err)
	}
	cg := BuildCallGraph(r, func(p string) bool { return strings.Contains(p, "/cypher/") || strings.HasSuffix(p, "/graph") })
	roots := translateRoots(cg)
	if len(roots) < 3 {
		r.Fatal("translation entry points not found (%d)", len(roots))
	}
	reach := cg.Reach(roots, nil)
	r.Extra["reachable_functions"] = len(reach)
	checkMapRanges(r, cg, reach)
	checkNondeterminismSources(r, cg, reach)
	checkPackageState(r, cg, reach)
	checkInputsUnchanged(r, cg)
	checkSentinelIndexes(r, cg, reach)
	checkCountedLastElement(r, cg, reach)
	checkValueContainersUnwritten(r, cg, reach)
	checkConstantIndexGuarded(r, cg, reach)
	checkLoopProgress(r, cg, reach)
	checkPopWithinArity(r, r.MustPkg("cypher/models/pgsql/translate"))
	if gp := r.Pkg("graph"); gp != nil {
		checkAccessorsPure(r, "C05-R11-accessors-pure", gp, "Properties")
	}
	checkLockFreeMappersReadOnly(r, r.Pkg("drivers/pg/pgutil"))
	r.Floor("C05-R1-map-order", 12)
	return meta
}

// ---- E9 order-independence classifier ----------------------------------------------------------------

type orderVerdict struct {
	ok     bool
	reason string
}

func checkMapRanges(r *Run, cg *CallGraph, reach map[*types.Func]*cgEdge) {
	tbl := r.LoadTable("c05_map_ranges")
	for fn := range reach {
		fd := cg.Decl[fn]
		p := cg.PkgOf[fn]
		if fd == nil || fd.Body == nil || !strings.Contains(p.PkgPath, "/cypher/") {
			continue
		}
		n := 0
		ast.Inspect(fd.Body, func(x ast.Node) bool {
			rs, ok := x.(*ast.RangeStmt)
			if !ok {
				return true
			}
			tv, ok := p.TypesInfo.Types[rs.X]
			if !ok {
				return true
			}
			isMap := false
			if _, m := tv.Type.Underlying().(*types.Map); m {
				isMap = true
			}
			if call, isCall := ast.Unparen(rs.X).(*ast.CallExpr); isCall {
				if f := calleeOf(p.TypesInfo, call); f != nil && f.Pkg() != nil && f.Pkg().Path() == "maps" {
					isMap = true
				}
			}
			if !isMap {
				return true
			}
			n++
			construct := shortPkg(p.PkgPath) + "." + funcDeclName(fd) + ":range#" + itoa(n) + "(" + exprString(r.Fset, rs.X) + ")"
			v := classifyMapRange(p, cg, fd, rs)
			if v.ok {
				r.Pass("C05-R1-map-order", construct, rs.Pos(), "%s", v.reason)
			} else if reason, inTbl := r.InTableAt(tbl, "c05_map_ranges", shortPkg(p.PkgPath)+"."+funcDeclName(fd)+":"+lastNameOf(rs.X), p.TypesInfo, fd, "range#"+itoa(n)); inTbl {
				r.Pass("C05-R1-map-order", construct, rs.Pos(), "table: %s", reason)
			} else {
				r.Fail("C05-R1-map-order", construct, rs.Pos(), "iteration over a Go map whose body is order-sensitive (%s): repeated translation of the same query can emit different SQL or parameters", v.reason)
			}
			return true
		})
	}
}

// classifyMapRange: is every statement of the loop body order-insensitive?
func classifyMapRange(p *packages.Package, cg *CallGraph, fd *ast.FuncDecl, rs *ast.RangeStmt) orderVerdict {
	info := p.TypesInfo
	keyObjs := map[types.Object]bool{}
	for _, kv := range []ast.Expr{rs.Key, rs.Value} {
		if id, ok := kv.(*ast.Ident); ok && id.Name != "_" {
			if o := info.Defs[id]; o != nil {
				keyObjs[o] = true
			}
		}
	}
	// locals defined inside the loop body are per-iteration
	local := map[types.Object]bool{}
	ast.Inspect(rs.Body, func(n ast.Node) bool {
		if id, ok := n.(*ast.Ident); ok {
			if o := info.Defs[id]; o != nil {
				local[o] = true
			}
		}
		return true
	})
	baseObj := func(e ast.Expr) types.Object {
		for {
			switch x := ast.Unparen(e).(type) {
			case *ast.Ident:
				if o := info.Uses[x]; o != nil {
					return o
				}
				return info.Defs[x]
			case *ast.SelectorExpr:
				e = x.X
			case *ast.IndexExpr:
				e = x.X
			case *ast.StarExpr:
				e = x.X
			case *ast.CallExpr:
				return nil
			default:
				return nil
			}
		}
	}
	// max/min idiom: `if a > b { b = a }` (or with <): the assignment is a commutative-associative accumulation
	maxIdiom := map[*ast.AssignStmt]bool{}
	ast.Inspect(rs.Body, func(n ast.Node) bool {
		ifs, ok := n.(*ast.IfStmt)
		if !ok || ifs.Else != nil || len(ifs.Body.List) != 1 {
			return true
		}
		be, ok := ast.Unparen(ifs.Cond).(*ast.BinaryExpr)
		if !ok || !(be.Op == token.GTR || be.Op == token.LSS || be.Op == token.GEQ || be.Op == token.LEQ) {
			return true
		}
		as, ok := ifs.Body.List[0].(*ast.AssignStmt)
		if !ok || len(as.Lhs) != 1 || len(as.Rhs) != 1 || as.Tok != token.ASSIGN {
			return true
		}
		l, rr := exprString(p.Fset, as.Lhs[0]), exprString(p.Fset, as.Rhs[0])
		x, y := exprString(p.Fset, be.X), exprString(p.Fset, be.Y)
		if (l == x && rr == y) || (l == y && rr == x) {
			maxIdiom[as] = true
		}
		return true
	})
	var reasons []string
	bad := func(format string) orderVerdict { return orderVerdict{false, format} }
	// slices appended to inside the loop: must be sorted afterwards
	appended := map[types.Object]token.Pos{}
	var visit func(list []ast.Stmt) *orderVerdict
	visit = func(list []ast.Stmt) *orderVerdict {
		for _, st := range list {
			switch s := st.(type) {
			case *ast.AssignStmt:
				if maxIdiom[s] {
					reasons = append(reasons, "max/min accumulation")
					continue
				}
				for i, l := range s.Lhs {
					l = ast.Unparen(l)
					// m[k] = v : keyed insert
					if ix, ok := l.(*ast.IndexExpr); ok {
						if _, isMap := info.Types[ix.X].Type.Underlying().(*types.Map); isMap {
							continue
						}
						// slice element write indexed by a per-iteration value: position depends on the element only
						if bo := baseObj(ix.X); bo != nil && (local[bo] || keyObjs[bo]) {
							continue
						}
						// an element write at a running position fills the slice in iteration order, exactly as append
						// does: harmless if the slice is sorted before it is used (checked below for appended slices)
						if bo := baseObj(ix.X); bo != nil {
							if _, isSlice := info.TypeOf(ix.X).Underlying().(*types.Slice); isSlice {
								appended[bo] = s.Pos()
								continue
							}
						}
						v := bad("writes slice element " + exprString(p.Fset, l))
						return &v
					}
					lo := baseObj(l)
					if lo != nil && (local[lo] || keyObjs[lo]) {
						continue // per-iteration storage or storage owned by the iteration value
					}
					if id, ok := l.(*ast.Ident); ok && id.Name == "_" {
						continue
					}
					// accumulation
					switch s.Tok {
					case token.ADD_ASSIGN, token.OR_ASSIGN, token.AND_ASSIGN, token.MUL_ASSIGN:
						if tv, ok := info.Types[l]; ok {
							if b, ok := tv.Type.Underlying().(*types.Basic); ok && b.Info()&(types.IsInteger|types.IsBoolean) != 0 {
								continue
							}
						}
					}
					if i < len(s.Rhs) {
						rhs := ast.Unparen(s.Rhs[i])
						// x = append(x, …)
						if call, ok := rhs.(*ast.CallExpr); ok {
							if id, ok := call.Fun.(*ast.Ident); ok && id.Name == "append" {
								if lo != nil {
									appended[lo] = s.Pos()
									continue
								}
							}
							// x = x.Add(k) style keyed set insert
							if sel, ok := call.Fun.(*ast.SelectorExpr); ok && (sel.Sel.Name == "Add" || sel.Sel.Name == "Remove" || sel.Sel.Name == "Or") {
								continue
							}
						}
						// boolean / constant flag: x = true
						if tv, ok := info.Types[rhs]; ok && tv.Value != nil {
							continue
						}
						// the value assigned does not depend on the iteration: it mentions neither the key/value variables,
						// nor a variable of the loop body, nor anything the loop body assigns — every iteration that gets
						// here stores the same thing (`copy, copied = maps.Clone(m), true`)
						if iterationInvariant(info, rs.Body, rhs, local, keyObjs) {
							continue
						}
						// max/min idiom is an if; plain overwrite with a per-iteration value is a last-writer-wins selection
						v := bad("assigns " + exprString(p.Fset, l) + " from the iteration (last writer wins)")
						return &v
					}
				}
			case *ast.IncDecStmt:
				continue
			case *ast.ExprStmt:
				call, ok := s.X.(*ast.CallExpr)
				if !ok {
					continue
				}
				if id, ok := call.Fun.(*ast.Ident); ok && id.Name == "delete" {
					continue
				}
				if sel, ok := call.Fun.(*ast.SelectorExpr); ok {
					recvObj := baseObj(sel.X)
					if recvObj != nil && (local[recvObj] || keyObjs[recvObj]) {
						continue
					}
					// keyed / commutative container methods
					switch sel.Sel.Name {
					case "Add", "AddSet", "Put", "Set", "Remove", "Delete", "Or", "Insert", "Store", "MergeSet", "Track", "DependOn":
						continue
					}
					// writers are order-sensitive
					if strings.HasPrefix(sel.Sel.Name, "Write") || sel.Sel.Name == "Append" || sel.Sel.Name == "Push" || strings.HasPrefix(sel.Sel.Name, "Push") {
						v := bad("calls " + exprString(p.Fset, call.Fun) + " (output order follows map order)")
						return &v
					}
				}
				// same-package callee with a keyed-insert-only summary
				if fn := calleeOf(info, call); fn != nil {
					if sum := calleeOrderSummary(cg, fn, 0); sum {
						continue
					}
					if fn.Pkg() != nil && (fn.Pkg().Path() == "fmt" || fn.Pkg().Path() == "log/slog") {
						continue
					}
				}
				v := bad("calls " + exprString(p.Fset, call.Fun) + " with unknown effects")
				return &v
			case *ast.IfStmt:
				if s.Init != nil {
					if r := visit([]ast.Stmt{s.Init}); r != nil {
						return r
					}
				}
				if r := visit(s.Body.List); r != nil {
					return r
				}
				switch e := s.Else.(type) {
				case *ast.BlockStmt:
					if r := visit(e.List); r != nil {
						return r
					}
				case *ast.IfStmt:
					if r := visit([]ast.Stmt{e}); r != nil {
						return r
					}
				}
			case *ast.BlockStmt:
				if r := visit(s.List); r != nil {
					return r
				}
			case *ast.ForStmt:
				if r := visit(s.Body.List); r != nil {
					return r
				}
			case *ast.RangeStmt:
				if r := visit(s.Body.List); r != nil {
					return r
				}
			case *ast.SwitchStmt:
				for _, c := range s.Body.List {
					if r := visit(c.(*ast.CaseClause).Body); r != nil {
						return r
					}
				}
			case *ast.TypeSwitchStmt:
				for _, c := range s.Body.List {
					if r := visit(c.(*ast.CaseClause).Body); r != nil {
						return r
					}
				}
			case *ast.ReturnStmt:
				// return <constant…> / return …, err : whether it happens is order-independent for existential tests
				allConst := true
				for _, res := range s.Results {
					tv, ok := info.Types[res]
					isErr := ok && tv.Type != nil && tv.Type.String() == "error"
					if !(ok && (tv.Value != nil || tv.IsNil() || isErr)) {
						// returning the iteration element selects a value by map order
						allConst = false
					}
				}
				if !allConst {
					v := bad("returns a value chosen by iteration order")
					return &v
				}
				reasons = append(reasons, "existential/early error return")
			case *ast.BranchStmt:
				if s.Tok == token.BREAK {
					// find-first: an effect in this block followed by break keeps whichever match the map order yields first
					effect := false
					for _, prev := range list {
						if prev == st {
							break
						}
						switch pv := prev.(type) {
						case *ast.AssignStmt:
							if tvv, ok := info.Types[pv.Rhs[0]]; !(ok && tvv.Value != nil) {
								effect = true
							}
						case *ast.ExprStmt:
							effect = true
						}
					}
					if effect {
						v := bad("first match in map order is kept, then the loop breaks")
						return &v
					}
					reasons = append(reasons, "break after constant flag")
				}
			case *ast.DeclStmt, *ast.EmptyStmt:
			default:
				v := bad("statement kind not classified")
				return &v
			}
		}
		return nil
	}
	if v := visit(rs.Body.List); v != nil {
		return *v
	}
	// appended slices must be sorted later in the function (or be per-key local)
	for obj, pos := range appended {
		if local[obj] {
			continue
		}
		sorted := false
		ast.Inspect(fd.Body, func(n ast.Node) bool {
			call, ok := n.(*ast.CallExpr)
			if !ok || call.Pos() < pos {
				return true
			}
			fn := calleeOf(info, call)
			if fn == nil || fn.Pkg() == nil {
				return true
			}
			if (fn.Pkg().Path() == "sort" || fn.Pkg().Path() == "slices") && (strings.HasPrefix(fn.Name(), "Sort") || fn.Name() == "Strings" || fn.Name() == "Ints" || fn.Name() == "Slice" || fn.Name() == "SliceStable" || fn.Name() == "Stable") {
				for _, a := range call.Args {
					if baseObj(a) == obj {
						sorted = true
					}
				}
			}
			return true
		})
		if !sorted {
			return orderVerdict{false, "appends to " + obj.Name() + " in map order and never sorts it"}
		}
		reasons = append(reasons, "collect "+obj.Name()+" then sort")
	}
	if len(reasons) == 0 {
		return orderVerdict{true, "body consists of keyed inserts/deletes, commutative accumulation or per-iteration work only"}
	}
	return orderVerdict{true, "order-insensitive: " + strings.Join(uniqStrings(reasons), ", ")}
}

// calleeOrderSummary: the callee only performs keyed inserts / commutative merges (bounded depth).
func calleeOrderSummary(cg *CallGraph, fn *types.Func, depth int) bool {
	fd := cg.Decl[fn.Origin()]
	if fd == nil || fd.Body == nil || depth > 2 {
		return false
	}
	p := cg.PkgOf[fn.Origin()]
	ok := true
	ast.Inspect(fd.Body, func(n ast.Node) bool {
		switch s := n.(type) {
		case *ast.CallExpr:
			if id, isId := s.Fun.(*ast.Ident); isId && (id.Name == "append") {
				ok = false
			}
			if sel, isSel := s.Fun.(*ast.SelectorExpr); isSel && (strings.HasPrefix(sel.Sel.Name, "Write") || sel.Sel.Name == "Append" || strings.HasPrefix(sel.Sel.Name, "Push")) {
				ok = false
			}
			if f := calleeOf(p.TypesInfo, s); f != nil && cg.Decl[f.Origin()] != nil && f.Origin() != fn.Origin() {
				if !calleeOrderSummary(cg, f, depth+1) {
					ok = false
				}
			}
		case *ast.GoStmt, *ast.SendStmt:
			ok = false
		}
		return ok
	})
	return ok
}

func checkNondeterminismSources(r *Run, cg *CallGraph, reach map[*types.Func]*cgEdge) {
	banned := map[string]string{"time.Now": "wall-clock time", "time.Since": "wall-clock time", "math/rand.Int": "random numbers", "math/rand.Intn": "random numbers",
		"math/rand/v2.Int": "random numbers", "math/rand/v2.IntN": "random numbers", "os.Getenv": "process environment", "os.Getpid": "process identity"}
	found := 0
	for fn := range reach {
		fd := cg.Decl[fn]
		p := cg.PkgOf[fn]
		if fd == nil || fd.Body == nil || !strings.Contains(p.PkgPath, "/cypher/") {
			continue
		}
		ast.Inspect(fd.Body, func(n ast.Node) bool {
			switch x := n.(type) {
			case *ast.CallExpr:
				if f := calleeOf(p.TypesInfo, x); f != nil {
					if why, bad := banned[funcFullName(f)]; bad {
						found++
						r.Fail("C05-R1-nondeterminism-source", shortPkg(p.PkgPath)+"."+funcDeclName(fd)+":"+funcFullName(f), x.Pos(), "%s is used on a path reachable from Translate (%s): output can differ between calls", funcFullName(f), why)
					}
					if f.Pkg() != nil && f.Pkg().Path() == "fmt" {
						for _, a := range x.Args {
							if bl, ok := a.(*ast.BasicLit); ok && strings.Contains(bl.Value, "%p") {
								found++
								r.Fail("C05-R1-nondeterminism-source", shortPkg(p.PkgPath)+"."+funcDeclName(fd)+":%p", x.Pos(), "a pointer value is formatted with %%p on a path reachable from Translate")
							}
						}
					}
				}
			case *ast.GoStmt:
				found++
				r.Fail("C05-R1-nondeterminism-source", shortPkg(p.PkgPath)+"."+funcDeclName(fd)+":go", x.Pos(), "a goroutine is started on a path reachable from Translate")
			case *ast.SelectStmt:
				found++
				r.Fail("C05-R1-nondeterminism-source", shortPkg(p.PkgPath)+"."+funcDeclName(fd)+":select", x.Pos(), "a select statement on a path reachable from Translate")
			}
			return true
		})
	}
	if found == 0 {
		r.Pass("C05-R1-nondeterminism-source", "reachable-from-Translate", token.NoPos, "no time, random, environment, %%p, goroutine or select use in %d reachable functions", len(reach))
	}
}

func checkPackageState(r *Run, cg *CallGraph, reach map[*types.Func]*cgEdge) {
	tbl := r.LoadTable("c05_package_state")
	found := 0
	for fn := range reach {
		fd := cg.Decl[fn]
		p := cg.PkgOf[fn]
		if fd == nil || fd.Body == nil || fn.Name() == "init" {
			continue
		}
		info := p.TypesInfo
		isPkgVar := func(e ast.Expr) *types.Var {
			for {
				switch x := ast.Unparen(e).(type) {
				case *ast.Ident:
					if v, ok := info.Uses[x].(*types.Var); ok && v.Pkg() != nil && v.Parent() == v.Pkg().Scope() && strings.HasPrefix(v.Pkg().Path(), modPath) {
						return v
					}
					return nil
				case *ast.SelectorExpr:
					if info.Selections[x] == nil {
						// qualified identifier pkg.Var
						if v, ok := info.Uses[x.Sel].(*types.Var); ok && v.Pkg() != nil && v.Parent() == v.Pkg().Scope() && strings.HasPrefix(v.Pkg().Path(), modPath) {
							return v
						}
						return nil
					}
					e = x.X
				case *ast.IndexExpr:
					e = x.X
				case *ast.StarExpr:
					e = x.X
				default:
					return nil
				}
			}
		}
		ast.Inspect(fd.Body, func(n ast.Node) bool {
			report := func(v *types.Var, pos token.Pos, what string) {
				found++
				construct := shortPkg(v.Pkg().Path()) + "." + v.Name() + "@" + shortPkg(p.PkgPath) + "." + funcDeclName(fd)
				if reason, ok := r.InTable(tbl, "c05_package_state", construct); ok {
					r.Pass("C05-R2-package-state", construct, pos, "table: %s", reason)
				} else {
					r.Fail("C05-R2-package-state", construct, pos, "package-level variable %s.%s is %s on a path reachable from Translate: concurrent translations race and one call's state leaks into the next", shortPkg(v.Pkg().Path()), v.Name(), what)
				}
			}
			switch s := n.(type) {
			case *ast.AssignStmt:
				for _, l := range s.Lhs {
					if v := isPkgVar(l); v != nil {
						report(v, s.Pos(), "assigned")
					}
				}
			case *ast.IncDecStmt:
				if v := isPkgVar(s.X); v != nil {
					report(v, s.Pos(), "incremented")
				}
			case *ast.CallExpr:
				if id, ok := s.Fun.(*ast.Ident); ok && (id.Name == "delete" || id.Name == "clear") && len(s.Args) > 0 {
					if v := isPkgVar(s.Args[0]); v != nil {
						report(v, s.Pos(), "mutated with "+id.Name)
					}
				}
				// a package-level sync.Pool / sync.Map / atomic value is shared mutable state by construction: whatever
				// one translation puts into it the next one gets out
				if sel, ok := s.Fun.(*ast.SelectorExpr); ok {
					if v := isPkgVar(sel.X); v != nil {
						if nt := namedOf(v.Type()); nt != nil && nt.Obj().Pkg() != nil && (nt.Obj().Pkg().Path() == "sync" || nt.Obj().Pkg().Path() == "sync/atomic") {
							switch sel.Sel.Name {
							case "Lock", "Unlock", "RLock", "RUnlock", "Do":
							default:
								report(v, s.Pos(), "used through "+nt.Obj().Name()+"."+sel.Sel.Name+" (an object shared by every call)")
							}
						}
					}
				}
			}
			return true
		})
	}
	if found == 0 {
		r.Pass("C05-R2-package-state", "reachable-from-Translate", token.NoPos, "no package-level variable of the module is written by any of the %d reachable functions", len(reach))
	}
}

// checkInputsUnchanged: Translate's query argument only reaches Optimize → cypher.Copy; NewTranslator copies the parameter map.
func checkInputsUnchanged(r *Run, cg *CallGraph) {
	_ = cg
	tp := r.MustPkg("cypher/models/pgsql/translate")
	op := r.MustPkg("cypher/models/pgsql/optimize")
	info := tp.TypesInfo
	tr := FuncDecls(tp)["Translate"]
	if tr == nil {
		r.Undecide("C05-R3: translate.Translate not found")
		return
	}
	var queryP, paramsP types.Object
	for _, pl := range tr.Type.Params.List {
		for _, nm := range pl.Names {
			obj := info.Defs[nm]
			if obj == nil {
				continue
			}
			if n := namedOf(obj.Type()); n != nil && n.Obj().Name() == "RegularQuery" {
				queryP = obj
			}
			if _, ok := obj.Type().Underlying().(*types.Map); ok {
				paramsP = obj
			}
		}
	}
	if queryP == nil {
		r.Undecide("C05-R3: Translate's query parameter not identified")
		return
	}
	// uses of queryP in Translate: only as the argument of optimize.Optimize (or nil tests)
	bad := ""
	var stack []ast.Node
	ast.Inspect(tr.Body, func(n ast.Node) bool {
		if n == nil {
			stack = stack[:len(stack)-1]
			return true
		}
		stack = append(stack, n)
		id, ok := n.(*ast.Ident)
		if !ok || info.Uses[id] != queryP {
			return true
		}
		par := stack[len(stack)-2]
		switch pp := par.(type) {
		case *ast.CallExpr:
			if f := calleeOf(info, pp); f != nil && f.Pkg() == op.Types && f.Name() == "Optimize" {
				return true
			}
			bad = "passed to " + exprString(r.Fset, pp.Fun)
		case *ast.BinaryExpr:
			if isNilIdent(info, pp.X) || isNilIdent(info, pp.Y) {
				return true
			}
			bad = "used in " + exprString(r.Fset, pp)
		default:
			bad = "used in " + exprString(r.Fset, par)
		}
		return true
	})
	if bad == "" {
		r.Pass("C05-R3-inputs-unchanged", "Translate:query", tr.Pos(), "the caller's AST is only handed to optimize.Optimize")
	} else {
		r.Fail("C05-R3-inputs-unchanged", "Translate:query", tr.Pos(), "the caller's AST escapes Translate other than into optimize.Optimize (%s): it can be mutated by translation", bad)
	}
	// Optimize: its query parameter is only nil-tested and passed to cypher.Copy
	for _, oname := range []string{"Optimize", "Optimizer.Optimize"} {
		of := FuncDecls(op)[oname]
		if of == nil {
			continue
		}
		oinfo := op.TypesInfo
		var qp types.Object
		for _, pl := range of.Type.Params.List {
			for _, nm := range pl.Names {
				if o := oinfo.Defs[nm]; o != nil {
					if n := namedOf(o.Type()); n != nil && n.Obj().Name() == "RegularQuery" {
						qp = o
					}
				}
			}
		}
		bad := ""
		var st []ast.Node
		ast.Inspect(of.Body, func(n ast.Node) bool {
			if n == nil {
				st = st[:len(st)-1]
				return true
			}
			st = append(st, n)
			id, ok := n.(*ast.Ident)
			if !ok || qp == nil || oinfo.Uses[id] != qp {
				return true
			}
			par := st[len(st)-2]
			switch pp := par.(type) {
			case *ast.CallExpr:
				if f := calleeOf(oinfo, pp); f != nil && (f.Name() == "Copy" || (f.Name() == "Optimize" && oname == "Optimize")) {
					return true
				}
				bad = "passed to " + exprString(r.Fset, pp.Fun)
			case *ast.BinaryExpr:
				if isNilIdent(oinfo, pp.X) || isNilIdent(oinfo, pp.Y) {
					return true
				}
				bad = "used in " + exprString(r.Fset, pp)
			default:
				bad = "used in " + exprString(r.Fset, par)
			}
			return true
		})
		if qp != nil && bad == "" {
			r.Pass("C05-R3-inputs-unchanged", oname+":query", of.Pos(), "the input AST is only nil-tested, forwarded to the optimiser method, or deep-copied; every rule works on the copy")
		} else {
			r.Fail("C05-R3-inputs-unchanged", oname+":query", of.Pos(), "Optimize uses the caller's AST other than for the nil test and cypher.Copy (%s)", bad)
		}
	}
	// NewTranslator: parameters are ranged and copied into a fresh map; never stored or written
	if nt := FuncDecls(tp)["NewTranslator"]; nt != nil {
		var pp types.Object
		for _, pl := range nt.Type.Params.List {
			for _, nm := range pl.Names {
				if o := info.Defs[nm]; o != nil {
					if _, ok := o.Type().Underlying().(*types.Map); ok {
						pp = o
					}
				}
			}
		}
		// onlyRead: every use of the map parameter is a range, len, comparison, clone, a rebinding of the local variable,
		// or an argument of a same-package function that itself only reads the corresponding parameter (and therefore
		// cannot return or store it either)
		tdecls := FuncDecls(tp)
		var onlyRead func(fd *ast.FuncDecl, pp types.Object, depth int) string
		onlyRead = func(fd *ast.FuncDecl, pp types.Object, depth int) string {
			bad := ""
			var st []ast.Node
			ast.Inspect(fd.Body, func(n ast.Node) bool {
				if n == nil {
					st = st[:len(st)-1]
					return true
				}
				st = append(st, n)
				id, ok := n.(*ast.Ident)
				if !ok || pp == nil || info.Uses[id] != pp {
					return true
				}
				par := st[len(st)-2]
				switch x := par.(type) {
				case *ast.RangeStmt:
					if x.X == ast.Expr(id) {
						return true
					}
				case *ast.CallExpr:
					if fid, ok := x.Fun.(*ast.Ident); ok && fid.Name == "len" {
						return true
					}
					if f := calleeOf(info, x); f != nil && (f.Name() == "Clone" || f.Name() == "Copy") {
						return true
					}
					if f := calleeOf(info, x); f != nil && f.Pkg() == tp.Types && depth < 3 {
						if sig, _ := f.Type().(*types.Signature); sig != nil && sig.Recv() == nil && !sig.Variadic() {
							if hd := tdecls[f.Name()]; hd != nil && hd.Body != nil {
								for i, a := range x.Args {
									if a == ast.Expr(id) && i < sig.Params().Len() {
										if inner := onlyRead(hd, sig.Params().At(i), depth+1); inner == "" {
											return true
										} else {
											bad = f.Name() + ": " + inner
											return true
										}
									}
								}
							}
						}
					}
				case *ast.BinaryExpr:
					return true
				case *ast.AssignStmt:
					// rebinding the local parameter variable (nil default) does not touch the caller's map
					for _, l := range x.Lhs {
						if l == ast.Expr(id) {
							return true
						}
					}
				}
				bad = exprString(r.Fset, par)
				return true
			})
			return bad
		}
		bad := onlyRead(nt, pp, 0)
		if pp != nil && bad == "" {
			r.Pass("C05-R3-inputs-unchanged", "NewTranslator:parameters", nt.Pos(), "the caller's parameter map is only ranged over and copied")
		} else if pp != nil {
			r.Fail("C05-R3-inputs-unchanged", "NewTranslator:parameters", nt.Pos(), "the caller's parameter map is stored or written (%s): translation mutates its input", bad)
		}
	}
	_ = paramsP
}

// checkSentinelIndexes (R5): "no candidate" is returned as -1 by several search helpers.  A caller that uses such a
// result as a slice index without first comparing it with zero or -1 panics with `index out of range [-1]` on the
// inputs for which nothing qualifies — a crash instead of the error the general path would have returned.
func checkSentinelIndexes(r *Run, cg *CallGraph, reach map[*types.Func]*cgEdge) {
	const rule = "C05-R5-sentinel-index"
	mayReturnNegative := map[*types.Func]bool{}
	for fn, fd := range cg.Decl {
		if fd.Body == nil {
			continue
		}
		sig := fn.Type().(*types.Signature)
		if sig.Results().Len() != 1 {
			continue
		}
		if b, ok := sig.Results().At(0).Type().Underlying().(*types.Basic); !ok || b.Info()&types.IsInteger == 0 {
			continue
		}
		info := cg.PkgOf[fn].TypesInfo
		// constants and locals initialised with a negative constant
		negVars := map[types.Object]bool{}
		ast.Inspect(fd.Body, func(n ast.Node) bool {
			switch x := n.(type) {
			case *ast.AssignStmt:
				if len(x.Lhs) == len(x.Rhs) {
					for i, l := range x.Lhs {
						if id, ok := l.(*ast.Ident); ok {
							if tv, has := info.Types[x.Rhs[i]]; has && tv.Value != nil && strings.HasPrefix(tv.Value.ExactString(), "-") {
								if obj := info.Defs[id]; obj != nil {
									negVars[obj] = true
								}
							}
						}
					}
				}
			case *ast.ValueSpec:
				for i, nm := range x.Names {
					if i < len(x.Values) {
						if tv, has := info.Types[x.Values[i]]; has && tv.Value != nil && strings.HasPrefix(tv.Value.ExactString(), "-") {
							negVars[info.Defs[nm]] = true
						}
					}
				}
			}
			return true
		})
		ast.Inspect(fd.Body, func(n ast.Node) bool {
			if _, isLit := n.(*ast.FuncLit); isLit {
				return false
			}
			if ret, ok := n.(*ast.ReturnStmt); ok && len(ret.Results) == 1 {
				if tv, has := info.Types[ret.Results[0]]; has && tv.Value != nil && strings.HasPrefix(tv.Value.ExactString(), "-") {
					mayReturnNegative[fn] = true
				}
				if id, ok := ast.Unparen(ret.Results[0]).(*ast.Ident); ok && negVars[info.Uses[id]] {
					mayReturnNegative[fn] = true
				}
			}
			return true
		})
	}
	n := 0
	for fn := range reach {
		fd := cg.Decl[fn]
		if fd == nil || fd.Body == nil {
			continue
		}
		info := cg.PkgOf[fn].TypesInfo
		// locals assigned from a may-return-negative function
		sentinel := map[types.Object]*types.Func{}
		ast.Inspect(fd.Body, func(x ast.Node) bool {
			var lhs []ast.Expr
			var rhs []ast.Expr
			switch s := x.(type) {
			case *ast.AssignStmt:
				lhs, rhs = s.Lhs, s.Rhs
			case *ast.ValueSpec:
				for _, nm := range s.Names {
					lhs = append(lhs, nm)
				}
				rhs = s.Values
			}
			if len(lhs) != len(rhs) {
				return true
			}
			for i := range lhs {
				id, ok := lhs[i].(*ast.Ident)
				call, ok2 := ast.Unparen(rhs[i]).(*ast.CallExpr)
				if !ok || !ok2 {
					continue
				}
				if callee := calleeOf(info, call); callee != nil && mayReturnNegative[callee.Origin()] {
					obj := info.Defs[id]
					if obj == nil {
						obj = info.Uses[id]
					}
					if obj != nil {
						sentinel[obj] = callee
					}
				}
			}
			return true
		})
		for obj, callee := range sentinel {
			compared, indexed := false, token.NoPos
			ast.Inspect(fd.Body, func(x ast.Node) bool {
				switch y := x.(type) {
				case *ast.BinaryExpr:
					switch y.Op {
					case token.LSS, token.GEQ, token.EQL, token.NEQ, token.GTR, token.LEQ:
						for _, side := range []ast.Expr{y.X, y.Y} {
							if id, ok := ast.Unparen(side).(*ast.Ident); ok && info.Uses[id] == obj {
								compared = true
							}
						}
					}
				case *ast.IndexExpr:
					if id, ok := ast.Unparen(y.Index).(*ast.Ident); ok && info.Uses[id] == obj && indexed == token.NoPos {
						if _, isMap := info.TypeOf(y.X).Underlying().(*types.Map); !isMap {
							indexed = y.Pos()
						}
					}
				case *ast.SliceExpr:
					for _, b := range []ast.Expr{y.Low, y.High} {
						if b == nil {
							continue
						}
						ast.Inspect(b, func(k ast.Node) bool {
							if id, ok := k.(*ast.Ident); ok && info.Uses[id] == obj && indexed == token.NoPos {
								indexed = y.Pos()
							}
							return true
						})
					}
				}
				return true
			})
			if indexed == token.NoPos {
				continue
			}
			n++
			construct := shortFuncName(fn) + ":" + obj.Name()
			if compared {
				r.Pass(rule, construct, indexed, "%s (from %s, which can return a negative sentinel) is compared before it is used as an index", obj.Name(), callee.Name())
			} else {
				r.Fail(rule, construct, indexed, "%s comes from %s, which returns a negative value when nothing qualifies, and is used as an index without any comparison: those inputs crash the translation with an index-out-of-range panic instead of being answered or rejected", obj.Name(), callee.Name())
			}
		}
	}
	r.Note("%s: %d sentinel-valued indexes examined", rule, n)
}

// lastNameOf: the name a ranged-over expression ends in (`s.aliases`, `s.bindings.aliases` and `aliases` are all
// "aliases"); triage tables name the map by it, so moving a field into a sub-struct does not lose the entry.
func lastNameOf(e ast.Expr) string {
	switch x := ast.Unparen(e).(type) {
	case *ast.Ident:
		return x.Name
	case *ast.SelectorExpr:
		return x.Sel.Name
	}
	return types.ExprString(e)
}

// iterationInvariant: e mentions no per-iteration variable and no variable that the loop body assigns.
func iterationInvariant(info *types.Info, body *ast.BlockStmt, e ast.Expr, local, keyObjs map[types.Object]bool) bool {
	assigned := map[types.Object]bool{}
	ast.Inspect(body, func(n ast.Node) bool {
		switch x := n.(type) {
		case *ast.AssignStmt:
			for _, l := range x.Lhs {
				if id, ok := ast.Unparen(l).(*ast.Ident); ok {
					if o := info.ObjectOf(id); o != nil {
						assigned[o] = true
					}
				}
			}
		case *ast.IncDecStmt:
			if id, ok := ast.Unparen(x.X).(*ast.Ident); ok {
				if o := info.ObjectOf(id); o != nil {
					assigned[o] = true
				}
			}
		}
		return true
	})
	ok := true
	ast.Inspect(e, func(n ast.Node) bool {
		if id, isID := n.(*ast.Ident); isID {
			if o := info.Uses[id]; o != nil {
				if _, isVar := o.(*types.Var); isVar && (local[o] || keyObjs[o] || assigned[o]) {
					ok = false
				}
			}
		}
		return ok
	})
	return ok
}
