package main

// Stored sets are read-only on the query side.
//
// A container keeps its adjacency as bitmaps stored in struct fields (directly, or as elements of map / slice
// fields).  A query (anything reachable from a function that takes a graph.Direction, or from the read
// interface) may combine those bitmaps but must do so into a fresh or cloned bitmap: a mutating bitmap method
// whose receiver IS a stored bitmap changes what every later query sees, so the answer depends on the query
// history.  The rule resolves the receiver of every mutating call in the query-side functions to its origins
// (flow-insensitively over the function's assignments, through the package's own functions by return summary).

import (
	"go/ast"
	"go/token"
	"go/types"
	"sort"
	"strings"

	"golang.org/x/tools/go/packages"
)

var bitmapMutators = map[string]bool{"Or": true, "And": true, "AndNot": true, "Xor": true, "Add": true, "Remove": true, "CheckedAdd": true, "Clear": true}

type storedSetAnalysis struct {
	r        *Run
	p        *packages.Package
	cg       *CallGraph
	retStore map[*types.Func]string // function -> "" (not stored) or description of the stored value it returns
	busy     map[*types.Func]bool
	// extraStored lets a caller declare additional stored sources (e.g. cache getters); returns a description or "".
	extraStored func(info *types.Info, call *ast.CallExpr) string
	// ownedBase reports whether a plain (non-indexed) bitmap field selected from this base counts as stored.
	plainFields bool
}

func isCardinalityType(t types.Type) bool {
	if n := namedOf(t); n != nil && n.Obj().Pkg() != nil && strings.HasSuffix(n.Obj().Pkg().Path(), "/cardinality") {
		return true
	}
	return false
}

// origin returns a description of a stored value that e may denote, or "" when every origin is fresh/unknown.
func (a *storedSetAnalysis) origin(fn *types.Func, e ast.Expr, depth int, seen map[types.Object]bool) string {
	if depth > 8 {
		return ""
	}
	info := a.p.TypesInfo
	switch x := ast.Unparen(e).(type) {
	case *ast.IndexExpr:
		xt := info.TypeOf(x)
		if tup, ok := xt.(*types.Tuple); ok && tup.Len() > 0 {
			xt = tup.At(0).Type() // v, ok := m[k]
		}
		if !isCardinalityType(xt) {
			return ""
		}
		if sel, ok := ast.Unparen(x.X).(*ast.SelectorExpr); ok {
			if s := info.Selections[sel]; s != nil && s.Kind() == types.FieldVal {
				return "element of field " + exprString(a.r.Fset, sel)
			}
		}
		if id, ok := ast.Unparen(x.X).(*ast.Ident); ok {
			// local alias of a map/slice field
			if d := a.identOrigin(fn, id, depth+1, seen, true); d != "" {
				return d
			}
		}
		return ""
	case *ast.SelectorExpr:
		if s := info.Selections[x]; s != nil && s.Kind() == types.FieldVal && a.plainFields && isCardinalityType(info.TypeOf(x)) {
			// a field of a struct value that this function built itself (a group of locals held in one local struct) is
			// as local as the locals were: its origin is what the function put into the field
			if d, local := a.localStructFieldOrigin(fn, x, depth+1, seen); local {
				return d
			}
			return "field " + exprString(a.r.Fset, x)
		}
		return ""
	case *ast.Ident:
		return a.identOrigin(fn, x, depth+1, seen, false)
	case *ast.CallExpr:
		if sel, ok := ast.Unparen(x.Fun).(*ast.SelectorExpr); ok && sel.Sel.Name == "Clone" {
			return ""
		}
		if a.extraStored != nil {
			if d := a.extraStored(info, x); d != "" {
				return d
			}
		}
		if callee := calleeOf(info, x); callee != nil {
			if d := a.returnsStored(callee); d != "" {
				return "result of " + callee.Name() + " (" + d + ")"
			}
		}
		return ""
	case *ast.TypeAssertExpr:
		return a.origin(fn, x.X, depth+1, seen)
	}
	return ""
}

// identOrigin unions the origins of every definition of the identifier's object inside fn.
// container=true asks about a map/slice-typed local that aliases a field.
func (a *storedSetAnalysis) identOrigin(fn *types.Func, id *ast.Ident, depth int, seen map[types.Object]bool, container bool) string {
	info := a.p.TypesInfo
	obj := info.Uses[id]
	if obj == nil {
		obj = info.Defs[id]
	}
	v, ok := obj.(*types.Var)
	if !ok || v.IsField() || seen[obj] {
		return ""
	}
	seen[obj] = true
	fd := a.cg.Decl[fn]
	if fd == nil || fd.Body == nil {
		return ""
	}
	result := ""
	note := func(d string) {
		if d != "" && result == "" {
			result = d
		}
	}
	rhsOrigin := func(rhs ast.Expr) {
		if container {
			if sel, ok := ast.Unparen(rhs).(*ast.SelectorExpr); ok {
				if s := info.Selections[sel]; s != nil && s.Kind() == types.FieldVal {
					note("element of field " + exprString(a.r.Fset, sel))
				}
			}
			return
		}
		note(a.origin(fn, rhs, depth, seen))
	}
	ast.Inspect(fd, func(n ast.Node) bool {
		switch x := n.(type) {
		case *ast.AssignStmt:
			for i, l := range x.Lhs {
				lid, ok := l.(*ast.Ident)
				if !ok || (info.Defs[lid] != obj && info.Uses[lid] != obj) {
					continue
				}
				if len(x.Lhs) == len(x.Rhs) {
					rhsOrigin(x.Rhs[i])
				} else if len(x.Rhs) == 1 && i == 0 {
					rhsOrigin(x.Rhs[0]) // v, ok := m[k] / v, ok := x.(T)
				}
			}
		case *ast.ValueSpec:
			for i, name := range x.Names {
				if info.Defs[name] != obj {
					continue
				}
				if len(x.Values) == len(x.Names) {
					rhsOrigin(x.Values[i])
				} else if len(x.Values) == 1 && i == 0 {
					rhsOrigin(x.Values[0])
				}
			}
		case *ast.RangeStmt:
			if vid, ok := x.Value.(*ast.Ident); ok && info.Defs[vid] == obj && !container {
				if sel, ok := ast.Unparen(x.X).(*ast.SelectorExpr); ok {
					if s := info.Selections[sel]; s != nil && s.Kind() == types.FieldVal && isCardinalityType(v.Type()) {
						note("element of field " + exprString(a.r.Fset, sel))
					}
				}
			}
		}
		return true
	})
	return result
}

func (a *storedSetAnalysis) returnsStored(fn *types.Func) string {
	if d, ok := a.retStore[fn]; ok {
		return d
	}
	fd := a.cg.Decl[fn]
	if fd == nil || fd.Body == nil || a.cg.PkgOf[fn] != a.p || a.busy[fn] {
		return ""
	}
	a.busy[fn] = true
	defer delete(a.busy, fn)
	result := ""
	ast.Inspect(fd.Body, func(n ast.Node) bool {
		if _, ok := n.(*ast.FuncLit); ok {
			return false
		}
		if ret, ok := n.(*ast.ReturnStmt); ok {
			for _, e := range ret.Results {
				if !isCardinalityType(a.p.TypesInfo.TypeOf(e)) {
					continue
				}
				if d := a.origin(fn, e, 0, map[types.Object]bool{}); d != "" && result == "" {
					result = d
				}
			}
		}
		return true
	})
	a.retStore[fn] = result
	return result
}

// checkStoredSetsReadOnly applies the rule to package p. roots are the query-side entry points.
func checkStoredSetsReadOnly(r *Run, rule string, p *packages.Package, cg *CallGraph, roots []*types.Func, plainFields bool, extra func(info *types.Info, call *ast.CallExpr) string) int {
	a := &storedSetAnalysis{r: r, p: p, cg: cg, retStore: map[*types.Func]string{}, busy: map[*types.Func]bool{}, plainFields: plainFields, extraStored: extra}
	reach := cg.Reach(roots, func(e cgEdge) bool { return cg.PkgOf[e.To] != p })
	var fns []*types.Func
	for fn := range reach {
		if cg.PkgOf[fn] == p {
			fns = append(fns, fn)
		}
	}
	sort.Slice(fns, func(i, j int) bool { return funcFullName(fns[i]) < funcFullName(fns[j]) })
	n := 0
	for _, fn := range fns {
		fd := cg.Decl[fn]
		if fd == nil || fd.Body == nil {
			continue
		}
		dup := map[string]int{}
		ast.Inspect(fd.Body, func(node ast.Node) bool {
			call, ok := node.(*ast.CallExpr)
			if !ok {
				return true
			}
			sel, ok := ast.Unparen(call.Fun).(*ast.SelectorExpr)
			if !ok || !bitmapMutators[sel.Sel.Name] {
				return true
			}
			if s := p.TypesInfo.Selections[sel]; s == nil || s.Kind() != types.MethodVal || !isCardinalityType(s.Recv()) {
				return true
			}
			n++
			construct := shortFuncName(fn) + ":" + exprString(r.Fset, call)
			if len(construct) > 120 {
				construct = construct[:120]
			}
			dup[construct]++
			if dup[construct] > 1 {
				construct += "#" + itoa(dup[construct]) // the same call text more than once in one function
			}
			recvExpr := sel.X
			// the value the receiver variable holds here: when the statements before the call, in the same list, assign
			// it unconditionally (`x = x.Clone(); x.Or(y)`), that assignment is what reaches the call
			if id, ok := ast.Unparen(sel.X).(*ast.Ident); ok {
				if rhs := reachingAssignment(p.TypesInfo, fd.Body, call, p.TypesInfo.Uses[id]); rhs != nil {
					recvExpr = rhs
				}
			}
			if d := a.origin(fn, recvExpr, 0, map[types.Object]bool{}); d != "" {
				r.Fail(rule, construct, call.Pos(), "query-side function %s (reached from %s) calls %s on a stored bitmap (%s) without cloning it: the stored set changes and every later query on this container answers differently", fn.Name(), cg.PathTo(reach, fn), sel.Sel.Name, d)
			} else {
				r.Pass(rule, construct, call.Pos(), "receiver is fresh, cloned or a parameter")
			}
			return true
		})
	}
	return n
}

var _ = token.NoPos

// localStructFieldOrigin: for `v.f` where v is a local variable of fn whose every definition is a composite literal of a
// struct type (by value or `&T{…}`) and that is not a parameter: the union of the origins of what fn stores in f (the
// literal's value for f and later assignments `v.f = …`). local=false when v is not such a variable.
func (a *storedSetAnalysis) localStructFieldOrigin(fn *types.Func, sel *ast.SelectorExpr, depth int, seen map[types.Object]bool) (string, bool) {
	info := a.p.TypesInfo
	id, ok := ast.Unparen(sel.X).(*ast.Ident)
	if !ok {
		return "", false
	}
	v, ok := info.Uses[id].(*types.Var)
	if !ok || v.IsField() {
		return "", false
	}
	fd := a.cg.Decl[fn]
	if fd == nil || fd.Body == nil {
		return "", false
	}
	// parameters and receivers come from the caller
	isParam := false
	check := func(fl *ast.FieldList) {
		if fl == nil {
			return
		}
		for _, f := range fl.List {
			for _, nm := range f.Names {
				if info.Defs[nm] == types.Object(v) {
					isParam = true
				}
			}
		}
	}
	check(fd.Recv)
	check(fd.Type.Params)
	if isParam {
		return "", false
	}
	fieldObj := info.Selections[sel].Obj()
	var values []ast.Expr
	defs, allLits := 0, true
	literalOf := func(e ast.Expr) *ast.CompositeLit {
		e = ast.Unparen(e)
		if u, ok := e.(*ast.UnaryExpr); ok {
			e = ast.Unparen(u.X)
		}
		cl, _ := e.(*ast.CompositeLit)
		return cl
	}
	valueFn := map[ast.Expr]*types.Func{} // the function in whose body a collected value expression lives
	var ctorLiteral func(rhs ast.Expr) (*ast.CompositeLit, *types.Func)
	ctorLiteral = func(rhs ast.Expr) (*ast.CompositeLit, *types.Func) {
		// a constructor of the same package: its result is a struct literal it builds itself (returned directly, or held
		// in a local that is returned)
		call, ok := ast.Unparen(rhs).(*ast.CallExpr)
		if !ok {
			return nil, nil
		}
		callee := calleeOf(info, call)
		if callee == nil || callee.Pkg() != a.p.Types {
			return nil, nil
		}
		cd := a.cg.Decl[callee.Origin()]
		if cd == nil || cd.Body == nil {
			return nil, nil
		}
		var lit *ast.CompositeLit
		okAll := true
		ast.Inspect(cd.Body, func(n ast.Node) bool {
			switch x := n.(type) {
			case *ast.FuncLit:
				return false
			case *ast.ReturnStmt:
				if len(x.Results) != 1 {
					okAll = false
					return true
				}
				res := ast.Unparen(x.Results[0])
				if id, isID := res.(*ast.Ident); isID {
					res = ast.Unparen(resolveLocalCopy(info, cd.Body, id))
				}
				if cl := literalOf(res); cl != nil {
					lit = cl
				} else {
					okAll = false
				}
			}
			return true
		})
		if !okAll || lit == nil {
			return nil, nil
		}
		return lit, callee.Origin()
	}
	consider := func(rhs ast.Expr) {
		defs++
		cl := literalOf(rhs)
		owner := fn
		if cl == nil {
			cl, owner = ctorLiteral(rhs)
		}
		if cl == nil {
			allLits = false
			return
		}
		defer func() {
			for _, v := range values {
				if _, has := valueFn[v]; !has {
					valueFn[v] = owner
				}
			}
		}()
		for _, el := range cl.Elts {
			if kv, ok := el.(*ast.KeyValueExpr); ok {
				if k, ok := kv.Key.(*ast.Ident); ok && info.Uses[k] == fieldObj {
					values = append(values, kv.Value)
				}
			} else {
				allLits = false // positional literal: not modelled
			}
		}
	}
	ast.Inspect(fd.Body, func(n ast.Node) bool {
		switch x := n.(type) {
		case *ast.AssignStmt:
			if len(x.Lhs) == len(x.Rhs) {
				for i, l := range x.Lhs {
					if lid, ok := ast.Unparen(l).(*ast.Ident); ok && (info.Defs[lid] == types.Object(v) || info.Uses[lid] == types.Object(v)) {
						consider(x.Rhs[i])
					}
					if ls, ok := ast.Unparen(l).(*ast.SelectorExpr); ok {
						if s := info.Selections[ls]; s != nil && s.Obj() == fieldObj {
							if bid, ok := ast.Unparen(ls.X).(*ast.Ident); ok && info.Uses[bid] == types.Object(v) {
								values = append(values, x.Rhs[i])
							}
						}
					}
				}
			} else {
				for _, l := range x.Lhs {
					if lid, ok := ast.Unparen(l).(*ast.Ident); ok && (info.Defs[lid] == types.Object(v) || info.Uses[lid] == types.Object(v)) {
						defs++
						allLits = false
					}
				}
			}
		case *ast.ValueSpec:
			for i, nm := range x.Names {
				if info.Defs[nm] == types.Object(v) {
					if i < len(x.Values) {
						consider(x.Values[i])
					} else if _, isStruct := v.Type().Underlying().(*types.Struct); isStruct {
						defs++ // zero value
					} else {
						defs++
						allLits = false
					}
				}
			}
		case *ast.RangeStmt:
			for _, e := range []ast.Expr{x.Key, x.Value} {
				if lid, ok := e.(*ast.Ident); ok && info.Defs[lid] == types.Object(v) {
					defs++
					allLits = false
				}
			}
		}
		return true
	})
	if defs == 0 || !allLits {
		return "", false
	}
	for _, val := range values {
		in := fn
		if vf := valueFn[val]; vf != nil {
			in = vf
		}
		if d := a.origin(in, val, depth+1, seen); d != "" {
			return d, true
		}
	}
	return "", true
}

// reachingAssignment: the right-hand side of the last statement that assigns obj before the statement containing use, in
// the same statement list, provided no statement in between assigns obj in a nested position. nil when there is none.
func reachingAssignment(info *types.Info, body *ast.BlockStmt, use ast.Node, obj types.Object) ast.Expr {
	if obj == nil {
		return nil
	}
	var list []ast.Stmt
	idx := -1
	var find func(l []ast.Stmt)
	find = func(l []ast.Stmt) {
		for i, st := range l {
			if !nodeContains(st, use) {
				continue
			}
			list, idx = l, i
			// descend into the nested lists of st
			ast.Inspect(st, func(n ast.Node) bool {
				switch x := n.(type) {
				case *ast.BlockStmt:
					if x != nil && nodeContains(x, use) {
						find(x.List)
						return false
					}
				case *ast.CaseClause:
					if nodeContains(x, use) {
						for _, e := range x.List {
							if nodeContains(e, use) {
								return true
							}
						}
						find(x.Body)
						return false
					}
				case *ast.CommClause:
					if nodeContains(x, use) {
						find(x.Body)
						return false
					}
				}
				return true
			})
			return
		}
	}
	find(body.List)
	if idx < 0 {
		return nil
	}
	assigns := func(n ast.Node) (top ast.Expr, nested bool) {
		if as, ok := n.(*ast.AssignStmt); ok {
			for i, l := range as.Lhs {
				if id, ok := ast.Unparen(l).(*ast.Ident); ok && info.ObjectOf(id) == obj && len(as.Lhs) == len(as.Rhs) {
					return as.Rhs[i], false
				}
			}
		}
		ast.Inspect(n, func(m ast.Node) bool {
			switch x := m.(type) {
			case *ast.AssignStmt:
				for _, l := range x.Lhs {
					if id, ok := ast.Unparen(l).(*ast.Ident); ok && info.ObjectOf(id) == obj {
						nested = true
					}
				}
			case *ast.UnaryExpr:
				if x.Op == token.AND {
					if id, ok := ast.Unparen(x.X).(*ast.Ident); ok && info.ObjectOf(id) == obj {
						nested = true
					}
				}
			}
			return true
		})
		return nil, nested
	}
	for i := idx - 1; i >= 0; i-- {
		rhs, nested := assigns(list[i])
		if rhs != nil {
			return rhs
		}
		if nested {
			return nil
		}
	}
	return nil
}
