package main

// C20-R7 manifest-unique-entries: the manifest validator is the only check a plain dump directory gets before its
// fragments are read, and every later check (checksum, count, fragment shape) is per listed file. An entry that is
// listed twice passes all of them and is loaded twice. The validator must therefore hold a seen-set for every list of
// named entries it walks: graph names and fragment paths.

import (
	"go/ast"
	"go/token"
	"go/types"

	"golang.org/x/tools/go/packages"
)

func checkManifestUniqueEntries(r *Run, p *packages.Package) {
	info := p.TypesInfo
	fd := findMethod(p, "Manifest", "validate")
	if fd == nil {
		r.Undecide("C20-R7: retriever.Manifest.validate not found")
		return
	}
	// range loops of the validator over slices of structs with a string-typed naming field
	type callCtx struct {
		fd    *ast.FuncDecl             // the function the call stands in
		loops []ast.Node                // the loops around the call there
		bind  map[types.Object]ast.Expr // parameters of the callee -> the arguments
		up    *callCtx
	}
	type loop struct {
		rs    *ast.RangeStmt
		elem  types.Object
		field string
		fd    *ast.FuncDecl // the function the loop stands in
		outer []ast.Node    // the loops around it in that function
		ctx   *callCtx      // how the function was reached from the validator (nil: the validator itself)
	}
	var loops []loop
	// helpers of the validator — also methods of a local that holds what it remembers between entries — are read in place
	body := inlineFuncWith(p, fd, 2, true).Body
	allDecls := FuncDecls(p)
	var discover func(root ast.Node, in *ast.FuncDecl, ctx *callCtx, depth int)
	discover = func(root ast.Node, in *ast.FuncDecl, ctx *callCtx, depth int) {
		var stack []ast.Node
		ast.Inspect(root, func(x ast.Node) bool {
			if x == nil {
				stack = stack[:len(stack)-1]
				return false
			}
			stack = append(stack, x)
			enclosing := func() []ast.Node {
				var out []ast.Node
				for _, n := range stack[:len(stack)-1] {
					switch n.(type) {
					case *ast.RangeStmt, *ast.ForStmt:
						out = append(out, n)
					}
				}
				return out
			}
			switch t := x.(type) {
			case *ast.RangeStmt:
				if t.Value == nil {
					return true
				}
				id, ok := t.Value.(*ast.Ident)
				if !ok {
					return true
				}
				st, ok := info.TypeOf(t.Value).Underlying().(*types.Struct)
				if !ok {
					return true
				}
				for _, name := range []string{"Name", "Path"} {
					for i := 0; i < st.NumFields(); i++ {
						if f := st.Field(i); f.Name() == name {
							if b, isBasic := f.Type().Underlying().(*types.Basic); isBasic && b.Kind() == types.String {
								loops = append(loops, loop{t, info.Defs[id], name, in, enclosing(), ctx})
							}
						}
					}
				}
			case *ast.CallExpr:
				// a helper that could not be read in place (it returns from inside a loop): its loops are the validator's
				if depth >= 2 {
					return true
				}
				fn := calleeOf(info, t)
				if fn == nil || fn.Pkg() != p.Types {
					return true
				}
				hd := allDecls[declKeyOf(fn.Origin())]
				if hd == nil || hd.Body == nil || hd == in || hd == fd {
					return true
				}
				hasLoop := false
				ast.Inspect(hd.Body, func(m ast.Node) bool {
					if _, ok := m.(*ast.RangeStmt); ok {
						hasLoop = true
					}
					return !hasLoop
				})
				if !hasLoop {
					return true
				}
				bind := map[types.Object]ast.Expr{}
				i := 0
				if hd.Type.Params != nil {
					for _, pl := range hd.Type.Params.List {
						for _, nm := range pl.Names {
							if i < len(t.Args) {
								bind[info.Defs[nm]] = t.Args[i]
							}
							i++
						}
					}
				}
				discover(hd.Body, hd, &callCtx{fd: in, loops: enclosing(), bind: bind, up: ctx}, depth+1)
			}
			return true
		})
	}
	discover(body, fd, nil, 0)
	// seenScope: the map the loop keeps its seen-set in is made once for all the entries — outside the loop, outside the
	// loops around it, and, when the loop stands in a helper, outside the loops around the helper's call
	var seenScope func(m ast.Expr, in *ast.FuncDecl, around []ast.Node, ctx *callCtx, depth int) (bool, string)
	seenScope = func(m ast.Expr, in *ast.FuncDecl, around []ast.Node, ctx *callCtx, depth int) (bool, string) {
		id, ok := ast.Unparen(m).(*ast.Ident)
		if !ok || depth > 3 {
			return true, "" // a field of a longer-lived value
		}
		obj := info.Uses[id]
		if ctx != nil {
			if arg, isParam := ctx.bind[obj]; isParam {
				return seenScope(arg, ctx.fd, ctx.loops, ctx.up, depth+1)
			}
		}
		if v, isVar := obj.(*types.Var); !isVar || v.Parent() == p.Types.Scope() {
			return true, ""
		}
		for _, l := range around {
			if l.Pos() <= obj.Pos() && obj.Pos() < l.End() {
				return false, "the seen-set " + id.Name + " is made anew on every turn of a loop around the entries"
			}
		}
		if ctx != nil && len(ctx.loops) > 0 {
			return false, "the seen-set " + id.Name + " is made inside " + funcDeclName(in) + ", which is called once per turn of a loop in " + funcDeclName(ctx.fd) + ": an entry is only compared with the entries of the same turn"
		}
		if ctx != nil && ctx.up != nil {
			for c := ctx; c != nil; c = c.up {
				if len(c.loops) > 0 {
					return false, "the seen-set " + id.Name + " is made inside a helper that is called once per turn of a loop"
				}
			}
		}
		return true, ""
	}
	if len(loops) < 2 {
		r.Undecide("C20-R7: the manifest validator walks fewer than two lists of named entries (%d)", len(loops))
		return
	}
	type groupVerdict struct {
		pos        token.Pos
		typ, field string
		good       bool
		scopeWhy   string
	}
	verdicts := map[string]*groupVerdict{}
	for _, l := range loops {
		// seen-set idiom inside the loop body: a map is read with a key derived from elem.<field> and the failing branch
		// returns, and the same map is written with such a key
		derived := map[types.Object]bool{}
		var mentions func(e ast.Expr) bool
		mentions = func(e ast.Expr) bool {
			found := false
			ast.Inspect(e, func(y ast.Node) bool {
				switch t := y.(type) {
				case *ast.SelectorExpr:
					if id, ok := ast.Unparen(t.X).(*ast.Ident); ok && info.Uses[id] == l.elem && t.Sel.Name == l.field {
						found = true
					}
				case *ast.Ident:
					if derived[info.Uses[t]] {
						found = true
					}
				}
				return true
			})
			return found
		}
		// elemIs: additional objects that stand for the element (a helper's parameter) or for its naming field
		elemObjs := map[types.Object]bool{l.elem: true}
		baseMentions := mentions
		mentions = func(e ast.Expr) bool {
			if baseMentions(e) {
				return true
			}
			found := false
			ast.Inspect(e, func(y ast.Node) bool {
				if t, ok := y.(*ast.SelectorExpr); ok {
					if id, ok := ast.Unparen(t.X).(*ast.Ident); ok && elemObjs[info.Uses[id]] && t.Sel.Name == l.field {
						found = true
					}
				}
				return true
			})
			return found
		}
		markDerived := func(list []ast.Stmt) {
			for _, st := range list {
				if as, ok := st.(*ast.AssignStmt); ok && len(as.Lhs) == 1 && len(as.Rhs) == 1 && mentions(as.Rhs[0]) {
					if id, ok := as.Lhs[0].(*ast.Ident); ok {
						derived[info.ObjectOf(id)] = true
					}
				}
			}
		}
		markDerived(l.rs.Body.List)
		// the per-entry checks may live in a helper that is handed the element: its statements are read as the loop's
		scanLists := [][]ast.Stmt{l.rs.Body.List}
		decls := FuncDecls(p)
		for _, st := range l.rs.Body.List {
			ast.Inspect(st, func(y ast.Node) bool {
				if inner, ok := y.(*ast.RangeStmt); ok && inner != l.rs {
					return false
				}
				call, ok := y.(*ast.CallExpr)
				if !ok {
					return true
				}
				fn := calleeOf(info, call)
				if fn == nil || fn.Pkg() != p.Types {
					return true
				}
				hd := decls[declKeyOf(fn.Origin())]
				if hd == nil || hd.Body == nil || hd.Type.Params == nil {
					return true
				}
				i := 0
				handed := false
				for _, pl := range hd.Type.Params.List {
					for _, nm := range pl.Names {
						if i < len(call.Args) {
							if id, ok := ast.Unparen(call.Args[i]).(*ast.Ident); ok && info.Uses[id] == l.elem {
								elemObjs[info.Defs[nm]] = true
								handed = true
							}
						}
						i++
					}
				}
				if handed {
					markDerived(hd.Body.List)
					scanLists = append(scanLists, hd.Body.List)
				}
				return true
			})
		}
		reads, writes := map[string]bool{}, map[string]bool{}
		mapExprs := map[string]ast.Expr{}
		cellText := func(e ast.Expr) (string, bool) {
			switch t := ast.Unparen(e).(type) {
			case *ast.Ident:
				mapExprs[t.Name] = t
				return t.Name, true
			case *ast.SelectorExpr:
				if isFieldPath(info, t) {
					return exprString(r.Fset, t), true
				}
			}
			return "", false
		}
		for _, list := range scanLists {
			for _, st := range list {
				// only this loop's own level: nested range loops have their own obligation
				ast.Inspect(st, func(y ast.Node) bool {
					if inner, ok := y.(*ast.RangeStmt); ok && inner != l.rs {
						return false
					}
					switch t := y.(type) {
					case *ast.IfStmt:
						// `if seen[key] { return … }` over a map of bool
						if ix, ok := ast.Unparen(t.Cond).(*ast.IndexExpr); ok && mentions(ix.Index) {
							if _, isMap := info.TypeOf(ix.X).Underlying().(*types.Map); isMap {
								for _, b := range t.Body.List {
									if _, isRet := b.(*ast.ReturnStmt); isRet {
										if k, ok := cellText(ix.X); ok {
											reads[k] = true
										}
									}
								}
							}
						}
						if as, ok := t.Init.(*ast.AssignStmt); ok && len(as.Rhs) == 1 {
							if ix, ok := ast.Unparen(as.Rhs[0]).(*ast.IndexExpr); ok && mentions(ix.Index) {
								if _, isMap := info.TypeOf(ix.X).Underlying().(*types.Map); isMap {
									returns := false
									for _, b := range t.Body.List {
										if _, isRet := b.(*ast.ReturnStmt); isRet {
											returns = true
										}
									}
									if k, ok := cellText(ix.X); ok && returns {
										reads[k] = true
									}
								}
							}
						}
					case *ast.AssignStmt:
						for _, lhs := range t.Lhs {
							if ix, ok := ast.Unparen(lhs).(*ast.IndexExpr); ok && mentions(ix.Index) {
								if k, ok := cellText(ix.X); ok {
									writes[k] = true
								}
							}
						}
					}
					return true
				})
			}
		}
		unique := false
		scopeWhy := ""
		for m := range reads {
			if writes[m] {
				unique = true
				if e := mapExprs[m]; e != nil {
					if ok, why := seenScope(e, l.fd, append(append([]ast.Node{}, l.outer...), l.rs), l.ctx, 0); !ok {
						scopeWhy = why
					}
				}
			}
		}
		construct := "Manifest.validate:" + namedName(info.TypeOf(l.rs.Value)) + "." + l.field
		v := verdicts[construct]
		if v == nil {
			v = &groupVerdict{pos: l.rs.Pos(), typ: namedName(info.TypeOf(l.rs.Value)), field: l.field}
			verdicts[construct] = v
		}
		switch {
		case unique && scopeWhy == "":
			v.good = true
		case unique:
			v.scopeWhy = scopeWhy
		}
	}
	// one obligation per list of named entries: some loop over it keeps a seen-set that spans all the entries
	for _, construct := range sortedKeys(verdicts) {
		v := verdicts[construct]
		switch {
		case v.good:
			r.Pass("C20-R7-manifest-unique-entries", construct, v.pos, "a repeated %s is refused", v.field)
		case v.scopeWhy != "":
			r.Fail("C20-R7-manifest-unique-entries", construct, v.pos, "the manifest validator refuses a repeated %s only among part of the entries: %s — an entry listed twice in different parts passes every per-file check and is loaded twice", v.field, v.scopeWhy)
		default:
			r.Fail("C20-R7-manifest-unique-entries", construct, v.pos, "the manifest validator walks the %s entries without refusing a repeated %s: an entry listed twice passes every per-file check (checksum, count, shape) and is loaded twice", v.typ, v.field)
		}
	}
	_ = token.NoPos
}

// checkVerificationLoopsTotal (R8): a loop that verifies every listed fragment (calls one of the checksum verifiers for
// each entry) must reach the verifier on every iteration. A `continue` in front of it — for an entry whose lookup
// failed, say — lets an entry through unverified: a substituted fragment whose manifest path is spelled so that the
// lookup misses is promoted with the rest.
func checkVerificationLoopsTotal(r *Run, p *packages.Package) {
	const rule = "C20-R8-verification-loop-total"
	info := p.TypesInfo
	isVerifier := func(c *ast.CallExpr) bool {
		fn := calleeOf(info, c)
		if fn == nil || fn.Pkg() != p.Types {
			return false
		}
		return checksumVerifiers(p)[fn.Origin()]
	}
	n := 0
	for _, f := range p.Syntax {
		for _, d := range f.Decls {
			fd, ok := d.(*ast.FuncDecl)
			if !ok || fd.Body == nil {
				continue
			}
			ast.Inspect(fd.Body, func(x ast.Node) bool {
				rs, ok := x.(*ast.RangeStmt)
				if !ok {
					return true
				}
				// the innermost loop that directly contains the verifier call
				var verify *ast.CallExpr
				ast.Inspect(rs.Body, func(y ast.Node) bool {
					if inner, ok := y.(*ast.RangeStmt); ok && inner != rs {
						return false
					}
					if inner, ok := y.(*ast.ForStmt); ok {
						_ = inner
						return false
					}
					if c, ok := y.(*ast.CallExpr); ok && isVerifier(c) && verify == nil {
						verify = c
					}
					return true
				})
				if verify == nil {
					return true
				}
				n++
				var skip token.Pos
				ast.Inspect(rs.Body, func(y ast.Node) bool {
					if inner, ok := y.(*ast.RangeStmt); ok && inner != rs {
						return false
					}
					if br, ok := y.(*ast.BranchStmt); ok && br.Tok == token.CONTINUE && br.Pos() < verify.Pos() && skip == token.NoPos {
						skip = br.Pos()
					}
					return true
				})
				construct := funcDeclName(fd) + ":range " + exprString(r.Fset, rs.X)
				if skip != token.NoPos {
					if why, ok := skipOnlyForeignElements(r, p, fd, rs, skip); ok {
						r.Pass(rule, construct, verify.Pos(), "an iteration is skipped only for an element that is not a manifest entry: %s", why)
						return true
					}
				}
				if skip != token.NoPos {
					r.Fail(rule, construct, skip, "an iteration of the loop over %s can `continue` before %s is called: the entry it skips is accepted without its digest and size being compared, so a substituted fragment passes validation", exprString(r.Fset, rs.X), exprString(r.Fset, verify.Fun))
				} else {
					r.Pass(rule, construct, verify.Pos(), "every iteration reaches the checksum verifier")
				}
				return true
			})
		}
	}
	if n < 2 {
		r.Undecide("C20-R8: fewer than two loops that verify fragment checksums found (%d)", n)
	}
}

// checkEOFGateCountsBytes (R5, EOF gate): an io.Reader may return the last bytes together with io.EOF. The gate that
// confirms the stream ended after the final frame reads one more byte and must look at the byte count before it looks
// at the error: a success return that can be reached with n > 0 accepts an archive with a byte appended to it whenever
// the underlying reader reports data and EOF in one call.
func checkEOFGateCountsBytes(r *Run, p *packages.Package) {
	const rule = "C20-R5-envelope"
	info := p.TypesInfo
	var fd *ast.FuncDecl
	if fr := envelopeFrameReader(p); fr != nil {
		fd = envelopeEOFGate(p, fr)
	}
	if fd == nil || fd.Body == nil {
		r.Undecide("C20-R5: the end-of-stream check of the frame reader (a function returning only an error that looks at io.EOF) was not found")
		return
	}
	// the byte count of the Read call
	var count types.Object
	ast.Inspect(fd.Body, func(x ast.Node) bool {
		as, ok := x.(*ast.AssignStmt)
		if !ok || len(as.Lhs) != 2 || len(as.Rhs) != 1 {
			return true
		}
		if call, ok := as.Rhs[0].(*ast.CallExpr); ok {
			if sel, ok := call.Fun.(*ast.SelectorExpr); ok && (sel.Sel.Name == "Read" || sel.Sel.Name == "ReadFull") {
				if id, ok := as.Lhs[0].(*ast.Ident); ok {
					count = info.ObjectOf(id)
				}
			}
		}
		return true
	})
	if count == nil {
		r.Undecide("C20-R5: the EOF gate no longer reads with a byte count")
		return
	}
	// does the expression, taken as false (neg) or true, imply count == 0?
	var impliesZero func(e ast.Expr, neg bool) bool
	impliesZero = func(e ast.Expr, neg bool) bool {
		e = ast.Unparen(e)
		switch t := e.(type) {
		case *ast.UnaryExpr:
			if t.Op == token.NOT {
				return impliesZero(t.X, !neg)
			}
		case *ast.BinaryExpr:
			if t.Op == token.LAND && !neg {
				return impliesZero(t.X, false) || impliesZero(t.Y, false)
			}
			if t.Op == token.LOR && neg {
				return impliesZero(t.X, true) || impliesZero(t.Y, true)
			}
			id, ok := ast.Unparen(t.X).(*ast.Ident)
			if !ok || info.Uses[id] != count {
				return false
			}
			tv, has := info.Types[t.Y]
			if !has || tv.Value == nil || tv.Value.String() != "0" {
				return false
			}
			if neg {
				return t.Op == token.GTR || t.Op == token.NEQ
			}
			return t.Op == token.EQL || t.Op == token.LEQ
		}
		return false
	}
	n, bad := 0, token.NoPos
	var stack []ast.Node
	ast.Inspect(fd.Body, func(x ast.Node) bool {
		if x == nil {
			stack = stack[:len(stack)-1]
			return true
		}
		stack = append(stack, x)
		rs, ok := x.(*ast.ReturnStmt)
		if !ok || len(rs.Results) != 1 || !isNilIdent(info, ast.Unparen(rs.Results[0])) {
			return true
		}
		n++
		safe := false
		for _, l := range controlConds(fd.Body, rs) {
			if impliesZero(l.Expr, l.Neg) {
				safe = true
			}
		}
		// earlier ifs that leave, and earlier cases of an enclosing tagless switch
		ast.Inspect(fd.Body, func(y ast.Node) bool {
			if ifs, ok := y.(*ast.IfStmt); ok && ifs.End() <= rs.Pos() && len(ifs.Body.List) > 0 {
				if _, leaves := ifs.Body.List[len(ifs.Body.List)-1].(*ast.ReturnStmt); leaves && impliesZero(ifs.Cond, true) {
					safe = true
				}
			}
			return true
		})
		for i, a := range stack {
			sw, ok := a.(*ast.SwitchStmt)
			if !ok || sw.Tag != nil || i+2 >= len(stack) {
				continue
			}
			for _, c := range sw.Body.List {
				cc := c.(*ast.CaseClause)
				if cc.Pos() <= rs.Pos() && rs.End() <= cc.End() {
					for _, e := range cc.List {
						if impliesZero(e, false) {
							safe = true
						}
					}
					break
				}
				for _, e := range cc.List {
					if impliesZero(e, true) {
						safe = true
					}
				}
			}
		}
		if !safe && bad == token.NoPos {
			bad = rs.Pos()
		}
		return true
	})
	if n == 0 {
		r.Undecide("C20-R5: the EOF gate has no success return")
		return
	}
	if bad != token.NoPos {
		r.Fail(rule, "requireEncryptedArchiveEOF:count-before-error", bad, "the gate can report success without having ruled out that the read returned a byte: a reader that hands back data together with io.EOF (gzip, iotest.DataErrReader) makes an archive with one byte appended look complete")
	} else {
		r.Pass(rule, "requireEncryptedArchiveEOF:count-before-error", fd.Pos(), "success is reported only after the byte count was found to be zero")
	}
}

// checksumVerifiers: the functions of the package that compare a fragment's digest and size with the manifest — the
// function that can return a ChecksumMismatchError, and the functions that call it directly (found by the exported
// error type, not by private names).
func checksumVerifiers(p *packages.Package) map[*types.Func]bool {
	info := p.TypesInfo
	out := map[*types.Func]bool{}
	var core []*types.Func
	for _, fd := range declsWhere(p, func(fd *ast.FuncDecl) bool {
		found := false
		ast.Inspect(fd.Body, func(n ast.Node) bool {
			if cl, ok := n.(*ast.CompositeLit); ok && namedName(info.TypeOf(cl)) == "ChecksumMismatchError" {
				found = true
			}
			return !found
		})
		return found
	}) {
		if fn, ok := info.Defs[fd.Name].(*types.Func); ok {
			out[fn] = true
			core = append(core, fn)
		}
	}
	for _, fd := range declsWhere(p, func(fd *ast.FuncDecl) bool {
		calls := false
		ast.Inspect(fd.Body, func(n ast.Node) bool {
			if c, ok := n.(*ast.CallExpr); ok {
				if fn := calleeOf(info, c); fn != nil {
					for _, k := range core {
						if fn.Origin() == k {
							calls = true
						}
					}
				}
			}
			return !calls
		})
		// only thin wrappers: a function that itself loops over entries is a verification loop, not a verifier
		hasLoop := false
		ast.Inspect(fd.Body, func(n ast.Node) bool {
			switch n.(type) {
			case *ast.RangeStmt, *ast.ForStmt:
				hasLoop = true
			}
			return true
		})
		return calls && !hasLoop
	}) {
		if fn, ok := info.Defs[fd.Name].(*types.Func); ok {
			out[fn] = true
		}
	}
	return out
}

// skipOnlyForeignElements: the loop ranges over a list of names, fetches the manifest entry of each from a map and
// skips the names the map does not have. That verifies every entry provided every key of the map is also an element of
// the list: the expression the map is filled under and an expression appended to the list are the same function of a
// manifest entry (canonValue).
func skipOnlyForeignElements(r *Run, p *packages.Package, fd *ast.FuncDecl, rs *ast.RangeStmt, skip token.Pos) (string, bool) {
	info := p.TypesInfo
	decls := FuncDecls(p)
	elem, ok := rs.Value.(*ast.Ident)
	if !ok {
		return "", false
	}
	listID, ok := ast.Unparen(rs.X).(*ast.Ident)
	if !ok {
		return "", false
	}
	elemObj, listObj := info.ObjectOf(elem), info.ObjectOf(listID)
	// the lookup whose miss leads to the continue
	var mapObj types.Object
	var okObj types.Object
	ast.Inspect(rs.Body, func(n ast.Node) bool {
		as, isAssign := n.(*ast.AssignStmt)
		if !isAssign || len(as.Lhs) != 2 || len(as.Rhs) != 1 {
			return true
		}
		ix, isIx := ast.Unparen(as.Rhs[0]).(*ast.IndexExpr)
		if !isIx {
			return true
		}
		kid, isID := ast.Unparen(ix.Index).(*ast.Ident)
		mid, isMap := ast.Unparen(ix.X).(*ast.Ident)
		oid, isOK := as.Lhs[1].(*ast.Ident)
		if isID && isMap && isOK && info.Uses[kid] == elemObj {
			mapObj, okObj = info.Uses[mid], info.ObjectOf(oid)
		}
		return true
	})
	if mapObj == nil {
		return "", false
	}
	// the continue is controlled by !ok only
	var br *ast.BranchStmt
	ast.Inspect(rs.Body, func(n ast.Node) bool {
		if b, isBr := n.(*ast.BranchStmt); isBr && b.Pos() == skip {
			br = b
		}
		return br == nil
	})
	if br == nil {
		return "", false
	}
	lits := controlConds(rs.Body, br)
	if len(lits) != 1 {
		return "", false
	}
	negOK := false
	{
		e, neg := lits[0].Expr, lits[0].Neg
		for {
			u, isNot := ast.Unparen(e).(*ast.UnaryExpr)
			if !isNot || u.Op != token.NOT {
				break
			}
			e, neg = u.X, !neg
		}
		if id, isID := ast.Unparen(e).(*ast.Ident); isID && info.Uses[id] == okObj && neg {
			negOK = true
		}
	}
	if !negOK {
		return "", false
	}
	// keys the map is filled under
	var fillKeys []string
	collectFills := func(in *ast.FuncDecl, m types.Object) {
		ast.Inspect(in.Body, func(n ast.Node) bool {
			as, isAssign := n.(*ast.AssignStmt)
			if !isAssign {
				return true
			}
			for _, l := range as.Lhs {
				if ix, isIx := ast.Unparen(l).(*ast.IndexExpr); isIx {
					if id, isID := ast.Unparen(ix.X).(*ast.Ident); isID && info.ObjectOf(id) == m {
						fillKeys = append(fillKeys, canonValue(info, in, ix.Index))
					}
				}
			}
			return true
		})
	}
	collectFills(fd, mapObj)
	// the map may be the result of a helper
	ast.Inspect(fd.Body, func(n ast.Node) bool {
		as, isAssign := n.(*ast.AssignStmt)
		if !isAssign || len(as.Rhs) != 1 {
			return true
		}
		if id, isID := as.Lhs[0].(*ast.Ident); !isID || info.ObjectOf(id) != mapObj {
			return true
		}
		call, isCall := ast.Unparen(as.Rhs[0]).(*ast.CallExpr)
		if !isCall {
			return true
		}
		fn := calleeOf(info, call)
		if fn == nil || fn.Pkg() != p.Types {
			return true
		}
		hd := decls[declKeyOf(fn.Origin())]
		if hd == nil || hd.Body == nil {
			return true
		}
		// the helper's returned map
		ast.Inspect(hd.Body, func(m ast.Node) bool {
			if ret, isRet := m.(*ast.ReturnStmt); isRet && len(ret.Results) >= 1 {
				if rid, isID := ast.Unparen(ret.Results[0]).(*ast.Ident); isID {
					if o := info.Uses[rid]; o != nil {
						collectFills(hd, o)
					}
				}
			}
			return true
		})
		return true
	})
	if len(fillKeys) == 0 {
		return "", false
	}
	// what the list is made of
	listElems := map[string]bool{}
	ast.Inspect(fd.Body, func(n ast.Node) bool {
		as, isAssign := n.(*ast.AssignStmt)
		if !isAssign || len(as.Lhs) != 1 || len(as.Rhs) != 1 {
			return true
		}
		if id, isID := as.Lhs[0].(*ast.Ident); !isID || info.ObjectOf(id) != listObj {
			return true
		}
		if call, isCall := ast.Unparen(as.Rhs[0]).(*ast.CallExpr); isCall {
			if f, isF := ast.Unparen(call.Fun).(*ast.Ident); isF && f.Name == "append" {
				for _, a := range call.Args[1:] {
					listElems[canonValue(info, fd, a)] = true
				}
			}
		}
		return true
	})
	// the list may be the result of a helper
	ast.Inspect(fd.Body, func(n ast.Node) bool {
		as, isAssign := n.(*ast.AssignStmt)
		if !isAssign || len(as.Rhs) != 1 || len(as.Lhs) < 1 {
			return true
		}
		if id, isID := as.Lhs[0].(*ast.Ident); !isID || info.ObjectOf(id) != listObj {
			return true
		}
		call, isCall := ast.Unparen(as.Rhs[0]).(*ast.CallExpr)
		if !isCall {
			return true
		}
		fn := calleeOf(info, call)
		if fn == nil || fn.Pkg() != p.Types {
			return true
		}
		hd := decls[declKeyOf(fn.Origin())]
		if hd == nil || hd.Body == nil {
			return true
		}
		returned := map[types.Object]bool{}
		ast.Inspect(hd.Body, func(m ast.Node) bool {
			if ret, isRet := m.(*ast.ReturnStmt); isRet && len(ret.Results) >= 1 {
				if rid, isID := ast.Unparen(ret.Results[0]).(*ast.Ident); isID {
					returned[info.Uses[rid]] = true
				}
			}
			return true
		})
		ast.Inspect(hd.Body, func(m ast.Node) bool {
			a2, ok := m.(*ast.AssignStmt)
			if !ok || len(a2.Lhs) != 1 || len(a2.Rhs) != 1 {
				return true
			}
			if id, isID := a2.Lhs[0].(*ast.Ident); !isID || !returned[info.ObjectOf(id)] {
				return true
			}
			if c2, isCall := ast.Unparen(a2.Rhs[0]).(*ast.CallExpr); isCall {
				if f, isF := ast.Unparen(c2.Fun).(*ast.Ident); isF && f.Name == "append" {
					for _, a := range c2.Args[1:] {
						for _, c := range canonValues(info, hd, a) {
							listElems[c] = true
						}
					}
				}
			}
			return true
		})
		return true
	})
	for _, k := range fillKeys {
		if !listElems[k] {
			return "", false
		}
	}
	return "the map is filled under " + fillKeys[0] + ", which is also what the list is made of", true
}
