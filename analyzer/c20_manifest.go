package main

// C20-R7 manifest-unique-entries: the manifest validator is the only check a plain dump directory gets before its
// fragments are read, and every later check (checksum, count, fragment shape) is per listed file. An entry that is
// listed twice passes all of them and is loaded twice. The validator must therefore hold a seen-set for every list of
// named entries it walks: graph names and fragment paths.

import (
	"go/ast"
	"go/token"
	"go/types"

	"golang.org/x/tools/go/packages"
)

func checkManifestUniqueEntries(r *Run, p *packages.Package) {
	info := p.TypesInfo
	fd := findMethod(p, "Manifest", "validate")
	if fd == nil {
		r.Undecide("C20-R7: retriever.Manifest.validate not found")
		return
	}
	// range loops of the validator over slices of structs with a string-typed naming field
	type loop struct {
		rs    *ast.RangeStmt
		elem  types.Object
		field string
	}
	var loops []loop
	ast.Inspect(fd.Body, func(x ast.Node) bool {
		rs, ok := x.(*ast.RangeStmt)
		if !ok || rs.Value == nil {
			return true
		}
		id, ok := rs.Value.(*ast.Ident)
		if !ok {
			return true
		}
		st, ok := info.TypeOf(rs.Value).Underlying().(*types.Struct)
		if !ok {
			return true
		}
		for _, name := range []string{"Name", "Path"} {
			for i := 0; i < st.NumFields(); i++ {
				if f := st.Field(i); f.Name() == name {
					if b, isBasic := f.Type().Underlying().(*types.Basic); isBasic && b.Kind() == types.String {
						loops = append(loops, loop{rs, info.Defs[id], name})
					}
				}
			}
		}
		return true
	})
	if len(loops) < 2 {
		r.Undecide("C20-R7: the manifest validator walks fewer than two lists of named entries (%d)", len(loops))
		return
	}
	for _, l := range loops {
		// seen-set idiom inside the loop body: a map is read with a key derived from elem.<field> and the failing branch
		// returns, and the same map is written with such a key
		derived := map[types.Object]bool{}
		mentions := func(e ast.Expr) bool {
			found := false
			ast.Inspect(e, func(y ast.Node) bool {
				switch t := y.(type) {
				case *ast.SelectorExpr:
					if id, ok := ast.Unparen(t.X).(*ast.Ident); ok && info.Uses[id] == l.elem && t.Sel.Name == l.field {
						found = true
					}
				case *ast.Ident:
					if derived[info.Uses[t]] {
						found = true
					}
				}
				return true
			})
			return found
		}
		for _, st := range l.rs.Body.List {
			if as, ok := st.(*ast.AssignStmt); ok && len(as.Lhs) == 1 && len(as.Rhs) == 1 && mentions(as.Rhs[0]) {
				if id, ok := as.Lhs[0].(*ast.Ident); ok {
					derived[info.ObjectOf(id)] = true
				}
			}
		}
		reads, writes := map[types.Object]bool{}, map[types.Object]bool{}
		for _, st := range l.rs.Body.List {
			// only this loop's own level: nested range loops have their own obligation
			ast.Inspect(st, func(y ast.Node) bool {
				if inner, ok := y.(*ast.RangeStmt); ok && inner != l.rs {
					return false
				}
				switch t := y.(type) {
				case *ast.IfStmt:
					// `if seen[key] { return … }` over a map of bool
					if ix, ok := ast.Unparen(t.Cond).(*ast.IndexExpr); ok && mentions(ix.Index) {
						if _, isMap := info.TypeOf(ix.X).Underlying().(*types.Map); isMap {
							for _, b := range t.Body.List {
								if _, isRet := b.(*ast.ReturnStmt); isRet {
									if id, ok := ast.Unparen(ix.X).(*ast.Ident); ok {
										reads[info.Uses[id]] = true
									}
								}
							}
						}
					}
					if as, ok := t.Init.(*ast.AssignStmt); ok && len(as.Rhs) == 1 {
						if ix, ok := ast.Unparen(as.Rhs[0]).(*ast.IndexExpr); ok && mentions(ix.Index) {
							if _, isMap := info.TypeOf(ix.X).Underlying().(*types.Map); isMap {
								returns := false
								for _, b := range t.Body.List {
									if _, isRet := b.(*ast.ReturnStmt); isRet {
										returns = true
									}
								}
								if id, ok := ast.Unparen(ix.X).(*ast.Ident); ok && returns {
									reads[info.Uses[id]] = true
								}
							}
						}
					}
				case *ast.AssignStmt:
					for _, lhs := range t.Lhs {
						if ix, ok := ast.Unparen(lhs).(*ast.IndexExpr); ok && mentions(ix.Index) {
							if id, ok := ast.Unparen(ix.X).(*ast.Ident); ok {
								writes[info.Uses[id]] = true
							}
						}
					}
				}
				return true
			})
		}
		unique := false
		for m := range reads {
			if writes[m] {
				unique = true
			}
		}
		construct := "Manifest.validate:" + namedName(info.TypeOf(l.rs.Value)) + "." + l.field
		if unique {
			r.Pass("C20-R7-manifest-unique-entries", construct, l.rs.Pos(), "a repeated %s is refused", l.field)
		} else {
			r.Fail("C20-R7-manifest-unique-entries", construct, l.rs.Pos(), "the manifest validator walks the %s entries without refusing a repeated %s: an entry listed twice passes every per-file check (checksum, count, shape) and is loaded twice", namedName(info.TypeOf(l.rs.Value)), l.field)
		}
	}
	_ = token.NoPos
}
